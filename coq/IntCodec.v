(* IntCodec.v — hand model of the fixed-length integer / digit-string / bool / bytes codecs:
   bitstring/bitstore_helpers.py  int2bitstore (Golomb.v) intle2bitstore hex2bitstore oct2bitstore bin2bitstore
   bitstring/bits.py              _setuint/_getuint _setint/_getint _set/_get uintbe intbe uintle intle
                                  _gethex/_getoct/_getbin (BitStore.slice_to_hex etc) _setbool/_getbool _setbytes/_getbytes
   bitstring/dtypes.py            AllowedLengths.__contains__, DtypeDefinition.get_dtype, allowed_length_checked_get_fn, Dtype.build
   The dtype table itself is generated from the source (GenDtypes.v) and bridged to [model_dtypes]. *)
From BS Require Import Prims Golomb.
From Coq Require Import String.
Open Scope Z_scope.

(* ---------- little-endian: byte reversal of the big-endian encoding ---------- *)
Definition intle2bitstore (i n : Z) (signed : bool) : res bits :=
  do b <- int2bitstore i n signed; Ok (frombytes (rev (tobytes b))).

(* ---------- _setuint / _setint / _setuintbe / _setintbe / _setuintle / _setintle ----------
   cur_len = len(self) when the object already exists (property assignment), 0 for an object under construction.
   This is the part the six setters share. The `length % 8` check of the four endian setters (added to the library by the repair D42) is NOT
   here: on the creation routes it is made by get_dtype (the allowed lengths of the register), which every case goes through first; for
   property assignment to an existing object the complete model is DtypeLen.set_endian (DtypeLen.v, C15_assignment_keeps_length). *)
Definition set_intlike (signed le : bool) (cur_len : Z) (v : Z) (length : option Z) : res bits :=
  let length := match length with
                | None => if cur_len =? 0 then None else Some cur_len
                | Some l => Some l end in
  match length with
  | None => Err ValueError
  | Some l => if l =? 0 then Err ValueError
              else if le then intle2bitstore v l signed else int2bitstore v l signed
  end.

Definition getuint (b : bits) : res Z := if zlen b =? 0 then Err ValueError else ba2int b false.
Definition getint (b : bits) : res Z := if zlen b =? 0 then Err ValueError else ba2int b true.
Definition getuintbe (b : bits) : res Z := if zlen b mod 8 =? 0 then getuint b else Err ValueError.
Definition getintbe (b : bits) : res Z := if zlen b mod 8 =? 0 then getint b else Err ValueError.
Definition getuintle (b : bits) : res Z :=
  if zlen b mod 8 =? 0 then ba2int (frombytes (rev (tobytes b))) false else Err ValueError.
Definition getintle (b : bits) : res Z :=
  if zlen b mod 8 =? 0 then ba2int (frombytes (rev (tobytes b))) true else Err ValueError.

(* ---------- digit strings: hex / oct / bin as lists of digit values ---------- *)
Definition digits2bits (w : Z) (ds : list Z) : res bits :=
  if forallb (fun d => (0 <=? d) && (d <? 2 ^ w)) ds then Ok (flat_map (enc_uint w) ds) else Err ValueError.
Fixpoint chunks (w : nat) (fuel : nat) (b : bits) : list bits :=
  match fuel with
  | O => []
  | S f => match b with [] => [] | _ => firstn w b :: chunks w f (skipn w b) end
  end.
(* ba2hex / ba2base(8): the length must be a multiple of the digit width *)
Definition bits2digits (w : Z) (b : bits) : res (list Z) :=
  if zlen b mod w =? 0 then Ok (map value_msb (chunks (Z.to_nat w) (List.length b) b)) else Err ValueError.

(* ---------- bool ---------- *)
Definition setbool (v : Z) : res bits := if v =? 1 then Ok [true] else if v =? 0 then Ok [false] else Err ValueError.
Definition getbool (b : bits) : res bool := seq_getitem b 0.

(* ---------- the dtype register ---------- *)
Record dtype_def := mkdd { dd_name : string; dd_signed : bool; dd_variable : bool; dd_allowed : list Z; dd_ellipsis : bool; dd_mult : Z }.

(* AllowedLengths.__contains__ *)
Definition allowed_contains (d : dtype_def) (n : Z) : bool :=
  match dd_allowed d with
  | [] => true
  | v0 :: rest =>
      if dd_ellipsis d then
        match rest with v1 :: _ => (n - v0) mod (v1 - v0) =? 0 | [] => false end
      else existsb (Z.eqb n) (dd_allowed d)
  end.
Definition only_one_value (d : dtype_def) : bool :=
  match dd_allowed d with [_] => negb (dd_ellipsis d) | _ => false end.

(* DtypeDefinition.get_dtype(length) -> bitlength (None = no length) *)
Definition get_dtype (d : dtype_def) (length : option Z) : res (option Z) :=
  if (match length with Some l => l <? 0 | None => false end) then Err ValueError else   (* fix D28 *)
  let length := match dd_allowed d, length with
                | [], l => l
                | _, None => if only_one_value d then Some (hd 0 (dd_allowed d)) else None
                | _, Some l => Some l
                end in
  if (match dd_allowed d, length with _ :: _, Some l => negb (allowed_contains d l) | _, _ => false end) then Err ValueError else
  match length with
  | None => Ok None
  | Some l => if dd_variable d then Err ValueError else Ok (Some (l * dd_mult d))
  end.

(* what "in range" means for each integer kind: the C15 classification predicate *)
Definition int_in_range (signed : bool) (n v : Z) : bool :=
  if signed then (- 2 ^ (n - 1) <=? v) && (v <? 2 ^ (n - 1)) else (0 <=? v) && (v <? 2 ^ n).
