(* PPDigits.v - C19: WHAT Bits.pp() prints for one bin / oct / hex format, as data (lines of groups of digits),
   and the proof that the digits are exactly the data, that groups are never split, and that lines fit the width.
   Python mirrored: bitstring/bits.py  pp, _pp (the loop), _format_bits; Bits.cut is Search.bs_cut; the layout
   arithmetic (max_bits_per_line, line_chars) is the one of PrintPP.v.
   NOT modelled: the digit -> character step (format(x,'x') inside ba2hex/ba2base/to01: one character per digit),
   colours, the header line, the offset label text, the padding spaces of the last line, and the text of the
   trailing bits (that is Bits._str_untruncated, i.e. Print.v / PrintProofs.str_roundtrip). *)
From Coq Require Import ZArith List Bool Lia ZifyBool.
From BS Require Import Prims BitsCore Search IntCodec SeqProofs BitwiseProofs CodecProofs SplitProofs MirrorProofs LsbSplit PrintPP.
Open Scope Z_scope.

(* ================= the model ================= *)
Inductive ppfmt := FBin | FOct | FHex.
(* Bits._bits_per_char *)
Definition bpc (f : ppfmt) : Z := match f with FBin => 1 | FOct => 3 | FHex => 4 end.

(* a generator consumed left to right; the first exception wins *)
Fixpoint mapM {A B} (f : A -> res B) (l : list A) : res (list B) :=
  match l with [] => Ok [] | x :: t => do y <- f x; do ys <- mapM f t; Ok (y :: ys) end.

(* dtype.get_fn = allowed_length_checked_get_fn around _getbin/_getoct/_gethex: the digit values, most significant first;
   a length that is not a multiple of the digit width is an InterpretError (a ValueError) *)
Definition digits_of (f : ppfmt) (b : bits) : res (list Z) := bits2digits (bpc f) b.

(* _format_bits(bits, bits_per_group, sep, dtype, ...): the groups of one line, each a list of digits *)
Definition format_bits (lsb0 : bool) (f : ppfmt) (group : Z) (line : bits) : res (list (list Z)) :=
  if group =? 0 then do ds <- digits_of f line; Ok [ds]                       (* x = str(get_fn(bits)) *)
  else do gs <- bs_cut lsb0 line group None None None; mapM (digits_of f) gs.  (* sep.join(... for b in bits.cut(bits_per_group)) *)

Record pp_out := mk_out { out_lines : list (list (list Z)); out_trailing : bits }.

(* the arguments of the layout arithmetic of PrintPP.v: one format, len(sep) = seplen *)
Definition pp_args (f : ppfmt) (len group width : Z) (seplen : nat) (off : bool) : ppargs :=
  mkpp len (bpc f) None group width (Z.of_nat seplen) off.

(* _pp(dtype1, None, bits_per_group, width, sep, ...): self is the data already cut down to whole groups *)
Definition pp_lines (lsb0 : bool) (f : ppfmt) (group width : Z) (seplen : nat) (off : bool) (data : bits) : res (list (list (list Z))) :=
  let m := max_bits_per_line (pp_args f (zlen data) group width seplen off) in
  if m <=? 0 then Err AssertionError else                 (* assert max_bits_per_line > 0 *)
  do lines <- bs_cut lsb0 data m None None None;          (* for bits in self.cut(max_bits_per_line) *)
  mapM (format_bits lsb0 f group) lines.

(* pp(fmt='<bin|oct|hex><group>', width, sep, show_offset): has_length_in_fmt = True *)
Definition pp (lsb0 : bool) (f : ppfmt) (group width : Z) (seplen : nat) (off : bool) (d : bits) : res pp_out :=
  if (group <? 0) || negb (group mod bpc f =? 0) then Err ValueError else     (* Dtype(name1, length1) in _process_pp_tokens *)
  let t := if group =? 0 then 0 else zlen d mod group in                      (* trailing_bit_length *)
  do data <- (if t =? 0 then Ok d else bs_getitem_slice lsb0 d (mkslice (Some 0) (Some (- t)) None));
  do lines <- pp_lines lsb0 f group width seplen off data;
  do tr <- (if t =? 0 then Ok [] else bs_getitem_slice lsb0 d (mkslice (Some (- t)) None None));
  Ok (mk_out lines tr).

(* reading the printed digits back *)
Definition decode_group (f : ppfmt) (ds : list Z) : bits := flat_map (enc_uint (bpc f)) ds.
Definition decode_line (f : ppfmt) (l : list (list Z)) : bits := flat_map (decode_group f) l.
Definition decode (f : ppfmt) (ls : list (list (list Z))) : bits := flat_map (decode_line f) ls.

(* bits shown on a line, and the characters of a line: offset label, one character per digit, sep between groups *)
Definition group_bits (f : ppfmt) (ds : list Z) : Z := bpc f * zlen ds.
Definition line_bits (f : ppfmt) (l : list (list Z)) : Z := fold_right Z.add 0 (map (group_bits f) l).
Definition line_width (a : ppargs) (l : list (list Z)) : Z :=
  offset_width a + fold_right Z.add 0 (map zlen l) + (zlen l - 1) * pp_sep a.

(* x1 = ... = m, last one in 1..m *)
Fixpoint full_then_last (m : Z) (xs : list Z) : Prop :=
  match xs with
  | [] => True
  | x :: t => match t with [] => 0 < x <= m | _ :: _ => x = m /\ full_then_last m t end
  end.

(* ================= helpers: chop = the chunks of a msb0 cut ================= *)
Definition chop (w : Z) (b : bits) : list bits := IntCodec.chunks (Z.to_nat w) (length b) b.

Lemma chunks_fuel w : (0 < w)%nat -> forall f1 f2 (b : bits), (length b <= f1)%nat -> (length b <= f2)%nat ->
  IntCodec.chunks w f1 b = IntCodec.chunks w f2 b.
Proof.
  intros Hw. induction f1 as [|f1 IH]; intros f2 b H1 H2.
  - destruct b; [|cbn in H1; lia]. destruct f2; reflexivity.
  - destruct b as [|x b]; [destruct f2; reflexivity|]. destruct f2 as [|f2]; [cbn in H2; lia|].
    cbn [IntCodec.chunks]. f_equal. apply IH; rewrite skipn_length; cbn [length] in *; lia.
Qed.

Lemma chop_nil w : chop w [] = [].
Proof. reflexivity. Qed.

Lemma chop_unfold w b : 0 < w -> b <> [] -> chop w b = firstn (Z.to_nat w) b :: chop w (skipn (Z.to_nat w) b).
Proof.
  intros Hw Hb. unfold chop. destruct b as [|x b]; [congruence|]. cbn [length IntCodec.chunks]. f_equal.
  apply chunks_fuel; [lia| |lia]. rewrite skipn_length. cbn [length]. lia.
Qed.

Lemma chop_ind w (P : bits -> Prop) : 0 < w -> P [] -> (forall b, b <> [] -> P (skipn (Z.to_nat w) b) -> P b) -> forall b, P b.
Proof.
  intros Hw H0 Hs. assert (G : forall n b, (length b <= n)%nat -> P b).
  { induction n as [|n IH]; intros b Hl.
    - destruct b; [exact H0|cbn in Hl; lia].
    - destruct b as [|x b]; [exact H0|]. apply Hs; [discriminate|]. apply IH. rewrite skipn_length. cbn [length] in *. lia. }
  intros b. apply (G (length b)). lia.
Qed.

Lemma concat_chop w b : 0 < w -> concat (chop w b) = b.
Proof.
  intros Hw. revert b. apply (chop_ind w); [exact Hw|reflexivity|]. intros b Hb IH.
  rewrite chop_unfold by assumption. cbn [concat]. rewrite IH. apply firstn_skipn.
Qed.

Lemma nonempty_zlen {A} (b : list A) : b <> [] -> 0 < zlen b.
Proof. destruct b; [congruence|]. intros _. rewrite zlen_cons. pose proof (zlen_nonneg b). lia. Qed.

Lemma zlen_zero_nil {A} (b : list A) : zlen b = 0 -> b = [].
Proof. destruct b; [reflexivity|]. rewrite zlen_cons. pose proof (zlen_nonneg b). lia. Qed.

Lemma mod0_sub a w : 0 < w -> a mod w = 0 -> (a - w) mod w = 0.
Proof. intros Hw H. replace (a - w) with (a + (-1) * w) by lia. rewrite Z.mod_add by lia. exact H. Qed.

Lemma mod0_ge a w : 0 < w -> 0 < a -> a mod w = 0 -> w <= a.
Proof. intros Hw Ha H. destruct (Z_lt_ge_dec a w) as [L|L]; [|lia]. rewrite Z.mod_small in H by lia. lia. Qed.

Lemma mod0_diff a b g : 0 < g -> a mod g = 0 -> b mod g = 0 -> (a - b) mod g = 0.
Proof. intros Hg Ha Hb. rewrite Zminus_mod, Ha, Hb. reflexivity. Qed.

(* chunks of a length that is a multiple of w are all full *)
Lemma chop_full w : 0 < w -> forall b, zlen b mod w = 0 -> Forall (fun c => zlen c = w) (chop w b).
Proof.
  intros Hw. apply (chop_ind w (fun b => zlen b mod w = 0 -> Forall (fun c => zlen c = w) (chop w b))); [exact Hw|constructor|].
  intros b Hb IH Hm. rewrite chop_unfold by assumption.
  pose proof (mod0_ge _ _ Hw (nonempty_zlen b Hb) Hm) as Hge.
  constructor.
  - rewrite zlen_firstn. lia.
  - apply IH. rewrite zlen_skipn. replace (Z.max 0 (zlen b - Z.of_nat (Z.to_nat w))) with (zlen b - w) by lia.
    apply mod0_sub; assumption.
Qed.

(* chunks of w bits, w and the total both multiples of g: every chunk is a multiple of g *)
Lemma chop_div w g : 0 < w -> 0 < g -> w mod g = 0 -> forall b, zlen b mod g = 0 -> Forall (fun c => zlen c mod g = 0) (chop w b).
Proof.
  intros Hw Hg Hwg. apply (chop_ind w (fun b => zlen b mod g = 0 -> Forall (fun c => zlen c mod g = 0) (chop w b))); [exact Hw|constructor|].
  intros b Hb IH Hm. rewrite chop_unfold by assumption. constructor.
  - rewrite zlen_firstn. destruct (Z_le_gt_dec w (zlen b)) as [L|L].
    + replace (Z.min (Z.of_nat (Z.to_nat w)) (zlen b)) with w by lia. exact Hwg.
    + replace (Z.min (Z.of_nat (Z.to_nat w)) (zlen b)) with (zlen b) by lia. exact Hm.
  - apply IH. rewrite zlen_skipn. destruct (Z_le_gt_dec w (zlen b)) as [L|L].
    + replace (Z.max 0 (zlen b - Z.of_nat (Z.to_nat w))) with (zlen b - w) by lia. apply mod0_diff; assumption.
    + replace (Z.max 0 (zlen b - Z.of_nat (Z.to_nat w))) with 0 by lia. apply Z.mod_0_l. lia.
Qed.

(* every chunk but the last is full, the last is not empty *)
Lemma chop_shape w : 0 < w -> forall b, full_then_last w (map zlen (chop w b)).
Proof.
  intros Hw. apply (chop_ind w); [exact Hw|exact I|]. intros b Hb IH.
  rewrite chop_unfold by assumption. cbn [map].
  pose proof (nonempty_zlen b Hb) as Hp.
  destruct (skipn (Z.to_nat w) b) as [|y r] eqn:Es.
  - rewrite chop_nil. cbn [map full_then_last]. rewrite zlen_firstn. lia.
  - assert (Hne : y :: r <> []) by discriminate.
    rewrite (chop_unfold w (y :: r)) in * by assumption. cbn [map full_then_last] in *. split; [|exact IH].
    rewrite zlen_firstn. pose proof (zlen_skipn b (Z.to_nat w)) as Hl. rewrite Es in Hl.
    pose proof (nonempty_zlen (y :: r) Hne). lia.
Qed.

Lemma chop_nonempty w : 0 < w -> forall b c, In c (chop w b) -> 0 < zlen c <= w.
Proof.
  intros Hw. apply (chop_ind w (fun b => forall c, In c (chop w b) -> 0 < zlen c <= w)); [exact Hw|intros c []|].
  intros b Hb IH c Hc. rewrite chop_unfold in Hc by assumption. destruct Hc as [<-|Hc]; [|apply IH; exact Hc].
  rewrite zlen_firstn. pose proof (nonempty_zlen b Hb). lia.
Qed.

(* ---------- Bits.cut(n) in msb0 mode = chop n ---------- *)
Lemma validate_slice_all (d : bits) : validate_slice d None None = Ok (0, zlen d).
Proof.
  unfold validate_slice. pose proof (zlen_nonneg d).
  destruct ((0 <=? 0) && (0 <=? zlen d) && (zlen d <=? zlen d)) eqn:E; [reflexivity|lia].
Qed.

Lemma skipn_add {A} (l : list A) : forall a b, skipn a (skipn b l) = skipn (a + b) l.
Proof. induction l as [|x l IH]; intros a b; [now rewrite !skipn_nil|]. destruct b; [now rewrite Nat.add_0_r|]. rewrite Nat.add_succ_r. cbn [skipn]. apply IH. Qed.

Lemma cut_loop_chop n d : 0 < n -> forall fuel s c, 0 <= s <= zlen d -> (Z.to_nat (zlen d - s) < fuel)%nat ->
  cut_loop fuel false d n s (zlen d) None c = Ok (chop n (skipn (Z.to_nat s) d)).
Proof.
  intros Hn. induction fuel as [|fuel IH]; intros s c Hs Hf; [lia|].
  cbn [cut_loop]. rewrite getslice_sub by lia. cbn [bind].
  assert (Hz : zlen (sub d s (Z.min (s + n) (zlen d))) = Z.min (s + n) (zlen d) - s).
  { unfold sub. rewrite zlen_firstn, zlen_skipn. lia. }
  rewrite Hz.
  destruct (Z.min (s + n) (zlen d) - s =? 0) eqn:E0.
  - rewrite skipn_all2 by (unfold zlen in *; lia). reflexivity.
  - assert (Hne : skipn (Z.to_nat s) d <> []).
    { intros Hnil. pose proof (zlen_skipn d (Z.to_nat s)) as Hl. rewrite Hnil in Hl. cbn in Hl. lia. }
    rewrite (chop_unfold n _ Hn Hne).
    assert (Hsub : sub d s (Z.min (s + n) (zlen d)) = firstn (Z.to_nat n) (skipn (Z.to_nat s) d)).
    { unfold sub. destruct (Z_le_gt_dec (s + n) (zlen d)) as [L|L].
      - f_equal. lia.
      - rewrite !firstn_all2; [reflexivity| |]; rewrite skipn_length; unfold zlen in *; lia. }
    rewrite Hsub. rewrite skipn_add.
    destruct (Z.min (s + n) (zlen d) - s =? n) eqn:En; cbn [negb].
    + rewrite IH by lia. cbn [bind]. replace (Z.to_nat (s + n)) with (Z.to_nat n + Z.to_nat s)%nat by lia. reflexivity.
    + rewrite (skipn_all2 (n := (Z.to_nat n + Z.to_nat s)%nat)) by (unfold zlen in *; lia). reflexivity.
Qed.

Lemma cut_chop (d : bits) n : 0 < n -> bs_cut false d n None None None = Ok (chop n d).
Proof.
  intros Hn. unfold bs_cut. rewrite validate_slice_all. cbn [bind].
  destruct (n <=? 0) eqn:E; [lia|]. pose proof (zlen_nonneg d).
  rewrite cut_loop_chop by (unfold zlen in *; lia). reflexivity.
Qed.

(* ---------- s[0:-t] and s[-t:] in msb0 mode ---------- *)
Lemma slice_drop_tail (d : bits) t : 0 < t <= zlen d ->
  bs_getitem_slice false d (mkslice (Some 0) (Some (- t)) None) = Ok (firstn (Z.to_nat (zlen d - t)) d).
Proof.
  intros Ht. rewrite <- sub_0. rewrite <- (seq_slice_unit false d 0 (zlen d - t)) by lia.
  unfold bs_getitem_slice, getslice_withstep, getslice_withstep_msb0, seq_slice. f_equal.
  unfold slice_indices, clamp_index. cbn [s_start s_stop s_step].
  change (1 =? 0) with false. change (1 <? 0) with false. cbv iota.
  destruct (- t <? 0) eqn:E1; [|lia]. destruct (- t + zlen d <? 0) eqn:E2; [lia|].
  destruct (zlen d - t <? 0) eqn:E3; [lia|]. destruct (zlen d - t >? zlen d) eqn:E4; [lia|].
  replace (- t + zlen d) with (zlen d - t) by lia. reflexivity.
Qed.

Lemma slice_take_tail (d : bits) t : 0 < t <= zlen d ->
  bs_getitem_slice false d (mkslice (Some (- t)) None None) = Ok (skipn (Z.to_nat (zlen d - t)) d).
Proof.
  intros Ht. rewrite <- (seq_slice_from false d (zlen d - t)) by lia.
  unfold bs_getitem_slice, getslice_withstep, getslice_withstep_msb0, seq_slice. f_equal.
  unfold slice_indices, clamp_index. cbn [s_start s_stop s_step].
  change (1 =? 0) with false. change (1 <? 0) with false. cbv iota.
  destruct (- t <? 0) eqn:E1; [|lia]. destruct (- t + zlen d <? 0) eqn:E2; [lia|].
  destruct (zlen d - t <? 0) eqn:E3; [lia|]. destruct (zlen d - t >? zlen d) eqn:E4; [lia|].
  replace (- t + zlen d) with (zlen d - t) by lia. reflexivity.
Qed.

(* ---------- mapM ---------- *)
Lemma mapM_map {A B} (f : A -> res B) (h : A -> B) l : (forall x, In x l -> f x = Ok (h x)) -> mapM f l = Ok (map h l).
Proof.
  induction l as [|x l IH]; intros H; [reflexivity|]. cbn [mapM map].
  rewrite (H x (or_introl eq_refl)). cbn [bind]. rewrite IH by (intros y Hy; apply H; right; exact Hy). reflexivity.
Qed.

(* all succeed except the last, which raises e *)
Lemma mapM_last_err {A B} (f : A -> res B) (h : A -> B) e l x :
  (forall y, In y l -> f y = Ok (h y)) -> f x = Err e -> mapM f (l ++ [x]) = Err e.
Proof.
  induction l as [|y l IH]; intros H Hx; cbn [app mapM].
  - rewrite Hx. reflexivity.
  - rewrite (H y (or_introl eq_refl)). cbn [bind]. rewrite IH; [reflexivity| |exact Hx]. intros z Hz. apply H. right. exact Hz.
Qed.

Lemma flat_map_map_id {A B} (dec : B -> list A) (enc : list A -> B) (l : list (list A)) :
  (forall x, In x l -> dec (enc x) = x) -> flat_map dec (map enc l) = concat l.
Proof.
  induction l as [|x l IH]; intros H; [reflexivity|]. cbn [map flat_map concat].
  rewrite (H x (or_introl eq_refl)). rewrite IH by (intros y Hy; apply H; right; exact Hy). reflexivity.
Qed.

(* ---------- digits ---------- *)
Definition digits (f : ppfmt) (c : bits) : list Z := map value_msb (chop (bpc f) c).

Lemma bpc_pos f : 0 < bpc f.
Proof. destruct f; reflexivity. Qed.

Lemma digits_of_ok f c : zlen c mod bpc f = 0 -> digits_of f c = Ok (digits f c).
Proof. intros H. unfold digits_of, bits2digits. rewrite H. reflexivity. Qed.

Lemma digits_of_err f c : zlen c mod bpc f <> 0 -> digits_of f c = Err ValueError.
Proof. intros H. unfold digits_of, bits2digits. destruct (zlen c mod bpc f =? 0) eqn:E; [lia|reflexivity]. Qed.

(* decoding the digits of a chunk gives the chunk back *)
Lemma decode_digits f : forall c, zlen c mod bpc f = 0 -> decode_group f (digits f c) = c.
Proof.
  pose proof (bpc_pos f) as Hw. unfold decode_group, digits.
  apply (chop_ind (bpc f) (fun c => zlen c mod bpc f = 0 -> flat_map (enc_uint (bpc f)) (map value_msb (chop (bpc f) c)) = c)); [exact Hw|reflexivity|].
  intros c Hc IH Hm. rewrite chop_unfold by assumption. cbn [map flat_map].
  pose proof (mod0_ge _ _ Hw (nonempty_zlen c Hc) Hm) as Hge.
  rewrite IH.
  - assert (Hl : length (firstn (Z.to_nat (bpc f)) c) = Z.to_nat (bpc f)) by (rewrite firstn_length; unfold zlen in *; lia).
    unfold enc_uint. rewrite <- Hl at 1. rewrite enc_value_roundtrip. apply firstn_skipn.
  - rewrite zlen_skipn. replace (Z.max 0 (zlen c - Z.of_nat (Z.to_nat (bpc f)))) with (zlen c - bpc f) by lia.
    apply mod0_sub; assumption.
Qed.

Lemma zlen_digits f c : zlen c mod bpc f = 0 -> group_bits f (digits f c) = zlen c.
Proof.
  pose proof (bpc_pos f) as Hw. intros Hm. unfold group_bits, digits. rewrite zlen_map.
  pose proof (chop_full (bpc f) Hw c Hm) as Hf. rewrite <- (concat_chop (bpc f) c Hw) at 2.
  induction Hf as [|x l Hx _ IH]; [cbn; lia|]. cbn [concat]. rewrite zlen_cons, zlen_app, <- IH. lia.
Qed.

(* every digit is a digit: 0 <= x < 2^bpc *)
Lemma digits_range f c x : In x (digits f c) -> 0 <= x < 2 ^ bpc f.
Proof.
  pose proof (bpc_pos f) as Hw. unfold digits. rewrite in_map_iff. intros (ch & <- & Hin).
  pose proof (chop_nonempty _ Hw _ _ Hin) as Hl. pose proof (value_msb_range ch) as Hr.
  assert (2 ^ zlen ch <= 2 ^ bpc f) by (apply Z.pow_le_mono_r; lia). lia.
Qed.

(* ================= the closed form of pp in msb0 mode ================= *)
Definition trailing_len (group : Z) (d : bits) : Z := if group =? 0 then 0 else zlen d mod group.
Definition pp_data (group : Z) (d : bits) : bits := firstn (Z.to_nat (zlen d - trailing_len group d)) d.
Definition pp_a (f : ppfmt) (group width : Z) (seplen : nat) (off : bool) (d : bits) : ppargs :=
  pp_args f (zlen (pp_data group d)) group width seplen off.
Definition pp_m (f : ppfmt) (group width : Z) (seplen : nat) (off : bool) (d : bits) : Z :=
  max_bits_per_line (pp_a f group width seplen off d).
(* the guard under which pp(fmt) returns: a legal group length, and for an ungrouped display whole digits *)
Definition accepted (f : ppfmt) (group : Z) (d : bits) : Prop :=
  0 <= group /\ group mod bpc f = 0 /\ (group = 0 -> zlen d mod bpc f = 0).

Definition groups_of (group : Z) (line : bits) : list bits := if group =? 0 then [line] else chop group line.
Definition show_line (f : ppfmt) (group : Z) (line : bits) : list (list Z) := map (digits f) (groups_of group line).

Lemma args_ok_pp f len group width seplen off : 0 <= group -> group mod bpc f = 0 -> args_ok (pp_args f len group width seplen off).
Proof.
  intros Hg Hm. unfold args_ok, pp_args, gc1. cbn [pp_bpc1 pp_bpc2 pp_sep pp_group].
  split; [destruct f; unfold bpc_ok; cbn; auto|]. split; [exact I|]. split; [lia|]. split; [exact Hg|].
  intros Hp. split; [|exact I]. pose proof (bpc_pos f) as Hw. pose proof (mod0_ge _ _ Hw Hp Hm).
  assert (0 < group / bpc f) by (apply Z.div_str_pos; lia). lia.
Qed.

Lemma m_pos f len group width seplen off : 0 <= group -> group mod bpc f = 0 -> 0 < max_bits_per_line (pp_args f len group width seplen off).
Proof. intros. apply max_bits_positive, args_ok_pp; assumption. Qed.

Lemma m_ungrouped f len width seplen off : max_bits_per_line (pp_args f len 0 width seplen off) mod bpc f = 0.
Proof. unfold max_bits_per_line, pp_args. cbn [pp_group pp_bpc2 pp_bpc1]. change (0 >? 0) with false. cbv iota. apply Z.mod_mul. pose proof (bpc_pos f). lia. Qed.

Lemma zlen_pp_data group d : 0 <= group -> zlen (pp_data group d) = zlen d - trailing_len group d /\ 0 <= trailing_len group d <= zlen d /\
  (0 < group -> trailing_len group d < group /\ zlen (pp_data group d) mod group = 0).
Proof.
  intros Hg. unfold pp_data. rewrite zlen_firstn. unfold trailing_len. pose proof (zlen_nonneg d) as Hn.
  destruct (group =? 0) eqn:E.
  - split; [lia|]. split; [lia|]. lia.
  - assert (Hp : 0 < group) by lia. pose proof (Z.mod_pos_bound (zlen d) group Hp) as Hb.
    pose proof (Z.mod_le (zlen d) group Hn Hp) as Hle.
    split; [lia|]. split; [lia|]. intros _. split; [lia|].
    replace (Z.min (Z.of_nat (Z.to_nat (zlen d - zlen d mod group))) (zlen d)) with (zlen d - zlen d mod group) by lia.
    rewrite Zminus_mod, Z.mod_mod, Z.sub_diag by lia. apply Z.mod_0_l. lia.
Qed.

(* the lines of an accepted call are whole groups (whole digits when ungrouped) *)
Lemma line_wf f group (data : bits) m line : 0 <= group -> group mod bpc f = 0 -> 0 < m ->
  (0 < group -> m mod group = 0 /\ zlen data mod group = 0) -> (group = 0 -> m mod bpc f = 0 /\ zlen data mod bpc f = 0) ->
  In line (chop m data) ->
  (0 < group -> zlen line mod group = 0) /\ zlen line mod bpc f = 0 /\ 0 < zlen line <= m.
Proof.
  intros Hg Hgm Hm Hgr Hun Hin. pose proof (bpc_pos f) as Hw.
  assert (Hb : zlen line mod bpc f = 0 /\ (0 < group -> zlen line mod group = 0)).
  { destruct (Z.eq_dec group 0) as [E|E].
    - destruct (Hun E) as [A B]. split; [|lia].
      pose proof (chop_div m (bpc f) Hm Hw A data B) as F. rewrite Forall_forall in F. exact (F _ Hin).
    - assert (Hp : 0 < group) by lia. destruct (Hgr Hp) as [A B].
      pose proof (chop_div m group Hm Hp A data B) as F. rewrite Forall_forall in F. pose proof (F _ Hin) as Hl.
      split; [|intros _; exact Hl].
      apply Z.mod_divide in Hl; [|lia]. apply Z.mod_divide in Hgm; [|lia]. apply Z.mod_divide; [lia|].
      eapply Z.divide_trans; eassumption. }
  destruct Hb as [B1 B2]. split; [exact B2|]. split; [exact B1|]. apply (chop_nonempty m Hm data). exact Hin.
Qed.

Lemma group_wf f group line c : 0 <= group -> group mod bpc f = 0 -> (0 < group -> zlen line mod group = 0) -> zlen line mod bpc f = 0 ->
  In c (groups_of group line) -> zlen c mod bpc f = 0 /\ (0 < group -> zlen c = group) /\ (group = 0 -> c = line).
Proof.
  intros Hg Hgm Hl Hlb Hin. unfold groups_of in Hin. destruct (group =? 0) eqn:E.
  - destruct Hin as [<-|[]]. split; [exact Hlb|]. split; [lia|reflexivity].
  - assert (Hp : 0 < group) by lia. pose proof (chop_full group Hp line (Hl Hp)) as F. rewrite Forall_forall in F.
    pose proof (F _ Hin) as Hc. split; [rewrite Hc; exact Hgm|]. split; [intros _; exact Hc|lia].
Qed.

Lemma concat_groups_of group line : 0 <= group -> concat (groups_of group line) = line.
Proof. intros Hg. unfold groups_of. destruct (group =? 0) eqn:E; [cbn; apply app_nil_r|apply concat_chop; lia]. Qed.

Lemma format_bits_closed f group line : 0 <= group -> group mod bpc f = 0 -> (0 < group -> zlen line mod group = 0) -> zlen line mod bpc f = 0 ->
  format_bits false f group line = Ok (show_line f group line).
Proof.
  intros Hg Hgm Hl Hlb. unfold format_bits, show_line.
  pose proof (fun c => group_wf f group line c Hg Hgm Hl Hlb) as W. unfold groups_of in *.
  destruct (group =? 0) eqn:E.
  - rewrite digits_of_ok by exact Hlb. reflexivity.
  - rewrite cut_chop by lia. cbn [bind]. apply mapM_map. intros c Hc. apply digits_of_ok. apply (W c Hc).
Qed.

Lemma pp_lines_closed f group width seplen off (data : bits) : 0 <= group -> group mod bpc f = 0 ->
  (0 < group -> zlen data mod group = 0) -> (group = 0 -> zlen data mod bpc f = 0) ->
  pp_lines false f group width seplen off data =
  Ok (map (show_line f group) (chop (max_bits_per_line (pp_args f (zlen data) group width seplen off)) data)).
Proof.
  intros Hg Hgm Hgr Hun. unfold pp_lines. set (m := max_bits_per_line _).
  assert (Hm : 0 < m) by (apply m_pos; assumption). cbv zeta.
  destruct (m <=? 0) eqn:E; [lia|]. rewrite cut_chop by exact Hm. cbn [bind]. apply mapM_map.
  intros line Hin.
  destruct (line_wf f group data m line Hg Hgm Hm) as (L1 & L2 & _); try assumption.
  - intros Hp. split; [apply line_holds_whole_groups; exact Hp|apply Hgr; exact Hp].
  - intros ->. split; [apply m_ungrouped|apply Hun; reflexivity].
  - apply format_bits_closed; assumption.
Qed.

(* CLOSED FORM. An accepted call prints the chunks of max_bits_per_line bits of the data without its trailing bits,
   each cut into groups (one group when ungrouped), each group as its digits; the rest is reported as trailing bits *)
Theorem pp_closed f group width seplen off d : accepted f group d ->
  pp false f group width seplen off d =
  Ok (mk_out (map (show_line f group) (chop (pp_m f group width seplen off d) (pp_data group d)))
             (skipn (Z.to_nat (zlen d - trailing_len group d)) d)).
Proof.
  intros (Hg & Hgm & Hun). unfold pp.
  destruct ((group <? 0) || negb (group mod bpc f =? 0)) eqn:Eg; [lia|].
  destruct (zlen_pp_data group d Hg) as (Hlen & Ht & Hgr).
  unfold pp_m, pp_a. fold (trailing_len group d). cbv zeta.
  destruct (trailing_len group d =? 0) eqn:Et.
  - assert (Hd : pp_data group d = d) by (unfold pp_data; apply firstn_all2; unfold zlen in *; lia).
    rewrite Hd in *. cbn [bind]. rewrite pp_lines_closed; try assumption.
    + cbn [bind]. rewrite skipn_all2 by (unfold zlen in *; lia). reflexivity.
    + intros Hp. apply Hgr. exact Hp.
  - assert (Hp : 0 < group) by (unfold trailing_len in Et; destruct (group =? 0) eqn:E0; lia).
    rewrite slice_drop_tail by lia. cbn [bind]. fold (pp_data group d).
    rewrite pp_lines_closed; try assumption; [|intros _; apply Hgr; exact Hp|lia].
    cbn [bind]. rewrite slice_take_tail by lia. reflexivity.
Qed.

(* ---------- the rejected calls ---------- *)
Lemma chop_last w : 0 < w -> forall b : bits, b <> [] ->
  exists init last, chop w b = init ++ [last] /\ Forall (fun c => zlen c = w) init /\ zlen b = w * zlen init + zlen last.
Proof.
  intros Hw. apply (chop_ind w (fun b => b <> [] -> exists init last, chop w b = init ++ [last] /\ Forall (fun c => zlen c = w) init /\ zlen b = w * zlen init + zlen last)); [exact Hw|congruence|].
  intros b Hb IH _. rewrite chop_unfold by assumption. pose proof (zlen_skipn b (Z.to_nat w)) as Hs.
  pose proof (zlen_firstn b (Z.to_nat w)) as Hf.
  destruct (skipn (Z.to_nat w) b) as [|y r] eqn:Es.
  - exists [], (firstn (Z.to_nat w) b). split; [reflexivity|]. split; [constructor|]. cbn in Hs. change (zlen (@nil bits)) with 0. lia.
  - destruct IH as (init & last & E & F & L); [discriminate|].
    pose proof (nonempty_zlen (y :: r) ltac:(discriminate)) as Hp.
    exists (firstn (Z.to_nat w) b :: init), last. rewrite E. split; [reflexivity|]. split; [constructor; [lia|exact F]|].
    rewrite zlen_cons. lia.
Qed.

Lemma pp_ungrouped_error f width seplen off d : zlen d mod bpc f <> 0 -> pp false f 0 width seplen off d = Err ValueError.
Proof.
  intros Hbad. pose proof (bpc_pos f) as Hw. unfold pp. rewrite Z.mod_0_l by lia. cbn [Z.ltb Z.compare Z.eqb negb orb bind].
  unfold pp_lines. set (m := max_bits_per_line _).
  assert (Hm : 0 < m) by (apply m_pos; [lia|apply Z.mod_0_l; lia]). cbv zeta.
  destruct (m <=? 0) eqn:E; [lia|]. rewrite cut_chop by exact Hm. cbn [bind].
  assert (Hne : d <> []) by (intros ->; apply Hbad; apply Z.mod_0_l; lia).
  destruct (chop_last m Hm d Hne) as (init & last & -> & F & L).
  pose proof (m_ungrouped f (zlen d) width seplen off) as Hmb. fold m in Hmb.
  rewrite Forall_forall in F.
  rewrite (mapM_last_err _ (show_line f 0) ValueError); [reflexivity| |].
  - intros c Hc. apply format_bits_closed; [lia|apply Z.mod_0_l; lia|lia|]. rewrite (F c Hc). exact Hmb.
  - unfold format_bits. cbn [Z.eqb]. rewrite digits_of_err; [reflexivity|].
    intros Hl. apply Hbad. apply Z.mod_divide in Hmb; [|lia]. destruct Hmb as [q Hq].
    replace (zlen d) with (zlen last + (q * zlen init) * bpc f) by (rewrite L, Hq; ring).
    rewrite Z.mod_add by lia. exact Hl.
Qed.

(* ================= MAIN THEOREMS (msb0) ================= *)
(* MAIN 0. pp('<bin|oct|hex><group>') returns exactly when the group length is a non-negative multiple of the digit width
   and, for an ungrouped display (group 0), the data is a whole number of digits; every other call raises ValueError
   (InterpretError is a ValueError) and prints nothing; so every group length > 0 that Dtype() takes is printed, whatever the data *)
Theorem pp_accepts f group width seplen off d :
  (accepted f group d -> exists out, pp false f group width seplen off d = Ok out) /\
  (~ accepted f group d -> pp false f group width seplen off d = Err ValueError).
Proof.
  split.
  - intros H. eexists. apply pp_closed. exact H.
  - intros H. destruct ((group <? 0) || negb (group mod bpc f =? 0)) eqn:Eg.
    + unfold pp. rewrite Eg. reflexivity.
    + destruct (Z.eq_dec group 0) as [->|Hne].
      * apply pp_ungrouped_error. intros Hz. apply H. split; [lia|]. split; [lia|]. intros _. exact Hz.
      * exfalso. apply H. split; [lia|]. split; [lia|]. intros Hz. contradiction.
Qed.

Lemma pp_inv f group width seplen off d out : pp false f group width seplen off d = Ok out ->
  accepted f group d /\
  out = mk_out (map (show_line f group) (chop (pp_m f group width seplen off d) (pp_data group d)))
               (skipn (Z.to_nat (zlen d - trailing_len group d)) d).
Proof.
  intros H.
  assert (A : accepted f group d).
  { destruct ((group <? 0) || negb (group mod bpc f =? 0)) eqn:Eg; [unfold pp in H; rewrite Eg in H; discriminate|].
    split; [lia|]. split; [lia|]. intros ->. destruct (Z.eq_dec (zlen d mod bpc f) 0) as [Hz|Hz]; [exact Hz|].
    rewrite pp_ungrouped_error in H by exact Hz. discriminate. }
  split; [exact A|]. rewrite pp_closed in H by exact A. injection H as <-. reflexivity.
Qed.

(* facts about one printed line *)
Lemma fold_sum_concat f (gs : list bits) : (forall c, In c gs -> zlen c mod bpc f = 0) ->
  fold_right Z.add 0 (map (group_bits f) (map (digits f) gs)) = zlen (concat gs).
Proof.
  induction gs as [|c gs IH]; intros H; [reflexivity|]. cbn [map fold_right concat]. rewrite zlen_app.
  rewrite zlen_digits by (apply H; left; reflexivity). rewrite IH by (intros x Hx; apply H; right; exact Hx). reflexivity.
Qed.

Section Lines.
Variables (f : ppfmt) (group width : Z) (seplen : nat) (off : bool) (d : bits).
Hypothesis Hacc : accepted f group d.
Let m := pp_m f group width seplen off d.
Let a := pp_a f group width seplen off d.
Let data := pp_data group d.

Lemma sec_m_pos : 0 < m.
Proof. destruct Hacc as (Hg & Hgm & _). apply m_pos; assumption. Qed.

Lemma sec_line_wf line : In line (chop m data) ->
  (0 < group -> zlen line mod group = 0) /\ zlen line mod bpc f = 0 /\ 0 < zlen line <= m.
Proof.
  destruct Hacc as (Hg & Hgm & Hun). destruct (zlen_pp_data group d Hg) as (Hlen & Ht & Hgr).
  apply (line_wf f group data m line Hg Hgm sec_m_pos).
  - intros Hp. split; [apply line_holds_whole_groups; exact Hp|apply Hgr; exact Hp].
  - intros E. split; [unfold m, pp_m, pp_a; rewrite E; apply m_ungrouped|].
    unfold data. rewrite Hlen. unfold trailing_len. rewrite E. cbn [Z.eqb]. rewrite Z.sub_0_r. apply Hun. exact E.
Qed.

Lemma sec_group_wf line c : In line (chop m data) -> In c (groups_of group line) ->
  zlen c mod bpc f = 0 /\ (0 < group -> zlen c = group) /\ (group = 0 -> c = line).
Proof.
  intros Hl Hc. destruct Hacc as (Hg & Hgm & _). destruct (sec_line_wf line Hl) as (L1 & L2 & _).
  exact (group_wf f group line c Hg Hgm L1 L2 Hc).
Qed.

Lemma sec_decode_line line : In line (chop m data) -> decode_line f (show_line f group line) = line.
Proof.
  intros Hl. unfold decode_line, show_line. transitivity (concat (groups_of group line)).
  - apply (flat_map_map_id (A := bool) (decode_group f) (digits f)).
    intros c Hc. apply decode_digits. apply (sec_group_wf line c Hl Hc).
  - apply concat_groups_of. apply Hacc.
Qed.

Lemma sec_line_bits line : In line (chop m data) -> line_bits f (show_line f group line) = zlen line.
Proof.
  intros Hl. unfold line_bits, show_line. rewrite fold_sum_concat.
  - rewrite concat_groups_of by apply Hacc. reflexivity.
  - intros c Hc. apply (sec_group_wf line c Hl Hc).
Qed.
End Lines.

Lemma sum_const {A} (g : A -> Z) k (l : list A) : (forall x, In x l -> g x = k) -> fold_right Z.add 0 (map g l) = zlen l * k.
Proof.
  induction l as [|x l IH]; intros H; [reflexivity|]. cbn [map fold_right]. rewrite zlen_cons.
  rewrite (H x (or_introl eq_refl)), IH by (intros y Hy; apply H; right; exact Hy). ring.
Qed.

Lemma sum_zlen_concat {A} (l : list (list A)) : fold_right Z.add 0 (map zlen l) = zlen (concat l).
Proof. induction l as [|x l IH]; [reflexivity|]. cbn [map fold_right concat]. rewrite zlen_app, IH. reflexivity. Qed.

Lemma zlen_digits_div f c : zlen c mod bpc f = 0 -> zlen (digits f c) = zlen c / bpc f.
Proof. intros H. rewrite <- (zlen_digits f c H). unfold group_bits. rewrite Z.mul_comm, Z.div_mul; [reflexivity|]. pose proof (bpc_pos f). lia. Qed.

Lemma full_then_last_nth m xs : 0 < m -> full_then_last m xs -> forall i, (i < length xs)%nat ->
  0 < nth i xs 0 <= m /\ ((S i < length xs)%nat -> nth i xs 0 = m).
Proof.
  intros Hm. induction xs as [|x t IH]; intros H i Hi; [cbn in Hi; lia|].
  destruct t as [|y t'].
  - cbn in Hi. assert (i = 0)%nat by lia. subst i. cbn in *. split; [lia|lia].
  - destruct H as [-> H]. destruct i as [|i].
    + cbn [nth]. split; [lia|reflexivity].
    + cbn [nth length] in *. destruct (IH H i ltac:(lia)) as [I1 I2]. split; [exact I1|]. intros Hlt. apply I2. lia.
Qed.

(* the width arithmetic of PrintPP.v grows with the number of bits on the line *)
Lemma line_chars_mono a x y : args_ok a -> pp_bpc2 a = None -> 0 <= x <= y -> line_chars a x <= line_chars a y.
Proof.
  intros (B1 & _ & Hs & Hg & Hgc) H2 Hxy. unfold line_chars, gc2. rewrite H2. cbn [Z.eqb].
  destruct (pp_group a >? 0) eqn:Eg.
  - assert (Hp : 0 < pp_group a) by lia. destruct (Hgc Hp) as [G1 _].
    assert (Hd : x / pp_group a <= y / pp_group a) by (apply Z.div_le_mono; lia).
    set (nx := x / pp_group a) in *. set (ny := y / pp_group a) in *.
    assert (nx * gc1 a <= ny * gc1 a) by (apply Z.mul_le_mono_nonneg_r; lia).
    assert ((nx - 1) * pp_sep a <= (ny - 1) * pp_sep a) by (apply Z.mul_le_mono_nonneg_r; lia).
    lia.
  - assert (0 < pp_bpc1 a) by (destruct B1 as [-> | [-> | [-> | ->]]]; lia).
    assert (x / pp_bpc1 a <= y / pp_bpc1 a) by (apply Z.div_le_mono; lia). lia.
Qed.

Section Lines2.
Variables (f : ppfmt) (group width : Z) (seplen : nat) (off : bool) (d : bits).
Hypothesis Hacc : accepted f group d.
Let m := pp_m f group width seplen off d.
Let a := pp_a f group width seplen off d.
Let data := pp_data group d.

Lemma sec_args_ok : args_ok a.
Proof. destruct Hacc as (Hg & Hgm & _). apply args_ok_pp; assumption. Qed.

(* the characters of a printed line are the ones PrintPP.line_chars counts *)
Lemma sec_line_width line : In line (chop m data) -> line_width a (show_line f group line) = line_chars a (zlen line).
Proof.
  intros Hl. pose proof (bpc_pos f) as Hw. destruct Hacc as (Hg & Hgm & _).
  pose proof (sec_group_wf f group width seplen off d Hacc line) as W. fold m data in W. specialize (fun c => W c Hl).
  destruct (sec_line_wf f group width seplen off d Hacc line Hl) as (L1 & L2 & L3).
  unfold line_width, line_chars, show_line, gc2, gc1. unfold a, pp_a, pp_args. cbn [pp_group pp_bpc1 pp_bpc2 pp_sep Z.eqb].
  rewrite zlen_map. unfold groups_of in *. destruct (group >? 0) eqn:Eg.
  - assert (Hp : 0 < group) by lia. destruct (group =? 0) eqn:E0; [lia|].
    rewrite map_map. rewrite (sum_const (fun c => zlen (digits f c)) (group / bpc f)).
    + assert (Hz : zlen line = zlen (chop group line) * group).
      { rewrite <- (concat_chop group line Hp) at 1. rewrite <- sum_zlen_concat. apply sum_const. intros c Hc. apply (W c Hc). exact Hp. }
      rewrite Hz, Z.div_mul by lia. ring.
    + intros c Hc. destruct (W c Hc) as (W1 & W2 & _). rewrite zlen_digits_div by exact W1. rewrite (W2 Hp). reflexivity.
  - assert (E0 : group = 0) by lia. subst group. cbn [Z.eqb map fold_right].
    rewrite zlen_digits_div by exact L2. change (zlen [line]) with 1. ring.
Qed.

Lemma sec_unit_le_m : unit_bits a <= m /\ (forall line, In line (chop m data) -> zlen line mod unit_bits a = 0).
Proof.
  pose proof (bpc_pos f) as Hw. destruct Hacc as (Hg & Hgm & _). pose proof (sec_m_pos f group width seplen off d Hacc) as Hm. fold m in Hm.
  unfold unit_bits, a, pp_a, pp_args. cbn [pp_group pp_bpc1 pp_bpc2].
  destruct (group >? 0) eqn:Eg.
  - assert (Hp : 0 < group) by lia. split.
    + apply mod0_ge; [exact Hp|exact Hm|]. apply line_holds_whole_groups. exact Hp.
    + intros line Hl. apply (sec_line_wf f group width seplen off d Hacc line Hl). exact Hp.
  - assert (E0 : group = 0) by lia. split.
    + apply mod0_ge; [exact Hw|exact Hm|]. unfold m, pp_m, pp_a. rewrite E0. apply m_ungrouped.
    + intros line Hl. apply (sec_line_wf f group width seplen off d Hacc line Hl).
Qed.
End Lines2.

(* MAIN 1. The digits printed by pp(), read line by line, group by group, digit by digit and turned back into bits,
   are exactly the data without its last `len % bits_per_group` bits; those are the reported trailing bits; nothing is lost,
   repeated or reordered: data = decoded digits ++ trailing bits *)
Theorem pp_digits_are_the_data f group width seplen off d out :
  pp false f group width seplen off d = Ok out ->
  let t := trailing_len group d in
  decode f (out_lines out) = firstn (Z.to_nat (zlen d - t)) d /\
  out_trailing out = skipn (Z.to_nat (zlen d - t)) d /\
  d = decode f (out_lines out) ++ out_trailing out /\
  zlen (out_trailing out) = t /\ 0 <= t <= zlen d /\ (0 < group -> t < group) /\ (group = 0 -> t = 0).
Proof.
  intros H t. destruct (pp_inv _ _ _ _ _ _ _ H) as [A ->]. cbn [out_lines out_trailing].
  destruct (zlen_pp_data group d ltac:(apply A)) as (Hlen & Ht & Hgr). fold t in Hlen, Ht, Hgr.
  assert (D : decode f (map (show_line f group) (chop (pp_m f group width seplen off d) (pp_data group d))) = pp_data group d).
  { unfold decode. transitivity (concat (chop (pp_m f group width seplen off d) (pp_data group d))).
    - apply (flat_map_map_id (A := bool) (decode_line f) (show_line f group)).
      intros line Hl. apply (sec_decode_line f group width seplen off d A line Hl).
    - apply concat_chop. apply (sec_m_pos f group width seplen off d A). }
  rewrite D. unfold pp_data. fold t.
  split; [reflexivity|]. split; [reflexivity|]. split; [symmetry; apply firstn_skipn|].
  split; [rewrite zlen_skipn; lia|]. split; [exact Ht|]. split; [intros Hp; apply Hgr; exact Hp|].
  intros ->. reflexivity.
Qed.

(* MAIN 2. No group is split across lines: with bits_per_group > 0 every group of every line shows exactly bits_per_group bits
   (bits_per_group / bits-per-digit digits), so a line holds a whole number of groups; ungrouped, a line is one run of whole digits;
   and every printed digit is a digit of the format (0 <= x < 2, 8, 16) *)
Theorem pp_groups_whole f group width seplen off d out :
  pp false f group width seplen off d = Ok out -> forall l, In l (out_lines out) ->
  (0 < group -> Forall (fun ds => group_bits f ds = group /\ zlen ds = group / bpc f) l /\ line_bits f l = zlen l * group) /\
  (group = 0 -> exists ds, l = [ds]) /\
  Forall (Forall (fun x => 0 <= x < 2 ^ bpc f)) l.
Proof.
  intros H l Hl. destruct (pp_inv _ _ _ _ _ _ _ H) as [A ->]. cbn [out_lines] in Hl.
  apply in_map_iff in Hl. destruct Hl as (line & <- & Hline).
  pose proof (sec_group_wf f group width seplen off d A line) as W. specialize (fun c => W c Hline).
  split; [|split].
  - intros Hp.
    assert (F : Forall (fun ds => group_bits f ds = group /\ zlen ds = group / bpc f) (show_line f group line)).
    { apply Forall_forall. intros ds Hds. unfold show_line in Hds. apply in_map_iff in Hds. destruct Hds as (c & <- & Hc).
      destruct (W c Hc) as (W1 & W2 & _). rewrite zlen_digits, zlen_digits_div by exact W1. rewrite (W2 Hp). split; reflexivity. }
    split; [exact F|]. unfold line_bits. apply sum_const. rewrite Forall_forall in F. intros ds Hds. apply (F ds Hds).
  - intros ->. exists (digits f line). reflexivity.
  - apply Forall_forall. intros ds Hds. unfold show_line in Hds. apply in_map_iff in Hds. destruct Hds as (c & <- & Hc).
    apply Forall_forall. intros x Hx. apply (digits_range f c x Hx).
Qed.

(* MAIN 3. Every line but the last shows exactly max_bits_per_line bits, the last one between 1 and max_bits_per_line:
   there is no empty line (and no line at all when there is nothing to show) *)
Theorem pp_line_lengths f group width seplen off d out :
  pp false f group width seplen off d = Ok out ->
  let m := pp_m f group width seplen off d in
  0 < m /\ full_then_last m (map (line_bits f) (out_lines out)) /\
  (forall i, (i < length (out_lines out))%nat ->
     0 < line_bits f (nth i (out_lines out) []) <= m /\
     ((S i < length (out_lines out))%nat -> line_bits f (nth i (out_lines out) []) = m)) /\
  (out_lines out = [] <-> zlen d < Z.max group 1).
Proof.
  intros H m. destruct (pp_inv _ _ _ _ _ _ _ H) as [A ->]. cbn [out_lines]. fold m.
  pose proof (sec_m_pos f group width seplen off d A) as Hm. fold m in Hm.
  assert (E : map (line_bits f) (map (show_line f group) (chop m (pp_data group d))) = map zlen (chop m (pp_data group d))).
  { rewrite map_map. apply map_ext_in. intros line Hl. apply (sec_line_bits f group width seplen off d A line Hl). }
  assert (S : full_then_last m (map (line_bits f) (map (show_line f group) (chop m (pp_data group d)))))
    by (rewrite E; apply chop_shape; exact Hm).
  split; [exact Hm|]. split; [exact S|]. split.
  - intros i Hi. pose proof (full_then_last_nth m _ Hm S i) as N. rewrite map_length in N.
    replace 0 with (line_bits f []) in N by reflexivity. rewrite map_nth in N. apply N. exact Hi.
  - destruct (zlen_pp_data group d ltac:(apply A)) as (Hlen & Ht & Hgr). unfold trailing_len in *.
    destruct (pp_data group d) as [|x r] eqn:Ed.
    + rewrite chop_nil. cbn [map]. split; [intros _|reflexivity]. change (zlen (@nil bool)) with 0 in Hlen.
      destruct (group =? 0) eqn:E0; [lia|]. assert (Hp : 0 < group) by (destruct A; lia). destruct (Hgr Hp). lia.
    + rewrite chop_unfold by (exact Hm || discriminate). cbn [map]. split; [discriminate|]. intros Hlt. exfalso.
      rewrite zlen_cons in Hlen. pose proof (zlen_nonneg r).
      destruct (group =? 0) eqn:E0; [lia|]. assert (Hp : 0 < group) by (destruct A; lia). destruct (Hgr Hp) as [_ Hmod].
      rewrite zlen_cons in Hmod. rewrite Z.mod_small in Hmod by lia. lia.
Qed.

(* MAIN 4 (link to PrintPP.line_within_width). A printed line is offset label + one character per digit + len(sep) between groups;
   that is PrintPP.line_chars of its bits; whenever a full line holds more than one unit (group; digit when ungrouped) EVERY line
   fits in `width`; otherwise every line holds exactly one unit (the documented exception) *)
Theorem pp_lines_fit f group width seplen off d out :
  pp false f group width seplen off d = Ok out -> forall l, In l (out_lines out) ->
  let a := pp_a f group width seplen off d in
  let m := pp_m f group width seplen off d in
  line_width a l = line_chars a (line_bits f l) /\
  (unit_bits a < m -> line_width a l <= width) /\
  unit_bits a <= m /\
  (unit_bits a = m -> line_bits f l = unit_bits a).
Proof.
  intros H l Hl a m. destruct (pp_inv _ _ _ _ _ _ _ H) as [A ->]. cbn [out_lines] in Hl.
  apply in_map_iff in Hl. destruct Hl as (line & <- & Hline).
  rewrite (sec_line_bits f group width seplen off d A line Hline). subst a m.
  rewrite (sec_line_width f group width seplen off d A line Hline).
  set (a := pp_a f group width seplen off d). set (m := pp_m f group width seplen off d).
  destruct (sec_line_wf f group width seplen off d A line Hline) as (_ & _ & L3). fold m in L3.
  destruct (sec_unit_le_m f group width seplen off d A) as [U1 U2]. fold a m in U1, U2.
  pose proof (sec_args_ok f group width seplen off d A) as OK. fold a in OK.
  split; [reflexivity|]. split; [|split; [exact U1|]].
  - intros Hu. apply Z.le_trans with (line_chars a m).
    + apply line_chars_mono; [exact OK|reflexivity|lia].
    + apply (line_within_width a OK Hu).
  - intros Hu. specialize (U2 line Hline).
    assert (Hpos : 0 < unit_bits a).
    { unfold unit_bits, a, pp_a, pp_args. cbn [pp_group pp_bpc1 pp_bpc2]. pose proof (bpc_pos f). destruct (group >? 0) eqn:E; lia. }
    pose proof (mod0_ge _ _ Hpos (proj1 L3) U2). lia.
Qed.

(* ================= options.lsb0 = True =================
   Slices and cut() then count from the right-hand end: the trailing bits are the FIRST stored bits, the first line shows the LAST
   stored bits, and inside a line the groups run from the least significant group to the most significant one, each group still
   written most significant digit first. In terms of the stored bits: the chunks are those of the reversed data, each reversed back. *)
Definition show_line_lsb0 (f : ppfmt) (group : Z) (chunk : bits) : list (list Z) :=
  map (fun c => digits f (rev c)) (groups_of group chunk).
(* reading the printed groups in print order, each group from its last bit to its first *)
Definition decode_lsb0 (f : ppfmt) (ls : list (list (list Z))) : bits :=
  flat_map (flat_map (fun ds => rev (decode_group f ds))) ls.

Lemma format_bits_lsb0 f group line : 0 <= group -> group mod bpc f = 0 -> (0 < group -> zlen line mod group = 0) -> zlen line mod bpc f = 0 ->
  format_bits true f group line = Ok (show_line_lsb0 f group (rev line)).
Proof.
  intros Hg Hgm Hl Hlb. unfold format_bits, show_line_lsb0.
  assert (Hl' : 0 < group -> zlen (rev line) mod group = 0) by (rewrite zlen_rev; exact Hl).
  assert (Hlb' : zlen (rev line) mod bpc f = 0) by (rewrite zlen_rev; exact Hlb).
  pose proof (fun c => group_wf f group (rev line) c Hg Hgm Hl' Hlb') as W. unfold groups_of in *.
  destruct (group =? 0) eqn:E.
  - rewrite digits_of_ok by exact Hlb. cbn [bind map]. rewrite rev_involutive. reflexivity.
  - rewrite cut_mirror, cut_chop by lia. cbn [res_map bind]. rewrite <- (map_map (@rev bool) (digits f)).
    apply mapM_map. intros c Hc. apply digits_of_ok. apply in_map_iff in Hc. destruct Hc as (c' & <- & Hc').
    rewrite zlen_rev. apply (W c' Hc').
Qed.

Lemma pp_lines_lsb0 f group width seplen off (data : bits) : 0 <= group -> group mod bpc f = 0 ->
  (0 < group -> zlen data mod group = 0) -> (group = 0 -> zlen data mod bpc f = 0) ->
  pp_lines true f group width seplen off data =
  Ok (map (show_line_lsb0 f group) (chop (max_bits_per_line (pp_args f (zlen data) group width seplen off)) (rev data))).
Proof.
  intros Hg Hgm Hgr Hun. unfold pp_lines. set (m := max_bits_per_line _).
  assert (Hm : 0 < m) by (apply m_pos; assumption). cbv zeta.
  destruct (m <=? 0) eqn:E; [lia|]. rewrite cut_mirror, cut_chop by exact Hm. cbn [res_map bind].
  rewrite <- (map_ext (fun line => show_line_lsb0 f group (rev (rev line))) (show_line_lsb0 f group)) by (intros x; rewrite rev_involutive; reflexivity).
  rewrite <- (map_map (@rev bool) (fun line => show_line_lsb0 f group (rev line))).
  apply mapM_map. intros line Hin. apply in_map_iff in Hin. destruct Hin as (chunk & <- & Hin).
  destruct (line_wf f group (rev data) m chunk Hg Hgm Hm) as (L1 & L2 & _); try assumption.
  - intros Hp. rewrite zlen_rev. split; [apply line_holds_whole_groups; exact Hp|apply Hgr; exact Hp].
  - intros ->. rewrite zlen_rev. split; [apply m_ungrouped|apply Hun; reflexivity].
  - apply format_bits_lsb0; try assumption; rewrite zlen_rev; assumption.
Qed.

Definition pp_data_lsb0 (group : Z) (d : bits) : bits := skipn (Z.to_nat (trailing_len group d)) d.

Lemma pp_data_rev group d : 0 <= group -> pp_data group (rev d) = rev (pp_data_lsb0 group d) /\ zlen (pp_data_lsb0 group d) = zlen (pp_data group d).
Proof.
  intros Hg. destruct (zlen_pp_data group d Hg) as (Hlen & Ht & _). unfold pp_data, pp_data_lsb0 in *.
  assert (Et : trailing_len group (rev d) = trailing_len group d) by (unfold trailing_len; rewrite zlen_rev; reflexivity).
  rewrite Et, zlen_rev, firstn_rev. split.
  - do 2 f_equal. unfold zlen in *. lia.
  - rewrite zlen_skipn, zlen_firstn. lia.
Qed.

(* CLOSED FORM, lsb0 *)
Theorem pp_closed_lsb0 f group width seplen off d : accepted f group d ->
  pp true f group width seplen off d =
  Ok (mk_out (map (show_line_lsb0 f group) (chop (pp_m f group width seplen off d) (rev (pp_data_lsb0 group d))))
             (firstn (Z.to_nat (trailing_len group d)) d)).
Proof.
  intros (Hg & Hgm & Hun). unfold pp.
  destruct ((group <? 0) || negb (group mod bpc f =? 0)) eqn:Eg; [lia|].
  destruct (zlen_pp_data group d Hg) as (Hlen & Ht & Hgr). destruct (pp_data_rev group d Hg) as [Hrev Hzl].
  unfold pp_m, pp_a. rewrite <- Hzl. fold (trailing_len group d). cbv zeta.
  destruct (trailing_len group d =? 0) eqn:Et.
  - assert (Hd : pp_data_lsb0 group d = d) by (unfold pp_data_lsb0; replace (Z.to_nat (trailing_len group d)) with 0%nat by lia; reflexivity).
    rewrite Hd in *. cbn [bind]. rewrite pp_lines_lsb0; try assumption.
    + cbn [bind]. replace (Z.to_nat (trailing_len group d)) with 0%nat by lia. reflexivity.
    + intros Hp. rewrite Hzl. apply Hgr. exact Hp.
  - assert (Hp : 0 < group) by (unfold trailing_len in Et; destruct (group =? 0) eqn:E0; lia).
    unfold bs_getitem_slice, getslice_withstep. rewrite !mirror_getslice.
    pose proof (slice_drop_tail (rev d) (trailing_len group d)) as S1. pose proof (slice_take_tail (rev d) (trailing_len group d)) as S2.
    unfold bs_getitem_slice, getslice_withstep in S1, S2. rewrite zlen_rev in S1, S2.
    rewrite S1, S2 by lia. cbn [res_map bind].
    assert (E1 : rev (firstn (Z.to_nat (zlen d - trailing_len group d)) (rev d)) = pp_data_lsb0 group d).
    { rewrite firstn_rev, rev_involutive. unfold pp_data_lsb0. f_equal. unfold zlen in *. lia. }
    assert (E2 : rev (skipn (Z.to_nat (zlen d - trailing_len group d)) (rev d)) = firstn (Z.to_nat (trailing_len group d)) d).
    { rewrite skipn_rev, rev_involutive. f_equal. unfold zlen in *. lia. }
    rewrite E1, E2. rewrite pp_lines_lsb0; try assumption; [reflexivity| |lia].
    intros _. rewrite Hzl. apply Hgr. exact Hp.
Qed.

Lemma shape_line_bits f (l l' : list (list Z)) : map zlen l = map zlen l' -> line_bits f l = line_bits f l'.
Proof.
  intros H. unfold line_bits, group_bits. rewrite <- (map_map zlen (fun n => bpc f * n) l), <- (map_map zlen (fun n => bpc f * n) l'), H. reflexivity.
Qed.

Lemma shape_line_width a (l l' : list (list Z)) : map zlen l = map zlen l' -> line_width a l = line_width a l'.
Proof.
  intros H. unfold line_width. rewrite H. do 2 f_equal. rewrite <- (zlen_map zlen l), <- (zlen_map zlen l'), H. reflexivity.
Qed.

(* MAIN 5 (lsb0). Under options.lsb0 an accepted call prints too, and (a) reading the groups in print order, each from its last bit
   to its first, gives the stored data from its last bit back to the end of the trailing bits, which are the first stored bits:
   d = trailing ++ rev(read); (b) the layout (digits per group, groups per line, lines) is the one pp() prints in msb0 mode for the
   bit-reversed value, so MAIN 2-4 hold verbatim: whole groups, full lines but the last, lines within width *)
Theorem pp_lsb0 f group width seplen off d : accepted f group d ->
  exists out out', pp true f group width seplen off d = Ok out /\ pp false f group width seplen off (rev d) = Ok out' /\
  d = out_trailing out ++ rev (decode_lsb0 f (out_lines out)) /\
  zlen (out_trailing out) = trailing_len group d /\
  map (map zlen) (out_lines out) = map (map zlen) (out_lines out') /\
  pp_m f group width seplen off (rev d) = pp_m f group width seplen off d /\
  pp_a f group width seplen off (rev d) = pp_a f group width seplen off d.
Proof.
  intros A. assert (A' : accepted f group (rev d)) by (unfold accepted in *; rewrite zlen_rev; exact A).
  pose proof A as (Hg & Hgm & Hun).
  destruct (zlen_pp_data group d Hg) as (Hlen & Ht & Hgr). destruct (pp_data_rev group d Hg) as [Hrev Hzl].
  assert (Ea : pp_a f group width seplen off (rev d) = pp_a f group width seplen off d).
  { unfold pp_a. rewrite Hrev, zlen_rev, Hzl. reflexivity. }
  assert (Em : pp_m f group width seplen off (rev d) = pp_m f group width seplen off d) by (unfold pp_m; rewrite Ea; reflexivity).
  eexists. eexists. split; [apply pp_closed_lsb0; exact A|]. split; [apply pp_closed; exact A'|].
  cbn [out_lines out_trailing]. rewrite Em, Hrev.
  set (m := pp_m f group width seplen off d). set (chunks := chop m (rev (pp_data_lsb0 group d))).
  assert (Hchunk : forall chunk c, In chunk chunks -> In c (groups_of group chunk) -> zlen c mod bpc f = 0).
  { intros chunk c Hc1 Hc2. pose proof (sec_group_wf f group width seplen off (rev d) A' chunk c) as W.
    rewrite Em, Hrev in W. apply (W Hc1 Hc2). }
  split; [|split; [|split; [|split; [reflexivity|exact Ea]]]].
  - assert (D : decode_lsb0 f (map (show_line_lsb0 f group) chunks) = rev (pp_data_lsb0 group d)).
    { unfold decode_lsb0. transitivity (concat chunks).
      - apply (flat_map_map_id (A := bool) (flat_map (fun ds => rev (decode_group f ds))) (show_line_lsb0 f group)).
        intros chunk Hc. unfold show_line_lsb0. transitivity (concat (groups_of group chunk)); [|apply concat_groups_of; exact Hg].
        apply (flat_map_map_id (A := bool) (fun ds => rev (decode_group f ds)) (fun c => digits f (rev c))).
        intros c Hcc. rewrite decode_digits by (rewrite zlen_rev; apply (Hchunk chunk c Hc Hcc)). apply rev_involutive.
      - apply concat_chop. apply (sec_m_pos f group width seplen off d A). }
    rewrite D, rev_involutive. unfold pp_data_lsb0. symmetry. apply firstn_skipn.
  - rewrite zlen_firstn. lia.
  - rewrite !map_map. apply map_ext_in. intros chunk Hc. unfold show_line_lsb0, show_line. rewrite !map_map.
    apply map_ext_in. intros c Hcc. pose proof (Hchunk chunk c Hc Hcc) as Hz.
    rewrite !zlen_digits_div by (try rewrite zlen_rev; exact Hz). rewrite zlen_rev. reflexivity.
Qed.

(* ================= the model against the real library =================
   Each right-hand side was produced by running the call on bitstring 4.3.1 with stream=io.StringIO(), options.no_color=True and
   reading the digit characters back with int(ch, base); the last one runs with options.lsb0 = True. *)
Example py_hex8 : pp false FHex 8 20 1 true [true;false;true;false;false;false;true;false;false;false;false;true;true;false;false;false;true;false;false;false;false;true;false;false;false;false;true;true;false;false;true;false;false;false;true;false;false;false;false;true;true;true;true;true;true;true;false;false;false;false;true;true;true;true;true;false;false;true;false;true;false;true;true;false;false;true;true] =
  Ok (mk_out [[[10;2];[1;8];[8;4];[3;2];[2;1]];[[15;12];[3;14];[5;6]]] [false;true;true]).
Proof. vm_compute. reflexivity. Qed.
Example py_oct6 : pp false FOct 6 17 2 false [true;true;true;false;false;true;true;false;false;true;true;true;true;true;false;true;true;false;false;true;false;false;true;false;false;true;true;true;false;false;true;true;true;false;true;true;true;true;true;false;false;false;false;false;false;false;false;true;false;true] =
  Ok (mk_out [[[7;1];[4;7];[6;6];[2;2]];[[3;4];[7;3];[7;0];[0;1]]] [false;true]).
Proof. vm_compute. reflexivity. Qed.
Example py_bin0 : pp false FBin 0 12 1 true [true;false;false;true;true;true;false;false;true;true;true;true;true;false;true;true;false;false;false;false;true;false;false;true;false;false;false;false;false] =
  Ok (mk_out [[[1;0;0;1;1;1;0;0]];[[1;1;1;1;1;0;1;1]];[[0;0;0;0;1;0;0;1]];[[0;0;0;0;0]]] []).
Proof. vm_compute. reflexivity. Qed.
Example py_hex12_narrow : pp false FHex 12 (-3) 0 true [true;false;false;false;true;false;true;true;true;true;false;false;true;true;true;true;true;false;false;false;true;true;true;false;false;false;true;false;false;true;false;true;true;false;true;false;true;false;false;false;true;false;false] =
  Ok (mk_out [[[8;11;12]];[[15;8;14]];[[2;5;10]]] [true;false;false;false;true;false;false]).
Proof. vm_compute. reflexivity. Qed.
Example py_hex0_bad : pp false FHex 0 10 1 true [true;true;false;false;true;true;true;false;true;true;true;true;false;false;false;false;true;false;true;false;true;false;true;true;false;false;true;false;true;false] =
  Err ValueError.
Proof. vm_compute. reflexivity. Qed.
Example py_oct0 : pp false FOct 0 9 1 true [true;true;false;true;true;true;false;false;false;false;false;false;true;false;true;true;false;false;false;false;false;false;true;false;false;false;true;false;true;false;true;true;true] =
  Ok (mk_out [[[6;7;0;0;5]];[[4;0;2;1;2]];[[7]]] []).
Proof. vm_compute. reflexivity. Qed.
Example py_bin4 : pp false FBin 4 30 1 true [false;false;true;true;true;false;false;false;true;false;false;false;false;false;true;false;false;true;true;false;false;false;false] =
  Ok (mk_out [[[0;0;1;1];[1;0;0;0];[1;0;0;0];[0;0;1;0];[0;1;1;0]]] [false;false;false]).
Proof. vm_compute. reflexivity. Qed.
Example py_lsb0_hex8 : pp true FHex 8 20 1 true [true;false;false;true;false;false;true;true;false;true;true;true;false;true;false;true;false;true;false;true;true;true;false;false;true;false;false;true;false;false;true;false;true;false;true;false;false] =
  Ok (mk_out [[[5;4];[9;2];[10;11];[6;14]]] [true;false;false;true;false]).
Proof. vm_compute. reflexivity. Qed.

(* the hypotheses of the main theorems are satisfiable on a non-trivial input: several lines, several groups, trailing bits *)
Example accepted_example :
  let d := [true;false;true;false;false;false;true;false;false;false;false;true;true;false;false;false;true;false;false;false;false;true;false;false;false;false;true;true;false;false;true;false;false;false;true;false;false;false;false;true;true;true;true;true;true;true;false;false;false;false;true;true;true;true;true;false;false;true;false;true;false;true;true;false;false;true;true] in
  accepted FHex 8 d /\ trailing_len 8 d = 3 /\ pp_m FHex 8 20 1 true d = 40 /\ unit_bits (pp_a FHex 8 20 1 true d) = 8 /\
  exists out, pp false FHex 8 20 1 true d = Ok out /\ length (out_lines out) = 2%nat.
Proof. cbv zeta. split; [unfold accepted; split; [lia|split; [reflexivity|discriminate]]|]. repeat (split; [vm_compute; reflexivity|]). eexists. split; vm_compute; reflexivity. Qed.

Print Assumptions pp_closed.
Print Assumptions pp_accepts.
Print Assumptions pp_digits_are_the_data.
Print Assumptions pp_groups_whole.
Print Assumptions pp_line_lengths.
Print Assumptions pp_lines_fit.
Print Assumptions pp_closed_lsb0.
Print Assumptions pp_lsb0.
