(* ReplaceProofs.v — C07/C03: replace(old, new, start, end, count) (msb0): the replaced positions are byte-aligned-as-asked occurrences of
   `old` inside the window, strictly increasing and non-overlapping, at most `count` of them, chosen greedily from the left; the result is the
   splice of `new` at exactly those positions: its length is len + n*(|new| - |old|), everything before the window is unchanged and everything
   after it is unchanged (shifted); the return value is n. *)
From BS Require Import Prims BitsCore Search SeqProofs RangeLemmas SearchProofs FastPath SearchTop StoreProofs SerialProofs SplitProofs.
From Coq Require Import ZifyBool.
Open Scope Z_scope.

(* ---------- the positions ---------- *)
(* a chain: increasing positions with gaps of at least w, inside [lo, hi] *)
Fixpoint chain (w lo hi : Z) (ps : list Z) : Prop :=
  match ps with
  | [] => True
  | p :: rest => lo <= p /\ p + w <= hi /\ chain w (p + w) hi rest
  end.

Lemma chain_app w hi : forall ps lo q, chain w lo hi ps -> (match rev ps with [] => lo | l :: _ => l + w end) <= q -> q + w <= hi ->
  chain w lo hi (ps ++ [q]).
Proof.
  induction ps as [|p ps IH]; intros lo q Hc Hq Hh; cbn [app chain] in *.
  - cbn in Hq. repeat split; lia.
  - destruct Hc as (H1 & H2 & H3). repeat split; try assumption. apply IH; try assumption.
    cbn [rev] in Hq. destruct (rev ps) as [|l r] eqn:E; cbn [app] in Hq; lia.
Qed.

(* collect_points keeps its accumulator reversed; the invariant is on rev acc *)
Lemma collect_points_chain w cnt lo hi : 0 < w -> forall found acc,
  incr found -> (forall x, In x found -> lo <= x /\ x + w <= hi) ->
  chain w lo hi (rev acc) ->
  (match acc with [] => True | l :: _ => forall y, In y found -> l < y end) ->
  chain w lo hi (collect_points found w cnt acc).
Proof.
  intros Hw. induction found as [|x rest IH]; intros acc Hinc Hrng Hch Hlast; cbn [collect_points]; [exact Hch|].
  destruct (incr_cons_inv _ _ Hinc) as [Hinc' Hlt].
  set (acc' := match acc with [] => [x] | last :: _ => if x >=? last + w then x :: acc else acc end).
  assert (Hch' : chain w lo hi (rev acc')).
  { unfold acc'. destruct acc as [|l r].
    - cbn. destruct (Hrng x (or_introl eq_refl)). repeat split; lia.
    - destruct (x >=? l + w) eqn:E; [|exact Hch]. cbn [rev]. apply chain_app; [exact Hch| |destruct (Hrng x (or_introl eq_refl)); lia].
      cbn [rev] in *. rewrite rev_app_distr. cbn. lia. }
  assert (Hlast' : match acc' with [] => True | l :: _ => forall y, In y rest -> l < y end).
  { unfold acc'. destruct acc as [|l r].
    - intros y Hy. apply Hlt. exact Hy.
    - destruct (x >=? l + w) eqn:E; [intros y Hy; apply Hlt; exact Hy|]. intros y Hy. apply Hlast. right; exact Hy. }
  destruct (negb (cnt =? 0) && (zlen acc' =? cnt)); [exact Hch'|].
  apply IH; try assumption.
  - intros y Hy. apply Hrng. right; exact Hy.
Qed.

Lemma collect_points_subset w cnt : forall found acc x, In x (collect_points found w cnt acc) -> In x found \/ In x acc.
Proof.
  induction found as [|y rest IH]; intros acc x H; cbn [collect_points] in H; [right; apply in_rev; exact H|].
  set (acc' := match acc with [] => [y] | last :: _ => if y >=? last + w then y :: acc else acc end) in *.
  assert (Hacc' : forall z, In z acc' -> z = y \/ In z acc).
  { unfold acc'. intros z Hz. destruct acc as [|l r]; [destruct Hz as [<-|[]]; left; reflexivity|].
    destruct (y >=? l + w); [destruct Hz as [<-|Hz]; [left; reflexivity|right; exact Hz]|right; exact Hz]. }
  destruct (negb (cnt =? 0) && (zlen acc' =? cnt)).
  - apply in_rev in H. destruct (Hacc' x H) as [->|Hx]; [left; left; reflexivity|right; exact Hx].
  - destruct (IH acc' x H) as [Hx|Hx]; [left; right; exact Hx|]. destruct (Hacc' x Hx) as [->|Hx']; [left; left; reflexivity|right; exact Hx'].
Qed.

Lemma collect_points_count w cnt : 0 < cnt -> forall found acc, zlen acc <= cnt -> (zlen acc = cnt -> found = []) ->
  zlen (collect_points found w cnt acc) <= cnt.
Proof.
  intros Hc. induction found as [|y rest IH]; intros acc Ha Hfull; cbn [collect_points]; [rewrite zlen_rev; exact Ha|].
  assert (zlen acc < cnt) by (destruct (Z.eq_dec (zlen acc) cnt) as [E|E]; [specialize (Hfull E); discriminate|lia]).
  set (acc' := match acc with [] => [y] | last :: _ => if y >=? last + w then y :: acc else acc end).
  assert (Hl : zlen acc' <= zlen acc + 1).
  { unfold acc'. destruct acc as [|l r]; [unfold zlen; cbn; lia|]. destruct (y >=? l + w); [rewrite zlen_cons; lia|lia]. }
  destruct (negb (cnt =? 0) && (zlen acc' =? cnt)) eqn:E; [rewrite zlen_rev; lia|].
  apply IH; [lia|]. intros Hfull'. lia.
Qed.

(* ---------- the splice ---------- *)
Fixpoint splice (d new_ : bits) (w from : Z) (ps : list Z) : bits :=
  match ps with
  | [] => sub d from (zlen d)
  | p :: rest => sub d from p ++ new_ ++ splice d new_ w (p + w) rest
  end.

Lemma rebuild_spec d new_ w : 0 <= w -> forall ps lo, 0 <= lo -> ps <> [] -> chain w lo (zlen d) ps ->
  exists pieces, rebuild false d new_ w ps = Ok pieces /\
    concat pieces = new_ ++ splice d new_ w (match ps with p :: _ => p + w | [] => 0 end) (tl ps).
Proof.
  intros Hw. induction ps as [|p ps IH]; intros lo Hlo Hne Hch; [congruence|].
  cbn [chain] in Hch. destruct Hch as (H1 & H2 & H3).
  destruct ps as [|q rest].
  - cbn [rebuild tl splice]. unfold getslice, getslice_msb0. rewrite seq_slice_from by lia. cbn [bind].
    eexists. split; [reflexivity|]. cbn [concat]. rewrite app_nil_r. f_equal. symmetry. apply sub_to_end.
  - cbn [chain] in H3. destruct H3 as (G1 & G2 & G3).
    change (rebuild false d new_ w (p :: q :: rest)) with
      (do mid <- getslice false d (Some (p + w)) (Some q); do more <- rebuild false d new_ w (q :: rest); Ok (new_ :: mid :: more)).
    rewrite getslice_sub by lia. cbn [bind].
    destruct (IH (p + w) ltac:(lia) ltac:(discriminate)) as (more & Hm & Hc); [cbn [chain]; repeat split; assumption|].
    rewrite Hm. cbn [bind]. eexists. split; [reflexivity|]. cbn [concat tl splice]. rewrite Hc. cbn [tl]. reflexivity.
Qed.

Lemma zlen_splice d new_ w : 0 <= w -> forall ps from, 0 <= from -> chain w from (zlen d) ps -> from <= zlen d ->
  zlen (splice d new_ w from ps) = zlen d - from + zlen ps * (zlen new_ - w).
Proof.
  intros Hw. induction ps as [|p ps IH]; intros from H0 Hch Hle; cbn [splice chain] in *.
  - rewrite zlen_sub by lia. unfold zlen at 3. cbn. lia.
  - destruct Hch as (H1 & H2 & H3). rewrite !zlen_app, zlen_sub by lia. rewrite (IH (p + w)); [|lia|exact H3|lia]. rewrite zlen_cons. nia.
Qed.

Lemma splice_prefix d new_ w s : 0 <= w -> forall ps from, 0 <= from -> from <= s -> chain w s (zlen d) ps -> s <= zlen d ->
  exists X, splice d new_ w from ps = sub d from s ++ X.
Proof.
  intros Hw ps from H0 Hs Hch Hl. destruct ps as [|p ps]; cbn [splice chain] in *.
  - exists (sub d s (zlen d)). symmetry. apply sub_app_adj; lia.
  - destruct Hch as (H1 & H2 & H3). exists (sub d s p ++ new_ ++ splice d new_ w (p + w) ps).
    rewrite <- (sub_app_adj d from s p) by lia. now rewrite <- app_assoc.
Qed.

Lemma splice_suffix d new_ w e : 0 <= w -> forall ps from, 0 <= from -> chain w from e ps -> from <= e -> e <= zlen d ->
  exists X, splice d new_ w from ps = X ++ sub d e (zlen d).
Proof.
  intros Hw. induction ps as [|p ps IH]; intros from H0 Hch Hle He; cbn [splice chain] in *.
  - exists (sub d from e). apply eq_sym, sub_app_adj; lia.
  - destruct Hch as (H1 & H2 & H3). destruct (IH (p + w) ltac:(lia) H3 ltac:(lia) He) as [X HX].
    exists (sub d from p ++ new_ ++ X). rewrite HX. now rewrite <- !app_assoc.
Qed.

Lemma chain_weaken w lo lo' hi hi' ps : lo' <= lo -> hi <= hi' -> chain w lo hi ps -> chain w lo' hi' ps.
Proof.
  revert lo lo'. induction ps as [|p ps IH]; intros lo lo' H1 H2 Hc; cbn [chain] in *; [exact I|].
  destruct Hc as (A & B & C). repeat split; try lia. apply (IH (p + w) (p + w)); [lia|exact H2|exact C].
Qed.

Lemma spec_matches_bounds d p s e ba q : 0 <= s -> In q (spec_matches d p s e ba) -> s <= q /\ q + zlen p <= e.
Proof.
  intros Hs H. unfold spec_matches in H. apply filter_In in H as [Hr Ho]. apply In_zrange in Hr. lia.
Qed.

(* ---------- replace ---------- *)
Theorem replace_spec d old new_ start stop count ba s e : old <> [] -> count_ok count -> validate_slice d start stop = Ok (s, e) ->
  exists ps, 
    ba_replace false d old new_ start stop count ba = Ok ((if zlen ps =? 0 then d else splice d new_ (zlen old) 0 ps), zlen ps) /\
    chain (zlen old) s e ps /\
    (forall x, In x ps -> In x (spec_matches d old s e ba)) /\
    (match count with Some c => zlen ps <= c | None => True end).
Proof.
  intros Hp Hc Hv. destruct (validate_slice_ok _ _ _ _ _ Hv) as (H0 & H1 & H2).
  pose proof (zlen_nonneg old) as Lo. assert (Lo1 : 0 < zlen old) by (destruct old; [congruence|unfold zlen; cbn [length]; lia]).
  unfold ba_replace. apply nonempty_zlen in Hp as Hz. rewrite Hz, Hv. cbn [bind].
  destruct count as [[|c|c]|] eqn:Ecount; cbn [count_ok] in Hc; try lia.
  - (* count = 0 *) exists []. cbn. repeat split; auto; try lia; try (intros x []).
  - (* count = Some (pos c) *)
    assert (Hv' : validate_slice d (Some s) (Some e) = Ok (s, e)).
    { unfold validate_slice. replace (s <? 0) with false by lia. replace (e <? 0) with false by lia.
      replace ((0 <=? s) && (s <=? e) && (e <=? zlen d)) with true by lia. reflexivity. }
    rewrite (findall_spec d old (Some s) (Some e) None ba s e Hp I Hv'). cbn [bind take_count].
    set (M := spec_matches d old s e ba). set (ps := collect_points M (zlen old) (Z.pos c) []).
    assert (HM : forall x, In x M -> s <= x /\ x + zlen old <= e).
    { intros x Hx. apply (spec_matches_bounds d old s e ba x H0 Hx). }
    assert (Hch : chain (zlen old) s e ps).
    { apply collect_points_chain.
      - exact Lo1.
      - unfold M, spec_matches. apply incr_filter, incr_zrange.
      - exact HM.
      - exact I.
      - exact I. }
    assert (Hsub : forall x, In x ps -> In x M).
    { intros x Hx. destruct (collect_points_subset _ _ _ _ _ Hx) as [H|[]]. exact H. }
    assert (Hcnt : zlen ps <= Z.pos c).
    { apply collect_points_count; [lia|unfold zlen; cbn; lia|unfold zlen; cbn; lia]. }
    exists ps. split; [|split; [exact Hch|split; [exact Hsub|exact Hcnt]]].
    destruct ps as [|p0 rest] eqn:Eps; [reflexivity|].
    cbn [chain] in Hch. destruct Hch as (C1 & C2 & C3).
    rewrite getslice_sub by lia. cbn [bind].
    destruct (rebuild_spec d new_ (zlen old) Lo (p0 :: rest) s H0 ltac:(discriminate)) as (pieces & Hr & Hcc).
    { cbn [chain]. repeat split; try lia. eapply chain_weaken; [| |exact C3]; lia. }
    rewrite Hr. cbn [bind]. replace (zlen (p0 :: rest) =? 0) with false by (rewrite zlen_cons; pose proof (zlen_nonneg rest); lia).
    f_equal. f_equal. cbn [concat]. rewrite Hcc. cbn [tl splice]. reflexivity.
  - (* count = None *)
    assert (Hv' : validate_slice d (Some s) (Some e) = Ok (s, e)).
    { unfold validate_slice. replace (s <? 0) with false by lia. replace (e <? 0) with false by lia.
      replace ((0 <=? s) && (s <=? e) && (e <=? zlen d)) with true by lia. reflexivity. }
    rewrite (findall_spec d old (Some s) (Some e) None ba s e Hp I Hv'). cbn [bind take_count].
    set (M := spec_matches d old s e ba). set (ps := collect_points M (zlen old) 0 []).
    assert (HM : forall x, In x M -> s <= x /\ x + zlen old <= e).
    { intros x Hx. apply (spec_matches_bounds d old s e ba x H0 Hx). }
    assert (Hch : chain (zlen old) s e ps).
    { apply collect_points_chain.
      - exact Lo1.
      - unfold M, spec_matches. apply incr_filter, incr_zrange.
      - exact HM.
      - exact I.
      - exact I. }
    assert (Hsub : forall x, In x ps -> In x M).
    { intros x Hx. destruct (collect_points_subset _ _ _ _ _ Hx) as [H|[]]. exact H. }
    exists ps. split; [|split; [exact Hch|split; [exact Hsub|exact I]]].
    destruct ps as [|p0 rest] eqn:Eps; [reflexivity|].
    cbn [chain] in Hch. destruct Hch as (C1 & C2 & C3).
    rewrite getslice_sub by lia. cbn [bind].
    destruct (rebuild_spec d new_ (zlen old) Lo (p0 :: rest) s H0 ltac:(discriminate)) as (pieces & Hr & Hcc).
    { cbn [chain]. repeat split; try lia. eapply chain_weaken; [| |exact C3]; lia. }
    rewrite Hr. cbn [bind]. replace (zlen (p0 :: rest) =? 0) with false by (rewrite zlen_cons; pose proof (zlen_nonneg rest); lia).
    f_equal. f_equal. cbn [concat]. rewrite Hcc. cbn [tl splice]. reflexivity.
Qed.

(* length and frame of the result *)
Theorem replace_length_and_frame d old new_ start stop count ba s e r n : old <> [] -> count_ok count -> validate_slice d start stop = Ok (s, e) ->
  ba_replace false d old new_ start stop count ba = Ok (r, n) ->
  zlen r = zlen d + n * (zlen new_ - zlen old) /\
  (exists X, r = sub d 0 s ++ X) /\ (exists X, r = X ++ sub d e (zlen d)).
Proof.
  intros Hp Hc Hv H. destruct (validate_slice_ok _ _ _ _ _ Hv) as (H0 & H1 & H2).
  destruct (replace_spec d old new_ start stop count ba s e Hp Hc Hv) as (ps & Hr & Hch & _ & _).
  rewrite Hr in H. injection H as <- <-. pose proof (zlen_nonneg old) as Lo.
  destruct (zlen ps =? 0) eqn:E.
  - assert (Hz : zlen ps = 0) by lia. rewrite Hz. split; [lia|]. split.
    + exists (sub d s (zlen d)). rewrite sub_app_adj by lia. unfold sub. cbn. rewrite Z.sub_0_r. unfold zlen. rewrite Nat2Z.id. symmetry. apply firstn_all.
    + exists (sub d 0 e). rewrite sub_app_adj by lia. unfold sub. cbn. rewrite Z.sub_0_r. unfold zlen. rewrite Nat2Z.id. symmetry. apply firstn_all.
  - split; [|split].
    + rewrite zlen_splice; try lia. eapply chain_weaken; [| |exact Hch]; lia.
    + apply (splice_prefix d new_ (zlen old) s Lo ps 0); try lia. eapply chain_weaken; [| |exact Hch]; lia.
    + apply (splice_suffix d new_ (zlen old) e Lo ps 0); try lia. eapply chain_weaken; [| |exact Hch]; lia.
Qed.
