(* PrintPP.v — C19: the line layout arithmetic of Bits._pp (bitstring/bits.py): how many bits go on a line and how wide that line is.
   bpc = bits per printed character of a format (bin 1, oct 3, hex 4, bytes 8). *)
From Coq Require Import ZArith List Bool Lia ZifyBool.
Ltac Zify.zify_post_hook ::= Z.to_euclidean_division_equations.
Open Scope Z_scope.

Fixpoint ndigits (fuel : nat) (n : Z) : Z :=
  match fuel with O => 1 | S f => if n <? 10 then 1 else 1 + ndigits f (n / 10) end.

Definition FORMAT_SEP : Z := 3.     (* " : " *)
Definition OFFSET_SEP : Z := 2.     (* ": " or " :" *)

Record ppargs := mkpp { pp_len : Z; pp_bpc1 : Z; pp_bpc2 : option Z; pp_group : Z; pp_width : Z; pp_sep : Z; pp_offset : bool }.

Definition offset_width (a : ppargs) : Z := if pp_offset a then ndigits 40 (pp_len a) + OFFSET_SEP else 0.
Definition two (a : ppargs) : Z := match pp_bpc2 a with Some _ => 1 | None => 0 end.
Definition gc1 (a : ppargs) : Z := pp_group a / pp_bpc1 a.
Definition gc2 (a : ppargs) : Z := match pp_bpc2 a with Some b => pp_group a / b | None => 0 end.

(* _pp: max_bits_per_line *)
Definition max_bits_per_line (a : ppargs) : Z :=
  let ow := offset_width a in
  if pp_group a >? 0 then
    let total := gc1 a + gc2 a + pp_sep a + pp_sep a * (if gc2 a =? 0 then 0 else 1) in
    let w0 := Z.max (pp_width a - ow - gc1 a - gc2 a - FORMAT_SEP * (if gc2 a =? 0 then 0 else 1)) 0 in
    (1 + w0 / total) * pp_group a
  else
    let wa := Z.max (pp_width a - ow - FORMAT_SEP * two a) 1 in
    match pp_bpc2 a with
    | None => wa * pp_bpc1 a
    | Some b2 =>
        let c24 := 24 / pp_bpc1 a + 24 / b2 in
        let m := 24 * (wa / c24) in
        if m =? 0 then 24 else m
    end.

(* the characters of a line holding `bits` bits (a whole number of groups / characters) *)
Definition line_chars (a : ppargs) (bits : Z) : Z :=
  let ow := offset_width a in
  if pp_group a >? 0 then
    let n := bits / pp_group a in
    ow + (n * gc1 a + (n - 1) * pp_sep a) + (if gc2 a =? 0 then 0 else FORMAT_SEP + n * gc2 a + (n - 1) * pp_sep a)
  else
    ow + bits / pp_bpc1 a + match pp_bpc2 a with Some b2 => FORMAT_SEP + bits / b2 | None => 0 end.

(* the smallest displayable unit: one group; ungrouped: one character, or 24 bits when two formats are shown *)
Definition unit_bits (a : ppargs) : Z :=
  if pp_group a >? 0 then pp_group a else match pp_bpc2 a with None => pp_bpc1 a | Some _ => 24 end.

Definition bpc_ok (b : Z) : Prop := b = 1 \/ b = 3 \/ b = 4 \/ b = 8.

Definition args_ok (a : ppargs) : Prop :=
  bpc_ok (pp_bpc1 a) /\ (match pp_bpc2 a with Some b => bpc_ok b | None => True end) /\ 0 <= pp_sep a /\ 0 <= pp_group a /\
  (0 < pp_group a -> 1 <= gc1 a /\ (match pp_bpc2 a with Some b => 1 <= pp_group a / b | None => True end)).

Lemma div24 b k : bpc_ok b -> 24 * k / b = 24 / b * k.
Proof.
  intros [-> | [-> | [-> | ->]]].
  - rewrite !Z.div_1_r. reflexivity.
  - replace (24 * k) with (8 * k * 3) by lia. rewrite Z.div_mul by lia. reflexivity.
  - replace (24 * k) with (6 * k * 4) by lia. rewrite Z.div_mul by lia. reflexivity.
  - replace (24 * k) with (3 * k * 8) by lia. rewrite Z.div_mul by lia. reflexivity.
Qed.

(* a full line is wider than `width` only when it holds a single unit *)
Theorem line_within_width (a : ppargs) : args_ok a ->
  unit_bits a < max_bits_per_line a -> line_chars a (max_bits_per_line a) <= pp_width a.
Proof.
  intros (B1 & B2 & Hs & Hg & Hgc). unfold unit_bits, max_bits_per_line, line_chars.
  set (ow := offset_width a). destruct (pp_group a >? 0) eqn:Eg.
  - assert (Hgp : 0 < pp_group a) by lia. destruct (Hgc Hgp) as [G1 G2].
    set (f := if gc2 a =? 0 then 0 else 1).
    set (total := gc1 a + gc2 a + pp_sep a + pp_sep a * f).
    set (w0 := Z.max (pp_width a - ow - gc1 a - gc2 a - FORMAT_SEP * f) 0).
    intros Hm.
    assert (Ht : 0 < total).
    { unfold total, f. assert (0 <= gc2 a) by (unfold gc2; destruct (pp_bpc2 a); lia). destruct (gc2 a =? 0); lia. }
    assert (Hq : 1 <= w0 / total) by (assert (0 <= w0 / total) by (apply Z.div_pos; unfold w0; lia); nia).
    rewrite Z.div_mul by lia.
    assert (Hw : total * (w0 / total) <= w0) by (apply Z.mul_div_le; lia).
    assert (Hw0 : w0 = pp_width a - ow - gc1 a - gc2 a - FORMAT_SEP * f) by (unfold w0 in *; nia).
    unfold f in *. destruct (gc2 a =? 0) eqn:E2; unfold total in *; nia.
  - assert (Hg0 : pp_group a = 0) by lia. unfold two.
    destruct (pp_bpc2 a) as [b2|] eqn:E2.
    + set (wa := Z.max (pp_width a - ow - FORMAT_SEP * 1) 1).
      set (c24 := 24 / pp_bpc1 a + 24 / b2). intros Hm.
      assert (Hc : 2 <= c24) by (unfold c24; destruct B1 as [-> | [-> | [-> | ->]]]; destruct B2 as [-> | [-> | [-> | ->]]]; cbn; lia).
      destruct (24 * (wa / c24) =? 0) eqn:Em; [lia|].
      assert (Hk : 1 <= wa / c24) by (assert (0 <= wa / c24) by (apply Z.div_pos; unfold wa; lia); lia).
      assert (Hle : c24 * (wa / c24) <= wa) by (apply Z.mul_div_le; lia).
      assert (Hwa : wa = pp_width a - ow - FORMAT_SEP) by (unfold wa in *; unfold FORMAT_SEP in *; nia).
      assert (Hsplit : 24 * (wa / c24) / pp_bpc1 a + 24 * (wa / c24) / b2 = c24 * (wa / c24)).
      { rewrite (div24 (pp_bpc1 a)) by exact B1. rewrite (div24 b2) by exact B2. unfold c24. ring. }
      unfold FORMAT_SEP in *.
      set (x := 24 * (wa / c24) / pp_bpc1 a) in *. set (y := 24 * (wa / c24) / b2) in *. set (z := c24 * (wa / c24)) in *.
      clearbody x y z. clear - Hsplit Hle Hwa. lia.
    + set (wa := Z.max (pp_width a - ow - FORMAT_SEP * 0) 1). intros Hm.
      assert (Hb : 0 < pp_bpc1 a) by (destruct B1 as [-> | [-> | [-> | ->]]]; lia).
      rewrite Z.div_mul by lia. assert (1 < wa) by nia. unfold wa in *. lia.
Qed.

(* a line never splits a group: the bits per line are a whole number of groups *)
Theorem line_holds_whole_groups (a : ppargs) : 0 < pp_group a -> max_bits_per_line a mod pp_group a = 0.
Proof. intros Hg. unfold max_bits_per_line. replace (pp_group a >? 0) with true by lia. apply Z.mod_mul. lia. Qed.

Theorem max_bits_positive (a : ppargs) : args_ok a -> 0 < max_bits_per_line a.
Proof.
  intros (B1 & B2 & Hs & Hg & Hgc). unfold max_bits_per_line. destruct (pp_group a >? 0) eqn:Eg.
  - assert (0 < pp_group a) by lia. destruct (Hgc H) as [G1 _].
    set (f := if gc2 a =? 0 then 0 else 1). set (t := gc1 a + gc2 a + pp_sep a + pp_sep a * f).
    assert (0 <= gc2 a) by (unfold gc2; destruct (pp_bpc2 a); lia).
    assert (0 < t) by (unfold t, f; destruct (gc2 a =? 0); lia).
    match goal with |- 0 < (1 + ?x / t) * _ => assert (0 <= x / t) by (apply Z.div_pos; lia) end. nia.
  - destruct (pp_bpc2 a) as [b2|].
    + set (c := 24 / pp_bpc1 a + 24 / b2).
      assert (Hc : 0 < c) by (unfold c; destruct B1 as [-> | [-> | [-> | ->]]]; destruct B2 as [-> | [-> | [-> | ->]]]; cbn; reflexivity).
      match goal with |- context [?x / c] => assert (Hq : 0 <= x / c) by (apply Z.div_pos; [apply Z.le_trans with 1; [discriminate|apply Z.le_max_r]|exact Hc]); set (q := x / c) in * end.
      clearbody q. destruct (24 * q =? 0) eqn:E; [reflexivity|]. apply Z.eqb_neq in E. clear - Hq E. lia.
    + match goal with |- 0 < ?w * _ => assert (1 <= w) by apply Z.le_max_r; set (ww := w) in * end.
      clearbody ww. destruct B1 as [-> | [-> | [-> | ->]]]; clear - H; lia.
Qed.
