(* ArrayCases.v — executable instances of the element-wise loops of ArrayOps.v for uint/int items, used by the C14 correspondence
   (tools/props/c14.py renders one term per observed scalar / in-place / Array-Array operator step and per promotion case). *)
From BS Require Import Prims CaseLib BitsCore Mutators ArrayM ArrayOps.
From Coq Require Import String.
Open Scope Z_scope.

(* the Python operator with its scalar operand, on a decoded int item (Err e = raises e) *)
Inductive aop := AAdd (x : Z) | ASub (x : Z) | AMul (x : Z) | ARsub (x : Z) | AFloordiv (x : Z) | AMod (x : Z) | ALshift (x : Z) | ARshift (x : Z) | ANeg | AAbs.
Definition aop_fn (a : aop) (v : Z) : res Z :=
  match a with
  | AAdd x => Ok (v + x) | ASub x => Ok (v - x) | AMul x => Ok (v * x) | ARsub x => Ok (x - v)
  | AFloordiv x => py_floordiv x v
  | AMod x => if x =? 0 then Err ZeroDivisionError else Ok (v mod x)
  | ALshift x => py_lshift x v | ARshift x => py_rshift x v
  | ANeg => Ok (- v) | AAbs => Ok (Z.abs v)
  end.
(* Array(u?intW) op scalar  /  op= scalar *)
Definition arr_scalar_op (w : Z) (s : bool) (a : aop) (d : bits) : res bits := apply_op Z Z w (dec_int s) w (build_int w s) (aop_fn a) d.
Definition arr_scalar_iop (w : Z) (s : bool) (a : aop) (d : bits) : bits * res unit := apply_op_inplace Z w (dec_int s) (build_int w s) (aop_fn a) d.
Inductive acmp := CLt (x : Z) | CEq (x : Z).
Definition acmp_fn (c : acmp) (v : Z) : bool := match c with CLt x => v <? x | CEq x => v =? x end.
Definition arr_scalar_cmp (w : Z) (s : bool) (c : acmp) (d : bits) : res bits :=
  apply_op Z bool w (dec_int s) 1 build_bool (fun v => Ok (acmp_fn c v)) d.

(* Array op Array between two int dtypes: the result dtype is the promoted one *)
Inductive bop := BAdd | BSub | BMul.
Definition bop_fn (b : bop) (x y : Z) : res Z := Ok (match b with BAdd => x + y | BSub => x - y | BMul => x * y end).
Definition arr_between_int (t1 t2 : dt) (b : bop) (d1 d2 : bits) : res (dt * bits) :=
  let nt := promotetype t1 t2 in
  let t := match nt with Ok t => t | Err _ => t1 end in
  do d <- apply_between Z Z Z (dt_len t1) (dec_int (dt_signed t1)) (dt_len t2) (dec_int (dt_signed t2)) (dt_len t)
            (build_int (dt_len t) (dt_signed t)) (do _ <- nt; Ok tt) (bop_fn b) d1 d2;
  Ok (t, d).
Inductive bcmp := BLt | BEq.
Definition arr_between_cmp (t1 t2 : dt) (c : bcmp) (d1 d2 : bits) : res bits :=
  apply_between Z Z bool (dt_len t1) (dec_int (dt_signed t1)) (dt_len t2) (dec_int (dt_signed t2)) 1 build_bool (Ok tt)
    (fun x y => Ok (match c with BLt => x <? y | BEq => x =? y end)) d1 d2.

(* comparisons of results *)
Definition dt_same (t : dt) (name : string) (len tag : Z) : bool := String.eqb (dt_name t) name && (dt_len t =? len) && (dt_tag t =? tag).
Definition promo_is (r : res dt) (name : string) (len tag : Z) : bool := match r with Ok t => dt_same t name len tag | Err _ => false end.
Definition promo_err (r : res dt) (e : exn) : bool := match r with Ok _ => false | Err f => exn_eqb e f end.
Definition between_is (r : res (dt * bits)) (name : string) (len : Z) (d : bits) : bool :=
  match r with Ok (t, d') => String.eqb (dt_name t) name && (dt_len t =? len) && bits_eqb d' d | Err _ => false end.
Definition between_err (r : res (dt * bits)) (e : exn) : bool := match r with Ok _ => false | Err f => exn_eqb e f end.
Definition iop_is (r : bits * res unit) (d : bits) (out : res unit) : bool := bits_eqb (fst r) d && res_eqb unit_eqb (snd r) out.
