(* LsbSplit.v — C12 (with C07) for the search-derived operations: startswith, endswith, cut, replace under lsb0 are the exact
   mirror of the msb0 operation on the bit-reversed data / patterns; split is NOT (counterexample + what does hold). *)
From Coq Require Import ZArith List Bool Lia ZifyBool.
From BS Require Import Prims BitsCore Search SeqProofs RangeLemmas SearchProofs FastPath SearchTop StoreProofs MirrorProofs
  SplitProofs LsbSearch.
Open Scope Z_scope.

(* ---------- helpers ---------- *)
Lemma validate_slice_rev (d : bits) start stop : validate_slice (rev d) start stop = validate_slice d start stop.
Proof. unfold validate_slice. rewrite zlen_rev. reflexivity. Qed.

Lemma getslice_mirror (d : bits) a b : getslice true d a b = res_map (@rev bool) (getslice false (rev d) a b).
Proof. apply mirror_getslice_nostep. Qed.

Lemma beq_bits_rev_l (a b : bits) : beq_bits (rev a) b = beq_bits a (rev b).
Proof. rewrite <- (rev_involutive b) at 1. apply beq_bits_rev. Qed.

Lemma rev_nonempty {A} (p : list A) : p <> [] -> rev p <> [].
Proof. intros Hp E. apply Hp. rewrite <- (rev_involutive p), E. reflexivity. Qed.

Lemma validate_slice_idem (d : bits) s e : 0 <= s -> s <= e -> e <= zlen d -> validate_slice d (Some s) (Some e) = Ok (s, e).
Proof.
  intros. unfold validate_slice. replace (s <? 0) with false by lia. replace (e <? 0) with false by lia.
  replace ((0 <=? s) && (s <=? e) && (e <=? zlen d)) with true by lia. reflexivity.
Qed.

Lemma concat_rev_map_rev {A} (l : list (list A)) : concat (rev (map (@rev A) l)) = rev (concat l).
Proof.
  induction l as [|x l IH]; [reflexivity|]. cbn [map rev concat]. rewrite concat_app, IH, rev_app_distr. cbn [concat].
  now rewrite app_nil_r.
Qed.

(* ---------- 1. startswith / endswith ---------- *)
(* Python: under lsb0, s.startswith(p, start, end) equals the msb0 answer for the bit-reversed s and bit-reversed p, same start/end. *)
Theorem startswith_mirror d p start stop :
  bs_startswith true d p start stop = bs_startswith false (rev d) (rev p) start stop.
Proof.
  unfold bs_startswith. rewrite validate_slice_rev, zlen_rev.
  destruct (validate_slice d start stop) as [[s e]|err]; [|reflexivity]. cbn [bind].
  destruct (e >=? s + zlen p); [|reflexivity].
  rewrite getslice_mirror. destruct (getslice false (rev d) (Some s) (Some (s + zlen p))) as [x|err]; [|reflexivity].
  cbn [res_map bind]. now rewrite beq_bits_rev_l.
Qed.

(* Python: the same for s.endswith(p, start, end). *)
Theorem endswith_mirror d p start stop :
  bs_endswith true d p start stop = bs_endswith false (rev d) (rev p) start stop.
Proof.
  unfold bs_endswith. rewrite validate_slice_rev, zlen_rev.
  destruct (validate_slice d start stop) as [[s e]|err]; [|reflexivity]. cbn [bind].
  destruct (s + zlen p <=? e); [|reflexivity].
  rewrite getslice_mirror. destruct (getslice false (rev d) (Some (e - zlen p)) (Some e)) as [x|err]; [|reflexivity].
  cbn [res_map bind]. now rewrite beq_bits_rev_l.
Qed.

(* ---------- 2. cut ---------- *)
Lemma cut_loop_mirror d n e count : forall fuel s c,
  cut_loop fuel true d n s e count c = res_map (map (@rev bool)) (cut_loop fuel false (rev d) n s e count c).
Proof.
  induction fuel as [|f IH]; intros s c; [reflexivity|]. cbn [cut_loop].
  destruct (match count with None => true | Some k => c <? k end); [|reflexivity].
  rewrite getslice_mirror. destruct (getslice false (rev d) (Some s) (Some (Z.min (s + n) e))) as [x|err]; [|reflexivity].
  cbn [res_map bind]. rewrite zlen_rev. destruct (zlen x =? 0); [reflexivity|].
  destruct (negb (zlen x =? n)); [reflexivity|].
  rewrite IH. destruct (cut_loop f false (rev d) n (s + n) e count (c + 1)); reflexivity.
Qed.

(* Python: under lsb0, list(s.cut(n, start, end, count)) is the msb0 cut of the bit-reversed s, each chunk reversed back
   (same errors for bad arguments). *)
Theorem cut_mirror d n start stop count :
  bs_cut true d n start stop count = res_map (map (@rev bool)) (bs_cut false (rev d) n start stop count).
Proof.
  unfold bs_cut. rewrite validate_slice_rev, rev_length.
  destruct (validate_slice d start stop) as [[s e]|err]; [|reflexivity]. cbn [bind].
  destruct (match count with Some c => c <? 0 | None => false end); [reflexivity|].
  destruct (n <=? 0); [reflexivity|]. apply cut_loop_mirror.
Qed.

(* ---------- 4. replace ---------- *)
Lemma rebuild_mirror d new_ w : forall points,
  rebuild true d new_ w points = res_map (map (@rev bool)) (rebuild false (rev d) (rev new_) w points).
Proof.
  induction points as [|p rest IH]; [reflexivity|]. destruct rest as [|q rest'].
  - cbn [rebuild]. rewrite getslice_mirror. destruct (getslice false (rev d) (Some (p + w)) None); [|reflexivity].
    cbn [res_map bind map]. now rewrite rev_involutive.
  - change (rebuild true d new_ w (p :: q :: rest')) with
      (do mid <- getslice true d (Some (p + w)) (Some q); do more <- rebuild true d new_ w (q :: rest'); Ok (new_ :: mid :: more)).
    change (rebuild false (rev d) (rev new_) w (p :: q :: rest')) with
      (do mid <- getslice false (rev d) (Some (p + w)) (Some q); do more <- rebuild false (rev d) (rev new_) w (q :: rest');
       Ok (rev new_ :: mid :: more)).
    rewrite getslice_mirror. destruct (getslice false (rev d) (Some (p + w)) (Some q)); [|reflexivity].
    cbn [res_map bind]. rewrite IH. destruct (rebuild false (rev d) (rev new_) w (q :: rest')); [|reflexivity].
    cbn [res_map bind map]. now rewrite rev_involutive.
Qed.

(* Python: under lsb0, a.replace(old, new, start, end, count, bytealigned) leaves in `a` the reverse of what the msb0 replace leaves
   in the bit-reversed a with bit-reversed old and new, and returns the same number of replacements (same errors too). *)
Theorem replace_mirror d old new_ start stop count ba :
  ba_replace true d old new_ start stop count ba =
  res_map (fun '(r, n) => (rev r, n)) (ba_replace false (rev d) (rev old) (rev new_) start stop count ba).
Proof.
  assert (G : forall cnt,
    (if zlen old =? 0 then Err ValueError else
     do2 (s, e) <- validate_slice d start stop;
     do found <- bs_findall true d old (Some s) (Some e) None ba;
     let points := collect_points found (zlen old) cnt [] in
     match points with
     | [] => Ok (d, 0)
     | p0 :: _ => do first <- getslice true d (Some 0) (Some p0); do more <- rebuild true d new_ (zlen old) points;
                  Ok (concat (rev (first :: more)), zlen points)
     end) =
    res_map (fun '(r, n) => (rev r, n))
    (if zlen (rev old) =? 0 then Err ValueError else
     do2 (s, e) <- validate_slice (rev d) start stop;
     do found <- bs_findall false (rev d) (rev old) (Some s) (Some e) None ba;
     let points := collect_points found (zlen (rev old)) cnt [] in
     match points with
     | [] => Ok (rev d, 0)
     | p0 :: _ => do first <- getslice false (rev d) (Some 0) (Some p0); do more <- rebuild false (rev d) (rev new_) (zlen (rev old)) points;
                  Ok (concat (first :: more), zlen points)
     end)).
  { intros cnt. rewrite zlen_rev, validate_slice_rev. destruct (zlen old =? 0) eqn:Ez; [reflexivity|].
    apply nonempty_zlen in Ez.
    destruct (validate_slice d start stop) as [[s e]|err] eqn:Ev; [|reflexivity]. cbn [bind].
    destruct (validate_slice_ok _ _ _ _ _ Ev) as (H0 & H1 & H2).
    rewrite (bs_findall_lsb0_is_mirror d old (Some s) (Some e) None ba s e Ez I (validate_slice_idem d s e H0 H1 H2)).
    destruct (bs_findall false (rev d) (rev old) (Some s) (Some e) None ba) as [found|err]; [|reflexivity]. cbn [bind].
    cbv zeta. destruct (collect_points found (zlen old) cnt []) as [|p0 pts] eqn:Ep.
    - cbn [res_map]. now rewrite rev_involutive.
    - rewrite getslice_mirror. destruct (getslice false (rev d) (Some 0) (Some p0)) as [first|err]; [|reflexivity].
      cbn [res_map bind]. rewrite rebuild_mirror.
      destruct (rebuild false (rev d) (rev new_) (zlen old) (p0 :: pts)) as [more|err]; [|reflexivity].
      cbn [res_map bind]. f_equal. f_equal. change (rev first :: map (@rev bool) more) with (map (@rev bool) (first :: more)).
      apply concat_rev_map_rev. }
  assert (G0 :
    (if zlen old =? 0 then Err ValueError else do2 (s, e) <- validate_slice d start stop; Ok (d, 0)) =
    res_map (fun '(r, n) => (rev r, n))
    (if zlen (rev old) =? 0 then Err ValueError else do2 (s, e) <- validate_slice (rev d) start stop; Ok (rev d, 0))).
  { rewrite zlen_rev, validate_slice_rev. destruct (zlen old =? 0); [reflexivity|].
    destruct (validate_slice d start stop) as [[s e]|err]; [|reflexivity]. cbn [bind res_map]. now rewrite rev_involutive. }
  unfold ba_replace. destruct count as [[|c|c]|].
  - exact G0.
  - apply G.
  - apply G.
  - apply G.
Qed.

(* ---------- 3. split: the cut positions are always found by the msb0 search of d ---------- *)
(* the positions (a, b) of the pieces: the same loop as split_loop / bs_split with the slicing left out, hence independent of lsb0 *)
Fixpoint cuts_loop (fuel : nat) (d p : bits) (e : Z) (count : option Z) (ba : bool) (startpos pos c : Z) : res (list (Z * Z)) :=
  match fuel with
  | O => Err OutOfFuel
  | S f =>
      if (match count with None => true | Some k => c <? k end) then
        do found <- find_msb0 d p (pos + zlen p) e ba;
        match found with
        | None => Ok [(startpos, e)]
        | Some q => do rest <- cuts_loop f d p e count ba q q (c + 1); Ok ((startpos, q) :: rest)
        end
      else Ok []
  end.
Definition split_cuts (d p : bits) (start stop : option Z) (count : option Z) (ba : bool) : res (list (Z * Z)) :=
  if zlen p =? 0 then Err ValueError else
  do2 (s, e) <- validate_slice d start stop;
  if (match count with Some c => c <? 0 | None => false end) then Err ValueError else
  if (match count with Some c => c =? 0 | None => false end) then Ok [] else
  do found <- find_msb0 d p s e ba;
  match found with
  | None => Ok [(s, e)]
  | Some q => do rest <- cuts_loop (S (length d)) d p e count ba q q 1; Ok ((s, q) :: rest)
  end.

(* x[a:b] for every cut *)
Definition slices (x : bits) (cs : list (Z * Z)) : list bits := map (fun ab => sub x (fst ab) (snd ab)) cs.
(* what the mode-dependent _slice(a, b) returns for in-range positions *)
Definition piece (lsb0 : bool) (d : bits) (ab : Z * Z) : bits :=
  if lsb0 then rev (sub (rev d) (fst ab) (snd ab)) else sub d (fst ab) (snd ab).

Lemma getslice_piece lsb0 (d : bits) a b : 0 <= a -> a <= b -> b <= zlen d -> getslice lsb0 d (Some a) (Some b) = Ok (piece lsb0 d (a, b)).
Proof.
  intros. destruct lsb0; unfold piece; cbn [fst snd].
  - rewrite getslice_mirror, getslice_sub by (rewrite ?zlen_rev; lia). reflexivity.
  - apply getslice_sub; lia.
Qed.

(* in the coordinates of d itself the lsb0 piece is d[len-b : len-a] *)
Lemma piece_lsb0_sub (d : bits) a b : 0 <= a -> a <= b -> b <= zlen d -> piece true d (a, b) = sub d (zlen d - b) (zlen d - a).
Proof. intros. unfold piece. cbn [fst snd]. rewrite sub_rev by lia. apply rev_involutive. Qed.

(* a chain of adjacent cuts from lo, inside [lo, hi] *)
Fixpoint cuts_chain (lo hi : Z) (cs : list (Z * Z)) : Prop :=
  match cs with
  | [] => True
  | ab :: rest => fst ab = lo /\ lo <= snd ab /\ snd ab <= hi /\ cuts_chain (snd ab) hi rest
  end.

Lemma split_loop_cuts lsb0 d p e count ba : p <> [] -> e <= zlen d ->
  forall fuel sp c, 0 <= sp -> sp + zlen p <= e ->
  split_loop fuel lsb0 d p e count ba sp sp c = res_map (map (piece lsb0 d)) (cuts_loop fuel d p e count ba sp sp c) /\
  forall cs, cuts_loop fuel d p e count ba sp sp c = Ok cs -> cuts_chain sp e cs.
Proof.
  intros Hp He. pose proof (zlen_nonneg p) as Lp.
  induction fuel as [|f IH]; intros sp c H0 H1; [split; [reflexivity|discriminate]|].
  cbn [split_loop cuts_loop]. destruct (match count with None => true | Some k => c <? k end).
  2:{ split; [reflexivity|]. intros cs [= <-]. exact I. }
  destruct (find_msb0 d p (sp + zlen p) e ba) as [[q|]|err] eqn:Ef; cbn [bind res_map].
  - destruct (find_msb0_found d p (sp + zlen p) e ba q Hp ltac:(lia) H1 He Ef) as (Q1 & Q2 & _).
    rewrite getslice_piece by lia. cbn [bind]. destruct (IH q (c + 1) ltac:(lia) Q2) as [IH1 IH2]. rewrite IH1.
    destruct (cuts_loop f d p e count ba q q (c + 1)) as [rest|err]; cbn [bind res_map map]; [|split; [reflexivity|discriminate]].
    split; [reflexivity|]. intros cs [= <-]. cbn [cuts_chain fst snd]. repeat split; try lia. apply IH2. reflexivity.
  - rewrite getslice_piece by lia. split; [reflexivity|]. intros cs [= <-]. cbn [cuts_chain fst snd]. repeat split; lia.
  - split; [reflexivity|discriminate].
Qed.

Lemma split_cuts_both lsb0 d p start stop count ba :
  bs_split lsb0 d p start stop count ba = res_map (map (piece lsb0 d)) (split_cuts d p start stop count ba) /\
  forall cs, split_cuts d p start stop count ba = Ok cs ->
    exists s e, validate_slice d start stop = Ok (s, e) /\ cuts_chain s e cs.
Proof.
  unfold bs_split, split_cuts. destruct (zlen p =? 0) eqn:Ez; [split; [reflexivity|discriminate]|].
  apply nonempty_zlen in Ez. pose proof (zlen_nonneg p) as Lp.
  destruct (validate_slice d start stop) as [[s e]|err] eqn:Ev; [|split; [reflexivity|discriminate]]. cbn [bind].
  destruct (validate_slice_ok _ _ _ _ _ Ev) as (H0 & H1 & H2).
  destruct (match count with Some c => c <? 0 | None => false end); [split; [reflexivity|discriminate]|].
  destruct (match count with Some c => c =? 0 | None => false end).
  { split; [reflexivity|]. intros cs [= <-]. exists s, e. split; [reflexivity|exact I]. }
  destruct (find_msb0 d p s e ba) as [[q|]|err] eqn:Ef; cbn [bind res_map].
  - destruct (find_msb0_found d p s e ba q Ez H0 H1 H2 Ef) as (Q1 & Q2 & _).
    rewrite getslice_piece by lia. cbn [bind].
    destruct (split_loop_cuts lsb0 d p e count ba Ez H2 (S (length d)) q 1 ltac:(lia) Q2) as [L1 L2]. rewrite L1.
    destruct (cuts_loop (S (length d)) d p e count ba q q 1) as [rest|err]; cbn [bind res_map map]; [|split; [reflexivity|discriminate]].
    split; [reflexivity|]. intros cs [= <-]. exists s, e. split; [reflexivity|]. cbn [cuts_chain fst snd]. repeat split; try lia.
    apply L2. reflexivity.
  - rewrite getslice_piece by lia. split; [reflexivity|]. intros cs [= <-]. exists s, e. split; [reflexivity|].
    cbn [cuts_chain fst snd]. repeat split; lia.
  - split; [reflexivity|discriminate].
Qed.

(* Python, msb0: list(s.split(p, ...)) is s sliced at the cut positions. *)
Theorem split_msb0_via_cuts d p start stop count ba :
  bs_split false d p start stop count ba = res_map (slices d) (split_cuts d p start stop count ba).
Proof. apply (split_cuts_both false). Qed.

(* Python, lsb0: list(s.split(p, ...)) is the bit-reversed s sliced AT THE MSB0 CUT POSITIONS OF s AND p THEMSELVES (not of their
   reversals), each piece reversed back; i.e. what lsb0 split really does, for all inputs (same errors). *)
Theorem split_lsb0_via_cuts d p start stop count ba :
  bs_split true d p start stop count ba = res_map (fun cs => map (@rev bool) (slices (rev d) cs)) (split_cuts d p start stop count ba).
Proof.
  rewrite (proj1 (split_cuts_both true d p start stop count ba)).
  destruct (split_cuts d p start stop count ba) as [cs|err]; [|reflexivity]. cbn [res_map]. f_equal.
  unfold slices. rewrite map_map. reflexivity.
Qed.

(* in the coordinates of s: where msb0 split yields s[a:b], lsb0 split yields s[len-b : len-a] (the position is mirrored, the
   delimiter search is not) *)
Theorem split_lsb0_pieces d p start stop count ba cs : split_cuts d p start stop count ba = Ok cs ->
  bs_split false d p start stop count ba = Ok (map (fun ab => sub d (fst ab) (snd ab)) cs) /\
  bs_split true d p start stop count ba = Ok (map (fun ab => sub d (zlen d - snd ab) (zlen d - fst ab)) cs).
Proof.
  intros Hc. split; [rewrite split_msb0_via_cuts, Hc; reflexivity|].
  rewrite (proj1 (split_cuts_both true d p start stop count ba)), Hc. cbn [res_map]. f_equal.
  destruct (proj2 (split_cuts_both true d p start stop count ba) cs Hc) as (s & e & Hv & Hch).
  destruct (validate_slice_ok _ _ _ _ _ Hv) as (H0 & H1 & H2). clear Hc Hv.
  revert s H0 H1 Hch. induction cs as [|[a b] cs IH]; intros s H0 H1 Hch; [reflexivity|].
  cbn [cuts_chain fst snd] in Hch. destruct Hch as (-> & A & B & C). cbn [map fst snd].
  rewrite piece_lsb0_sub by lia. f_equal. apply (IH b); [lia|lia|exact C].
Qed.

(* ---------- when does the mirror law hold for split?  exactly when the cut positions agree ---------- *)
Lemma zlen_sub {A} (l : list A) a b : 0 <= a -> a <= b -> b <= zlen l -> zlen (sub l a b) = b - a.
Proof. intros. unfold sub. rewrite zlen_firstn, zlen_skipn. lia. Qed.

Lemma slices_inj (x : bits) hi : hi <= zlen x -> forall cs cs' lo, 0 <= lo ->
  cuts_chain lo hi cs -> cuts_chain lo hi cs' -> slices x cs = slices x cs' -> cs = cs'.
Proof.
  intros Hhi. induction cs as [|[a b] cs IH]; intros [|[a' b'] cs'] lo Hlo C C' E; try discriminate; [reflexivity|].
  cbn [cuts_chain fst snd] in C, C'. destruct C as (-> & A1 & A2 & A3). destruct C' as (-> & B1 & B2 & B3).
  cbn [slices map fst snd] in E. injection E as E1 E2.
  assert (b = b').
  { apply (f_equal zlen) in E1. rewrite !zlen_sub in E1 by lia. lia. }
  subst b'. f_equal. apply (IH cs' b); [lia|assumption|assumption|exact E2].
Qed.

Lemma map_rev_inj {A} (l l' : list (list A)) : map (@rev A) l = map (@rev A) l' -> l = l'.
Proof.
  intros E. apply (f_equal (map (@rev A))) in E. rewrite !map_map in E.
  rewrite (map_ext _ (fun x => x)), (map_ext (fun x => rev (rev x)) (fun x => x)), !map_id in E by (intros; apply rev_involutive). exact E.
Qed.

(* Python: the C12 mirror law for split holds for a given call if and only if the msb0 cut positions computed on (s, p) equal those
   computed on the bit-reversed (s, p). *)
Theorem split_mirror_iff d p start stop count ba :
  bs_split true d p start stop count ba = res_map (map (@rev bool)) (bs_split false (rev d) (rev p) start stop count ba)
  <-> split_cuts d p start stop count ba = split_cuts (rev d) (rev p) start stop count ba.
Proof.
  rewrite split_lsb0_via_cuts, split_msb0_via_cuts.
  pose proof (proj2 (split_cuts_both false d p start stop count ba)) as C1.
  pose proof (proj2 (split_cuts_both false (rev d) (rev p) start stop count ba)) as C2.
  destruct (split_cuts d p start stop count ba) as [cs|e1]; destruct (split_cuts (rev d) (rev p) start stop count ba) as [cs'|e2];
    cbn [res_map]; split; intros E; try discriminate; try congruence.
  injection E as E. apply map_rev_inj in E.
  destruct (C1 cs eq_refl) as (s & e & Hv & Hch). destruct (C2 cs' eq_refl) as (s' & e' & Hv' & Hch').
  rewrite validate_slice_rev, Hv in Hv'. injection Hv' as <- <-.
  destruct (validate_slice_ok _ _ _ _ _ Hv) as (H0 & H1 & H2).
  f_equal. apply (slices_inj (rev d) e ltac:(rewrite zlen_rev; lia) cs cs' s H0 Hch Hch' E).
Qed.

(* ---------- the violation of C12 by split, on the model (the real library returns the same two lists) ---------- *)
(* options.lsb0 = True; list(Bits('0b01').split('0b0')) == ['', '0b01'] but the mirror law demands ['0b1', '0b0'] *)
Example split_violates_mirror :
  bs_split true [false; true] [false] None None None false = Ok [[]; [false; true]] /\
  res_map (map (@rev bool)) (bs_split false (rev [false; true]) (rev [false]) None None None false) = Ok [[true]; [false]].
Proof. split; vm_compute; reflexivity. Qed.

(* the pieces of an lsb0 split after the first need not begin with the delimiter (in either reading direction) *)
Example split_lsb0_piece_without_delimiter :
  bs_split true [false; false; true; false; true; true; false] [true] None None None false =
  Ok [[true; false]; [false; true]; [true]; [false; false]].
Proof. vm_compute. reflexivity. Qed.

(* the hypothesis of split_mirror_iff is satisfiable on a non-palindromic input: s = 10010, p = 10 *)
Example split_mirror_holds_sometimes :
  let d := [true; false; false; true; false] in let p := [true; false] in
  split_cuts d p None None None false = split_cuts (rev d) (rev p) None None None false /\
  split_cuts d p None None None false = Ok [(0, 0); (0, 3); (3, 5)] /\
  bs_split true d p None None None false = Ok [[]; [false; true; false]; [true; false]].
Proof. repeat split; vm_compute; reflexivity. Qed.

(* ---------- what lsb0 split keeps: the pieces still tile the window, in lsb0 order ---------- *)
Fixpoint chain_end (lo : Z) (cs : list (Z * Z)) : Z := match cs with [] => lo | ab :: rest => chain_end (snd ab) rest end.

Lemma concat_slices (x : bits) hi : hi <= zlen x -> forall cs lo, 0 <= lo -> lo <= hi -> cuts_chain lo hi cs ->
  concat (slices x cs) = sub x lo (chain_end lo cs) /\ lo <= chain_end lo cs /\ chain_end lo cs <= hi.
Proof.
  intros Hhi. induction cs as [|[a b] cs IH]; intros lo H0 H1 C.
  - cbn [slices map concat chain_end]. split; [|lia]. unfold sub. rewrite Z.sub_diag. reflexivity.
  - cbn [cuts_chain fst snd] in C. destruct C as (-> & A1 & A2 & A3). cbn [slices map concat chain_end fst snd].
    destruct (IH b ltac:(lia) A2 A3) as (E & B1 & B2). fold (slices x cs). rewrite E. split; [|lia]. apply sub_app_adj; lia.
Qed.

(* Python, lsb0, no count: the pieces of s.split(p, start, end), taken last to first, concatenate to the lsb0 window s[start:end]
   (which is s[len-end : len-start] in msb0 coordinates), although they are cut at the wrong places. *)
Theorem split_lsb0_partitions_window d p start stop ba s e : p <> [] -> validate_slice d start stop = Ok (s, e) ->
  exists pieces, bs_split true d p start stop None ba = Ok pieces /\ concat (rev pieces) = sub d (zlen d - e) (zlen d - s) /\
                 getslice true d (Some s) (Some e) = Ok (concat (rev pieces)).
Proof.
  intros Hp Hv. destruct (validate_slice_ok _ _ _ _ _ Hv) as (H0 & H1 & H2).
  destruct (split_partitions_window d p start stop ba s e Hp Hv) as (mp & Hm & Hcat).
  rewrite split_msb0_via_cuts in Hm. rewrite split_lsb0_via_cuts.
  pose proof (proj2 (split_cuts_both false d p start stop None ba)) as C.
  destruct (split_cuts d p start stop None ba) as [cs|err]; [|discriminate]. cbn [res_map] in *. injection Hm as <-.
  destruct (C cs eq_refl) as (s' & e' & Hv' & Hch). rewrite Hv in Hv'. injection Hv' as <- <-.
  destruct (concat_slices d e H2 cs s H0 H1 Hch) as (E1 & B1 & B2).
  assert (Hend : chain_end s cs = e).
  { rewrite E1 in Hcat. apply (f_equal zlen) in Hcat. rewrite !zlen_sub in Hcat by lia. lia. }
  destruct (concat_slices (rev d) e ltac:(rewrite zlen_rev; lia) cs s H0 H1 Hch) as (E2 & _).
  assert (R : concat (rev (map (@rev bool) (slices (rev d) cs))) = sub d (zlen d - e) (zlen d - s)).
  { rewrite concat_rev_map_rev, E2, Hend, sub_rev by lia. apply rev_involutive. }
  exists (map (@rev bool) (slices (rev d) cs)). split; [reflexivity|]. split; [exact R|].
  rewrite getslice_piece by lia. f_equal. rewrite piece_lsb0_sub by lia. symmetry. exact R.
Qed.

(* the hypotheses of split_lsb0_partitions_window on a proper window: s = 0010110, p = 1, start = 1, end = -1 *)
Example split_lsb0_partition_example :
  let d := [false; false; true; false; true; true; false] in
  validate_slice d (Some 1) (Some (-1)) = Ok (1, 6) /\
  split_cuts d [true] (Some 1) (Some (-1)) None false = Ok [(1, 2); (2, 4); (4, 5); (5, 6)] /\
  bs_split true d [true] (Some 1) (Some (-1)) None false = Ok [[true]; [false; true]; [true]; [false]] /\
  getslice true d (Some 1) (Some 6) = Ok [false; true; false; true; true].
Proof. repeat split; vm_compute; reflexivity. Qed.

Print Assumptions startswith_mirror.
Print Assumptions endswith_mirror.
Print Assumptions cut_mirror.
Print Assumptions replace_mirror.
Print Assumptions split_msb0_via_cuts.
Print Assumptions split_lsb0_via_cuts.
Print Assumptions split_lsb0_pieces.
Print Assumptions split_mirror_iff.
Print Assumptions split_lsb0_partitions_window.
