#!/usr/bin/env python3
"""Regenerate the table of seeded changes in DESIGN.md (between the SEEDED-TABLE markers) from seeded/*/meta.json and seeded/RESULTS.json."""
import json, os, re, sys
V = os.path.dirname(os.path.dirname(os.path.abspath(__file__)))
res = json.load(open(f'{V}/seeded/RESULTS.json'))
rows = ['| change | files | what it does | target check (latest recorded runs, quick tier) |', '|---|---|---|---|']
tot = caught = 0
for d in sorted(os.listdir(f'{V}/seeded')):
    mp = f'{V}/seeded/{d}/meta.json'
    if not os.path.exists(mp): continue
    m = json.load(open(mp)); tot += 1
    r = res.get(d, {}).get('checks', {})
    mine = {k: v for k, v in r.items() if k.startswith(m['property'] + '/quick/')}
    latest = mine
    n_ok = sum(1 for v in latest.values() if v['rc'] == 1 and v['violation'])
    inp = sum(1 for v in latest.values() if v.get('found_input'))
    if latest and n_ok == len(latest): caught += 1
    verdict = f'caught on {n_ok}/{len(latest)} seeds' + (f' ({inp} with a failing input)' if inp != n_ok else '') if latest else 'not run'
    s = m['summary'].replace('|', '/').replace('\n', ' ')
    rows.append(f"| {d} | {', '.join(m.get('files', []))} | {s[:200]}{'...' if len(s) > 200 else ''} | {verdict} |")
text = '\n'.join(rows)
p = f'{V}/DESIGN.md'; s = open(p).read()
a, b = '<!-- SEEDED-TABLE-BEGIN -->', '<!-- SEEDED-TABLE-END -->'
if a in s:
    s = s[:s.index(a) + len(a)] + '\n' + text + '\n' + s[s.index(b):]
    open(p, 'w').write(s)
print(f'{caught} of {tot} caught by the target check on every recorded seed')
