#!/bin/bash
# usage: tools/clean_check.sh PROP [seeds...]   - the check on the unchanged tree: quick tier on the given seeds (default 0 1 2 3), once more with every
# change-triggered escalation forced on, evidence and replays redirected to /tmp (the committed evidence is not touched).
p=$1; shift; seeds=${@:-0 1 2 3}; ev=/tmp/ev_clean_$$
cd /verif
for s in $seeds; do VERIF_SEED=$s VERIF_EVIDENCE_DIR=$ev VERIF_REPLAYS_DIR=$ev timeout 3000 ./check $p --tier quick 2>&1 | grep -v "^KNOWN" | tail -2 | cut -c1-600; done
VERIF_FORCE_ESCALATE=1 VERIF_SEED=7 VERIF_EVIDENCE_DIR=$ev VERIF_REPLAYS_DIR=$ev timeout 6000 ./check $p --tier quick 2>&1 | grep -v "^KNOWN" | tail -2 | cut -c1-600
rm -rf $ev
