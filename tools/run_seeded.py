#!/venv/bin/python
"""Run the checks against the seeded changes kept under /verif/seeded/<name>/.

For each seeded change: make sure /repo is clean, `git apply` the patch, run the demonstration (must
exit 1), run the quick (and optionally thorough) check of the target property (and of any extra
properties named on the command line), record exit code / VIOLATION line / whether a failing input
was found, and undo the patch (`git checkout -- .`).  Nothing is committed in /repo.

usage: run_seeded.py [--tier quick|thorough] [--all-props] [--also C06,C20] [names...]
Writes seeded/RESULTS.json (merged with earlier results) and prints one line per (change, check).
"""
import json, os, subprocess, sys, time, glob

VERIF = os.path.dirname(os.path.dirname(os.path.abspath(__file__)))
REPO = os.environ.get('VERIF_REPO', '/repo')       # a scratch worktree when the runs are made in the background
ALL = [f'C{i:02d}' for i in range(1, 21)]


def sh(cmd, **kw):
    return subprocess.run(cmd, shell=True, capture_output=True, text=True, **kw)


def repo_clean():
    r = sh(f'git -C {REPO} status --porcelain --untracked-files=no')
    return r.stdout.strip() == ''


def undo():
    sh(f'git -C {REPO} checkout -- .')
    for f in glob.glob(f'{REPO}/tests/temp_*'):
        try:
            os.remove(f)
        except OSError:
            pass


def run_check(pid, tier, seed):
    env = dict(os.environ, VERIF_SEED=str(seed), VERIF_TIER=tier)
    t0 = time.time()
    try:
        r = subprocess.run([f'{VERIF}/check', pid, '--tier', tier], capture_output=True, text=True,
                           env=env, timeout=3600)
        out, rc = r.stdout + r.stderr, r.returncode
    except subprocess.TimeoutExpired:
        out, rc = 'TIMEOUT', 124
    vio = [l for l in out.splitlines() if l.startswith('VIOLATION')]
    det = [l for l in out.splitlines() if l.startswith('DETAIL')]
    return {'rc': rc, 'violation': vio[:1], 'detail': det[:3],
            'found_input': bool(vio) and not vio[0].rstrip().endswith('no-failing-input-found'),
            'wall': round(time.time() - t0, 1)}


def main():
    args = sys.argv[1:]
    tier, also, allp, seeds = 'quick', [], False, [0]
    names = []
    while args:
        a = args.pop(0)
        if a == '--tier':
            tier = args.pop(0)
        elif a == '--also':
            also = args.pop(0).split(',')
        elif a == '--all-props':
            allp = True
        elif a == '--seeds':
            seeds = [int(x) for x in args.pop(0).split(',')]
        else:
            names.append(a)
    if not names:
        names = sorted(d for d in os.listdir(f'{VERIF}/seeded') if os.path.isdir(f'{VERIF}/seeded/{d}'))
    resfile = os.environ.get('VERIF_SEEDED_RESULTS') or f'{VERIF}/seeded/RESULTS.json'
    results = json.load(open(resfile)) if os.path.exists(resfile) else {}
    if not repo_clean():
        print('refusing: /repo has uncommitted changes to tracked files'); sys.exit(2)
    # the evidence files describe the unchanged tree: keep them aside while the checks run against changed trees
    import shutil, tempfile
    keep = tempfile.mkdtemp(prefix='verif_evidence_')
    for f in glob.glob(f'{VERIF}/evidence/*.json'): shutil.copy(f, keep)
    try:
        _run(names, results, resfile, tier, also, allp, seeds)
    finally:
        for f in glob.glob(f'{keep}/*.json'): shutil.copy(f, f'{VERIF}/evidence/')
        shutil.rmtree(keep, ignore_errors=True)
    if not repo_clean():
        print('WARNING: /repo not clean after run'); sys.exit(2)


def _run(names, results, resfile, tier, also, allp, seeds):
    for name in names:
        d = f'{VERIF}/seeded/{name}'
        meta = json.load(open(f'{d}/meta.json'))
        target = meta['property']
        props = ALL if allp else [target] + [p for p in also + meta.get('also', []) if p != target]
        r = sh(f'git -C {REPO} apply {d}/patch.diff')
        if r.returncode != 0:
            print(f'{name}: patch does not apply: {r.stderr.strip()}'); undo(); continue
        try:
            demo = sh(f'PYTHONPATH={REPO} PYTHONHASHSEED=0 timeout 600 /venv/bin/python {d}/{meta["demo"]}')
            entry = results.setdefault(name, {})
            entry['property'] = target
            entry['summary'] = meta.get('summary', '')
            entry['demo_rc_on_changed_tree'] = demo.returncode
            for p in props:
                for seed in seeds:
                    res = run_check(p, tier, seed)
                    entry.setdefault('checks', {})[f'{p}/{tier}/seed{seed}'] = res
                    verdict = 'CAUGHT' if res['rc'] == 1 and res['violation'] else ('missed' if res['rc'] == 0 else f'rc={res["rc"]}')
                    print(f'{name} target={target} check={p} tier={tier} seed={seed}: {verdict}'
                          f'{" (input)" if res["found_input"] else ""} {res["wall"]}s  {res["detail"][:1]}', flush=True)
        finally:
            undo()
        json.dump(results, open(resfile, 'w'), indent=1, sort_keys=True)


if __name__ == '__main__':
    main()
