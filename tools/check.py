#!/usr/bin/env python
"""./check <Cxx> [--tier quick|thorough] [--replay path]"""
import os, sys, argparse, importlib, traceback
sys.path.insert(0, os.path.dirname(os.path.abspath(__file__)))
sys.path.insert(0, os.environ.get('VERIF_REPO', '/repo'))
import vlib

def limit_memory():
    """An address-space ceiling for this process and its children (coqc): a change to the library that makes some call allocate without bound
    (seeded change C05d: a cached token list extended in place on every call) then raises MemoryError inside the call - an observation the
    oracle judges - instead of the whole check being killed by the kernel with no verdict. VERIF_MEM_GB overrides the 12 GB default."""
    try:
        import resource
        cap = int(float(os.environ.get('VERIF_MEM_GB', '12')) * (1 << 30))
        soft, hard = resource.getrlimit(resource.RLIMIT_AS)
        if hard == resource.RLIM_INFINITY or cap < hard:
            resource.setrlimit(resource.RLIMIT_AS, (cap, hard))
    except Exception:
        pass

def main():
    limit_memory()
    ap = argparse.ArgumentParser()
    ap.add_argument('prop')
    ap.add_argument('--tier', default=os.environ.get('VERIF_TIER', 'quick'), choices=['quick', 'thorough'])
    ap.add_argument('--replay')
    a = ap.parse_args()
    seed = int(os.environ.get('VERIF_SEED', '0') or 0)
    mod = importlib.import_module('props.' + a.prop.lower())
    drive = getattr(mod, 'custom_drive', None)
    if drive:
        return drive(a.tier, seed, a.replay)
    return vlib.drive(mod, a.tier, seed, a.replay)

if __name__ == '__main__':
    try:
        sys.exit(main())
    except SystemExit:
        raise
    except BaseException:
        traceback.print_exc()
        sys.exit(2)
