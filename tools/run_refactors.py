#!/venv/bin/python
"""Run the checks against behaviour-preserving rewrites (harmless refactorings): none may raise an alarm.
usage: run_refactors.py DIR...   each DIR holds r*.diff; a scratch worktree of /repo is used (VERIF_REPO), evidence goes to a scratch directory.
For each diff the quick check of every property whose pinned functions changed is run; prints one line per (diff, property)."""
import glob, json, os, subprocess, sys, time
V = os.path.dirname(os.path.dirname(os.path.abspath(__file__)))
sys.path.insert(0, os.path.join(V, 'tools'))
from gen import sources
WT = os.environ.get('REFAC_WT', '/tmp/wt/refac_run')
EV = os.environ.get('REFAC_EV', '/tmp/refac_ev')                 # several instances may run side by side: give each its own worktree, evidence directory and result file
OUT = os.environ.get('REFAC_OUT', '/tmp/refac_results.json')
def sh(c): return subprocess.run(c, shell=True, capture_output=True, text=True)
def main():
    sh(f'git -C /repo worktree remove --force {WT}'); r = sh(f'git -C /repo worktree add --detach {WT} HEAD -q'); assert r.returncode == 0, r.stderr
    out = {}
    try:
        for d in sys.argv[1:]:
            for diff in sorted(glob.glob(f'{d}/r*.diff')):
                name = os.path.basename(d.rstrip('/')) + '/' + os.path.basename(diff)
                sh(f'git -C {WT} reset -q --hard')
                r = sh(f'git -C {WT} apply {diff}')
                if r.returncode:
                    r = sh(f'git -C {WT} apply --3way {diff}')          # written against an earlier HEAD: the fix: commits since moved the context
                    if r.returncode or 'with conflicts' in (r.stdout + r.stderr): print(f'{name}: does not apply: {r.stderr.strip()[:100]}'); sh(f'git -C {WT} reset -q --hard'); continue
                    sh(f'git -C {WT} reset -q')
                pids = [f'C{i:02d}' for i in range(1, 21) if sources.changed_functions(WT, f'C{i:02d}')]
                for pid in pids:
                    if pid == 'C20' and len(pids) > 1 and os.environ.get('REFAC_C20') != '1': pass
                    t = time.time()
                    env = dict(os.environ, VERIF_REPO=WT, VERIF_EVIDENCE_DIR=EV, VERIF_REPLAYS_DIR=EV, VERIF_SEED=os.environ.get('VERIF_SEED', '0'))
                    p = subprocess.run([f'{V}/check', pid, '--tier', 'quick'], capture_output=True, text=True, env=env, timeout=3600)
                    vio = [l for l in (p.stdout + p.stderr).splitlines() if l.startswith('VIOLATION') or l.startswith('DETAIL')]
                    ev = {}
                    try: ev = json.load(open(f'{EV}/{pid}.json'))['coverage'].get('kernel_bridges', {})
                    except Exception: pass
                    print(f'{name} {pid}: rc={p.returncode} {"ALARM " + vio[0][:300] if p.returncode else "quiet"} unproved={ev.get("unproved")} untranslatable={ev.get("untranslatable")} {time.time() - t:.0f}s', flush=True)
                    out.setdefault(name, {})[pid] = {'rc': p.returncode, 'lines': vio[:3], 'kernel_bridges': ev}
                sh(f'git -C {WT} reset -q --hard')
    finally:
        sh(f'git -C /repo worktree remove --force {WT}')
    json.dump(out, open(OUT, 'w'), indent=1)
main()
