#!/usr/bin/env python3
"""Regenerate /verif/MANIFEST.json from the table below (run by hand after adding a check)."""
import json, os
HERE = os.path.dirname(os.path.dirname(os.path.abspath(__file__)))
ALL = [f'C{i:02d}' for i in range(1, 21)]

CLAIMED = {
 'C10': dict(
    text=('Machine-checked Coq theorems over a function-by-function Gallina model of the eight exp-Golomb encoders/decoders: '
          'codewords equal the H.264/Dirac tables for every integer, decode(pre ++ code ++ rest) returns the integer and advances exactly one codeword, '
          'any finite stream of mixed codes round-trips, every proper prefix of a codeword raises ReadError / InterpretError, a codeword plus extra bits is refused. '
          'The model is tied to /repo on every run by differential correspondence (model evaluated by vm_compute inside coqc vs the real implementation through seven routes) '
          'and an oracle written from the standards\' tables turns any break into a concrete replay.'),
    note='Trusted: Coq kernel + vm_compute; Prims.v models of bitarray indexing/slicing/int2ba (L0-tested); hand model faithfulness is differential (exhaustive |n|<=300 / all bit strings <=7 bits in quick; 5000 / 12 in thorough). msb0 only; lsb0 refusal is oracle-checked.',
    technique='Coq proof (induction over positive/list) + vm_compute correspondence', design='§5 C10'),
 'C01': dict(
    text=('Coq theorems over the model of Bits.__getitem__/__add__/__radd__/__mul__/_imul/__iter__/__len__/__bool__: + is list append whichever operand is copied, the result class is the left operand\'s, '
          'the doubling loop of * yields exactly n copies for every n>=0 (loop invariant, fuel bound proved), negative n raises ValueError, iteration yields the bits, out-of-range index raises IndexError; '
          'indexing/slicing are Python sequence semantics (Prims.seq_slice, itself compared with CPython slicing). Tied to /repo by vm_compute correspondence over four classes, nine construction routes and promotable operands; a str-model oracle gives the replay.'),
    note='Trusted: Coq kernel; bitarray slicing modelled as Python list slicing (L0-tested each run); hand model tied by differential correspondence (exhaustive (start,stop,step) for lengths<=5 quick / 7 thorough). msb0 only (lsb0 is C12); file-backed stores are C08.',
    technique='Coq proof (loop invariant, list induction) + vm_compute correspondence', design='§5 C01'),
 'C16': dict(
    text=('Coq theorems over the model of & | ^ ~ << >> and their in-place forms: pointwise boolean function with fixed length, ValueError on length mismatch, Error for ~ of empty, '
          'shift semantics incl. n>=len and errors, in-place shifts equal pure shifts, the same-object shortcut is sound, ~~s=s, s^s=0, De Morgan, and agreement with Z.land/Z.lor/Z.lxor/Z.lnot/shift on the unsigned value masked to len bits. '
          'Tied to /repo by vm_compute correspondence; an integer-arithmetic oracle (operands unchanged, result class, stream positions) gives the replay.'),
    note='Trusted: Coq kernel; bitarray element-wise operators modelled as map2 (exercised by the same cases); hand model tied by differential correspondence.',
    technique='Coq proof (list induction, Z.testbit) + vm_compute correspondence', design='§5 C16'),
 'C03': dict(
    text=('Coq theorem step_refines: for every content and every argument value, the model of insert/overwrite/append/prepend/del/set/invert/reverse/rol/ror/<<=/>>=/clear equals a '
          'specification written with firstn/skipn/rev/++ only (same new content or same exception), lifted by induction to every finite program (program_refines), plus the frame theorem '
          '(bits outside [s,e) and the length are unchanged). Further theorems: set(v, iterable) characterised bit by bit (a bit is v exactly when listed before the first invalid position, IndexError exactly then, length kept); '
          'set(v, range) - the slice fast path equals the per-position loop for every range; invert(iterable) frame; *= n is n copies; byteswap(fmt, start, end, repeat) equals its pattern/group specification for every size list, '
          'window and repeat flag, returns the number of patterns, leaves the rest of the window, the outside and the length unchanged, and the group operation is proved to be "the same bytes in the opposite order" (an involution). '
          'Slice/item assignment with ints, replace and &= |= ^= are modelled, tied per step along random programs and oracle-checked. Correspondence runs random programs of 1-12 mutators plus single steps at exact boundaries, state compared after every step.'),
    note='Unit-step slice assignment (bits and integers) and deletion are proved for any start/stop (C03_slice_assignment_*); not yet proved against the list spec: extended-step slice assignment/deletion, in-place & | ^ (C16 covers the operators); replace is C07_replace. Trusted: Coq kernel; bitarray slice assignment/deletion modelled in Prims (ba_setslice/ba_delslice; exercised by the same cases); hand model tied by per-step differential correspondence; the str reference model (tools/props/refmodel.py) is the oracle.',
    technique='Coq proof (refinement to list spec, loop invariants, induction over programs) + vm_compute correspondence', design='§5 C03'),
 'C07': dict(
    text=('Coq model of BitStore.find/rfind/findall_msb0 (byte fast path and general path), Bits.find/rfind/findall/__contains__/cut/split/startswith/endswith/count and BitArray._replace. '
          'Proved for all data, patterns, windows, counts and both alignments (msb0): the general path AND the byte fast path (bytes.find over tobytes() of the byte window, overlapping matches included) '
          'equal the brute-force filter; findall = its first `count` elements, find = its head, rfind = its last element, `in` = non-emptiness, every reported position is an occurrence inside the window '
          'and every occurrence is reported; split partitions the window (the pieces concatenate to d[start:end], every piece after the first begins with the delimiter); replace splices `new` at occurrences of `old` '
          'inside the window that are increasing, non-overlapping and at most `count`, returns their number, changes the length by n*(|new|-|old|) and leaves everything before and after the window unchanged; '
          'empty patterns are rejected by find/findall/split; count totals. The lsb0 variants of find/rfind/findall are proved in C12 (mirror of the msb0 search).'),
    note='Not proved: split with a count (prefix of the partition), cut, startswith/endswith (one-line models), and the lsb0 variants of split/replace; these rest on differential correspondence (860 quick / 15000+ thorough cases incl. >8192-bit data, overlapping self-similar patterns) and the brute-force oracle. Trusted: Prims.search_all as the model of bitarray.search/find, Search.bytes_find as bytes.find.',
    technique='Coq proof (sorted-list extensionality, loop invariants) + vm_compute correspondence + brute-force oracle', design='§5 C07'),
 'C12': dict(
    text=('Coq theorems, for all contents and arguments: lsb0 indexing is msb0 indexing of the reversed bits; lsb0 slicing with ANY key (any start/stop, positive or negative step; both accessors) is the reversed msb0 slice of the reversed bits '
          '(the repo\'s own hypothesis test states this for positive steps and lengths <= 9); single-bit assignment, inversion and deletion, unit-step slice assignment (operand mirrored too) and deletion obey the mirror law; '
          'find, rfind and findall under lsb0 - the chunked scan from the end backwards, for every data size, count and alignment - equal the msb0 search of the mirrored pattern in the mirrored data. '
          'The remaining positional operations (extended-step assignment/deletion, set/invert over iterables, startswith/endswith, cut, replace, insert/overwrite/append/prepend, ranged reverse/byteswap, rol/ror, read and pack order, '
          'mode-free interpretations, toggling) are modelled with the lsb0 method table and checked against the mirror of the msb0 reference on every run.'),
    note='PARTIAL only for the operations listed last (tied by correspondence with lsb0=true and decided by the mirror oracle). Ten lsb0 defects found this way were repaired (known_findings.json).',
    technique='Coq proof (nia over div/mod, sorted-list extensionality, loop invariants) + vm_compute correspondence + mirror oracle', design='§5 C12'),
 'C06': dict(
    text=('Coq model of the stream classes as a (bits, pos) machine: read/peek with fixed, stretchy, variable-length and integer tokens, readlist/peeklist/unpack with the stretchy-token arithmetic, readto, '
          'pos/bytepos/bytealign, find/rfind, and every BitStream override that moves pos. Proved: peek/peeklist leave the stream unchanged and return read\'s value; a failing read/readlist/positioning/search/mutator restores the state; '
          '0<=pos<=len is preserved by EVERY operation (reads, list reads, positioning, find/rfind/readto - using the search theorems of C07 -, append, prepend, insert, overwrite incl. s.overwrite(s), item/slice assignment and deletion, replace, clear, *=) '
          'and hence by every finite history (induction over the operation list). Needs: decoders move forward and stay inside the data (proved), Dtype lengths are non-negative (false on the pinned tree, repaired). '
          'Histories of 3-25 operations are compared step by step with the model and with an independent (bits, pos) reference machine.'),
    note='Proved for msb0 mode; under lsb0 the same histories are exercised by correspondence only. Trusted: token interpretations are those of C02/C10; the content side of the mutators is C03.',
    technique='Coq proof (invariant by case analysis per operation, induction over histories) + vm_compute correspondence + reference machine', design='§5 C06'),
 'C08': dict(
    text=('Coq model of BitStore\'s buffer + modified_length mechanism and of _setfile/_setbytes_with_truncation/_setbitarray/BytesIO windows. Proved: every file route yields a well-formed store whose bits are exactly the selected window; '
          'on well-formed stores len, ==, count, indexing, invert, +, copy depend only on the content (the pinned tree built stores that were not well formed - repaired). '
          'Each run builds every content through ~26 routes incl. real temporary files and compares ~65 operations with the bin= object under msb0 and lsb0.'),
    note='Trusted: a file is its bytes (mmap not modelled); the differential battery is the tie for the public API; window models are tied in the C17 check.',
    technique='Coq proof (well-formedness invariant) + route-differential battery', design='§5 C08'),
 'C13': dict(
    text=('Coq theorems: == on well-formed stores holds iff the bit contents are equal, hence reflexive/symmetric/transitive; equal bits give equal hash input for every length (whole value up to 2000 bits, else the first/last 800 bits at absolute positions + length). '
          'The hash input is captured at run time by wrapping hash() inside bitstring.bits and compared with the model; pairs/triples over classes, routes, positions, 1999..2001/3601/8193-bit lengths, promotable and non-promotable operands.'),
    note='Trusted: hash() of a tuple is a function of the tuple; run-time wrapping of hash in the harness process (no source hook).',
    technique='Coq proof + vm_compute correspondence of the captured hash input', design='§5 C13'),
 'C17': dict(
    text=('Coq theorems: the bytes=/file window equals the selected sub-list exactly when 0<=offset, 0<=length, offset+length<=size and is rejected otherwise; the bytes property refuses non-whole-byte lengths; '
          'tofile = tobytes for EVERY chunk size that is a positive multiple of 8 and every length (so also at exact multiples of the chunk size), instantiated at the chunk constant read from the source each run; '
          'tobytes(a ++ b) = tobytes(a) ++ tobytes(b) for whole-byte a. '
          'The window models of bytes=, BytesIO (byte-offset arithmetic), bitarray= and filename=/file handle are evaluated against the implementation for all windows over 0-3-byte sources; tobytes/bytes()/.bytes/tofile (BytesIO and real file) '
          'and Array tobytes/tofile/fromfile are oracle-checked; tofile itself is additionally run with its chunk literal swapped for 8/16/64 (code object re-instantiated) at lengths below, at and above multiples of the chunk. Thorough writes 100 MiB + 13 bits into a hashing sink.'),
    note='Proof complete for the modelled functions. Trusted: a file is its bytes; an empty file cannot be memory-mapped (excluded); Search.bs_cut as the model of Bits.cut (tied by correspondence).',
    technique='Coq proof + vm_compute correspondence + oracle', design='§5 C17'),
 'C04': dict(
    text=('Coq heap model (objects -> stores with the advisory immutable flag, string cache with arbitrary eviction) whose transitions are the store-flow of every derivation route as read from the code. '
          'Proved: the invariant "a mutable object\'s store is unflagged, in no cache entry and referenced by no other object" holds initially and is preserved by every transition, hence over all histories; '
          'the value of any object that is not itself the target of a mutation is unchanged by any history (isolation, with an arbitrary mutation function f); Bits/ConstBitStream values never change at all. '
          'Each run replays random histories (create by 13 routes, derive by 22, mutate by 15 + external bytearray/bitarray/array/tobitarray) on the implementation, re-reads every object after every step, '
          'and compares the sharing graph (which objects hold the same BitStore) and all values with the model.'),
    note='Trusted: the per-route store-flow table is hand-modelled and tied by the sharing-graph correspondence; identity is observed via id(o._bitstore) in the harness only. Five sharing defects of the pinned tree were repaired (known_findings.json).',
    technique='Coq proof (heap invariant by induction over histories) + sharing-graph correspondence', design='§5 C04'),
 'C09': dict(
    text=('Coq theorems, generic over arguments, options, keys and values: if the cache key determines the computation then every history of calls (each under its own current options) interleaved with arbitrary evictions '
          'returns exactly what the undecorated function returns (any capacity, any eviction policy); installing an option table after any history of toggles leaves every patched attribute bound as that table says. '
          'The premise is discharged per run by generated obligations: a translator computes, from the working tree, every lru_cache site, the options in its key and the options read anywhere below it in the call graph, '
          'and coqc checks reads within key; the two set_lsb0 dictionaries are extracted and checked to have identical, duplicate-free keys and to equal the dispatch the model uses. '
          'Histories of ~660 calls over >256 distinct keys per cache are compared call by call with cold-cache execution.'),
    note='Trusted: the static call graph (name-based, over-approximating; dynamic dispatch through set_fn/get_fn/read_fn resolved to all dtype functions), validated by the warm-vs-cold differential run; lru_cache modelled as an association list.',
    technique='Coq proof (generic memoisation theorem) + generated obligations from a call-graph translator + warm/cold differential', design='§5 C09'),
 'C02': dict(
    text=('Coq theorems for every width n>0 and every in-range value: unsigned and two\'s-complement encoding produce exactly n bits, equal to the MSB-first canonical encoding, and decode back; every non-empty pattern is the canonical encoding of its value; '
          'little-endian is the byte reversal of big-endian; bytes round-trip. The dtype register (names, signedness, allowed lengths, multipliers, setters/getters, native-endian aliases by sys.byteorder) is regenerated from __init__.py on every run and bridged to the model table. '
          'Six creation routes x five reading routes x four classes are checked against int.to_bytes/format()/struct and the model.'),
    note='PARTIAL: floats are tied to struct by the oracle only (bit patterns / float.hex compared); route agreement rests on correspondence. Trusted: translator tools/gen/dtypes.py (fail-closed, bridged by reflexivity).',
    technique='Coq proof (Z arithmetic over pow/mod) + generated table bridge + vm_compute correspondence', design='§5 C02'),
 'C11': dict(
    text=('Spec in Coq of every format (sign/exponent/mantissa, subnormals, special codes) over exact dyadic values, and of encoding as round-to-nearest-even with the IEEE overflow rule. On every run the nine 65536-entry encode tables, nine decode tables, clamp codes and format parameters '
          'are regenerated from luts.py/mxfp.py/fp8.py and coqc checks, exhaustively by vm_compute (bounds stated: 2^16 inputs, 2^bits codes): table[h] is the spec code for every half input, every code decodes to the format value, clamp codes are the overflow codes, decode-then-encode is the identity on non-NaN codes. '
          'Proved for all floats: the library returns the spec code of the half-precision rounding or the overflow code; the rounding primitive is nearest with ties to even. mxint/e8m0/bfloat and scaled dtypes are checked against exact fractions; the binary64->binary16 model is compared with struct on every case.'),
    note='Trusted: translator tools/gen/luts.py (zlib decompression, run-length emission re-expanded and compared); half_rne as the model of struct.pack(">e") (correspondence-tested); mxint is modelled on exact values (the float additions of the library are assumed exact: oracle-checked incl. midpoints +-1ulp).',
    technique='Coq spec + exhaustive vm_compute obligations over generated tables, lifted by forallb_forall', design='§5 C11'),
 'C15': dict(
    text=('Coq theorem int_classification: for every integer kind, every width n>0 and every value, creation succeeds with exactly n bits iff the value is in range and otherwise raises CreationError; zero/missing/negative lengths and windows beyond the data are rejected. '
          'All dtypes x valid/invalid lengths x values at, inside and outside each limit x seven routes (incl. property assignment and Array element assignment, whose targets must stay unchanged) are checked by the oracle and, for integers, against the model.'),
    note='Trusted: hand model of get_dtype / setters tied by correspondence; non-integer dtypes are oracle-only.',
    technique='Coq proof (lia over Z.pow) + vm_compute correspondence + oracle', design='§5 C15'),
 'C18': dict(
    text=('Generated obligation (vm_compute over the tables extracted from utils.py each run): every struct code in REPLACEMENTS_BE/LE/NE names the dtype of struct\'s standard size, signedness and that table\'s endianness, and PACK_CODE_SIZE agrees. '
          'Codec theorems shared with C02 (little-endian = byte-reversed big-endian, byte reversal involutive, whole-byte round trip). pack/unpack vs struct, Array vs struct/array.array (kind and width), le/be/ne relations and byteswap are checked on every run. '
          'Known finding D19: \'@\' means \'=\' (documented and pinned by the test-suite).'),
    note='Trusted: the real struct and array modules as reference; translator tools/gen/dtypes.py.',
    technique='Generated finite obligations (vm_compute) + Coq codec theorems + oracle against struct/array', design='§5 C18'),
 'C05': dict(
    text=('Coq theorems over the token-level model of pack / bitstore_from_token / _read_dtype_list: the packed length is the sum of the token lengths; unpack on the packed bits returns the values (uint, int, bits, bool, pad, count and the four exp-Golomb tokens, in any order, embedded or positional values); '
          'formats compose (bits for f1++f2 = bits for f1 followed by bits for f2) and n*(f) is f written n times; too few or too many values raise CreationError. '
          'Formats drawn from the grammar (every dtype and length spelling, struct codes, nested brackets and factors, whitespace, keyword lengths, one stretchy token) are checked against independently computed per-token encodings, with embedded-value strings, splits and a malformed stream.'),
    note='PARTIAL: the string front end (tokenparser, preprocess_tokens, expand_brackets, structparser) is not modelled in Coq; it is tied by the grammar oracle (flattening, end-to-end bits) and by termination checks. Two parser defects (non-termination, factor 0) were repaired.',
    technique='Coq proof (induction over token lists, composition with C02/C10 round trips) + vm_compute correspondence + grammar oracle', design='§5 C05'),
 'C14': dict(
    text=('Coq theorems over the model of Array on its data bits with item width w: with data = concat(items) ++ trailing (each item w bits, trailing shorter than w), len, trailing_bits, indexing (negative and out of range), '
          'item assignment, item deletion, append (refused with trailing bits), insert (clamped like list.insert), pop and slicing with ANY key (any start/stop, positive or negative step; the result carries no trailing bits) are exactly the Python list operation on the items and leave the trailing bits untouched. '
          'Random programs of list operations and element-wise operators on 28 dtypes (incl. bytesN, struct codes, 8-bit floats), with and without trailing bits, are compared with a Python list + encoder reference after every step.'),
    note='PARTIAL: slice assignment/deletion, extend, reverse, count, equals, copy, dtype change and the element-wise operators are oracle-checked, not proved. Items are identified with their encodings (codec round trips are C02/C11).',
    technique='Coq proof (abstraction function over concat) + vm_compute correspondence + list-model oracle', design='§5 C14'),
 'C19': dict(
    text=('Coq theorems over the model of __str__: for every content of at most MAX_CHARS*4 bits the printed hex digits and binary tail parse back to exactly the content and the form is not marked truncated; longer contents are marked truncated and show exactly the first MAX_CHARS*4 bits. '
          'Coq theorems over the model of the _pp layout arithmetic (bits per line and characters per line for grouped and ungrouped, one and two formats, offset column): a full line is wider than `width` only when it holds a single unit, '
          'a line never splits a group, and every line makes progress; the model is compared with the implementation (bits and characters of the first full line) on every run. '
          'MAX_CHARS is read from the working tree each run. str/repr round trips (class, pos, lsb0), truncation marks, pp digits in order / columns / trailing bits / width / no escapes under no_color, and Array.__repr__ are oracle-checked.'),
    note='PARTIAL: repr/eval round trip, the digit content of pp lines and Array.__repr__ are oracle-only; the pp theorems cover the layout arithmetic (msb0 order of columns; the same numbers under lsb0).',
    technique='Coq proof (digit-chunk induction; nia over the layout arithmetic) + vm_compute correspondence + output-parsing oracle', design='§5 C19'),
 'C20': dict(
    text=('Coq theorems for the modelled API: every mutator either succeeds or raises a documented exception - never AssertionError, AttributeError, KeyError, ZeroDivisionError or an exhausted fuel (from the refinement to the list spec); '
          'the exp-Golomb decoders terminate from any non-negative position in any data and fail only with ReadError (fuel sufficiency proved); repetition terminates for every n>=0. '
          'An introspection-driven sweep calls every public callable and settable property of the four classes, Array, Dtype and pack with adversarial well-typed arguments in sequences under msb0/lsb0 and checks exception classes and post-call validity of every object and of the module options.'),
    note='PARTIAL by construction: the theorems cover the modelled operations; the sweep is exploration for the rest. Read-only property assignment (Python\'s own AttributeError), undocumented argument types and infeasible sizes are outside the property.',
    technique='Coq proof (totality / fuel sufficiency) + introspection-driven adversarial sweep', design='§5 C20'),
}

# round 3: theorems added since the texts above were written, and the kernel tie
ADDED = {
 'C01': ' Kernel tie: `indices` and `offset_slice_indices_lsb0` are translated from the source on every run and bridged (forall arguments) to the hand model.',
 'C03': ' Round 3: the Python source of insert, overwrite, reverse, rol, ror, _rol_msb0, _ror_msb0, <<=, >>=, *=, _insert, _overwrite, _delete, _reversebytes, _validate_slice is translated to Gallina on every run and a bridge obligation (translated source = this model, for all arguments) is proved by case analysis; when a bridge breaks the arguments on which the two differ are found by exhaustive small-domain evaluation and replayed on the implementation.',
 'C05': ' Round 5 (Tokenizer.v): utils.expand_brackets is modelled on character lists and proved for all strings: termination (no fuel bound in the length exists; one is given for unnested formats), no brackets left, identity on bracket-free formats, n*(f) = f written n times (any spelling of n, nested bodies), composition at a comma, token counts; the model is run against utils.expand_brackets on the generated formats.',
 'C15': ' Round 5 (DtypeLen.v): total classification for EVERY row of the dtype register, every length argument (none / any integer) and every value through Dtype.build, the keyword route and the token route: success iff the length is accepted and the value fits, then exactly the encoding with exactly length*multiplier bits; every failure is ValueError; accepted integers read back unchanged.',
 'C06': ' Round 5 (StreamLsb.v): the machine with options.lsb0 as a parameter (equal to the msb0 machine with the option off): in both bit numberings every operation and history keeps 0<=pos<=len, failing operations restore the state (readto included), peeks are pure, mutators leave pos as documented. Round 3: twelve stream methods (position setters, bytealign, append, +=, prepend, insert, overwrite, item and slice deletion, clear) are translated from the source each run and bridged to the stream machine; the stream itself as any operand is part of the histories.',
 'C07': ' Round 3 (CutProofs.v): cut yields exactly the successive n-bit chunks (count, lengths, concatenation, error clauses); startswith/endswith are true exactly when the pattern fits and equals the first/last bits of the window; count(v) is the number of positions holding v; split with a count is the first count pieces; split_exact: the pieces are the slices between the window start, the greedy chain of non-overlapping aligned occurrences (unique) and the window end; `in` iff an occurrence exists. Histories of searches and in-place changes on one object are part of the correspondence.',
 'C12': ' Round 5 (LsbPack.v): read / peek / readlist / peeklist / unpack and pack with options.lsb0 as a parameter of the model (equal to the msb0 model with the option off): pack joins the same per-token stores in reverse order, has the same errors and equals msb0 pack of the reversed lists; lsb0 unpack inverts lsb0 pack; every lsb0 list read is the msb0 read of the reversed data with each field reversed back before interpretation (literally the mirror for bit-valued tokens); the field rule read(p, l) = stored d[len-p-l : len-p]; exp-Golomb codes are refused by pack and by every reader under lsb0. Round 3 (MirrorStep.v, LsbSplit.v): the mirror law is now proved as well for slice assignment and deletion with ANY step, scalar fill, set/invert over iterables and ranges (partial effect and error included), __setitem__/__delitem__, overwrite, append, prepend, *=, byteswap (content, count, errors), startswith, endswith, cut and replace; split (not in the property list) is characterised exactly and its mirror law refuted with a witness. indices/offset_slice_indices_lsb0 and _reversebytes are translated from the source each run and bridged.',
 'C14': ' Round 5 (ArrayOps.v): the three element-wise loops (scalar, in-place, Array-Array), comparisons, bitwise forms and _promotetype are modelled statement by statement for ANY item codec and operator and proved: the result is the operator mapped over the items (item i with item i between Arrays), any misfit / ZeroDivisionError raises ValueError after the loop, other exceptions escape at once, a failing in-place operator leaves the data unchanged and a succeeding one holds the data of the pure form, comparisons give the bool Array of item-wise results, promotion is "leftmost maximum of (class, length)" - a tie goes to the first (D62) - and associative; the int instances run against the implementation on every run (ArrayCases.v). Round 3 (ArrayMut.v, for ANY data via data = concat items ++ trailing): slice deletion with any key, slice assignment (unit and extended step), extend (values / Array), reverse, tolist, iteration, equals, copy, count equal the list operations on the items and leave the trailing bits as stated. The documented type promotion is checked for every dtype pair, programs also run under lsb0.',
 'C17': ' Round 3 (Serial2.v): the model mirrors the repaired tofile loop over absolute chunk starts (independent of the bit numbering); equal to the cut() loop for every positive chunk size; ceil(len/chunk) writes of which only the last is padded; ValueError for a zero chunk size; Array.tofile writes tobytes(data).',
 'C19': ' Round 3 (PPDigits.v): a model of what pp() prints for one bin/oct/hex format with a stated group length, as lines of groups of digit values: accepted calls characterised, the printed digits decoded in order are exactly the data without the reported trailing bits, groups are whole, every line but the last holds max_bits_per_line bits, every line fits in width unless it holds a single unit; shape under lsb0.',
 'C20': ' Round 3: statements with extreme well-typed values (steps, counts, positions near 2^63 and beyond) run in a separate interpreter each (a crash of the interpreter is reported with the statements); pp() steps on every class; auto-scale with non-finite items.',
}
NOTE_ADDED = {
 'C07': ' Round 3: cut, startswith/endswith, count, split with a count and the exact split are now proved (msb0); lsb0 startswith/endswith/cut/replace are proved in C12.',
 'C12': ' Round 5: read/peek/unpack/pack order is now proved and run on the model (LsbPack.v), and whole lsb0 stream histories obey the mirror law (StreamLsb.v: C12_stream_history_mirror; exp-Golomb reads and unit-step integer slice assignment excepted and characterised).',
 'C14': ' Round 5: the element-wise operators and the promotion are now proved (generic in the item codec; float arithmetic itself is a parameter) and the int instances are run on the model; dtype change remains oracle-checked.',
 'C19': ' Round 3: the digit content, grouping and line structure of pp() for one format with a stated length are now proved; repr/eval, two formats, default lengths and Array.__repr__ remain oracle-only.',
}

def main():
    for k, v in ADDED.items(): CLAIMED[k]['text'] += v
    for k, v in NOTE_ADDED.items(): CLAIMED[k]['note'] += v
    for k in ('C01', 'C03', 'C06', 'C12'): CLAIMED[k]['technique'] += ' + source-to-Gallina kernel translator with bridge obligations'
    checks = []
    for pid in ALL:
        if pid not in CLAIMED: continue
        c = CLAIMED[pid]
        checks.append({
            'property_id': pid,
            'quick_cmd': f'./check {pid} --tier quick',
            'thorough_cmd': f'./check {pid} --tier thorough',
            'evidence_file': f'/verif/evidence/{pid}.json',
            'replay_cmd_template': f'./check {pid} --replay {{path}}',
            'engine': 'coq-model',
            'level_claimed': {'category': 'proof', 'text': c['text'], 'design_ref': c['design']},
            'level_note': c['note'],
            'technique': c['technique'],
        })
    na = [{'property_id': p, 'reason': 'not claimed'} for p in ALL if p not in CLAIMED]
    m = {
        'version': 1,
        'setup_cmd': 'make -C /verif setup',
        'hooks': {'guard': 'BITSTRING_VERIF', 'enable': 'none needed: the harness wraps the implementation at run time (no source hooks)',
                  'baseline_off_cmd': 'cd /repo && /venv/bin/python -m pytest -ra -q -p no:cacheprovider --timeout=900 --continue-on-collection-errors',
                  'source_commits': [], 'add_only': True},
        'engines': [{'name': 'coq-model', 'path': '/verif/coq', 'serves_properties': sorted(CLAIMED),
                     'kind_free_text': 'Coq 8.16.1 development (model, specs, theorems) + Python correspondence harness evaluating the model with vm_compute'}],
        'checks': checks,
        'not_applicable': na,
        'notes': 'Technique: machine-checked proof in Coq over an executable Gallina model, tied to /repo on every run by translators (data tables and, since round 3, the Python source of 40 index/position kernels, each with a bridge obligation to the hand model) and by differential correspondence. See DESIGN.md.',
    }
    with open(os.path.join(HERE, 'MANIFEST.json'), 'w') as f:
        json.dump(m, f, indent=1)
    print('claimed:', sorted(CLAIMED))

if __name__ == '__main__':
    main()
