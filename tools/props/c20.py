"""C20 — well-typed misuse fails cleanly and never corrupts an object."""
from vlib import *
from props.common import *
import io, inspect, re, copy as _copy

ID = 'C20'
COQ_PROPS = ['Props/C20.v']
COQ_IMPORTS = ['Prims', 'CaseLib', 'BitsCore']
RULE = ('every public callable of Bits, BitArray, ConstBitStream, BitStream, Array, Dtype and pack found by introspection (methods, operators, properties with setters) is called with argument tuples drawn '
        'from the documented types by parameter name (bitstrings incl. empty/self/malformed token strings, integers negative/zero/len/len+1/2^65, slices, position iterables, format strings valid and '
        'malformed, values at and beyond range limits), in sequences of 4..12 calls on one object, under msb0 and lsb0; every exception must be one of the documented types and afterwards every object must '
        'be valid (immutables unchanged, len == len(bin), 0 <= pos <= len, options as left) - the receiver, the operands and every bitstring object (or Array) the call RETURNS, yields or holds in a list: each is probed '
        '(len/bin/pos evaluable, repr, str, ==, slicing, copies, iteration, hash, peek(0)/read(0); fresh mutable results are also changed in place, which must not reach the receiver); a systematic pass over every '
        'object-returning route (operators, slices, copies, constructors, join/cut/split/unpack/pack/pickle, stream reads, in-place operators) x four classes x both numberings; streams positioned at the end then one mutator; every spelling of a dtype / format argument (names with lengths in every form, the 13 struct codes with each prefix @ = < > and bare, counts and several codes, Dtype objects in every call shape incl. scales, keyword lengths, '
        'array.array type codes, and the malformed neighbours of each) x every callable that takes one (Array(...) in eight shapes, the dtype setter, astype, Array.pp, extend/equals with array.array, Dtype() in its call shapes then build/parse, unpack/read/peek/readlist/peeklist, '
        'pack, token strings to constructors / fromstring / +, keyword construction, attribute access and assignment, pp, byteswap) x both numberings, 60 spellings in sequence on one receiver: documented exceptions only, a refused dtype assignment leaves dtype and data as they were. non-trivial = a call that raises; distinct by (class, method, arguments)')
ASSUMPTIONS = ['documented exception types: ValueError (CreationError, InterpretError), IndexError (ReadError), TypeError, bitstring.Error (ByteAlignError), OSError, and EOFError for fromfile; '
               'sizes are kept feasible (no 2^65-bit allocations)']
ALLOWED = {'ValueError', 'IndexError', 'ReadError', 'TypeError', 'BsError', 'ByteAlignError', 'Other:OSError', 'Other:FileNotFoundError', 'Other:EOFError', 'Other:UnsupportedOperation', 'StopIteration_gen'}

DUNDERS = ['__getitem__', '__setitem__', '__delitem__', '__add__', '__radd__', '__mul__', '__rmul__', '__and__', '__or__', '__xor__', '__invert__', '__lshift__', '__rshift__',
           '__contains__', '__eq__', '__ne__', '__hash__', '__iter__', '__len__', '__bool__', '__copy__', '__str__', '__repr__', '__bytes__',
           '__iadd__', '__imul__', '__iand__', '__ior__', '__ixor__', '__ilshift__', '__irshift__', '__lt__',
           '__sub__', '__truediv__', '__floordiv__', '__mod__', '__neg__', '__abs__', '__isub__', '__itruediv__', '__ifloordiv__']
SKIP = {'tofile', 'pp', 'fromfile', 'fromstring'}   # exercised with dedicated arguments below

def callables_of(cls):
    names = []
    for n in dir(cls):
        if n.startswith('_') and n not in DUNDERS: continue
        a = inspect.getattr_static(cls, n)
        if isinstance(a, property): names.append(('prop', n)); continue
        if callable(getattr(cls, n, None)) and n not in SKIP: names.append(('meth', n))
    return names

INT_PARAMS = {'pos', 'start', 'end', 'bits', 'n', 'count', 'length', 'offset', 'i', 'width', 'bytepos', 'bitpos'}
def gen_arg(rng, pname, L, kind):
    """a JSON description of one argument"""
    smallbits = lambda: {'bits': rand_bits(rng, rng.choice([0, 1, 3, 8, 9, 16, L, L + 1]))}
    if pname in INT_PARAMS or pname in ('key',) and rng.random() < 0.5:
        big = [2 ** 65, -(2 ** 65)] if pname in ('pos', 'start', 'end', 'i', 'count', 'key', 'bitpos', 'bytepos') else [4096, -4096]   # sizes stay feasible
        return rng.choice([0, 1, -1, L, L + 1, -L, -L - 1, L // 2, 7, 8, rng.randrange(-L - 3, L + 4)] + big)
    if pname == 'key':
        f = lambda: rng.choice([None, 0, -1, L, L + 2, -L - 2, rng.randrange(-L - 2, L + 3)])
        return {'slice': [f(), f(), rng.choice([None, 1, -1, 2, -3, 0])]}
    if pname in ('bs', 'prefix', 'suffix', 'delimiter', 'old', 'new', 'other', 'auto', 'trailing_bits'):
        return rng.choice([smallbits(), smallbits(), {'self': 1}, {'str': rng.choice(['0b101', '0xff', '', 'uint:8=300', 'hex=xyz', '0b12', '(', '2*(uint:8', 'ue=-1', 'bogus', 'uint:8', 'float:33=1', 'bits:5',
                                                                                       '(' * 1200 + '0b1' + ')' * 1200])},
                           {'bytes': [rng.randrange(256) for _ in range(rng.randrange(0, 3))]}, {'list': [rng.randrange(2) for _ in range(rng.randrange(0, 5))]}, 5, 2.5, None])
    if pname in ('fmt', 'dtype', 'token'):
        if pname == 'dtype': return {'str': rng.choice(['uint:8', 'hex', 'int:4', 'float:16', 'bogus:3', 'uint:0', 'bytes:2', 'ue', '>h', '', 'bool'])}
        return rng.choice([{'str': rng.choice(['uint:8', 'hex', 'bin:3', 'int:4, uint:4', 'ue', 'bits', 'bytes:2', 'float:16', 'bool', 'pad:2', '2*uint:3', '>h', 'uint:0', 'uint:-1', 'bogus:3', 'uint:x',
                                                '(uint:8', '0*(', 'hex:3', 'float:17', 'se, ue, bin', 'bits, bits', 'uint:99999', '', ',', 'a*(uint:8)', 'uint8=5', '<3q', 'x', 'u-1',
                                                '(' * 1500 + 'uint:8' + ')' * 1500, '(' * 300 + 'hex:8, bin' + ')' * 300, '3*(' * 8 + 'bool' + ')' * 8])},
                           rng.choice([0, 1, 8, -1, L, L + 1]), {'intlist': [rng.choice([0, 1, 3, -1, L + 1]) for _ in range(rng.randrange(0, 3))]}])
    if pname in ('value', 'x', 'v', 'uint', 'int'):
        return rng.choice([0, 1, -1, 255, 256, -129, 2 ** 70 if pname != 'x' else 300, 0.5, True, None, {'str': 'abc'}, 1e40] +
                          ([smallbits(), {'str': ''}, {'str': '0b101'}, {'bits': ''}, {'list': []}] if pname == 'value' else []))
    if pname == 'bytealigned': return rng.choice([None, True, False, 1, 0])
    if pname == 'repeat': return rng.choice([True, False])
    if pname == 'sequence' or pname == 'iterable': return rng.choice([{'seq': [smallbits() for _ in range(rng.randrange(0, 3))]}, {'list': [1, 0, 1]}, {'str': '0b1'}, 5])
    if pname in ('sep', 'format_sep'): return rng.choice([{'rawstr': ' '}, {'rawstr': ''}, {'rawstr': '__'}])
    if pname == 'show_offset': return rng.choice([True, False])
    if pname in ('scale',): return rng.choice([None, 2, 0.5, 0, -1, 'auto'])
    return rng.choice([0, 1, -1, None, {'str': '0b1'}, smallbits(), L + 1])

def gen_call(rng, clsname, L):
    import bitstring
    cls = getattr(bitstring, clsname)
    kind, name = rng.choice(CALLS[clsname])
    if kind == 'prop':
        settable = clsname in MUTABLE or name in ('pos', 'bitpos', 'bytepos') or (clsname == 'Array' and name in ('dtype', 'data'))
        if rng.random() < 0.6 or not settable: return {'k': 'getprop', 'name': name}   # assigning to a read-only property is Python's own AttributeError
        pn = 'pos' if name in ('pos', 'bitpos', 'bytepos') else ('fmt' if name == 'dtype' else ('bs' if name in ('data', 'bits') else 'value'))
        v = gen_arg(rng, pn, L, 'v')
        if pn == 'value':
            base = name.rstrip('0123456789')
            if base in ('hex', 'bin', 'oct', 'h', 'b', 'o'): v = {'str': rng.choice(['', '0', 'ff', '0101', 'xyz', '777', '0b1', '0x1'])}
            elif base == 'bytes': v = {'bytes': [rng.randrange(256) for _ in range(rng.randrange(0, 3))]}
            elif base == 'bool': v = rng.choice([True, False, 0, 1, 2])
            elif base in ('bits',): v = {'bits': rand_bits(rng, rng.randrange(0, 9))}
            elif base in ('pad',): v = None
            elif isinstance(v, dict) or v is None: v = 3
        if name == 'dtype' and not (isinstance(v, dict) and 'str' in v): v = {'str': 'uint:8'}
        if name == 'data' and not (isinstance(v, dict) and 'bits' in v): v = {'bits': '1010'}
        return {'k': 'setprop', 'name': name, 'v': v}
    fn = getattr(cls, name)
    try: params = [p for p in inspect.signature(fn).parameters.values()][1:]
    except (TypeError, ValueError): params = []
    args, kwargs = [], {}
    for p in params:
        if p.kind in (p.VAR_POSITIONAL, p.VAR_KEYWORD): continue
        if p.default is not p.empty and rng.random() < 0.45: continue
        a = gen_arg(rng, p.name, L, 'a')
        if clsname == 'Array' and p.name == 'other' and name not in ('equals',): a = rng.choice([0, 1, 2, -1, 0.5, 3, 255, 300])   # Array operators document int/float/Array operands
        if p.kind == p.KEYWORD_ONLY or (p.default is not p.empty and rng.random() < 0.3 and p.kind != p.POSITIONAL_ONLY): kwargs[p.name] = a
        else:
            if kwargs: kwargs[p.name] = a
            else: args.append(a)
    return {'k': 'call', 'name': name, 'args': args, 'kwargs': kwargs}

CALLS = {}
def init_calls():
    import bitstring
    for c in CLASSES + ['Array']:
        CALLS[c] = callables_of(getattr(bitstring, c))

def gen_cases(rng, tier):
    init_calls()
    N = 400 if tier == 'quick' else 7000
    for _ in range(N):
        cls = rng.choice(CLASSES + CLASSES + ['Array'])
        L = rng.choice([0, 1, 8, 9, 16, 24, 33])
        yield {'op': 'program', 'cls': cls, 'bits': rand_bits(rng, L), 'lsb0': rng.random() < 0.25, 'pos': rng.choice([0, L // 2, L]),
               'adtype': rng.choice(['uint8', 'int4', 'float16', 'hex4', 'bytes1']), 'steps': [gen_call(rng, cls, L) for _ in range(rng.randrange(4, 13))]}
    for _ in range(N // 10):
        bad = rng.choice(['uint0', 'uint:0', 'int0', 'hex0', 'bits0', 'bytes0', 'bin:0', 'se', 'ue', 'bogus8', 'float:17', 'uint8', 'hex:4', 'float16', '', 'bool', 'pad:3'])
        yield {'op': 'program', 'cls': 'Array', 'bits': '', 'lsb0': False, 'pos': 0, 'adtype': rng.choice(['uint8', 'int4', 'float16', 'hex4', 'bytes1']),
               'steps': [{'k': 'setprop', 'name': 'dtype', 'v': {'str': bad}}, {'k': 'getprop', 'name': 'dtype'}, {'k': 'call', 'name': 'tolist', 'args': [], 'kwargs': {}},
                         {'k': 'call', 'name': 'append', 'args': [1], 'kwargs': {}}, {'k': 'getprop', 'name': 'itemsize'}]}
    for _ in range(N // 4):
        yield {'op': 'constructor', 'cls': rng.choice(CLASSES), 'args': [gen_arg(rng, 'auto', 8, 'a')] if rng.random() < 0.6 else [],
               'kwargs': {k: gen_arg(rng, k, 8, 'a') for k in rng.sample(['length', 'offset', 'pos', 'uint', 'int', 'hex', 'bin', 'bytes', 'float', 'ue', 'bool', 'bits', 'filename', 'bitarray', 'auto'], rng.randrange(0, 3))}}
    for _ in range(N // 4):
        yield {'op': 'packcall', 'fmt': gen_arg(rng, 'fmt', 8, 'a'), 'vals': [gen_arg(rng, 'value', 8, 'a') for _ in range(rng.randrange(0, 4))]}
    # pack with bitstring / string operands in every position: the operands (and the string-parse cache) must be unchanged, also after the result is mutated
    for _ in range(N // 8):
        k = rng.randrange(1, 4)
        toks = [rng.choice(['bits', 'bits', 'bits:%d', 'uint:4', 'hex:8', 'bool']) for _ in range(k)]
        vals, fm = [], []
        for t in toks:
            if t.startswith('bits'):
                b = rand_bits(rng, rng.choice([1, 4, 8, 12]))
                vals.append(rng.choice([{'bits': b}, {'str': '0b' + b}, {'cbs': b}])); fm.append(t % len(b) if '%d' in t else t)
            else:
                vals.append({'uint:4': 5, 'hex:8': {'str': 'a7'}, 'bool': True}[t]); fm.append(t)
        yield {'op': 'packcall', 'fmt': {'str': ', '.join(fm)}, 'vals': vals, 'lsb0': rng.random() < 0.3, 'mutate_result': True}
    # pp() with usual, odd and unusable formats on every class and on Arrays (printed into a StringIO): documented exceptions only, options unchanged
    PPF = ['bin', 'hex', 'oct', 'bytes', 'bin:8', 'hex:4', 'hex:0', 'bin:0', 'uint:0', 'uint:8', 'int:3', 'float:16', 'float', 'ue', 'bin, hex', 'hex:8, bin:8', 'bin:4, hex:8', 'uint:8, hex',
           'bits:3', 'bool', 'pad:4', 'pad8', 'pad:8, hex:8', '', 'bogus', 'hex:-4', 'bytes:0', 'oct:3, bin', 'u8', 'f32', 'uintle:16', 'e4m3mxfp', 'mxint', 'bfloat']
    for _ in range(N // 5):
        cls = rng.choice(CLASSES + ['Array', 'Array'])
        L = rng.choice([0, 1, 3, 8, 16, 24, 33, 64])
        kw = {'stream': {'sio': 1}}
        if rng.random() < 0.5: kw['width'] = rng.choice([0, 1, 20, 80, 120, -5])
        if rng.random() < 0.3: kw['show_offset'] = rng.random() < 0.5
        if cls != 'Array' and rng.random() < 0.4: kw['sep'] = {'rawstr': rng.choice(['', '', ' ', '--'])}
        args = [{'str': rng.choice(PPF)}] if rng.random() < 0.9 else []
        yield {'op': 'program', 'cls': cls, 'bits': rand_bits(rng, L), 'lsb0': rng.random() < 0.3, 'pos': 0, 'adtype': rng.choice(['uint8', 'int4', 'float16', 'hex4', 'bytes1']),
               'steps': [{'k': 'call', 'name': 'pp', 'args': args, 'kwargs': kw}, {'k': 'getprop', 'name': 'len' if False else ('itemsize' if cls == 'Array' else 'len')}]}
    # statements with extreme but well-typed values (steps, counts, positions far beyond any length), each run in its OWN interpreter: a crash of the
    # interpreter (a segmentation fault in the C layer below) is the worst kind of internal error and would take the check down with it
    HUGE = ['10**20', '2**63-1', '2**63', '-10**20', '2**64+1']
    STMTS = ['a[2::{h}] = 1', 'a[::{h}] = 1', 'a[1:3:{h}] = 0', 'a.set(0, range(2, 3, {h}))', 'a.set(1, range(0, 3, {h}))', 'a[2:3:{h}] = "0b1"', 'del a[2:3:{h}]', 'x = a[2:3:{h}]', 'x = a[{h}:]',
             'a.invert(range(2, 3, {h}))', 'a.rol({h})', 'a.ror({h})', 'a <<= {h}', 'x = a >> {h}', 'a.insert("0b1", {h})', 'x = a[{h}]', 'x = list(a.cut({h}))', 'x = a.find("0b1", {h})',
             'x = a.findall("0b1", count={h})', 'a.byteswap({h})', 'a.reverse({h})', 'x = a.startswith("0b1", {h})', 'a.overwrite("0b1", {h})', 'x = a.unpack("uint:{h}")', 'a.replace("0b1", "0b0", count={h})',
             'x = list(a.split("0b1", count={h}))', 'b = BitStream(a); b.pos = 1; x = b.read({h})', 'b = BitStream(a); b.bytepos = {h}', 'x = Array("uint8", [1, 2, 3])[::{h}]', 'c = Array("uint8", [1, 2, 3]); c[::{h}] = [9]',
             'c = Array("uint8", [1, 2, 3]); del c[::{h}]', 'c = Array("uint8", [1, 2, 3]); c.insert({h}, 4)', 'c = Array("uint8", [1, 2, 3]); x = c.pop({h})']
    for _ in range(24 if tier == 'quick' else 400):
        yield {'op': 'crashprobe', 'stmts': [rng.choice(STMTS).format(h=rng.choice(HUGE)) for _ in range(6)], 'lsb0': rng.random() < 0.4, 'bits': rand_bits(rng, rng.choice([3, 8, 17]), 'rand')}
    for _ in range(N // 40):
        yield {'op': 'program', 'cls': 'Array', 'bits': '', 'lsb0': False, 'pos': 0, 'adtype': 'float16',
               'steps': [{'k': 'autoscale', 'fmt': rng.choice(['e4m3mxfp', 'e5m2mxfp', 'e3m2mxfp', 'e2m1mxfp', 'p4binary', 'mxint', 'float16']), 'vals': rng.choice([['inf'], [1.0, '-inf'], ['nan'], [0.0], [], [1e300], [5e-324], [1.0, 'inf', 'nan']])}]}
    # exp-Golomb codes cut short by one to three bits, read through every reading method: the position must stay valid
    from props.c10 import ref_enc
    for _ in range(N // 8):
        code = rng.choice(['ue', 'se', 'uie', 'sie'])
        n = rng.randrange(3, 200) * (rng.choice([1, -1]) if code in ('se', 'sie') else 1)
        w = ref_enc(code, n)
        cut = rng.choice([1, 1, 1, 2, 3])
        pre = rand_bits(rng, rng.choice([0, 0, 2, 3]))
        bits = pre + w[:len(w) - cut]
        fmt = (f'uint:{len(pre)}, ' if pre else '') + code
        meth = rng.choice(['readlist', 'readlist', 'read', 'peek', 'peeklist', 'unpack'])
        st = {'k': 'call', 'name': meth, 'args': [{'str': fmt if meth in ('readlist', 'peeklist', 'unpack') or not pre else code}], 'kwargs': {}}
        yield {'op': 'program', 'cls': rng.choice(['ConstBitStream', 'BitStream']), 'bits': bits, 'lsb0': False, 'pos': 0 if meth in ('readlist', 'peeklist', 'unpack') or not pre else len(pre),
               'adtype': 'uint8', 'steps': [st, {'k': 'getprop', 'name': 'pos'}]}
    for _ in range(N // 4):
        yield {'op': 'dtypecall', 'token': gen_arg(rng, 'fmt', 8, 'a'), 'length': rng.choice([None, None, 0, 8, -1, 17, 4096]), 'scale': gen_arg(rng, 'scale', 8, 'a'), 'v': gen_arg(rng, 'value', 8, 'a')}
    # a stream whose position stands at the end (or in the middle, or at the start: put there by the setter or by reading), then ONE mutator with an empty, short,
    # long or self operand - bitstring-like values of every spelling - for an index, a slice or a position that is valid: the position must stay inside the data
    VALS = [{'bits': ''}, {'str': ''}, {'bytes': []}, {'list': []}, {'bits': '1'}, {'bits': '0'}, {'str': '0b101'}, {'bits': '0' * 9}, {'self': 1}, {'list': [1, 0]}, 0, 1, True, False]
    call = lambda name, *args, **kw: {'k': 'call', 'name': name, 'args': list(args), 'kwargs': kw}
    WITH_VAL = ['setitem_int', 'setitem_slice', 'insert', 'overwrite', 'append', 'prepend', 'replace', 'replace1', 'iadd']
    NO_VAL = ['delitem_int', 'delitem_slice', 'clear', 'imul', 'ilshift', 'reverse', 'invert', 'ror', 'byteswap', 'set', 'setprop']
    for rnd in range(3 if tier == 'quick' else 30):
        for tmpl, v in [(t, v) for t in WITH_VAL for v in VALS] + [(t, None) for t in NO_VAL for _ in range(4)]:
            cls = rng.choice(['BitStream', 'BitStream', 'BitStream', 'BitArray'])
            L = rng.choice([1, 2, 3, 8, 9, 16, 33])
            p0 = rng.choice([L, L, L, L, L // 2, 0, L - 1])
            key = rng.choice([0, -1, L - 1, L // 2, -L, rng.randrange(-L, L)])
            a = rng.randrange(0, L + 1); sl = {'slice': [rng.choice([a, None, -1]), rng.choice([None, L, rng.randrange(a, L + 1)]), rng.choice([None, None, 1, -1, 2])]}
            at = rng.choice([0, L, -1, L // 2])
            mut = {'setitem_int': lambda: call('__setitem__', key, v), 'setitem_slice': lambda: call('__setitem__', sl, v), 'insert': lambda: call('insert', v, at), 'overwrite': lambda: call('overwrite', v, at),
                   'append': lambda: call('append', v), 'prepend': lambda: call('prepend', v), 'replace': lambda: call('replace', rng.choice([{'bits': '1'}, {'bits': '0'}, {'bits': '10'}]), v),
                   'replace1': lambda: call('replace', {'bits': '1'}, v, count=1), 'iadd': lambda: call('__iadd__', v), 'delitem_int': lambda: call('__delitem__', key), 'delitem_slice': lambda: call('__delitem__', sl),
                   'clear': lambda: call('clear'), 'imul': lambda: call('__imul__', rng.choice([0, 1, 2])), 'ilshift': lambda: call('__ilshift__', rng.choice([0, 1, L])), 'reverse': lambda: call('reverse'),
                   'invert': lambda: call('invert'), 'ror': lambda: call('ror', rng.choice([0, 1, L + 1])), 'byteswap': lambda: call('byteswap'), 'set': lambda: call('set', rng.choice([0, 1]), rng.choice([0, -1, L - 1])),
                   'setprop': lambda: {'k': 'setprop', 'name': rng.choice(['bin', 'hex', 'uint', 'bytes', 'bool', 'int']), 'v': rng.choice([{'str': ''}, {'str': '1'}, {'str': '0f'}, 0, 1, True, {'bytes': []}, {'bytes': [7]}])}}[tmpl]()
            if cls == 'BitStream':
                reach = rng.choice([[{'k': 'setprop', 'name': 'pos', 'v': p0}], [{'k': 'setprop', 'name': 'bitpos', 'v': 0}, call('read', p0)], [{'k': 'setprop', 'name': 'pos', 'v': 0}, call('readlist', {'intlist': [p0]})],
                                    [call('append', {'bits': ''})] if p0 == L else [{'k': 'setprop', 'name': 'pos', 'v': p0}]])
                tail = [{'k': 'getprop', 'name': 'pos'}, call('read', rng.choice([0, 1])), call('peek', 1), call('bytealign')]
            else: reach, tail = [], [call('__len__')]
            yield {'op': 'program', 'cls': cls, 'bits': rand_bits(rng, L), 'lsb0': rng.random() < 0.3, 'pos': 0, 'adtype': 'uint8', 'steps': reach + [mut] + tail}
    # every route that hands back a bitstring object, on every class, in both bit numberings: each object that comes back is probed like any other object of its class
    yield from gen_derive(rng, tier)
    # every documented spelling of a dtype / format argument (and the malformed neighbours of each) handed to every callable that takes one
    yield from gen_dtypespell(rng, tier)

# expressions that return (or yield, or hold) bitstring objects. s: the receiver (class under test, some position), t: a short Bits, u: a Bits as long as s, w: a mutable copy of u.
# {k} shift / read length, {a}:{b}:{st} slice, {m} small factor, {g} chunk size >= 1, {h} a length within s
DERIVE_ALL = ['s << {k}', 's >> {k}', 's[{a}:{b}]', 's[{a}:{b}:{st}]', 's[::-1]', 's[:]', 's + t', 't + s', "'0b1' + s", "s + '0x3'", 's + []', '[1, 0] + s', 's * {m}', '{m} * s', 's & u', 's | u', 's ^ u',
              'u & s', 'w | s', 'u ^ s', "s & ('0b' + u.bin)", '~s', 's.copy()', 'copy.copy(s)', 'copy.deepcopy(s)', 'type(s)(s)', 'type(s)(t)', 'type(s)(w)', "type(s)('0b1, 0xf')", 'type(s)({h})',
              "type(s).fromstring('0b1, 0xf')", "type(s).fromstring('')", 'type(s)().join([s, t, s])', 's.join([t, w])', 's.join([])', 'list(s.cut({g}))', 'list(s.cut({g}, count={m}))', 'list(s.split(t[:1]))',
              'list(s.split(t[:1], count={m}))', "s.unpack('bits:{h}, bits')", "s.unpack('bits')", "s.unpack(['bits:{h}', 'bin'])", 's.bits', "pack('bits', s)", "pack('bits, bits:{h}', s, s[:{h}])", 'Bits(s)', 'BitArray(s)',
              'ConstBitStream(s)', 'BitStream(s)', 'ConstBitStream(s, pos={h})', 'BitStream(s, pos={h})', 'pickle.loads(pickle.dumps(s))', "Array('bits:4', s).data if len(s) % 4 == 0 else None",
              "Array('uint:8', s.tobytes()).data", 'Dtype("bits", {h}).parse(s[:{h}])', 'Dtype("bits:{h}").build(s[:{h}])', 'list(s.findall(t[:1]))', 'iter(s.cut({g}))', 'next(s.cut({g}), None)',
              's.__getitem__(slice({a}, {b}))', 's.__add__(t)', 's.__radd__(t)', 's.__mul__({m})', 's.__rmul__({m})', 's.__invert__()', 's.__lshift__({k})', 's.__rshift__({k})', 's.__and__(u)', 's.__rand__(u)',
              's.__copy__()', 's << True', 's[{a}:{b}] << {k}', '(s + t) >> {k}', '(s << {k}) + (s >> {k})', '(~s)[{a}:{b}]', '(s * 2)[::-1]', 's.copy() << {k}']
DERIVE_STREAM = ['s.read({k})', 's.peek({k})', "s.read('bits:{k}')", "s.peek('bits:{k}')", "s.read('bits')", "s.readlist('bits:{k}, bits')", 's.readlist([{k}, {m}])', "s.peeklist('bits:{k}, bits')", 's.readto(t[:1])',
                 's.readto(t[:1], bytealigned=True)', 's.read(Dtype("bits", {k}))', 's.read({k}) << 1', 's.read({k}).read(1)', '(s << {k}).read({m})', '(s >> {k}).peek({m})', '(s + t).readlist([1, {m}])',
                 's[{a}:{b}].read({m})', '(~s).bytealign()', 's.copy().read({m})', '(s & u).pos', '(s << {k}).pos', '(s * {m}).bytepos', 's[::-1].bitpos']
DERIVE_MUTABLE = ['s.__iadd__(t)', 's.__imul__({m})', 's.__ilshift__({k})', 's.__irshift__({k})', 's.__iand__(u[:len(s)])', 's.__ior__(s)', 's.__ixor__(s)']

def gen_derive(rng, tier):
    quick = tier == 'quick'
    lengths = [0, 1, 2, 7, 8, 9, 15, 16, 17, 31, 32, 33, 63, 64, 65, 128, 1000, 2001]
    for cls in CLASSES:
        for lsb0 in (False, True):
            for L in (rng.sample(lengths[:12], 2) + [rng.choice(lengths)] if quick else lengths * 4):
                exprs = list(DERIVE_ALL) + (DERIVE_STREAM if cls in ('ConstBitStream', 'BitStream') else []) + (DERIVE_MUTABLE if cls in MUTABLE else [])
                if quick: exprs = rng.sample(exprs, 45)
                else: rng.shuffle(exprs)
                pos = rng.choice([0, 0, L // 2, L, rng.randrange(0, L + 1)])
                out = []
                for e in exprs:
                    left = max(L - pos, 0)
                    out.append(e.format(k=rng.choice([0, 0, 1, 2, 7, 8, max(L - 1, 0), L, L + 1, left, left + 1, 2 * L + 3]), a=rng.choice([0, 1, -1, L // 2, -L, L, -L - 1, rng.randrange(-L - 1, L + 2)]),
                                        b=rng.choice([0, 1, -1, L // 2, L, L + 1, rng.randrange(-L - 1, L + 2)]), st=rng.choice([1, 2, -1, -2, 3, -7]), m=rng.choice([0, 1, 2, 3]),
                                        g=rng.choice([1, 3, 8, max(L, 1), L + 1]), h=rng.choice([0, 1, L // 2, L, min(L, 8)])))
                if cls in ('ConstBitStream', 'BitStream'):       # the position is put back now and then (the reads run it to the end)
                    out = [x for i, e in enumerate(out) for x in ([f"setattr(s, 'pos', min({rng.choice([0, pos, pos, L // 2])}, len(s)))"] if i % 3 == 0 else []) + [e]]
                yield {'op': 'derive', 'cls': cls, 'bits': rand_bits(rng, L), 'pos': pos, 'lsb0': lsb0, 't': rand_bits(rng, rng.choice([1, 3, 8, 9])), 'u': rand_bits(rng, L), 'exprs': out}


# ---------------------------------------------------------------------------------------------------------------------------------------------------
# EVERY SPELLING OF A DTYPE / FORMAT ARGUMENT x EVERY CALLABLE THAT TAKES ONE. The documentation spells a data type as: a name with a length ('uint8',
# 'uint:8', 'u8', 'float32', 'hex4', 'bytes2', 'bool', 'ue', 'e4m3mxfp' ...), a struct-module code with a byte-order prefix ('@h', '=H', '<q', '>d': the
# thirteen codes b B h H l L i I q Q e f d, each with each of @ = < >; several codes and counts in format strings), a Dtype object (token, token + length,
# keywords, with a scale, 'auto' scale for new Arrays), a keyword for the length ('uint:n', n=8), and array.array type codes. The callables: Array(...),
# the Array.dtype setter, Array.astype, Array.pp, Array.extend / Array(...) / equals with an array.array, Dtype(...) in each of its call shapes then build /
# parse, unpack / read / peek / readlist / peeklist, pack (string, list, keyword), token strings handed to the constructors and fromstring, keyword
# construction, attribute access and assignment under a dtype name, pp, byteswap. Whatever is handed in - a documented spelling, or a malformed neighbour
# of one (unknown code after a valid prefix, valid code after an unknown prefix, doubled or misplaced prefix, wrong / zero / missing / textual length ...) -
# the call succeeds or raises a documented exception type, and the receiver (same dtype and data after a refused assignment), the operands and the result
# are valid objects afterwards; the options are as they were.
DT_NAMES = ['uint', 'int', 'bin', 'oct', 'hex', 'bytes', 'bits', 'bool', 'float', 'floatbe', 'floatle', 'floatne', 'bfloat', 'bfloatbe', 'bfloatle', 'bfloatne', 'uintbe', 'uintle', 'uintne',
            'intbe', 'intle', 'intne', 'ue', 'se', 'uie', 'sie', 'pad', 'p3binary', 'p4binary', 'e4m3mxfp', 'e5m2mxfp', 'e3m2mxfp', 'e2m3mxfp', 'e2m1mxfp', 'e8m0mxfp', 'mxint', 'u', 'i', 'b', 'o', 'h', 'f']
DT_LENGTHS = [0, 1, 2, 3, 4, 6, 7, 8, 9, 12, 16, 17, 24, 32, 33, 64, 65, 128, 1000, 100000]
STRUCT_CODES = 'bBhHlLiIqQefd'
STRUCT_PREFIXES = '@=<>'
DT_MALFORMED = ['', ' ', ':', ':8', '8', '08', 'uint:', 'uint::8', 'uint8:8', 'uint:8:8', 'uint=8', 'uint:8=3', 'uint8=3', 'uint:n', 'uint:-8', 'uint-8', 'uint:+8', 'uint:8.0', 'uint:0x8', 'uint:1e1', 'UINT8', 'Uint:8',
                'uint８', 'uint:٨', 'uint,8', 'uint8,uint8', 'uint8, hex', '2*uint8', '0*uint8', '(uint8)', 'uint8)', '(uint8', 'uint8 ', ' uint8', '\tuint8\n', 'u int8', 'uint 8', 'uint_8', '_uint8', 'uint8_',
                'uint' + '0' * 40 + '8', 'None', 'auto', 'float', 'float:17', 'float:0', 'f8', 'bfloat:8', 'bfloat32', 'bool:2', 'bool0', 'ue:8', 'se3', 'uie:0', 'pad', 'pad:0', 'bytes:0', 'bytes', 'bits', 'bits0', 'hex', 'hex:0', 'hex3',
                'oct:4', 'bin', 'bin0', 'e4m3mxfp:8', 'e4m3mxfp7', 'mxint:7', 'mxint16', 'p4binary:4', 'e8m0mxfp8', 'e2m1mxfp4', 'e3m2mxfp6', 'e2m3mxfp:8', 'uintle:12', 'uintbe0', 'intne:8', 'floatle:24', 'int0', 'int:1',
                'uint:n, uint:n', 'dtype', 'length', 'x', 'x8', 'uintt8', 'uin', 'in', 't8', 'hexx', '0x8', '0b1', '0o7', 'uint8=', '=uint8', '=', 'a' * 300, 'uint:' + '9' * 5]

def struct_spellings(rng, n_bad):
    good = [p + c for p in STRUCT_PREFIXES for c in STRUCT_CODES]                                   # every prefix x every code
    bare = list(STRUCT_CODES)
    multi, bad = [], []
    for p in STRUCT_PREFIXES:
        multi += [p + rng.choice(['2', '1', '3', '0', '10', '']) + rng.choice(STRUCT_CODES) + rng.choice(['', '', rng.choice(STRUCT_CODES), '2' + rng.choice(STRUCT_CODES)]) for _ in range(4)]
        bad += [p, p + p + rng.choice(STRUCT_CODES), rng.choice(STRUCT_CODES) + p, p + ' ' + rng.choice(STRUCT_CODES), p + rng.choice(STRUCT_CODES) + ':8', p + rng.choice(STRUCT_CODES) + '8', p + rng.choice(STRUCT_CODES) + '=1',
                p + '8', p + 'uint8', p + rng.choice(STRUCT_CODES) + p + rng.choice(STRUCT_CODES), p + rng.choice(STRUCT_CODES) + ',' + p + rng.choice(STRUCT_CODES)]
        bad += [p + c for c in 'xcspPnN?uwtgGeEZ09_']                                                 # codes of the struct module bitstring does not document (and non-codes) after a valid prefix
    bad += [q + c for q in '!^~|#&%+-*' for c in rng.sample(STRUCT_CODES, 3)]                           # a valid code after a character that is not a documented prefix ('!' is struct's, not bitstring's)
    return good, bare, multi, (bad if n_bad is None else rng.sample(bad, min(n_bad, len(bad))))

def named_spellings(rng, per_name):
    out = []
    for nm in DT_NAMES:
        Ls = [None] + (DT_LENGTHS if per_name is None else rng.sample(DT_LENGTHS, per_name))
        for L in Ls:
            if L is None: out.append(nm); continue
            out.append(rng.choice([f'{nm}{L}', f'{nm}:{L}', f'{nm}{L}', f'{nm}:{L}', f'{nm} : {L}', f' {nm}{L} ', f'{nm}:0{L}']) if per_name is not None else f'{nm}{L}')
            if per_name is None: out += [f'{nm}:{L}', f'{nm} : {L}']
    return out

DT_OBJECTS = [['uint', 8, None], ['uint8', None, None], ['u8', None, None], ['int', 7, None], ['float', 16, None], ['float', 32, None], ['float64', None, None], ['floatle', 32, None], ['floatne', 64, None], ['bfloat', None, None],
              ['bfloat', 16, None], ['bfloatle', None, None], ['hex', 4, None], ['hex', None, None], ['bin', 3, None], ['oct', 3, None], ['bytes', 2, None], ['bits', 5, None], ['bool', None, None], ['bool', 1, None], ['ue', None, None],
              ['se', None, None], ['uie', None, None], ['pad', 3, None], ['e4m3mxfp', None, 2], ['e4m3mxfp', None, 0.5], ['e5m2mxfp', None, 'auto'], ['mxint', None, 0.015625], ['p4binary', None, None], ['p3binary', 8, None], ['e2m1mxfp', None, 4],
              ['e3m2mxfp', None, None], ['e2m3mxfp', 6, None], ['e8m0mxfp', None, None], ['uint', 0, None], ['hex', 0, None], ['uint', 8, 2], ['float16', None, 'auto'], ['uintne', 16, None], ['intle', 24, None], ['uintbe', 8, None],
              ['float', 64, 0.25], ['uint', 8, -1], ['int', 8, 1e300], ['uint', 8, 0], ['float', 32, 'inf'], ['float', 32, 'nan'], ['uint', 8, True], ['uint', 1000, None], ['int', 1, None], ['bits', None, None], ['bytes', None, None],
              ['uint', None, None], ['float', None, None], ['uint', -1, None], ['float', 17, None], ['ue', 8, None], ['bogus', 8, None], ['uint8', 8, None], ['>h', None, None], ['@H', None, None], ['uint', True, None], ['mxint', 8, 'auto']]
DT_STYLES = ['pos', 'kw', 'token', 'from_dtype', 'pos', 'kw']

ARRAY_ROUTES = ['array_ctor', 'array_ctor_vals', 'array_ctor_n', 'array_ctor_bytes', 'array_ctor_kw', 'array_ctor_bits', 'array_ctor_trailing', 'array_ctor_array', 'dtype_setter', 'astype', 'array_pp', 'array_arrayarray']
DTYPE_ROUTES = ['dtype_new', 'dtype_new_scale', 'dtype_name_len', 'dtype_kw', 'dtype_build_parse', 'dtype_twice']
BITS_ROUTES = ['unpack', 'unpack_list', 'unpack_kwlen', 'read', 'peek', 'readlist', 'readlist_list', 'peeklist', 'pack', 'pack_list', 'pack_kw', 'pack_kwlen', 'ctor_token', 'fromstring', 'ctor_kw', 'ctor_kw_len', 'getattr', 'setattr',
               'bits_pp', 'byteswap', 'add_token']
STREAM_ONLY = ('read', 'peek', 'readlist', 'readlist_list', 'peeklist')
MUTABLE_ONLY = ('setattr', 'byteswap')
STR_ONLY = ('array_pp', 'pack', 'pack_list', 'pack_kw', 'pack_kwlen', 'ctor_token', 'fromstring', 'ctor_kw', 'ctor_kw_len', 'getattr', 'setattr', 'bits_pp', 'byteswap', 'add_token', 'unpack_kwlen', 'dtype_name_len', 'dtype_kw',
            'dtype_new_scale')       # routes whose documentation takes a string (the other routes also take Dtype objects)
ATTR_ROUTES = ('getattr', 'setattr')         # an unknown attribute name is Python's own AttributeError
SPELL_VALUES = [[1, 2, 3], [0, 255, -1], [0.5, -2.0], [{'str': 'a'}, {'str': 'ff'}], [{'bytes': [120, 121]}], [True, False, True], [], [{'bits': '101'}], [1e40], [{'str': '1'}, 2]]

def gen_dtypespell(rng, tier):
    quick = tier == 'quick'
    typecodes = [{'typecode': tc, 'target': tg} for tc in 'bBuhHiIlLqQfdw' for tg in ['=', '@', '<', '>', 'uint8', 'float32', 'int64']]
    for rnd in range(1 if quick else 2):
        good, bare, multi, bad = struct_spellings(rng, 40 if quick else None)
        named = named_spellings(rng, 2 if quick else None)
        strs = [{'str': x} for x in good + bare + multi + bad + named + DT_MALFORMED]
        objs = [{'dtype': d, 'style': st} for d in DT_OBJECTS for st in (rng.sample(DT_STYLES[:4], 1) if quick else DT_STYLES[:4])]
        for route in ARRAY_ROUTES + DTYPE_ROUTES + BITS_ROUTES:
            if route == 'array_arrayarray': pool = list(typecodes)
            else:
                pool = list(strs) + ([] if route in STR_ONLY else list(objs))
                if quick:
                    # every prefix x every code always; the rest sampled
                    rest = [x for x in pool if x.get('str') not in good]
                    pool = [{'str': x} for x in good] + rng.sample(rest, min(len(rest), 120))
            rng.shuffle(pool)
            chunk = 60
            for i in range(0, len(pool), chunk):
                cls = rng.choice(CLASSES)
                if route in STREAM_ONLY: cls = rng.choice(['ConstBitStream', 'BitStream'])
                if route in MUTABLE_ONLY: cls = rng.choice(MUTABLE)
                L = rng.choice([0, 7, 8, 16, 24, 32, 64, 65, 128, 200])
                yield {'op': 'dtypespell', 'route': route, 'cls': cls, 'lsb0': rng.random() < (0.3 if quick else 0.5), 'bits': rand_bits(rng, L), 'pos': rng.choice([0, 0, L // 2, L]),
                       'adtype': rng.choice(['uint8', 'uint8', 'int16', 'float32', 'hex4', 'bytes2', 'bool', 'bits3', '<h', 'e4m3mxfp']), 'nbytes': rng.choice([16, 16, 0, 1, 24]), 'trail': rand_bits(rng, rng.choice([0, 0, 1, 3])),
                       'vals': rng.choice(SPELL_VALUES), 'spells': pool[i:i + chunk]}

def mk_spell(sp):
    """the argument a spelling stands for: a str, or a Dtype object built in one of the documented call shapes"""
    from bitstring import Dtype
    if 'str' in sp: return sp['str']
    tok, ln, sc = sp['dtype']
    if isinstance(sc, str) and sc != 'auto': sc = float(sc)
    st = sp['style']
    if st == 'token': return Dtype(tok if ln is None else f'{tok}{ln}') if sc is None else Dtype(tok if ln is None else f'{tok}{ln}', scale=sc)
    if st == 'kw': d = Dtype(tok, **({} if ln is None else {'length': ln}), **({} if sc is None else {'scale': sc}))
    else: d = Dtype(tok, ln, sc) if sc is not None else (Dtype(tok, ln) if ln is not None else Dtype(tok))
    if st == 'from_dtype': d = Dtype(d)
    return d

def array_facts(a):
    """None or what is wrong with the Array a as an object: its data is its items followed by the trailing bits, its item size is its dtype's"""
    try: return array_facts_(a)
    except Exception as e: return f'Array: asking for its dtype / itemsize / len / trailing_bits / tolist raises {type(e).__name__}: {str(e)[:70]}'

def array_facts_(a):
    from bitstring import Dtype
    d = a.dtype
    if not isinstance(d, Dtype): return f'its dtype is a {type(d).__name__}'
    if not (isinstance(a.itemsize, int) and a.itemsize > 0): return f'its itemsize is {a.itemsize!r}'
    if d.bitlength != a.itemsize: return f'itemsize {a.itemsize} but the dtype {d} has {d.bitlength} bits'
    n = len(a); t = len(a.trailing_bits)
    if n * a.itemsize + t != len(a.data) or not 0 <= t < a.itemsize: return f'{n} items of {a.itemsize} bits and {t} trailing bits for {len(a.data)} bits of data'
    if len(a.tolist()) != n: return f'len() is {n} but tolist() has {len(a.tolist())} items'
    return None

def run_dtypespell(c):
    import bitstring, array
    from bitstring import Bits, BitArray, ConstBitStream, BitStream, Array, Dtype, pack
    route = c['route']
    bitstring.options.lsb0 = bool(c['lsb0'])
    vals = [mat(v, None) for v in c['vals']]
    base = Array(c['adtype'], bytes(range(c['nbytes'])), trailing_bits=Bits(bin=c['trail']) if c['trail'] else None)       # the Array whose dtype is reassigned / converted / printed
    s = build(c['cls'], c['bits'], 'bin', c['pos'])
    bitstring.options.lsb0 = bool(c['lsb0'])
    trace = []
    for sp in c['spells']:
        kept, chk = [], []
        def f():
            if route == 'array_arrayarray':
                tc, tg = sp['typecode'], sp['target']
                aa = array.array(tc, [1, 2, 3] if tc not in 'uw' else 'abc')          # an unknown type code is array's own ValueError
                a = Array(tg + tc if len(tg) == 1 else tg)
                kept.append(a)
                a.extend(aa)
                a2 = Array(tg + tc if len(tg) == 1 else tg, aa); kept.append(a2)
                return [a.equals(aa), a2.equals(aa), Array('uint8', [1, 2, 3]).equals(aa)]
            v = mk_spell(sp)
            if route.startswith('array_ctor'):
                if route == 'array_ctor': r = Array(v)
                elif route == 'array_ctor_vals': r = Array(v, vals)
                elif route == 'array_ctor_n': r = Array(v, 3)
                elif route == 'array_ctor_bytes': r = Array(v, bytes(range(16)))
                elif route == 'array_ctor_kw': r = Array(dtype=v, initializer=vals)
                elif route == 'array_ctor_bits': r = Array(v, Bits(bin=c['bits']))
                elif route == 'array_ctor_trailing': r = Array(v, vals, trailing_bits='0b101')
                else: r = Array(v, base)
                kept.append(r); return str(r.dtype)
            if route in ('dtype_setter', 'astype', 'array_pp'):
                before = (base.data.bin, str(base.dtype), base.dtype.scale)
                def after(ok):
                    now = (base.data.bin, str(base.dtype), base.dtype.scale)
                    if now[0] != before[0]: return 'the data of the Array changed'
                    if (route != 'dtype_setter' or not ok) and now != before: return f'the dtype of the Array changed from {before[1:]} to {now[1:]}' + ('' if ok else ' although the call was refused')
                chk.append(after)
                if route == 'dtype_setter': base.dtype = v; return str(base.dtype)
                if route == 'astype': r = base.astype(v); kept.append(r); return str(r.dtype)
                buf = io.StringIO(); base.pp(v, stream=buf); return len(buf.getvalue())
            if route.startswith('dtype_'):
                if route == 'dtype_new': d = Dtype(v)
                elif route == 'dtype_new_scale': d = Dtype(v, scale=vals[0] if vals and isinstance(vals[0], (int, float)) else 2)
                elif route == 'dtype_name_len':
                    m = re.fullmatch(r'\s*([^\d:]*?)\s*:?\s*(\d+)\s*', v)
                    d = Dtype(m.group(1), int(m.group(2))) if m else Dtype(v, 8)
                elif route == 'dtype_kw':
                    m = re.fullmatch(r'\s*([^\d:]*?)\s*:?\s*(\d+)\s*', v)
                    d = Dtype(m.group(1), length=int(m.group(2)), scale=None) if m else Dtype(v, length=None, scale=None)
                elif route == 'dtype_twice': d = Dtype(Dtype(v)); d = Dtype(str(d)) if d.scale is None else Dtype(d)
                else: d = Dtype(v)
                out = [str(d), repr(d), d.name, d.length, d.bitlength, d.bits_per_item, d.variable_length, str(d.return_type), d.is_signed, repr(d.scale), hash(d), d == d, d == v, d != 'uint8']
                if not (d.bitlength is None or isinstance(d.bitlength, int) and d.bitlength >= 0): raise AssertionError(f'bitlength {d.bitlength!r}')
                if route == 'dtype_build_parse':
                    for x in (vals or [0]):
                        b = d.build(x); kept.append(b)
                        y = d.parse(b); kept.append(y)
                    d.parse(Bits(bin=c['bits']))
                return out[:2]
            before = (s.bin, getattr(s, 'pos', None) if isinstance(s, ConstBitStream) else None)
            def after(ok):
                if route not in MUTABLE_ONLY and s.bin != before[0]: return f'the content of the {type(s).__name__} changed'
                if not ok and s.bin != before[0]: return f'the call was refused but the content of the {type(s).__name__} changed'
                if isinstance(s, ConstBitStream):
                    if not ok and s.pos != before[1]: return f'the call was refused but the position moved from {before[1]} to {s.pos}'
                    if route not in ('read', 'readlist', 'readlist_list') and route not in MUTABLE_ONLY and s.pos != before[1]: return f'the position moved from {before[1]} to {s.pos}'
            chk.append(after)
            x0 = vals[0] if vals else 1
            if route == 'unpack': r = s.unpack(v)
            elif route == 'unpack_list': r = s.unpack([v, 'bits'] if not isinstance(v, str) or len(v) % 2 else [v])
            elif route == 'unpack_kwlen':
                m = re.fullmatch(r'\s*([^\d:]*?)\s*:?\s*(\d+)\s*', v)
                r = s.unpack(f'{m.group(1)}:n', n=int(m.group(2))) if m else s.unpack(v + ':n', n=8)
            elif route == 'read': r = s.read(v)
            elif route == 'peek': r = s.peek(v)
            elif route == 'readlist': r = s.readlist(v)
            elif route == 'readlist_list': r = s.readlist([v, 1])
            elif route == 'peeklist': r = s.peeklist([v])
            elif route == 'pack': r = pack(v, *(vals[:1] if len(vals) % 2 else vals))
            elif route == 'pack_list': r = pack([v, 'bool'], x0, True)
            elif route == 'pack_kw': r = pack(v + '=val', val=x0)
            elif route == 'pack_kwlen':
                m = re.fullmatch(r'\s*([^\d:]*?)\s*:?\s*(\d+)\s*', v)
                r = pack(f'{m.group(1)}:n=val', n=int(m.group(2)), val=x0) if m else pack(v + ':n', x0, n=8)
            elif route == 'ctor_token': r = type(s)(v + '=' + str(x0 if not isinstance(x0, (Bits, bytes)) else 1))
            elif route == 'fromstring': r = type(s).fromstring(v + '=' + str(x0 if not isinstance(x0, (Bits, bytes)) else 1))
            elif route == 'add_token': r = s + (v + '=' + str(x0 if not isinstance(x0, (Bits, bytes)) else 1))
            elif route == 'ctor_kw': r = type(s)(**{v: x0})
            elif route == 'ctor_kw_len':
                m = re.fullmatch(r'\s*([^\d:]*?)\s*:?\s*(\d+)\s*', v)
                r = type(s)(**{m.group(1): x0}, length=int(m.group(2))) if m else type(s)(**{v: x0}, length=8)
            elif route == 'getattr': r = getattr(s, v)
            elif route == 'setattr': r = setattr(s, v, x0)
            elif route == 'bits_pp':
                buf = io.StringIO(); s.pp(v, stream=buf); r = len(buf.getvalue())
            elif route == 'byteswap': r = s.byteswap(v)
            else: raise AssertionError(route)
            kept.append(r)
            return str(type(r).__name__)
        r = attempt(f, 5)
        def g():
            msgs = [m for fn in chk for m in [fn(r[0] == 'ok')] if m]
            for what, o in (('the Array', base), ('the receiver', s)):
                m = probe(o)
                if m: msgs.append(f'{what} is not a valid object afterwards: ' + m)
            m = array_facts(base)
            if m: msgs.append('the Array is not a valid object afterwards: ' + m)
            for x in collect(kept):
                m = probe(x, mutate=x is not s and x is not base and x is not base.data)
                if m is None and isinstance(x, Array): m = array_facts(x)
                if m: msgs.append(('the returned object' if r[0] == 'ok' else 'an object the refused call had built') + ' is not a valid object: ' + m)
            return msgs
        pr = attempt(g, 10)
        msgs = pr[1] if pr[0] == 'ok' else [f'probing the objects of the call raised {pr[1]}']
        o = bitstring.options
        trace.append([list(r) if r[0] == 'err' else ['ok', str(r[1])[:60]], [o.lsb0, o.bytealigned, o.mxfp_overflow], msgs[:3]])
        bitstring.options.lsb0 = bool(c['lsb0']); bitstring.options.bytealigned = False; bitstring.options.mxfp_overflow = 'saturate'
    return ('ok', trace)

def oracle_dtypespell(c, obs):
    if obs[0] != 'ok': return f"the dtype-spelling case {str(c)[:300]} could not be observed: {obs[1]}"
    route = c['route']
    for sp, (r, opts, msgs) in zip(c['spells'], obs[1]):
        shown = repr(sp['str']) if 'str' in sp else (f"array.array type code {sp['typecode']!r} with an Array of dtype {(sp['target'] + sp['typecode']) if len(sp['target']) == 1 else sp['target']!r}" if 'typecode' in sp
                                                       else f"Dtype{tuple(sp['dtype'])} (call shape '{sp['style']}')")
        ctx = (f"existing Array of dtype {c['adtype']!r} with {c['nbytes']} bytes + {len(c['trail'])} trailing bits" if route in ('dtype_setter', 'astype', 'array_pp', 'array_ctor_array') else
               f"values {c['vals']}" if route in ARRAY_ROUTES + DTYPE_ROUTES else f"receiver: {c['cls']} of {len(c['bits'])} bits at pos {c['pos']}; values {c['vals']}")
        where = f"dtype / format spelling {shown} handed to route '{route}' ({ctx}; lsb0={c['lsb0']})"
        if r[0] == 'err' and r[1] not in ALLOWED:
            text = sp.get('str', '') if 'str' in sp else str(sp.get('dtype'))
            feasible = not re.search(r'\d{5,}|e\+?\d{2,}|inf|nan', text)
            if r[1] == 'AttributeError' and route in ATTR_ROUTES: pass            # an attribute that does not exist
            elif r[1] in ('OverflowError', 'Other:MemoryError') and not feasible: pass
            elif r[1] == 'OverflowError' and c['vals'] == [1e40]: pass           # a value no format can hold
            else: return f"{where} raised {r[1]}"
        if msgs: return f"{where} ({'raised ' + r[1] if r[0] == 'err' else 'returned ' + str(r[1])}): {msgs[0]}"
        if opts != [bool(c['lsb0']), False, 'saturate']: return f"{where} left the module options as {opts}"
    return None

def kind(c): return c['op'] + ':' + c.get('cls', '')

def mat(a, self_obj):
    """materialise an argument description"""
    import bitstring
    if isinstance(a, dict):
        if 'bits' in a: return bitstring.Bits(bin=a['bits'])
        if 'cbs' in a: return bitstring.ConstBitStream(bin=a['cbs'])
        if 'self' in a: return self_obj
        if 'str' in a: return a['str']
        if 'rawstr' in a: return a['rawstr']
        if 'bytes' in a: return bytes(a['bytes'])
        if 'list' in a: return list(a['list'])
        if 'intlist' in a: return list(a['intlist'])
        if 'slice' in a: return slice(*a['slice'])
        if 'seq' in a: return [mat(x, self_obj) for x in a['seq']]
        if 'sio' in a:
            import io
            return io.StringIO()
    return a

def snapshot(o):
    import bitstring
    if isinstance(o, bitstring.Array):
        # a valid Array answers len / tolist / repr / itemsize (a refused dtype assignment must not leave it half changed)
        bad = None
        for name, fn in (('len', lambda: len(o)), ('tolist', lambda: o.tolist()), ('repr', lambda: repr(o)), ('itemsize', lambda: o.itemsize), ('trailing_bits', lambda: o.trailing_bits)):
            try: fn()
            except Exception as e:
                bad = f'{name}() raises {type(e).__name__}: {str(e)[:60]}'; break
        return ['Array', o.data.bin, len(o.data), None, bad]
    # the position is read for what it is: getattr(o, 'pos', None) would turn the AttributeError of a stream that has lost its position into "no position"
    pos = None
    if isinstance(o, bitstring.ConstBitStream):
        try: pos = o.pos
        except Exception as e: pos = f'.pos raises {type(e).__name__}: {str(e)[:60]}'
    return [type(o).__name__, o.bin, len(o), pos]

def probe(x, mutate=False):
    """Is the bitstring object x (returned by a call, passed to one, or the receiver) a valid object of its class? -> None, or what is wrong with it.
    The validity predicates of the property (len == len(bin), 0 <= pos <= len) must be evaluable at all; every other ordinary use may raise documented exceptions only.
    mutate: x is a fresh object of a mutable class nobody else refers to - it is also changed in place and probed again."""
    import bitstring, copy
    if isinstance(x, bitstring.Array):
        for what, fn in (('len()', lambda: len(x)), ('tolist()', x.tolist), ('repr()', lambda: repr(x)), ('itemsize', lambda: x.itemsize), ('dtype', lambda: str(x.dtype)), ('trailing_bits', lambda: x.trailing_bits)):
            try: fn()
            except Exception as e: return f'Array: {what} raises {type(e).__name__}: {str(e)[:70]}'
        return probe(x.data)
    nm = type(x).__name__
    bad = lambda what, e: f'{nm}: {what} raises {type(e).__name__}: {str(e)[:70]}'
    try: n = len(x)
    except Exception as e: return bad('len()', e)
    try: b = x.bin if n <= 100000 else None
    except Exception as e: return bad('.bin', e)
    if b is not None and len(b) != n: return f'{nm}: len() = {n} but len(.bin) = {len(b)}'
    stream = isinstance(x, bitstring.ConstBitStream)
    p = None
    if stream:
        try: p = x.pos
        except Exception as e: return bad('.pos', e)
        if not (isinstance(p, int) and 0 <= p <= n): return f'{nm}: pos = {p!r} outside [0, {n}]'
    uses = [('repr()', lambda: repr(x)), ('str()', lambda: str(x)), ('== itself', lambda: x == x), ('[:]', lambda: x[:]), ('copy.copy()', lambda: copy.copy(x)), ('.copy()', lambda: x.copy()),
            ('tobytes()', lambda: x.tobytes()), ('bool()', lambda: bool(x)), ('iteration', lambda: [v for _, v in zip(range(3), x)])]
    if n <= 100000: uses += [('+ itself', lambda: x + x), ('[::-1]', lambda: x[::-1])]
    if stream: uses += [('peek(0)', lambda: x.peek(0)), ('read(0)', lambda: x.read(0)), ('.bitpos', lambda: x.bitpos), ('pos = pos', lambda: setattr(x, 'pos', p)), ('peeklist([])', lambda: x.peeklist([]))]
    if type(x).__hash__ is not None: uses.append(('hash()', lambda: hash(x)))
    for what, fn in uses:
        try: fn()
        except Exception as e:
            if exn_name(e) not in ALLOWED: return bad(what, e)
    if stream:
        try: p2 = x.pos
        except Exception as e: return bad('.pos (after peek / read(0))', e)
        if p2 != p: return f'{nm}: peek(0) / read(0) / pos = pos moved the position from {p} to {p2}'
    if mutate and isinstance(x, bitstring.BitArray) and n <= 100000:
        for what, fn in (("append('0b1')", lambda: x.append('0b1')), ('invert()', lambda: x.invert()), ("prepend('0x0')", lambda: x.prepend('0x0')), ('del [0:2]', lambda: x.__delitem__(slice(0, 2)))):
            try: fn()
            except Exception as e:
                if exn_name(e) not in ALLOWED: return bad(what, e)
        m = probe(x)
        if m: return m + ' (after it was changed in place)'
    return None

def collect(v, depth=0):
    """the bitstring objects (and Arrays) found in a returned value; generators and iterators are run to their end (their errors surface), at most 40 objects are kept"""
    import bitstring, types
    if isinstance(v, (bitstring.Bits, bitstring.Array)): return [v]
    if isinstance(v, (str, bytes, bytearray, int, float, bool)) or v is None or depth > 3: return []
    if isinstance(v, dict): v = list(v.values())
    if isinstance(v, (list, tuple)) or isinstance(v, types.GeneratorType) or hasattr(v, '__next__'):
        out = []
        for x in v:
            if len(out) < 40: out += collect(x, depth + 1)
        return out
    return []

def operands_after(pairs, receiver):
    """pairs: (JSON description, materialised object) of the operands of a call. Bitstring operands must still be valid objects, the immutable ones unchanged"""
    import bitstring
    msgs = []
    for desc, obj in pairs:
        descs, objs = ([desc], [obj])
        if isinstance(desc, dict) and 'seq' in desc and isinstance(obj, list): descs, objs = desc['seq'], obj
        for d_, o_ in zip(descs, objs):
            if not isinstance(o_, bitstring.Bits) or o_ is receiver: continue
            m = probe(o_)
            if m: msgs.append('an operand is not a valid object afterwards: ' + m)
            exp = (d_.get('bits', d_.get('cbs')) if isinstance(d_, dict) else None)
            if exp is not None and m is None and o_.bin != exp: msgs.append(f'the immutable operand {type(o_).__name__}(bin={exp[:40]!r}) was changed to {o_.bin[:40]!r}')
    return msgs

def probe_all(v, involved=()):
    """probe every object in v; an object that is not one of `involved` (receiver, operands) and is mutable is also changed in place"""
    msgs = []
    for x in collect(v):
        m = probe(x, mutate=not any(x is y for y in involved))
        if m: msgs.append(m)
    return msgs[:3]

def drain(v, keep=None):
    """force generators so that their errors surface; map results to something small. keep: a list that receives the value (generators: their items)"""
    import types
    if isinstance(v, types.GeneratorType) or hasattr(v, '__next__'):
        items = list(v)
        if keep is not None: keep.append(items[:40])
        return ['gen' if isinstance(v, types.GeneratorType) else 'iter', len(items)]
    if keep is not None: keep.append(v)
    return type(v).__name__

def run_impl(c):
    import bitstring
    from bitstring import Bits, BitArray, Array, Dtype, pack
    op = c['op']
    opts_before = (False, False, 'saturate')
    if op == 'constructor':
        def f():
            args = [mat(a, None) for a in c['args']]; kwargs = {k: mat(v, None) for k, v in c['kwargs'].items()}
            o = cls_of(c['cls'])(*args, **kwargs)
            snap = snapshot(o)
            msgs = [m for m in [probe(o, mutate=True)] if m]
            msgs += operands_after(list(zip(c['args'], args)) + [(c['kwargs'][k], v) for k, v in kwargs.items()], None)
            return snap + [True, msgs]
        return attempt(f)
    if op == 'packcall':
        fmt = mat(c['fmt'], None)
        if not isinstance(fmt, str): fmt = 'uint:8'      # pack documents str or list of str only
        def f():
            bitstring.options.lsb0 = c.get('lsb0', False)
            vals = [mat(v, None) for v in c['vals']]
            before = [v.bin if isinstance(v, Bits) else None for v in vals]
            r = pack(fmt, *vals)
            snap = snapshot(r)
            msgs = [m for m in [probe(r)] if m] + operands_after(list(zip(c['vals'], vals)), None)
            if c.get('mutate_result'):
                r.append('0b1'); r.invert(); r.prepend('0x0')
            after = [v.bin if isinstance(v, Bits) else None for v in vals]
            cache_ok = all(Bits(v['str']).bin == v['str'][2:] for v in c['vals'] if isinstance(v, dict) and 'str' in v and v['str'].startswith('0b'))
            return snap + [before == after and cache_ok, msgs]
        return attempt(f)
    if op == 'crashprobe':
        import subprocess, sys as _sys
        prog = ('import sys; sys.path.insert(0, %r)\nimport bitstring\nfrom bitstring import *\nbitstring.options.lsb0 = %r\n' % (REPO, bool(c['lsb0'])) +
                'import signal; signal.setitimer(signal.ITIMER_PROF, 20); signal.alarm(300)\nout = []\nfor st in %r:\n    a = BitArray(bin=%r)\n    try:\n        exec(st)\n        out.append("ok")\n'
                '    except MemoryError: out.append("MemoryError")\n    except Exception as e: out.append(type(e).__name__)\n    if len(a) != len(a.bin): out.append("len")\nprint("|".join(out))\n' % (c['stmts'], c['bits']))
        try:
            pr = subprocess.run([_sys.executable, '-c', prog], capture_output=True, text=True, timeout=240)
            return ('ok', [pr.returncode, pr.stdout.strip().split('|') if pr.stdout.strip() else [], pr.stderr[-200:]])
        except subprocess.TimeoutExpired:
            return ('ok', [124, [], 'timeout'])
    if op == 'derive':
        import copy, pickle
        from bitstring import ConstBitStream, BitStream
        s = build(c['cls'], c['bits'], 'bin', c['pos'])
        t = Bits(bin=c['t'])
        bitstring.options.lsb0 = c['lsb0']
        trace = []
        for e in c['exprs']:
            ub = ((c['u'] or '0') * (len(s) // max(len(c['u']), 1) + 1))[:len(s)]        # an operand as long as s is now
            u = Bits(bin=ub); w = BitArray(bin=ub)
            ns = {'s': s, 't': t, 'u': u, 'w': w, 'Bits': Bits, 'BitArray': BitArray, 'ConstBitStream': ConstBitStream, 'BitStream': BitStream, 'Array': Array, 'Dtype': Dtype, 'pack': pack,
                  'copy': copy, 'pickle': pickle, 'bitstring': bitstring}
            before = snapshot(s)
            kept = []
            r = attempt(lambda: drain(eval(e, ns), kept), 5)
            mid = snapshot(s)
            def g():
                msgs = ['the receiver is not a valid object: ' + m for m in [probe(s)] if m]
                msgs += ['an operand is not a valid object: ' + m for m in [probe(t), probe(u), probe(w)] if m]
                if t.bin != c['t'] or u.bin != ub: msgs.append('an immutable operand was changed')
                if r[0] == 'ok': msgs += ['the returned object is not a valid object: ' + m for m in probe_all(kept, [s, t, u, w])]
                return msgs
            pr = attempt(g, 10)
            msgs = pr[1] if pr[0] == 'ok' else [f'probing the objects of the call raised {pr[1]}']
            after = snapshot(s)
            if after[:4] != mid[:4]: msgs.append(f'changing the returned object in place changed the receiver from {mid[1][:40]!r} to {after[1][:40]!r}')
            o = bitstring.options
            trace.append([before[1:], list(r) if r[0] == 'err' else ['ok', str(r[1])[:40]], mid[1:], [o.lsb0, o.bytealigned, o.mxfp_overflow], msgs[:3]])
            bitstring.options.lsb0 = c['lsb0']; bitstring.options.bytealigned = False; bitstring.options.mxfp_overflow = 'saturate'
        return ('ok', trace)
    if op == 'dtypespell': return run_dtypespell(c)
    if op == 'dtypecall':
        def f():
            kw = {} if c['scale'] is None else {'scale': c['scale']}
            tok = mat(c['token'], None)
            if not isinstance(tok, str): tok = 'uint:8'     # Dtype documents a token string (or a Dtype)
            d = Dtype(tok, c['length'], **kw) if c['length'] is not None else Dtype(tok, **kw)
            out = [str(d), repr(d), d.bitlength]
            b = d.build(mat(c['v'], None)); out.append(len(b))
            v = d.parse(b); out.append(type(v).__name__)
            out.append(probe_all([b, v], [b]))
            return out
        return attempt(f)
    bitstring.options.lsb0 = c['lsb0']
    lsb0 = c['lsb0']
    if c['cls'] == 'Array':
        vals = {'uint8': [1, 2, 3], 'int4': [-1, 0, 7], 'float16': [0.5, 1.0], 'hex4': ['a', 'b'], 'bytes1': [b'x', b'y']}[c['adtype']]
        s = Array(c['adtype'], vals)
    else:
        s = build(c['cls'], c['bits'], 'bin', c['pos'])
    frozen = Bits(bin=c['bits'])             # an immutable bystander that shares nothing
    trace = []
    for st in c['steps']:
        before = snapshot(s)
        kept, pairs = [], []            # what the call returned; (description, object) of every operand handed to it
        def f():
            if st['k'] == 'autoscale':
                vals = [float(v) if isinstance(v, str) else v for v in st['vals']]
                a2 = Array(Dtype(st['fmt'], scale='auto'), vals)
                kept.append(a2)
                return [repr(a2.dtype.scale)]
            if st['k'] == 'getprop': return drain(getattr(s, st['name']), kept)
            if st['k'] == 'setprop':
                v = mat(st['v'], s); pairs.append((st['v'], v))
                setattr(s, st['name'], v); return None
            m = getattr(s, st['name'])
            args = [mat(a, s) for a in st['args']]; kwargs = {k: mat(v, s) for k, v in st['kwargs'].items()}
            pairs.extend(list(zip(st['args'], args)) + [(st['kwargs'][k], v) for k, v in kwargs.items()])
            return drain(m(*args, **kwargs), kept)
        r = attempt(f, 5)
        mid = snapshot(s)
        # every object involved in the call is a valid object afterwards: the receiver, the operands (immutable ones unchanged) and whatever was RETURNED
        def g():
            involved = [s] + ([s.data] if isinstance(s, Array) else []) + collect([o_ for _, o_ in pairs])
            msgs = ['the receiver is not a valid object: ' + m for m in [probe(s)] if m]
            msgs += operands_after(pairs, s)
            if r[0] == 'ok': msgs += ['the returned object is not a valid object: ' + m for m in probe_all(kept, involved)]
            return msgs
        pr = attempt(g, 10)
        msgs = pr[1] if pr[0] == 'ok' else [f'probing the objects of the call raised {pr[1]}']
        after = snapshot(s)
        if after[:4] != mid[:4]: msgs.append(f'changing the returned object in place (append / invert / prepend / del on a fresh object of a mutable class) changed the receiver from {mid[1][:40]!r} to {after[1][:40]!r}')
        o = bitstring.options
        opts = [o.lsb0, o.bytealigned, o.mxfp_overflow]
        trace.append([before, list(r) if r[0] == 'err' else ['ok', str(r[1])[:40]], mid, opts, frozen.bin == c['bits'], msgs[:3]])
        if opts != [lsb0, False, 'saturate']:
            bitstring.options.lsb0 = lsb0; bitstring.options.bytealigned = False; bitstring.options.mxfp_overflow = 'saturate'
    return ('ok', trace)

def has_huge(x):
    if isinstance(x, bool): return False
    if isinstance(x, int): return abs(x) >= 2 ** 31
    if isinstance(x, dict): return any(has_huge(v) for v in x.values())
    if isinstance(x, (list, tuple)): return any(has_huge(v) for v in x)
    return False

def bad_exc(r, ctx=None):
    if r[0] != 'err' or r[1] in ALLOWED: return False
    if r[1] in ('OverflowError', 'Other:MemoryError') and has_huge(ctx): return False    # an infeasible size is outside the property
    return True

def oracle(c, obs):
    op = c['op']
    if op == 'crashprobe':
        rc, outs, err = obs[1]
        if rc == 124: return None                     # an infeasible size made a statement run out of time: outside the property
        if rc != 0: return f"the interpreter died (exit status {rc}) while running, on BitArray(bin={c['bits']!r}) with lsb0={c['lsb0']}, one of: {c['stmts']}  {err[-100:]}"
        for st, o in zip(c['stmts'], [x for x in outs if x != 'len']):
            if o not in ('ok', 'MemoryError', 'OverflowError') and o not in ALLOWED and 'Other:' + o not in ALLOWED and o not in ('ValueError', 'IndexError', 'TypeError', 'ReadError', 'Error', 'CreationError', 'InterpretError', 'ByteAlignError'):
                return f"{st!r} on BitArray(bin={c['bits']!r}) (lsb0={c['lsb0']}) raised {o}"
        if 'len' in outs: return f"len(a) != len(a.bin) after one of {c['stmts']}"
        return None
    if op in ('constructor', 'packcall', 'dtypecall'):
        if bad_exc(obs, c): return f"{op} {dict((k, v) for k, v in c.items() if k != 'op')} raised {obs[1]}"
        if obs[0] == 'ok' and isinstance(obs[1][-1], list) and obs[1][-1]: return f"{op} {str(dict((k, v) for k, v in c.items() if k != 'op'))[:300]}: {obs[1][-1][0]}"
        if obs[0] == 'ok' and op != 'dtypecall' and isinstance(obs[1][3], str): return f"{op} {str(dict((k, v) for k, v in c.items() if k != 'op'))[:300]}: {obs[1][3]}"
        if obs[0] == 'ok' and op != 'dtypecall' and obs[1][2] != len(obs[1][1]): return f"{op}: len != len(bin)"
        if obs[0] == 'ok' and op == 'packcall' and len(obs[1]) > 4 and not obs[1][4]:
            return f"pack({c['fmt']}, {c['vals']}) (lsb0={c.get('lsb0')}) changed an immutable operand or the cached parse of a string operand (possibly once its result was mutated)"
        return None
    if op == 'derive': return oracle_derive(c, obs)
    if op == 'dtypespell': return oracle_dtypespell(c, obs)
    if obs[0] != 'ok': return f"the objects of the program {str(c)[:300]} could not be observed: {obs[1]}"
    for st, (before, r, after, opts, frozen_ok, *more) in zip(c['steps'], obs[1]):
        where = f"{c['cls']}({before[1][:40]!r}, pos={before[3]}, lsb0={c['lsb0']}).{st.get('name', st['k'])}" + (f"({st.get('args')}, {st.get('kwargs')})" if st['k'] == 'call' else f" {st['k']} {st.get('v')}")
        if bad_exc(r, st): return f"{where} raised {r[1]}"
        if after[2] != len(after[1]): return f"{where}: len(s)={after[2]} but len(s.bin)={len(after[1])}"
        if len(after) > 4 and after[4]: return f"{where} left the Array unusable: {after[4]}"
        if isinstance(after[3], str): return f"{where}: afterwards {after[3]}"
        if after[3] is not None and not 0 <= after[3] <= after[2]: return f"{where}: pos={after[3]} outside [0, {after[2]}]"
        if more and more[0]: return f"{where} ({'raised ' + r[1] if r[0] == 'err' else 'returned ' + str(r[1])}): {more[0][0]}"
        if c['cls'] in ('Bits', 'ConstBitStream') and after[1] != before[1]: return f"{where} changed an immutable object: {before[1][:40]!r} -> {after[1][:40]!r}"
        if not frozen_ok: return f"{where} changed an unrelated immutable object"
        if opts != [c['lsb0'], False, 'saturate']: return f"{where} left the module options as {opts}"
        if r[0] == 'err' and c['cls'] in MUTABLE and st['k'] == 'call' and st['name'] not in ('set', 'invert', 'byteswap', 'extend') and after[1] != before[1]:
            return f"{where} raised {r[1]} and left the content changed"
    return None

def oracle_derive(c, obs):
    if obs[0] != 'ok': return f"the objects of the derivations {str(c)[:300]} could not be observed: {obs[1]}"
    inplace = ('__iadd__', '__imul__', '__ilshift__', '__irshift__', '__iand__', '__ior__', '__ixor__')
    for e, (before, r, after, opts, msgs) in zip(c['exprs'], obs[1]):
        where = f"s = {c['cls']}({before[0][:40]!r}{'..' if len(before[0]) > 40 else ''}, {before[1]} bits, pos={before[2]}), t = Bits({c['t']!r}), lsb0={c['lsb0']}: {e}"
        if bad_exc(r, None) and not (r[1] in ('OverflowError', 'Other:MemoryError')): return f"{where} raised {r[1]}"
        if isinstance(after[2], str): return f"{where}: afterwards {after[2]}"
        if after[1] != len(after[0]): return f"{where}: len(s)={after[1]} but len(s.bin)={len(after[0])}"
        if after[2] is not None and not 0 <= after[2] <= after[1]: return f"{where}: pos={after[2]} outside [0, {after[1]}]"
        if msgs: return f"{where} ({'raised ' + r[1] if r[0] == 'err' else 'returned ' + str(r[1])}): {msgs[0]}"
        if (c['cls'] in ('Bits', 'ConstBitStream') or not any(x in e for x in inplace)) and after[0] != before[0]: return f"{where} changed the content of s: {before[0][:40]!r} -> {after[0][:40]!r}"
        if opts != [c['lsb0'], False, 'saturate']: return f"{where} left the module options as {opts}"
    return None

def nontrivial(c, obs):
    if c['op'] == 'dtypespell': return obs[0] == 'ok' and any(t[0][0] == 'err' for t in obs[1])
    return obs[0] == 'err' or (c['op'] in ('program', 'derive') and any(t[1][0] == 'err' for t in obs[1]))
def classify(c, obs): return None
def coq_check(c, obs): return None

def evals(cases, observed):
    return sum(len(o[1]) if c['op'] in ('program', 'derive', 'dtypespell') and o[0] == 'ok' else 1 for c, o in zip(cases, observed))

def search(seeds, rng):
    for c in list(seeds) + list(gen_cases(rng, 'quick')):
        try: obs = run_impl(c)
        finally: reset_options()
        msg = oracle(c, obs)
        if msg: return c, obs, msg
    return None
