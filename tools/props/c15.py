"""C15 — out-of-range or mis-sized values are rejected, never wrapped or truncated."""
from vlib import *
from props.common import *
import sys

ID = 'C15'
COQ_PROPS = ['Props/C15.v']
COQ_IMPORTS = ['Prims', 'CaseLib', 'Golomb', 'IntCodec', 'Search', 'Store', 'DtypeLen']
RULE = ('all integer dtypes x lengths (valid, zero, negative, not whole bytes for endian types) x values at, just inside and just outside every range limit; floats with lengths other than 16/32/64; '
        'bool/8-bit-float lengths; tokens whose stated length disagrees with the value; invalid digits; windows beyond bytes/bitarray/BytesIO/file sources; through constructor keyword, name with length, '
        'token string, property assignment (target must stay unchanged), pack, Dtype.build and Array element assignment; Arrays (plain and scaled dtypes, ints and floats) given the values of another '
        'container - an Array with another scale / name / item length, a slice of an Array, list, tuple, generator, iterator, array.array - by slice assignment, extend, constructor, astype, item assignment, '
        'append and insert: a value v is stored as v / scale exactly or refused with nothing changed. non-trivial = a rejected case; distinct by arguments')
ASSUMPTIONS = ['CreationError is ValueError in this package (exceptions.py)']
INTS = ['uint', 'int', 'uintbe', 'intbe', 'uintle', 'intle', 'uintne', 'intne']
ROUTES6 = ['kw_len', 'kw_name', 'setattr', 'setattr_plain', 'token', 'build', 'pack', 'array', 'array_slice']

def gen_cases(rng, tier):
    N = 600 if tier == 'quick' else 10000
    for _ in range(N):
        name = rng.choice(INTS)
        whole = name not in ('uint', 'int')
        n = rng.choice([1, 2, 3, 7, 8, 9, 16, 24, 31, 32, 33, 64, 65, 128]) if not whole else 8 * rng.choice([1, 2, 3, 4, 8, 9])
        if rng.random() < 0.15: n = rng.choice([0, -1, -8, 12, 4, 7] if whole else [0, -1, -5])
        signed = name.startswith('int')
        m = max(n, 1)
        lo, hi = (-(1 << (m - 1)), (1 << (m - 1)) - 1) if signed else (0, (1 << m) - 1)
        v = rng.choice([lo, hi, lo - 1, hi + 1, lo + 1, hi - 1, 0, -1, 2 * hi + 5, -(1 << (m + 3)), 1 << (m + 70)])
        yield {'op': 'int', 'name': name, 'n': n, 'v': v, 'route': rng.choice(ROUTES6), 'cls': rng.choice(CLASSES),
               'astext': rng.choice([None, None, None, 'plain', 'zeros', 'zeros', 'plus', 'spaces'])}          # the integer given as decimal text, also zero-padded: the same value
    for _ in range(N // 4):
        yield {'op': 'badlen', 'name': rng.choice(['float', 'floatle', 'floatbe', 'bfloat', 'bool', 'p4binary', 'e4m3mxfp', 'e3m2mxfp', 'e2m1mxfp', 'mxint', 'hex', 'oct']),
               'n': rng.choice([0, 1, 2, 4, 5, 6, 7, 8, 12, 15, 16, 17, 24, 32, 48, 63, 64, 65, 128, -16]), 'route': rng.choice(['kw_len', 'kw_name', 'token', 'build', 'pack', 'setattr']), 'cls': rng.choice(CLASSES)}
    for _ in range(N // 4):
        k = rng.choice(['hex', 'oct', 'bin', 'bytes', 'bits'])
        w = {'hex': 4, 'oct': 3, 'bin': 1, 'bytes': 8, 'bits': 1}[k]
        nd = rng.randrange(0, 6)
        val = ''.join(rng.choice({'hex': '0123456789abcdefABCDEF', 'oct': '01234567', 'bin': '01', 'bytes': 'ab', 'bits': '01'}[k]) for _ in range(nd))
        bad_digit = rng.random() < 0.3 and k in ('hex', 'oct', 'bin') and nd > 0
        if bad_digit:
            j = rng.randrange(nd); val = val[:j] + rng.choice({'hex': 'gxz-', 'oct': '89a', 'bin': '2a9'}[k]) + val[j + 1:]
        stated = nd + rng.choice([0, 0, 1, -1, 3]) if k == 'bytes' else w * nd + rng.choice([0, 0, 0, w, -w, 1, 2])
        yield {'op': 'token_len', 'kind': k, 'val': val, 'stated': stated, 'bad_digit': bad_digit, 'route': rng.choice(['token', 'pack', 'build', 'kw_len', 'kw_name', 'setattr']), 'cls': rng.choice(CLASSES)}

    # a stated length of zero with a non-empty value (the only stated length for which `if length:` and `if length is not None:` differ)
    for k, vals in (('hex', ['a', 'ff']), ('oct', ['7']), ('bin', ['1', '01']), ('bytes', ['a']), ('bits', ['1'])):
        for val in vals:
            for route in ('token', 'pack', 'build', 'kw_len', 'kw_name'):
                yield {'op': 'token_len', 'kind': k, 'val': val, 'stated': 0, 'bad_digit': False, 'route': route, 'cls': rng.choice(CLASSES)}
    # e8m0mxfp holds powers of two only: anything else - also a float a few ulp away from a power of two - is refused, never rounded (every creation route)
    import math
    for _ in range(60 if tier == 'quick' else 900):
        k = rng.choice([-126, -60, -20, -4, -1, 0, 1, 3, 4, 10, 20, 52, 64, 100, 127])
        p2 = 2.0 ** k
        step = lambda x, n, d: x if n == 0 else step(math.nextafter(x, d), n - 1, d)
        f = rng.choice([step(p2, 1, math.inf), step(p2, 2, math.inf), step(p2, 3, math.inf), step(p2, 1, 0.0), step(p2, 2, 0.0), p2 * 1.5, p2 * 1.0000001, -p2, 3.0, p2, p2])
        yield {'op': 'e8m0', 'f': f.hex(), 'route': rng.choice(['kw', 'token', 'pack', 'build', 'setattr', 'array']), 'cls': rng.choice(CLASSES)}
    # an Array of 'bits:n' items takes bitstrings of exactly n bits (objects and strings alike), by every item route
    for _ in range(60 if tier == 'quick' else 900):
        n = rng.choice([1, 3, 8, 12])
        m = rng.choice([n, n, 0, n - 1, n + 1, 2 * n])
        yield {'op': 'array_bits', 'n': n, 'val': rand_bits(rng, m), 'as': rng.choice(['Bits', 'BitArray', 'BitStream', 'str']), 'route': rng.choice(['setitem', 'setslice', 'extslice', 'append', 'insert', 'extend', 'init']), 'cls': 'Bits'}
    # bytes= given as any object with the buffer protocol (items of 1, 2, 4, 8 bytes, signed, float, multi-dimensional, strided, read-only and writable) or
    # as a sequence of ints, with offset / length in and out of range: the supplied data is the object's BYTES, whatever len(obj) says
    yield from gen_bufwindow(rng, tier)
    # assignments to an existing Array (dtype property with every kind of unusable format, read-only properties, items / slices / append / insert / extend
    # with values that do not fit, failing in-place operators, ...): refused ones leave every observable as it was, accepted ones have exactly the requested size
    yield from gen_array_set(rng, tier)
    # the values come from another container: an Array with another scale / name / item length, a slice of an Array, a tuple, a generator, an array.array ...
    # (slice assignment, extend, constructor, astype, item assignment, append, insert): values that do not fit the TARGET are refused and nothing changes
    yield from gen_array_src(rng, tier)
    # offset / length windows beyond the supplied bytes, bytearray, bitarray, BytesIO, file name or file handle (cases, runner and oracle of C17)
    import random as _random
    from props import c17
    for c in c17.gen_cases(_random.Random(rng.randrange(1 << 30)), tier):
        if c['op'] == 'window': yield c

def kind(c): return c['op'] + ':' + (c.get('route', c.get('via', '')) if c['op'] != 'array_src' else c['act']['a'] + '/' + c['skind'])

def run_impl(c):
    import bitstring
    from bitstring import Bits, BitArray, Dtype, pack, Array
    C = cls_of(c['cls']); op = c['op']
    if op == 'window':
        from props import c17
        return c17.run_impl(c)
    if op == 'bufwindow': return run_bufwindow(c)
    if op == 'array_set': return run_array_set(c)
    if op == 'array_src': return run_array_src(c)
    if op == 'e8m0':
        x = float.fromhex(c['f']); r = c['route']
        def f():
            if r == 'kw': return C(e8m0mxfp=x).bin
            if r == 'token': return C(f'e8m0mxfp={x!r}').bin
            if r == 'pack': return pack('e8m0mxfp', x).bin
            if r == 'build': return Dtype('e8m0mxfp').build(x).bin
            if r == 'setattr':
                a = BitArray('0xff'); before = a.bin
                try: a.e8m0mxfp = x
                except Exception as e: return ['raised', exn_name(e), a.bin == before]
                return a.bin
            a = Array('e8m0mxfp', [1.0, 2.0]); before = a.data.bin
            try: a[1] = x
            except Exception as e: return ['raised', exn_name(e), a.data.bin == before]
            return a.data.bin[8:]
        return attempt(f)
    if op == 'array_bits':
        n, val = c['n'], c['val']
        v = ('0b' + val if val else '') if c['as'] == 'str' else getattr(bitstring, c['as'])(bin=val)
        def f():
            r = c['route']
            if r == 'init':
                try: a = Array(f'bits{n}', [Bits(n), v])
                except Exception as e: return ['raised', exn_name(e), True]
                return [a.data.bin, len(a)]
            a = Array(f'bits{n}', [Bits(n), Bits(n), Bits(n)]); before = a.data.bin
            try:
                if r == 'setitem': a[1] = v
                elif r == 'setslice': a[0:1] = [v]
                elif r == 'extslice': a[::2] = [Bits(n), v]
                elif r == 'append': a.append(v)
                elif r == 'insert': a.insert(1, v)
                elif r == 'extend': a.extend([v])
            except Exception as e: return ['raised', exn_name(e), a.data.bin == before]
            return [a.data.bin, len(a)]
        return attempt(f)
    def mk(name, n, value, route):
        tok = f'{name}:{n}'
        if route == 'kw_len': return C(**{name: value, 'length': n}).bin
        if route == 'kw_name': return C(**{f'{name}{n}': value}).bin
        if route == 'token': return C(f'{tok}={value}').bin
        if route == 'build': return Dtype(name, n).build(value).bin
        if route == 'pack': return pack(tok, value).bin
        if route == 'setattr':
            a = (C if c['cls'] in MUTABLE else BitArray)('0b1011, 0xabc')          # a stream also has a position: a refused assignment leaves that alone as well
            if hasattr(a, 'pos'): a.pos = 5
            state = lambda: (a.bin, len(a), getattr(a, 'pos', None), a.tobytes())
            before = state()
            try: setattr(a, f'{name}{n}', value)
            except Exception as e:
                return ['raised', exn_name(e), state() == before]
            return a.bin
        if route == 'setattr_plain':          # a.uintle = v: the length is the current length of the target
            if n <= 0: return mk(name, n, value, 'setattr')
            a = (C if c['cls'] in MUTABLE else BitArray)(bin='10' * n)[:n]
            if hasattr(a, 'pos'): a.pos = n // 2
            state = lambda: (a.bin, len(a), getattr(a, 'pos', None), a.tobytes())
            before = state()
            try: setattr(a, name, value)
            except Exception as e:
                return ['raised', exn_name(e), state() == before]
            return a.bin
        if route == 'array_slice':           # a[::2] = [fits, value]: nothing may change when value does not fit
            a = Array(f'{name}{n}', [0, 0, 0, 0])
            before = (a.data.bin, a.tolist())
            try: a[::2] = [1 if not name.startswith('int') else -1, value]
            except Exception as e:
                return ['raised', exn_name(e), (a.data.bin, a.tolist()) == before]
            return a.data.bin[2 * n:3 * n]
        if route == 'array':
            a = Array(f'{name}{n}', [0, 0])
            before = (a.data.bin, a.tolist())
            try: a[1] = value
            except Exception as e:
                return ['raised', exn_name(e), (a.data.bin, a.tolist()) == before]
            try: a.append(value)
            except Exception as e:
                return ['raised', exn_name(e), False]
            return a.data.bin[n:2 * n]
    if op == 'int':
        v = c['v']
        how = c.get('astext')
        if how and abs(v) < 10 ** 30 and c['route'] in ('kw_len', 'kw_name', 'setattr', 'setattr_plain', 'build', 'pack', 'array', 'token'):
            digits = str(abs(v)); sign = '-' if v < 0 else ''
            v = {'plain': sign + digits, 'zeros': sign + '00' + digits, 'plus': ('+' if v >= 0 else '-') + digits, 'spaces': ' ' + sign + digits + ' '}[how]
            if c['route'] == 'token' and how == 'spaces': v = v.strip()
        return attempt(lambda: mk(c['name'], c['n'], v, c['route']))
    if op == 'badlen':
        val = {'bool': True, 'hex': 'a' * max(0, c['n'] // 4), 'oct': '7' * max(0, c['n'] // 3)}.get(c['name'], 0.5)
        return attempt(lambda: mk(c['name'], c['n'], val, c['route']))
    if op == 'token_len':
        k, val, st = c['kind'], c['val'], c['stated']
        v = val.encode() if k == 'bytes' else (Bits(bin=val) if k == 'bits' and c['route'] != 'token' else val)
        def f():
            r = c['route']
            if r == 'token':
                if k == 'bytes': return pack(f'bytes:{st}', v).bin
                return C(f'{k}:{st}={"0b" + val if k == "bits" else val}').bin
            if r == 'pack': return pack(f'{k}:{st}', v).bin
            if r == 'build': return Dtype(k, st).build(v).bin
            if r == 'kw_len':
                if k in ('bytes',): return pack(f'bytes:{st}', v).bin
                return C(**{k: v, 'length': st}).bin
            if r == 'setattr':          # a.hex8 = 'ff' on an existing object (a stream with a position too): refused, it stays as it was
                if st < 0: return pack(f'{k}:{st}', v).bin
                a = (C if c['cls'] in MUTABLE else BitArray)('0b1011, 0xabc')
                if hasattr(a, 'pos'): a.pos = 5
                state = lambda: (a.bin, len(a), getattr(a, 'pos', None), a.tobytes())
                before = state()
                try: setattr(a, f'{k}{st}', v)
                except Exception as e: return ['raised', exn_name(e), state() == before]
                return a.bin
            if r == 'kw_name':          # the length is part of the keyword: hex8='ff'
                if st < 0: return pack(f'{k}:{st}', v).bin
                return C(**{f'{k}{st}': v}).bin
        return attempt(f)

def allowed_len(name, n):
    if n < 0: return False
    if name in ('uint', 'int'): return n > 0
    if name in INTS: return n > 0 and n % 8 == 0
    if name in ('float', 'floatle', 'floatbe'): return n in (16, 32, 64)
    if name == 'bfloat': return n == 16
    if name == 'bool': return n == 1
    if name in ('p4binary', 'e4m3mxfp', 'mxint'): return n == 8
    if name == 'e3m2mxfp': return n == 6
    if name == 'e2m1mxfp': return n == 4
    if name == 'hex': return n % 4 == 0
    if name == 'oct': return n % 3 == 0

def oracle(c, obs):
    op = c['op']
    if op == 'window':
        from props import c17
        return c17.oracle(c, obs)
    if op == 'bufwindow': return oracle_bufwindow(c, obs)
    if op == 'array_set': return oracle_array_set(c, obs)
    if op == 'array_src': return oracle_array_src(c, obs)
    if op == 'e8m0':
        import math
        x = float.fromhex(c['f'])
        ok = x > 0 and math.frexp(x)[0] == 0.5 and -127 <= math.frexp(x)[1] - 1 <= 127
        rej = (obs[0] == 'err' and obs[1] == 'ValueError') or (obs[0] == 'ok' and isinstance(obs[1], list) and obs[1][:2] == ['raised', 'ValueError'])
        if ok:
            exp = format(math.frexp(x)[1] - 1 + 127, '08b')
            return None if obs == ('ok', exp) else f"e8m0mxfp = {c['f']} (a power of two) via {c['route']}: got {obs}, expected {exp}"
        if not rej: return f"e8m0mxfp = {c['f']} is not a power of two in range, yet {c['route']} accepted it: {obs}"
        if obs[0] == 'ok' and not obs[1][2]: return f"e8m0mxfp = {c['f']} via {c['route']} was refused but the target changed"
        return None
    if op == 'array_bits':
        fits = len(c['val']) == c['n']
        if obs[0] != 'ok': return f"array_bits {c} raised {obs}"
        o = obs[1]
        if fits:
            return None if o[0] != 'raised' and len(o[0]) % c['n'] == 0 else f"Array('bits{c['n']}') refused / mangled an item of exactly {c['n']} bits via {c['route']}: {o}"
        if o[0] != 'raised' or o[1] not in ('ValueError',): return f"Array('bits{c['n']}') accepted a {len(c['val'])}-bit {c['as']} item via {c['route']}: {o}"
        if not o[2] and c['route'] != 'extend': return f"Array('bits{c['n']}') refused a {len(c['val'])}-bit item via {c['route']} but changed"
        return None
    rejected = (obs[0] == 'err' and obs[1] == 'ValueError') or (obs[0] == 'ok' and isinstance(obs[1], list) and obs[1][0] == 'raised' and obs[1][1] == 'ValueError')
    if obs[0] == 'ok' and isinstance(obs[1], list) and obs[1][0] == 'raised':
        if not obs[1][2]: return f"{c}: the rejected assignment changed the target"
        if obs[1][1] != 'ValueError': return f"{c}: raised {obs[1][1]} instead of CreationError"
    if op == 'int':
        name, n, v = c['name'], c['n'], c['v']
        signed = name.startswith('int')
        ok_len = allowed_len(name, n)
        in_range = ok_len and ((-(1 << (n - 1)) <= v < (1 << (n - 1))) if signed else (0 <= v < (1 << n)))
        if c['route'] in ('kw_name', 'token', 'pack', 'setattr', 'setattr_plain', 'array', 'array_slice') and n < 0:
            return None if obs[0] == 'err' or rejected else f"{c} accepted a negative length"
        if in_range:
            if rejected or obs[0] != 'ok': return f"in-range {name}:{n}={v} via {c['route']} was rejected: {obs}"
            if len(obs[1]) != n: return f"{name}:{n}={v} via {c['route']} has {len(obs[1])} bits"
            return None
        if not rejected: return f"{name}:{n}={v} via {c['route']} ({'bad length' if not ok_len else 'out of range'}) was not rejected with CreationError: {str(obs)[:150]}"
        return None
    if op == 'badlen':
        ok_len = allowed_len(c['name'], c['n'])
        if c['n'] < 0 and c['route'] in ('kw_name', 'token', 'pack'):
            return None if obs[0] == 'err' else f"{c} accepted"
        if ok_len:
            if obs[0] != 'ok': return f"{c['name']} with the valid length {c['n']} via {c['route']} was rejected: {obs}"
            if len(obs[1]) != c['n']: return f"{c['name']}:{c['n']} has {len(obs[1])} bits"
            return None
        if not rejected: return f"{c['name']} with the invalid length {c['n']} via {c['route']} was not rejected: {str(obs)[:150]}"
        return None
    if op == 'token_len':
        k, val, st = c['kind'], c['val'], c['stated']
        w = {'hex': 4, 'oct': 3, 'bin': 1, 'bytes': 8, 'bits': 1}[k]
        actual = len(val) * w
        stated_bits = st * 8 if k == 'bytes' else st
        good = (not c['bad_digit']) and stated_bits == actual and st >= 0 and (allowed_len(k, st) if k in ('hex', 'oct') else True)
        if val == '' and c['route'] in ('token',): return None   # 'hex:0=' has no value part: parsing question, C05
        if good:
            if obs[0] != 'ok' or len(obs[1]) != actual: return f"{k}:{st} with value {val!r} via {c['route']} should succeed with {actual} bits: {str(obs)[:120]}"
            return None
        if not rejected: return f"{k}:{st} with value {val!r} ({actual} bits, bad_digit={c['bad_digit']}) via {c['route']} was not rejected: {str(obs)[:120]}"
        return None

def nontrivial(c, obs):
    if c['op'] in ('array_set', 'array_src'): return obs[0] == 'ok' and obs[1]['r'][0] == 'err'
    return obs[0] == 'err' or (isinstance(obs[1], list) and obs[1][0] == 'raised')
def classify(c, obs): return None

def coq_check(c, obs):
    if c['op'] in ('bufwindow', 'array_set', 'array_src'): return None          # buffer objects and Array objects are outside the store model: the Python oracle decides
    if c['op'] == 'window':
        from props import c17
        return c17.coq_check(c, obs)
    if c['op'] == 'int' and c['route'] in ('kw_len', 'build', 'pack', 'token', 'kw_name') and c['n'] >= 0:
        name, n, v = c['name'], c['n'], c['v']
        signed = cbool(name.startswith('int'))
        le = cbool(name.endswith('le') or (name.endswith('ne') and sys.byteorder == 'little'))
        whole = name not in ('uint', 'int')
        o = obs if obs[0] == 'err' else ('ok', obs[1])
        if obs[0] == 'ok' and not isinstance(obs[1], str): return None
        dd = f'(mkdd "{name}" {signed} false {"[8; 16]" if whole else "[]"} {cbool(whole)} 1)'
        return (f"rbits_eqb (match get_dtype {dd} (Some {n}) with Err e => Err e | Ok _ => set_intlike {signed} {le} 0 {cz(v)} (Some {n}) end) {cres(o, cbits)}")
    # the total classification of DtypeLen.v, run on the same calls: Dtype(kind, stated).build(value) / the token and keyword routes (the same function:
    # C15_token_route, C15_keyword_route) for the digit, bytes and bits kinds; Dtype(name, n) acceptance for the float kinds
    BUILD = "DtypeLen.build unit (fun _ _ _ => []) (fun _ _ => [])"
    if c['op'] == 'token_len' and c['route'] in ('build', 'pack', 'token', 'kw_len') and not (c['kind'] == 'bytes' and c['route'] == 'kw_len') \
            and not (c['val'] == '' and c['route'] == 'token') and (obs[0] == 'err' or isinstance(obs[1], str)):
        k, val = c['kind'], c['val']
        if obs[0] == 'err' and obs[1] != 'ValueError': return 'false'              # "every failure is ValueError"
        dig = lambda ch, base: str(int(ch, base)) if ch.lower() in '0123456789abcdef'[:base] else '99'
        V = {'hex': lambda: '[' + '; '.join(dig(ch, 16) for ch in val) + ']', 'oct': lambda: '[' + '; '.join(dig(ch, 8) for ch in val) + ']',
             'bin': lambda: '[' + '; '.join(dig(ch, 2) for ch in val) + ']', 'bytes': lambda: '[' + '; '.join(str(b) for b in val.encode()) + ']', 'bits': lambda: cbits(val)}[k]()
        K = {'hex': 'KHex', 'oct': 'KOct', 'bin': 'KBin', 'bytes': 'KBytes', 'bits': 'KBits'}[k]
        return f"rbits_eqb ({BUILD} DtypeLen.{K} (Some {cz(c['stated'])}) {V if V != '[]' else '(@nil Z)' if k != 'bits' else '(@nil bool)'}) {cres(obs, cbits)}"
    if c['op'] == 'badlen' and c['route'] in ('build', 'pack', 'token', 'kw_len') and c['name'] in ('float', 'floatbe', 'floatle', 'bfloat'):
        K = {'float': 'KFloat', 'floatbe': 'KFloat', 'floatle': 'KFloatle', 'bfloat': 'KBfloat'}[c['name']]
        if obs[0] == 'err' and obs[1] != 'ValueError': return 'false'
        return f"Bool.eqb (match dtype_new DtypeLen.{K} (Some {cz(c['n'])}) with Ok _ => true | Err _ => false end) {cbool(obs[0] == 'ok')}"
    return None

# ------------------------------------------------------------------------------------------------------------------------------------------
# bytes= from buffer objects (C(bytes=obj, offset=, length=), a.bytes = obj, bytesN=obj, pack('bytes:N', obj), Dtype('bytes', N).build(obj))
# The reference is the object's bytes written out as a str of '0'/'1' and cut with str slicing. What varies: the exporter (bytes, bytearray,
# memoryview read-only / writable / sub-view / strided / reversed / cast to wider, signed, float, char or bool items / two-dimensional,
# array.array of every item size, ctypes arrays, BytesIO.getbuffer(), mmap, list / tuple of ints), so that len(obj), obj.nbytes and the
# number of bytes all differ; the class created; both bit numberings; offset and length at, just inside and just outside the byte count AND
# the item count (8 * len(obj) is the size a careless check would use).
# ------------------------------------------------------------------------------------------------------------------------------------------
BUF_CODES = ['B', 'b', 'H', 'h', 'I', 'i', 'Q', 'q', 'f', 'd']
BUF_PLAIN = ['bytes', 'bytearray', 'list', 'tuple', 'mv', 'mv_w', 'mv_sub', 'mv_strided', 'mv_rev', 'bytesio_buf', 'mmap', 'mv_cast:c', 'mv_cast:?']
BUF_WIDE = ['array', 'mv_array', 'mv_cast', 'mv_2d', 'mv_sub', 'mv_strided', 'ctypes', 'mv_ctypes']
BUF_NO_BUFFER = ('list', 'tuple')          # sequences of ints, not exporters

def buf_itemsize(kind):
    import struct
    return struct.calcsize(kind.split(':')[1]) if ':' in kind else 1

def mk_buffer(kind, raw):
    """the object for bytes=: an exporter (or sequence) whose bytes are exactly `raw` (list of ints 0..255, a whole number of items)"""
    import array, ctypes, io, mmap
    rb = bytes(raw)
    base, _, code = kind.partition(':')
    size = buf_itemsize(kind)
    if base == 'bytes': return rb
    if base == 'bytearray': return bytearray(rb)
    if base == 'list': return list(raw)
    if base == 'tuple': return tuple(raw)
    if base == 'mv': return memoryview(rb)
    if base == 'mv_w': return memoryview(bytearray(rb))
    if base == 'bytesio_buf': return io.BytesIO(rb).getbuffer()
    if base == 'mmap':
        if not rb: return memoryview(rb)
        m = mmap.mmap(-1, len(rb)); m[:] = rb; return m
    if base == 'mv_rev': return memoryview(rb[::-1])[::-1]
    if base == 'mv_cast': return memoryview(rb).cast(code)
    if base == 'mv_2d':
        n = len(rb) // size
        shape = (n // 2, 2) if n % 2 == 0 and n else (n, 1)
        return memoryview(rb).cast('B').cast(code, shape) if n else memoryview(rb).cast(code)
    if base in ('array', 'mv_array'):
        a = array.array(code); a.frombytes(rb)
        return a if base == 'array' else memoryview(a)
    if base == 'mv_sub':          # a contiguous part of a larger buffer
        if not code: return memoryview(bytearray(b'\xff\xfe' + rb + b'\xfd'))[2:-1]
        a = array.array(code); a.frombytes(b'\xff' * size + rb + b'\xfe' * size)
        return memoryview(a)[1:-1]
    if base == 'mv_strided':      # every second item of a larger buffer: not contiguous
        if not code:
            inter = bytearray(2 * len(rb)); inter[::2] = rb
            return memoryview(inter)[::2]
        inter = bytearray()
        for i in range(0, len(rb), size): inter += rb[i:i + size] + b'\xa5' * size
        a = array.array(code); a.frombytes(bytes(inter))
        return memoryview(a)[::2]
    if base in ('ctypes', 'mv_ctypes'):
        T = {'B': ctypes.c_uint8, 'b': ctypes.c_int8, 'H': ctypes.c_uint16, 'h': ctypes.c_int16, 'I': ctypes.c_uint32, 'i': ctypes.c_int32, 'Q': ctypes.c_uint64, 'q': ctypes.c_int64,
             'f': ctypes.c_float, 'd': ctypes.c_double}[code]
        o = (T * (len(rb) // size)).from_buffer_copy(rb)
        return o if base == 'ctypes' else memoryview(o)
    raise AssertionError(kind)

def gen_bufwindow(rng, tier):
    kinds = list(BUF_PLAIN) + [f'{b}:{k}' for b in BUF_WIDE for k in BUF_CODES]
    def one(kind, nitems, via=None):
        size = buf_itemsize(kind)
        raw = [rng.randrange(256) for _ in range(nitems * size)]
        if kind == 'mv_cast:?': raw = [x & 1 for x in raw]
        T = 8 * len(raw); I8 = 8 * (nitems // 2 if kind.startswith('mv_2d') and nitems and nitems % 2 == 0 else nitems)        # 8 * len(obj)
        via = via or rng.choice(['kw'] * 6 + ['prop', 'kw_n', 'pack_n', 'pack', 'build_n', 'auto', 'add'])
        if kind in BUF_NO_BUFFER: via = 'kw'
        if via in ('auto', 'add') and not kind.startswith(('mv', 'bytes')): via = 'kw'          # positional / operand promotion is documented for bytes, bytearray and memoryview only
        c = {'op': 'bufwindow', 'buf': kind, 'raw': raw, 'via': via, 'cls': rng.choice(CLASSES), 'lsb0': rng.random() < 0.25}
        if via == 'kw':
            marks = [0, 1, 7, 8, 9, T // 2, T - 9, T - 8, T - 1, T, T + 1, T + 8, I8 - 1, I8, I8 + 1, I8 + 8, rng.randrange(0, T + 2)]
            off = rng.choice([None, None, 0, -1] + [m for m in marks if m >= 0])
            o = off or 0
            room = T - o
            lens = [0, 1, 8, 9, room - 8, room - 1, room, room, room + 1, room + 8, I8 - o - 1, I8 - o, I8 - o + 1, T, T + 1, rng.randrange(0, T + 2)]
            ln = rng.choice([None, None, None, -1] + [x for x in lens if x >= 0])
            c.update(offset=off, length=ln)
        elif via in ('kw_n', 'pack_n', 'build_n'):
            c['n'] = max(1, len(raw) + rng.choice([0, 0, 0, 1, -1, nitems - len(raw), 8]))
        return c
    N = 420 if tier == 'quick' else 9000
    for _ in range(N):
        kind = rng.choice(kinds) if rng.random() < 0.8 else rng.choice([k for k in kinds if buf_itemsize(k) > 1])
        yield one(kind, rng.choice([0, 1, 2, 2, 3, 4, 5, 8, 9] if tier == 'quick' else [0, 1, 2, 3, 4, 5, 6, 8, 9, 16, 33, 130]))
    # every exporter once with the plainest in-range requests: the whole data with offset=0 / with its exact length / from the last byte on
    for kind in kinds:
        n = rng.choice([2, 3, 4, 6])
        c = one(kind, n, 'kw'); T = 8 * len(c['raw'])
        for off, ln in ((0, None), (None, T), (T - 8, None), (T - 8, 8), (T, 0)):
            if tier == 'quick' and rng.random() < 0.5: continue
            d = dict(c); d.update(offset=off, length=ln); yield d

def run_bufwindow(c):
    import bitstring
    from bitstring import pack, Dtype
    C = cls_of(c['cls']); via = c['via']
    obj = mk_buffer(c['buf'], c['raw'])
    if c['buf'] not in BUF_NO_BUFFER: assert memoryview(obj).tobytes() == bytes(c['raw']), 'harness: the buffer does not hold the intended bytes'
    def f():
        bitstring.options.lsb0 = bool(c.get('lsb0'))          # the window is the same stored bits in both numberings (reset by the driver)
        if via == 'kw':
            kw = {}
            if c['offset'] is not None: kw['offset'] = c['offset']
            if c['length'] is not None: kw['length'] = c['length']
            s = C(bytes=obj, **kw); return [s.bin, len(s)]
        if via == 'prop':
            a = cls_of(c['cls'] if c['cls'] in MUTABLE else 'BitArray')('0b101'); a.bytes = obj; return [a.bin, len(a)]
        if via == 'kw_n': s = C(**{f"bytes{c['n']}": obj}); return [s.bin, len(s)]
        if via == 'pack_n': s = pack(f"bytes:{c['n']}", obj); return [s.bin, len(s)]
        if via == 'pack': s = pack('bytes', obj); return [s.bin, len(s)]
        if via == 'build_n': s = Dtype('bytes', c['n']).build(obj); return [s.bin, len(s)]
        if via == 'auto': s = C(obj); return [s.bin, len(s)]
        if via == 'add': s = C() + obj; return [s.bin, len(s)]
    return attempt(f)

def oracle_bufwindow(c, obs):
    raw = c['raw']; bits = ''.join(format(b, '08b') for b in raw); T = len(bits)
    what = f"{c['cls']} via {c['via']} from <{c['buf']}> holding {len(raw)} bytes ({T} bits)"
    if c['via'] == 'kw':
        off, ln = c['offset'], c['length']
        what += f", offset={off}, length={ln}"
        o = off or 0
        if (off is not None and off < 0) or (ln is not None and ln < 0): exp = None
        elif ln is None: exp = bits[o:] if o <= T else None
        else: exp = bits[o:o + ln] if o + ln <= T else None
    elif c['via'] in ('kw_n', 'pack_n', 'build_n'):
        what += f", stated length {c['n']} bytes"
        exp = bits if c['n'] == len(raw) else None
    else: exp = bits
    if exp is None:
        return None if tuple(obs) == ('err', 'ValueError') else f"{what}: beyond the supplied data, must raise CreationError; got {str(obs)[:120]}"
    if obs[0] != 'ok': return f"{what}: in range, must give the {len(exp)} bits {exp[:32]}{'...' if len(exp) > 32 else ''}; raised {obs[1]}"
    got, n = obs[1]
    if got != exp or n != len(exp): return f"{what}: must give the {len(exp)} bits {exp[:32]}{'...' if len(exp) > 32 else ''}; got {n} bits {got[:32]}{'...' if len(got) > 32 else ''}"
    return None

# ------------------------------------------------------------------------------------------------------------------------------------------
# assignments to an existing Array. A refused one (ValueError for a value / length that does not fit, IndexError for a position, AttributeError for a
# read-only property, any exception for an argument of an undocumented Python type) must leave EVERY observable of the Array as it was - dtype, itemsize,
# len, items, data, trailing bits, repr, iteration, indexing, slicing, tobytes, count, pp, copy - and the Array must go on behaving like a fresh Array
# with the same content (a follow-up operation gives the same result on both). An accepted one has exactly the requested size: the list model over
# the item slots (strs of w bits) says what the data must be.
# ------------------------------------------------------------------------------------------------------------------------------------------
ARR_SPECS = [('uint8', 'u', 8), ('uint5', 'u', 5), ('uint12', 'u', 12), ('uint64', 'u', 64), ('int16', 'i', 16), ('int7', 'i', 7), ('int1', 'i', 1), ('uintle24', 'u', 24), ('intbe32', 'i', 32),
             ('uintne16', 'u', 16), ('float32', 'f', 32), ('float16', 'f', 16), ('floatle64', 'f', 64), ('bfloat', 'f', 16), ('e4m3mxfp', 'f', 8), ('p4binary', 'f', 8), ('hex8', 'hex', 8), ('hex4', 'hex', 4),
             ('bin3', 'bin', 3), ('oct6', 'oct', 6), ('bool', 'bool', 1), ('bytes2', 'bytes', 16), ('bytes1', 'bytes', 8), ('bits5', 'bits', 5), ('>h', 'i', 16), ('<H', 'u', 16), ('=B', 'u', 8)]
ARR_FIXED = {'bool': 1, 'bfloat': 16, 'p4binary': 8, 'p3binary': 8, 'e4m3mxfp': 8, 'e5m2mxfp': 8, 'e3m2mxfp': 6, 'e2m3mxfp': 6, 'e2m1mxfp': 4, 'e8m0mxfp': 8, 'mxint': 8}
ARR_ENDIAN = ('uintbe', 'uintle', 'uintne', 'intbe', 'intle', 'intne')
ARR_FLOATS = ('float', 'floatbe', 'floatle', 'floatne')
ARR_NAMES = ['uint', 'int', 'bin', 'bits', 'bytes', 'hex', 'oct'] + list(ARR_ENDIAN) + list(ARR_FLOATS) + list(ARR_FIXED) + ['ue', 'se', 'uie', 'sie']
ARR_STRUCT = {'>h': 16, '<H': 16, '=B': 8, '>f': 32, '<d': 64, '>e': 16, '<q': 64, '>L': 32, '=b': 8}
ARR_JUNK = ['', 'foo', 'foo8', 'uint8,uint8', 'uint-8', '8uint', '2*uint8', '>z', '<', '>x', 'x', 'uint8uint8', 'float:', None, 5, 2.5, ['uint8'], {'b': [117, 105, 110, 116, 56]}]

def array_fmt_bits(name, n):
    """bits per item when (name, stated length or None) is a format an Array can have, else None - from the documentation of the types alone"""
    if name in ARR_FIXED: return ARR_FIXED[name] if n in (None, ARR_FIXED[name]) else None
    if name in ('ue', 'se', 'uie', 'sie') or n is None or n <= 0: return None
    if name in ('uint', 'int', 'bin', 'bits'): return n
    if name == 'bytes': return 8 * n
    if name == 'hex': return n if n % 4 == 0 else None
    if name == 'oct': return n if n % 3 == 0 else None
    if name in ARR_ENDIAN: return n if n % 8 == 0 else None
    if name in ARR_FLOATS: return n if n in (16, 32, 64) else None
    raise AssertionError(name)

def arr_value(rng, k, w):
    if k == 'u': return rng.choice([0, 1, (1 << w) - 1, rng.randrange(1 << w)])
    if k == 'i': return rng.choice([0, -1, (1 << (w - 1)) - 1, -(1 << (w - 1)), rng.randrange(-(1 << (w - 1)), 1 << (w - 1))])
    if k == 'f': return rng.choice([0.0, 1.0, -1.5, 0.25, 2.0, 3.0, -0.5])
    if k == 'hex': return ''.join(rng.choice('0123456789abcdef') for _ in range(w // 4))
    if k == 'bin': return ''.join(rng.choice('01') for _ in range(w))
    if k == 'oct': return ''.join(rng.choice('01234567') for _ in range(w // 3))
    if k == 'bool': return rng.random() < 0.5
    if k == 'bytes': return {'b': [rng.randrange(256) for _ in range(w // 8)]}
    if k == 'bits': return {'bits': ''.join(rng.choice('01') for _ in range(w))}

def arr_bad_value(rng, k, w):
    """a value that must not be accepted as an item: outside the range, of the wrong size, with an invalid digit - or of a Python type the dtype does not take"""
    other = rng.choice([None, None, 'x', [1]])
    if k == 'u': return rng.choice([-1, 1 << w, (1 << w) + 5, 1 << (w + 70), -(1 << w), other])
    if k == 'i': return rng.choice([-(1 << (w - 1)) - 1, 1 << (w - 1), 1 << w, -(1 << (w + 70)), other])
    if k == 'f': return other
    if k in ('hex', 'bin', 'oct'):
        per = {'hex': 4, 'bin': 1, 'oct': 3}[k]; good = arr_value(rng, k, w)
        return rng.choice([good + good[:1], good[:-1], good + good, rng.choice('gz8 -') + good[1:] if k != 'hex' else rng.choice('gz -') + good[1:], 5, None])
    if k == 'bool': return rng.choice([2, -1, 'x', None])
    if k == 'bytes': return rng.choice([{'b': [7] * (w // 8 + 1)}, {'b': [7] * (w // 8 - 1)}, {'b': [7] * (w // 4)}, None])
    if k == 'bits': return rng.choice([{'bits': '1' * (w + 1)}, {'bits': '1' * (w - 1)}, {'bits': ''}, None])

def arr_fits(k, w, v):
    """True / False where the documentation decides, None for values of a Python type the dtype does not document"""
    isint = isinstance(v, int) and not isinstance(v, bool)
    if k == 'u': return (0 <= v < (1 << w)) if isint else None
    if k == 'i': return (-(1 << (w - 1)) <= v < (1 << (w - 1))) if isint else None
    if k == 'f': return True if isint or isinstance(v, float) else None
    if k in ('hex', 'bin', 'oct'):
        per, digits = {'hex': (4, '0123456789abcdefABCDEF'), 'bin': (1, '01'), 'oct': (3, '01234567')}[k]
        return (len(v) * per == w and all(ch in digits for ch in v)) if isinstance(v, str) else None
    if k == 'bool': return True if isinstance(v, bool) else None
    if k == 'bytes': return (8 * len(v['b']) == w) if isinstance(v, dict) and 'b' in v else None
    if k == 'bits': return (len(v['bits']) == w) if isinstance(v, dict) and 'bits' in v else None

def arr_pv(v):
    import bitstring
    if isinstance(v, dict): return bytes(v['b']) if 'b' in v else bitstring.Bits(bin=v['bits'])
    return v

def arr_canon(x):
    import bitstring
    if isinstance(x, float): return ['f', x.hex() if x == x else 'nan']
    if isinstance(x, bytes): return {'b': list(x)}
    if isinstance(x, bitstring.Bits): return {'bits': x.bin}
    if isinstance(x, (list, tuple)): return [arr_canon(y) for y in x]
    return x

def arr_probe(a):
    """what a user can see of the Array; an exception while looking is part of the picture"""
    import io, copy
    def pp():
        s = io.StringIO(); a.pp(stream=s); return s.getvalue()
    out = []
    for label, fn in (('dtype', lambda: str(a.dtype)), ('dtype.name', lambda: a.dtype.name), ('dtype.length', lambda: a.dtype.length), ('dtype.bitlength', lambda: a.dtype.bitlength),
                      ('dtype.scale', lambda: repr(a.dtype.scale)), ('itemsize', lambda: a.itemsize), ('len', lambda: len(a)), ('tolist', lambda: a.tolist()), ('data', lambda: a.data.bin),
                      ('trailing_bits', lambda: a.trailing_bits.bin), ('repr', lambda: repr(a)), ('iter', lambda: [x for x in a]), ('a[0]', lambda: a[0]), ('a[-1]', lambda: a[-1]),
                      ('a[::2]', lambda: [a[::2].tolist(), a[::2].data.bin]), ('a[1:]', lambda: a[1:].data.bin), ('tobytes', lambda: list(a.tobytes())), ('count', lambda: a.count(a[0])),
                      ('pp', pp), ('copy', lambda: [copy.copy(a).tolist(), str(copy.copy(a).dtype), copy.copy(a).data.bin]), ('equals', lambda: a.equals(copy.copy(a)))):
        try: out.append([label, arr_canon(fn())])
        except Exception as e: out.append([label, f'<{type(e).__name__}>'])
    return out

def arr_new_dtype(act):
    from bitstring import Dtype
    name, n, form = act['name'], act['n'], act['form']
    if form == 'str': return name if n is None else f'{name}{n}'
    if form == 'str_colon': return name if n is None else f'{name}:{n}'
    if form == 'struct': return name
    if form == 'obj': return Dtype(name, n) if n is not None else Dtype(name)
    if form == 'obj_auto': return Dtype(name, n, scale='auto') if n is not None else Dtype(name, scale='auto')

def gen_array_set(rng, tier):
    N = 380 if tier == 'quick' else 9000
    def start():
        fmt, k, w = rng.choice(ARR_SPECS)
        n = rng.choice([0, 1, 2, 3, 4, 5])
        return {'op': 'array_set', 'cls': 'Bits', 'dtype': fmt, 'k': k, 'w': w, 'items': [arr_value(rng, k, w) for _ in range(n)], 'trail': rand_bits(rng, min(w - 1, rng.choice([0, 0, 0, 1, 2, w - 1]))),
                'spare': arr_value(rng, k, w), 'then': rng.choice([None, 'append', 'dtype:uint8', 'dtype:hex4', 'reverse', 'pop', 'insert'])}
    def dtype_act():
        r = rng.random()
        if r < 0.12: return {'a': 'dtype_junk', 'v': rng.choice(ARR_JUNK)}
        if r < 0.2: return {'a': 'dtype', 'name': rng.choice(list(ARR_STRUCT)), 'n': None, 'form': 'struct'}
        name = rng.choice(ARR_NAMES)
        n = rng.choice([0, 0, 0, None, None, 1, 2, 3, 4, 6, 8, 12, 16, 17, 24, 32, 64, 65])
        return {'a': 'dtype', 'name': name, 'n': n, 'form': rng.choice(['str', 'str', 'str_colon', 'obj', 'obj', 'obj_auto'])}
    for _ in range(N):
        c = start(); k, w, n = c['k'], c['w'], len(c['items'])
        idx = lambda: rng.choice([0, -1, n - 1, n, -n, -n - 1, rng.randrange(-n - 2, n + 3)])
        val = lambda: arr_bad_value(rng, k, w) if rng.random() < 0.7 else arr_value(rng, k, w)
        vals = lambda m: [arr_bad_value(rng, k, w) if rng.random() < 0.35 else arr_value(rng, k, w) for _ in range(m)]
        r = rng.random()
        if r < 0.45: act = dtype_act()
        elif r < 0.49: act = {'a': 'readonly', 'attr': rng.choice(['itemsize', 'trailing_bits'])}
        elif r < 0.58: act = {'a': 'setitem', 'i': idx(), 'v': val()}
        elif r < 0.70:
            key = [rng.choice([None, idx()]), rng.choice([None, idx()]), rng.choice([None, 1, 1, 2, -1, -2, 3])]
            m = len(range(*slice(*key).indices(n)))
            act = {'a': 'setslice', 'key': key, 'vs': vals(rng.choice([m, m, m, m + 1, max(0, m - 1), rng.randrange(0, 4)]))}
        elif r < 0.75: act = {'a': 'append', 'v': val()}
        elif r < 0.80: act = {'a': 'insert', 'i': idx(), 'v': val()}
        elif r < 0.85: act = {'a': 'extend', 'vs': vals(rng.randrange(0, 4))}
        elif r < 0.89: act = {'a': rng.choice(['pop', 'delitem']), 'i': idx()}
        elif r < 0.92: act = {'a': 'byteswap'}
        elif r < 0.95: act = {'a': 'ibit', 'f': rng.choice(['and', 'or', 'xor']), 'bits': rand_bits(rng, rng.choice([w, w, w - 1, w + 1, 0, 2 * w]))}
        elif c['dtype'].startswith(('uint', 'int')) and c['dtype'][-1].isdigit() and 'le' not in c['dtype'] and 'be' not in c['dtype'] and 'ne' not in c['dtype']:
            lo, hi = ((-(1 << (w - 1)), (1 << (w - 1)) - 1) if k == 'i' else (0, (1 << w) - 1))
            f = rng.choice(['add', 'sub', 'mul', 'floordiv', 'mod', 'lshift', 'rshift'])
            act = {'a': 'iop', 'f': f, 'x': rng.choice([0, 1, -1, 2, hi, hi + 1, lo - 1, -2, w, 3] if 'shift' not in f else [0, 1, -1, 2, 3, w - 1, w, w + 1, -2])}
        else: act = {'a': 'iop_array', 'f': rng.choice(['add', 'sub', 'mul', 'floordiv', 'truediv', 'mod', 'lshift', 'rshift']), 'd2': rng.choice(['uint8', 'hex8', 'float16', 'bytes1']), 'dn': rng.choice([1, 1, -1, 0])}
        c['act'] = act
        yield c

def run_array_set(c):
    import bitstring, operator
    from bitstring import Array, Bits, Dtype
    IOP = {'add': operator.iadd, 'sub': operator.isub, 'mul': operator.imul, 'floordiv': operator.ifloordiv, 'truediv': operator.itruediv, 'mod': operator.imod, 'lshift': operator.ilshift,
           'rshift': operator.irshift, 'and': operator.iand, 'or': operator.ior, 'xor': operator.ixor}
    act = c['act']
    def fresh(): return Array(c['dtype'], [arr_pv(v) for v in c['items']], trailing_bits=Bits(bin=c['trail']) if c['trail'] else None)
    def apply(a):
        k = act['a']
        if k == 'dtype': a.dtype = arr_new_dtype(act); return None
        if k == 'dtype_junk': a.dtype = arr_pv(act['v']); return None
        if k == 'readonly': setattr(a, act['attr'], 4); return None
        if k == 'setitem': a[act['i']] = arr_pv(act['v']); return None
        if k == 'setslice': a[slice(*act['key'])] = [arr_pv(v) for v in act['vs']]; return None
        if k == 'append': return a.append(arr_pv(act['v']))
        if k == 'insert': return a.insert(act['i'], arr_pv(act['v']))
        if k == 'extend': return a.extend([arr_pv(v) for v in act['vs']])
        if k == 'pop': return arr_canon(a.pop(act['i']))
        if k == 'delitem': del a[act['i']]; return None
        if k == 'byteswap': return a.byteswap()
        if k == 'ibit': b = IOP[act['f']](a, '0b' + act['bits'] if act['bits'] else Bits()); return b is a
        if k == 'iop': b = IOP[act['f']](a, act['x']); return b is a
        if k == 'iop_array':
            m = max(0, len(a) + act['dn'])
            other = Array(act['d2'], {'uint8': [1] * m, 'hex8': ['01'] * m, 'float16': [1.0] * m, 'bytes1': [b'a'] * m}[act['d2']])
            b = IOP[act['f']](a, other); return [b is a, arr_probe(b)[:10]]
    def then(a):
        t = c.get('then')
        if t == 'append': return a.append(arr_pv(c['spare']))
        if t == 'insert': return a.insert(1, arr_pv(c['spare']))
        if t == 'reverse': return a.reverse()
        if t == 'pop': return arr_canon(a.pop())
        if t and t.startswith('dtype:'): a.dtype = t[6:]; return None
    def f():
        a = fresh()
        out = {'before': arr_probe(a)}
        out['r'] = list(attempt(lambda: apply(a)))
        out['after'] = arr_probe(a)
        if act['a'] == 'dtype' and act['form'] != 'obj_auto':          # the same format for a new Array: created with exactly that item size, or nothing is created
            def mk():
                b = Array(arr_new_dtype(act)); return [b.itemsize, len(b), b.data.bin]
            out['create'] = list(attempt(mk))
        if out['r'][0] == 'err' and c.get('then'):
            out['then'] = [list(attempt(lambda: then(a))), arr_probe(a)]
            b = fresh()
            out['then_ref'] = [list(attempt(lambda: then(b))), arr_probe(b)]
        return out
    return attempt(f)

def oracle_array_set(c, obs):
    act = c['act']; k, w = c['k'], c['w']
    what = f"Array({c['dtype']!r}, {c['items']}, trailing {c['trail']!r}) {act}"
    if obs[0] != 'ok': return f"{what}: the Array could not be built or observed: {obs}"
    o = obs[1]; r = o['r']; before, after = o['before'], o['after']
    B, A = dict((l, v) for l, v in before), dict((l, v) for l, v in after)
    n = len(c['items']); trail = c['trail']
    if B['len'] != n or B['itemsize'] != w or B['data'][n * w:] != trail or len(B['data']) != n * w + len(trail): return f"{what}: the initial Array is not the one asked for: {before[:10]}"
    slots = [B['data'][i * w:(i + 1) * w] for i in range(n)]
    def unchanged(why, classes=('ValueError',)):
        if r[0] != 'err': return f"{what}: {why}, must be refused; it was accepted and the Array is now {after[:10]}"
        if classes and r[1] not in classes: return f"{what}: {why}, must raise {' / '.join(classes)}; raised {r[1]}"
        if after != before:
            diff = [(l, B[l], A[l]) for l, _ in before if B[l] != A[l]]
            return f"{what}: {why}; the assignment was refused ({r[1]}) but the Array changed: " + '; '.join(f"{l}: {str(x)[:60]} -> {str(y)[:60]}" for l, x, y in diff[:6])
        if 'then' in o and o['then'] != o['then_ref']:
            return f"{what}: refused ({r[1]}), yet afterwards {c['then']} behaves differently from the same call on a fresh Array with the same content: {str(o['then'])[:200]} vs {str(o['then_ref'])[:200]}"
        return None
    def data_is(new_slots, tr, why):
        if r[0] != 'ok': return f"{what}: {why}, must succeed; raised {r[1]}"
        exp = ''.join(new_slots) + tr
        if A['data'] != exp: return f"{what}: {why}: the data must be {exp!r}, it is {A['data']!r}"
        if A['len'] != len(new_slots) or A['itemsize'] != w or A['trailing_bits'] != tr or A['dtype'] != B['dtype']: return f"{what}: {why}: len / itemsize / trailing bits / dtype are now {A['len']}, {A['itemsize']}, {A['trailing_bits']!r}, {A['dtype']}"
        return None
    def stored(i, v):
        """item i of the Array after the call is the value that was assigned (ints, strs, bools, bytes, bits: exactly; floats: not judged here)"""
        got = A['tolist'][i] if isinstance(A['tolist'], list) and -len(A['tolist']) <= i < len(A['tolist']) else None
        if k in ('u', 'i'): return got == v
        if k in ('hex', 'bin', 'oct'): return isinstance(got, str) and got.lower() == v.lower()
        if k in ('bool', 'bytes', 'bits'): return got == v
        return True
    a = act['a']
    if a in ('dtype', 'dtype_junk'):
        if a == 'dtype_junk':
            v = act['v']
            return unchanged('not a format', ('ValueError',) if isinstance(v, str) else ())
        bits = ARR_STRUCT[act['name']] if act['form'] == 'struct' else array_fmt_bits(act['name'], act['n'])
        if 'create' in o:
            cr = o['create']
            if bits is None and cr[0] != 'err': return f"{what}: a new Array with this format was created: {cr}"
            if bits is None and cr[1] != 'ValueError': return f"{what}: a new Array with this format must raise CreationError, raised {cr[1]}"
            if bits is not None and (cr[0] != 'ok' or cr[1] != [bits, 0, '']): return f"{what}: a new Array with this format must have itemsize {bits} and no data: {cr}"
        if act['form'] == 'obj_auto' and r == ['err', 'ValueError'] and bits is None and after == before: pass          # the Dtype object itself could not be made
        if bits is None or act['form'] == 'obj_auto':
            return unchanged("a format without a fixed non-zero item length" if bits is None else "an 'auto' scale is only for new Arrays")
        if r[0] != 'ok': return f"{what}: a usable format of {bits} bits per item, must succeed; raised {r[1]}"
        if A['itemsize'] != bits or A['dtype.bitlength'] != bits: return f"{what}: the item size must be exactly {bits} bits, it is {A['itemsize']}"
        if A['data'] != B['data']: return f"{what}: changing the dtype altered the data"
        if A['len'] != len(B['data']) // bits or A['trailing_bits'] != B['data'][len(B['data']) - len(B['data']) % bits:]: return f"{what}: {len(B['data'])} bits of data at {bits} bits per item: len {A['len']}, trailing {A['trailing_bits']!r}"
        return None
    if a == 'readonly': return unchanged('a read-only property', ('AttributeError',))
    if a == 'setitem':
        i, v = act['i'], act['v']; fit = arr_fits(k, w, v)
        if not -n <= i < n: return unchanged('position out of range', ('IndexError',) if fit else ('IndexError', 'ValueError', 'TypeError'))
        if fit is False: return unchanged('the value does not fit the dtype')
        if fit is None: return unchanged('a value of an undocumented type', ()) if r[0] == 'err' else None
        if r[0] != 'ok': return f"{what}: a value that fits, must succeed; raised {r[1]}"
        new = list(slots); new[i] = A['data'][(i % n) * w:(i % n + 1) * w]
        return data_is(new, trail, 'item assignment') or (None if stored(i, v) else f"{what}: item {i} is now {A['tolist'][i]!r}")
    if a == 'setslice':
        key, vs = act['key'], act['vs']; fits = [arr_fits(k, w, v) for v in vs]
        rng_ = range(*slice(*key).indices(n)); step = slice(*key).indices(n)[2]
        if step != 1 and len(vs) != len(rng_): return unchanged('an extended slice takes exactly as many values as it has positions', ('ValueError', 'TypeError') if None in fits else ('ValueError',))
        if False in fits: return unchanged('a value does not fit the dtype', ('ValueError', 'TypeError') if None in fits else ('ValueError',))
        if None in fits: return unchanged('a value of an undocumented type', ()) if r[0] == 'err' else None
        model = list(range(n)); model[slice(*key)] = [('new', j) for j in range(len(vs))]
        if r[0] != 'ok': return f"{what}: every value fits, must succeed; raised {r[1]}"
        if A['len'] != len(model): return f"{what}: the list model has {len(model)} items afterwards, the Array {A['len']}"
        new = [slots[m] if isinstance(m, int) else A['data'][p * w:(p + 1) * w] for p, m in enumerate(model)]
        bad = [p for p, m in enumerate(model) if not isinstance(m, int) and not stored(p, vs[m[1]])]
        return data_is(new, trail, 'slice assignment') or (f"{what}: item {bad[0]} is now {A['tolist'][bad[0]]!r}" if bad else None)
    if a in ('append', 'insert', 'extend'):
        vs = act['vs'] if a == 'extend' else [act['v']]; fits = [arr_fits(k, w, v) for v in vs]
        if trail and a != 'insert': return unchanged('the data is not a whole number of items', ('ValueError',) if None not in fits else ('ValueError', 'TypeError'))
        if False in fits or None in fits:
            if None in fits and False not in fits and r[0] == 'ok': return None
            if a == 'extend' and r[0] == 'err' and after != before:
                # like list.extend with a failing iterator: the values before the first refused one may have been appended, nothing else
                j = next(p for p, f in enumerate(fits) if f is not True)
                if A['data'][:n * w] == B['data'] and A['len'] <= n + j and len(A['data']) == A['len'] * w and A['dtype'] == B['dtype'] and A['itemsize'] == w: return None
            return unchanged('a value does not fit the dtype', ('ValueError', 'TypeError') if None in fits else ('ValueError',))
        if r[0] != 'ok': return f"{what}: every value fits, must succeed; raised {r[1]}"
        pos = n if a != 'insert' else (max(act['i'] + n, 0) if act['i'] < 0 else min(act['i'], n))
        new = slots[:pos] + [A['data'][(pos + j) * w:(pos + j + 1) * w] for j in range(len(vs))] + slots[pos:]
        bad = [j for j in range(len(vs)) if not stored(pos + j, vs[j])]
        return data_is(new, trail, a) or (f"{what}: item {pos + bad[0]} is now {A['tolist'][pos + bad[0]]!r}" if bad else None)
    if a in ('pop', 'delitem'):
        i = act['i']
        if not -n <= i < n: return unchanged('position out of range', ('IndexError',))
        new = list(slots); del new[i]
        if a == 'pop' and r[0] == 'ok' and r[1] != B['tolist'][i]: return f"{what}: pop returned {r[1]!r}, the item was {B['tolist'][i]!r}"
        return data_is(new, trail, a)
    if a == 'byteswap':
        if w % 8: return unchanged('items are not whole bytes')
        return data_is([''.join(reversed([s[j:j + 8] for j in range(0, w, 8)])) for s in slots], trail, 'byteswap')
    if a == 'ibit':
        b = act['bits']
        if len(b) != w: return unchanged('the operand is not one item long')
        fn = {'and': lambda x, y: x & y, 'or': lambda x, y: x | y, 'xor': lambda x, y: x ^ y}[act['f']]
        return data_is([''.join(str(fn(int(p), int(q))) for p, q in zip(s, b)) for s in slots], trail, 'bit-wise in-place operator')
    if a == 'iop':
        import operator
        f, x = act['f'], act['x']; items = B['tolist']
        if 'shift' in f and abs(x) > 1000: return None          # the reference itself would need astronomically large integers
        try: exp = [getattr(operator, f)(v, x) for v in items]
        except (ZeroDivisionError, ValueError, OverflowError): return unchanged('the operator fails on an item')
        if any(arr_fits(k, w, e) is not True for e in exp): return unchanged('a result does not fit the dtype')
        if r[0] != 'ok': return f"{what}: every result {exp} fits, must succeed; raised {r[1]}"
        if A['tolist'] != exp or A['len'] != n or A['itemsize'] != w or len(A['data']) != n * w: return f"{what}: the items must be {exp}, they are {A['tolist']} ({len(A['data'])} bits of data)"
        return None
    if a == 'iop_array':
        numeric = k in ('u', 'i', 'f', 'bool') and act['d2'] in ('uint8', 'float16')
        if max(0, n + act['dn']) != n or not numeric: return unchanged('Arrays of different lengths or of types that are not numbers cannot be combined', ('ValueError', 'TypeError'))
        if r[0] == 'err': return unchanged('the operator failed', ())
        return None

# ------------------------------------------------------------------------------------------------------------------------------------------
# op 'array_src': the values given to an Array come from another CONTAINER - an Array of the same name and item length with another scale (one scaled and
# one not, both scaled differently, the same scale), an Array of another name or item length, a slice of a longer Array, a list / tuple / generator /
# iterator / array.array - through slice assignment (contiguous and extended), extend, the constructor, astype, and one by one through item assignment,
# append and insert. The items of a container are its VALUES (what iterating it gives): a target with scale t stores the value v as v / t, so a value is
# refused when v / t is outside the range of the item, and then nothing changes; a value that fits is stored exactly. The model works on exact
# fractions: a source item holding the integer p under scale s is the value p * s, the target has to store q = p * s / t (the generator only uses
# whole q), the slot is the two's complement / IEEE encoding of q written as a str of '0'/'1'.
# ------------------------------------------------------------------------------------------------------------------------------------------
AS_INT = [('uint', 8), ('uint', 8), ('int', 8), ('uint', 5), ('int', 7), ('uint', 12), ('uint', 3), ('int', 16), ('uint', 16), ('uint', 24), ('int', 32), ('uint', 32),
          ('uintbe', 16), ('intle', 16), ('uintle', 24), ('intne', 32), ('uintne', 8), ('intbe', 8)]
AS_FLOAT = [('float', 16), ('float', 32), ('float', 64), ('floatle', 32), ('floatle', 16), ('floatne', 64), ('floatbe', 32)]
AS_SCALES = [None, None, None, 1, 2, 4, 0.5, 3, -1, 8, 0.25, 16, -2, 2.0, 1.0, 10]
AS_FSCALES = [None, None, 1, 2, 4, 0.5, 0.25, 8, 16, -1, -2, 2.0]
AS_FVALS = [0.0, 1.0, -1.5, 0.25, 2.0, 3.0, -0.5, 100.0, 7.5, -4.0]
AS_CODES = {'b': ('int', 8), 'B': ('uint', 8), 'h': ('int', 16), 'H': ('uint', 16), 'i': ('int', 32), 'I': ('uint', 32), 'q': ('int', 64), 'Q': ('uint', 64)}

def as_range(name, w):
    return (-(1 << (w - 1)), (1 << (w - 1)) - 1) if name.startswith('int') else (0, (1 << w) - 1)

def as_enc(name, w, q):
    import struct
    le = name.endswith('le') or (name.endswith('ne') and sys.byteorder == 'little')
    if name.startswith('float'): return ''.join(format(x, '08b') for x in struct.pack(('<' if le else '>') + {16: 'e', 32: 'f', 64: 'd'}[w], q))
    be = format(q & ((1 << w) - 1), f'0{w}b')
    return ''.join(be[i:i + 8] for i in range(w - 8, -1, -8)) if le else be

def as_value(p, scale): return p if scale is None else p * scale

def gen_array_src(rng, tier):
    from fractions import Fraction
    N = 320 if tier == 'quick' else 8000
    for _ in range(N):
        isf = rng.random() < 0.12
        tname, tw = rng.choice(AS_FLOAT if isf else AS_INT)
        scales = AS_FSCALES if isf else AS_SCALES
        ts = rng.choice(scales)
        a = rng.choice(['setslice'] * 4 + ['extslice', 'extslice', 'extend', 'extend', 'ctor', 'ctor', 'astype', 'setitem', 'append', 'insert'])
        skind = rng.choice(['array'] * 7 + ['array_slice', 'array_slice', 'array_name', 'array_len', 'list', 'tuple', 'gen', 'iter', 'pyarray'])
        if a == 'astype' and not skind.startswith('array'): skind = 'array'
        sname, sw = tname, tw
        ss = rng.choice(scales) if rng.random() < 0.85 else ts
        code = None
        if skind == 'array_name' and not isf:
            sname = {'uint': 'int', 'int': 'uint', 'uintbe': 'uintle', 'intle': 'intbe', 'uintle': 'uintbe', 'intne': 'uintne', 'uintne': 'intne', 'intbe': 'uintbe'}[tname]
        elif skind == 'array_len':
            sw = rng.choice([x for x in ([16, 32, 64] if isf else [8, 16, 24, 32, 40] if tname not in ('uint', 'int') else [tw + 1, tw - 1, tw + 8, 2 * tw, 8, 16]) if x != tw and x > 1])
        elif skind == 'pyarray':
            if isf: code = rng.choice('fd'); sname, sw = 'float', {'f': 32, 'd': 64}[code]
            else: code = rng.choice('bBhHiIqQ'); sname, sw = AS_CODES[code]
            ss = None
        elif skind in ('list', 'tuple', 'gen', 'iter') and not isf:
            sname, sw = rng.choice(['int', tname if tname in ('uint', 'int') else 'int']), tw + 9          # any Python int may turn up in a list
        n = 0 if a in ('ctor', 'astype') else rng.choice([0, 1, 2, 3, 4, 5])
        if a == 'setitem' and n == 0: a = 'append'
        tlo, thi = as_range(tname, tw)
        if isf:
            titems = [rng.choice(AS_FVALS) for _ in range(n)]
            draw = lambda: rng.choice(AS_FVALS)
        else:
            titems = [rng.choice([tlo, thi, 0, 1, rng.randrange(tlo, thi + 1)]) for _ in range(n)]
            slo, shi = as_range(sname, sw)
            ratio = Fraction(1 if ss is None else ss) / Fraction(1 if ts is None else ts); d = ratio.denominator
            cands = [slo, shi, slo + 1, shi - 1, 0, 1, -1, 2, rng.randrange(slo, shi + 1), rng.randrange(slo, shi + 1)]
            for qb in (tlo - 1, tlo, thi, thi + 1, tlo + 1, thi - 1, thi + 1, tlo - 1, 2 * thi + 5):          # the limits of the target, seen from the source
                p = Fraction(qb) / ratio
                if p.denominator == 1 and slo <= p <= shi: cands += [int(p)] * 2
            if skind in ('list', 'tuple', 'gen', 'iter') and rng.random() < 0.1: cands += [1 << (tw + 70), -(1 << (tw + 40))]
            def draw():
                p = rng.choice(cands); p -= p % d
                if p < slo and abs(p) < (1 << 64): p += d
                return p if (slo <= p <= shi or abs(p) >= (1 << 64)) else 0
        act = {'a': a}
        idx = lambda: rng.choice([0, -1, n - 1, n, -n, rng.randrange(-n - 1, n + 2)])
        if a == 'setslice':
            act['key'] = [rng.choice([None, idx()]), rng.choice([None, idx()]), rng.choice([None, 1])]; m = rng.choice([0, 1, 1, 2, 3, 4])
        elif a == 'extslice':
            act['key'] = [rng.choice([None, idx()]), rng.choice([None, idx()]), rng.choice([2, -1, -2, 3])]
            m = len(range(*slice(*act['key']).indices(n))); m = rng.choice([m, m, m, m, m + 1, max(m - 1, 0)])
        elif a in ('extend', 'ctor', 'astype'): m = rng.choice([0, 1, 1, 2, 3, 4])
        else:
            m = rng.choice([1, 1, 2])
            if a == 'setitem': act['i'] = rng.randrange(-n, n)
            if a == 'insert': act['i'] = idx()
        c = {'op': 'array_src', 'cls': 'Bits', 't': [tname, tw, ts], 'tform': rng.choice(['str', 'obj'] if ts is None else ['obj', 'obj', 'dtype_set']), 'titems': titems, 's': [sname, sw, ss], 'skind': skind,
             'sitems': [draw() for _ in range(m)], 'act': act}
        if skind == 'array_slice': c['spad'] = [rng.choice([0, 1, 2]), rng.choice([0, 1, 3])]
        if code: c['code'] = code
        yield c

def run_array_src(c):
    import array
    from bitstring import Array, Dtype, BitArray
    tname, tw, ts = c['t']; sname, sw, ss = c['s']; act = c['act']; k = act['a']; kind_ = c['skind']
    def tdtype(): return f'{tname}{tw}' if c['tform'] == 'str' else Dtype(tname, tw, scale=ts)
    def fresh():
        if c['tform'] == 'dtype_set':          # an unscaled Array holding the stored items, given the scaled dtype afterwards
            a = Array(f'{tname}{tw}', list(c['titems'])); a.dtype = Dtype(tname, tw, scale=ts); return a
        return Array(tdtype(), [as_value(t, ts) for t in c['titems']])
    vals = [as_value(p, ss) for p in c['sitems']]
    def source():
        if kind_.startswith('array'):
            lead, trail = c.get('spad', [0, 0])
            s = Array(Dtype(sname, sw, scale=ss))
            s.data = BitArray(bin=''.join(as_enc(sname, sw, p) for p in [0] * lead + c['sitems'] + [0] * trail))          # the stored items, written directly
            return s[lead:lead + len(c['sitems'])] if lead or trail else s
        if kind_ == 'list': return list(vals)
        if kind_ == 'tuple': return tuple(vals)
        if kind_ == 'gen': return (v for v in vals)
        if kind_ == 'iter': return iter(vals)
        if kind_ == 'pyarray': return array.array(c['code'], c['sitems'])
    def scalar(src): return next(iter(src)) if kind_ in ('gen', 'iter') else src[0]
    def f():
        a = fresh(); src = source()
        out = {'before': arr_probe(a)}
        if isinstance(src, Array): out['src'] = [arr_canon(src.tolist()), src.data.bin]
        def apply():
            if k in ('setslice', 'extslice'): a[slice(*act['key'])] = src; return None
            if k == 'extend': return a.extend(src)
            if k == 'setitem': a[act['i']] = scalar(src); return None
            if k == 'append': return a.append(scalar(src))
            if k == 'insert': return a.insert(act['i'], scalar(src))
            if k == 'ctor': return arr_probe(Array(tdtype(), src))
            if k == 'astype': return arr_probe(src.astype(tdtype()))
        out['r'] = list(attempt(apply))
        out['after'] = arr_probe(a)
        if isinstance(src, Array): out['src_after'] = src.data.bin
        return out
    return attempt(f)

def oracle_array_src(c, obs):
    from fractions import Fraction
    tname, tw, ts = c['t']; sname, sw, ss = c['s']; act = c['act']; a = act['a']; kind_ = c['skind']
    isf = tname.startswith('float')
    V = [as_value(p, ss) for p in c['sitems']]
    what = (f"Array({tname}{tw}, scale={ts}) holding {[as_value(t, ts) for t in c['titems']]}: {act} from <{kind_}>"
            + (f" Array({sname}{sw}, scale={ss})" if kind_.startswith('array') else f" array.array({c['code']!r})" if kind_ == 'pyarray' else '') + f" with the values {str(V)[:120]}")
    if obs[0] != 'ok': return f"{what}: the Arrays could not be built or observed: {obs}"
    o = obs[1]; r = o['r']; before, after = o['before'], o['after']
    B, A = dict((l, v) for l, v in before), dict((l, v) for l, v in after)
    n = len(c['titems']); tslots = [as_enc(tname, tw, t) for t in c['titems']]
    num = lambda x: float.fromhex(x[1]) if isinstance(x, list) else x
    if B['data'] != ''.join(tslots) or B['len'] != n or B['itemsize'] != tw:
        return f"{what}: the Array built from these values holds {B['data']!r} ({B['len']} items of {B['itemsize']} bits); the stored items must be {c['titems']}, i.e. {''.join(tslots)!r}"
    if 'src' in o:
        got = [num(x) for x in o['src'][0]] if isinstance(o['src'][0], list) else o['src'][0]
        if got != V: return f"{what}: the source Array holds the stored items {c['sitems']} under scale {ss}, its values are {V}; tolist() gives {str(got)[:120]}"
        if o['src_after'] != o['src'][1]: return f"{what}: the SOURCE Array changed: {o['src'][1]!r} -> {o['src_after']!r}"
    tlo, thi = as_range(tname, tw)
    tsf = Fraction(1 if ts is None else ts)
    qs = [Fraction(v) / tsf for v in V]
    if isf:          # IEEE division (exact here: the scales are powers of two), which also says which zero v / t is
        qs = [float(v) / (1 if ts is None else ts) for v in V]; fits = [True] * len(qs); enc = [as_enc(tname, tw, q) for q in qs]
    else:
        if any(q.denominator != 1 for q in qs): return None          # (not generated: what happens to a fractional quotient is not documented)
        fits = [tlo <= q <= thi for q in qs]; enc = [as_enc(tname, tw, int(q)) if f else None for q, f in zip(qs, fits)]
    allfit = all(fits)
    bad = next((f"{V[j]} (stored as {V[j]} / {ts} = {qs[j]}, outside {tlo}..{thi})" if ts is not None else f"{V[j]} (outside {tlo}..{thi})" for j, f in enumerate(fits) if not f), None)
    arraylike = kind_.startswith('array') or kind_ == 'pyarray'
    same = kind_.startswith('array') and (sname, sw) == (tname, tw) and ss == ts
    def unchanged(why, classes=('ValueError',)):
        if r[0] != 'err': return f"{what}: {why}, must be refused; it was accepted and the Array now holds {A['tolist']} (data {A['data']!r})" if a not in ('ctor', 'astype') else f"{what}: {why}, must be refused; an Array was created: {str(r[1])[:300]}"
        if r[1] not in classes: return f"{what}: {why}, must raise {' / '.join(classes)}; raised {r[1]}"
        if after != before:
            diff = [(l, B[l], A[l]) for l, _ in before if B[l] != A[l]]
            return f"{what}: {why}; refused ({r[1]}) but the Array changed: " + '; '.join(f"{l}: {str(x)[:60]} -> {str(y)[:60]}" for l, x, y in diff[:6])
        return None
    def data_is(new_slots, why):
        if r[0] != 'ok': return f"{what}: {why}, every value fits and must be stored; raised {r[1]}"
        P = A if a not in ('ctor', 'astype') else dict((l, v) for l, v in r[1])
        exp = ''.join(new_slots)
        if P['data'] != exp or P['len'] != len(new_slots) or P['itemsize'] != tw or P['trailing_bits'] != '':
            return (f"{what}: {why}: the items are the values, so the data must be {exp!r} ({len(new_slots)} items of {tw} bits); it is {P['data']!r} ({P['len']} items of {P['itemsize']} bits, "
                    f"trailing {P['trailing_bits']!r}), read back as {str(P['tolist'])[:120]}")
        if a not in ('ctor', 'astype') and (A['dtype'] != B['dtype'] or A['dtype.scale'] != B['dtype.scale']): return f"{what}: {why}: the dtype changed from {B['dtype']} to {A['dtype']}"
        return None
    if a in ('setslice', 'extslice'):
        key = act['key']; positions = range(*slice(*key).indices(n)); step = slice(*key).indices(n)[2]
        if step != 1 and len(V) != len(positions): return unchanged(f'an extended slice of {len(positions)} positions is given {len(V)} values')
        if not allfit: return unchanged(f'the value {bad} does not fit')
        model = list(tslots); model[slice(*key)] = enc
        return data_is(model, 'slice assignment')
    if a in ('extend', 'ctor', 'astype'):
        base = tslots if a == 'extend' else []
        if r[0] == 'ok':
            if not allfit: return unchanged(f'the value {bad} does not fit')
            return data_is(base + enc, a)
        if a == 'extend' and after != before and not allfit:
            # like list.extend with a failing iterator: the values before the first refused one may have been appended, nothing else
            j = fits.index(False)
            if r[1] == 'ValueError' and n <= A['len'] <= n + j and A['data'] == B['data'] + ''.join(enc[:A['len'] - n]) and A['dtype'] == B['dtype'] and A['itemsize'] == tw: return None
        if arraylike and not same and a != 'astype':          # "the iterable can be another Array or an array.array, but only if the dtype is the same": refusing is documented, reinterpreting is not
            return unchanged('an Array / array.array of another dtype' + ('' if allfit else f', and the value {bad} does not fit'), ('TypeError', 'ValueError'))
        if allfit: return data_is(base + enc, a)
        return unchanged(f'the value {bad} does not fit')
    if not fits[0]: return unchanged(f'the value {bad} does not fit')
    if a == 'setitem': model = list(tslots); model[act['i']] = enc[0]
    elif a == 'append': model = tslots + [enc[0]]
    else:
        i = act['i']; pos = (max(i + n, 0) if i < 0 else min(i, n)); model = tslots[:pos] + [enc[0]] + tslots[pos:]
    return data_is(model, a)

def search(seeds, rng):
    for c in list(seeds) + list(gen_cases(rng, 'quick')):
        try: obs = run_impl(c)
        finally: reset_options()
        msg = oracle(c, obs)
        if msg: return c, obs, msg
    return None
