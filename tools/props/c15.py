"""C15 — out-of-range or mis-sized values are rejected, never wrapped or truncated."""
from vlib import *
from props.common import *
import sys

ID = 'C15'
COQ_PROPS = ['Props/C15.v']
COQ_IMPORTS = ['Prims', 'CaseLib', 'Golomb', 'IntCodec', 'Search', 'Store']
RULE = ('all integer dtypes x lengths (valid, zero, negative, not whole bytes for endian types) x values at, just inside and just outside every range limit; floats with lengths other than 16/32/64; '
        'bool/8-bit-float lengths; tokens whose stated length disagrees with the value; invalid digits; windows beyond bytes/bitarray/BytesIO/file sources; through constructor keyword, name with length, '
        'token string, property assignment (target must stay unchanged), pack, Dtype.build and Array element assignment. non-trivial = a rejected case; distinct by arguments')
ASSUMPTIONS = ['CreationError is ValueError in this package (exceptions.py)']
INTS = ['uint', 'int', 'uintbe', 'intbe', 'uintle', 'intle', 'uintne', 'intne']
ROUTES6 = ['kw_len', 'kw_name', 'setattr', 'setattr_plain', 'token', 'build', 'pack', 'array', 'array_slice']

def gen_cases(rng, tier):
    N = 600 if tier == 'quick' else 10000
    for _ in range(N):
        name = rng.choice(INTS)
        whole = name not in ('uint', 'int')
        n = rng.choice([1, 2, 3, 7, 8, 9, 16, 24, 31, 32, 33, 64, 65, 128]) if not whole else 8 * rng.choice([1, 2, 3, 4, 8, 9])
        if rng.random() < 0.15: n = rng.choice([0, -1, -8, 12, 4, 7] if whole else [0, -1, -5])
        signed = name.startswith('int')
        m = max(n, 1)
        lo, hi = (-(1 << (m - 1)), (1 << (m - 1)) - 1) if signed else (0, (1 << m) - 1)
        v = rng.choice([lo, hi, lo - 1, hi + 1, lo + 1, hi - 1, 0, -1, 2 * hi + 5, -(1 << (m + 3)), 1 << (m + 70)])
        yield {'op': 'int', 'name': name, 'n': n, 'v': v, 'route': rng.choice(ROUTES6), 'cls': rng.choice(CLASSES),
               'astext': rng.choice([None, None, None, 'plain', 'zeros', 'zeros', 'plus', 'spaces'])}          # the integer given as decimal text, also zero-padded: the same value
    for _ in range(N // 4):
        yield {'op': 'badlen', 'name': rng.choice(['float', 'floatle', 'floatbe', 'bfloat', 'bool', 'p4binary', 'e4m3mxfp', 'e3m2mxfp', 'e2m1mxfp', 'mxint', 'hex', 'oct']),
               'n': rng.choice([0, 1, 2, 4, 5, 6, 7, 8, 12, 15, 16, 17, 24, 32, 48, 63, 64, 65, 128, -16]), 'route': rng.choice(['kw_len', 'kw_name', 'token', 'build', 'pack']), 'cls': rng.choice(CLASSES)}
    for _ in range(N // 4):
        k = rng.choice(['hex', 'oct', 'bin', 'bytes', 'bits'])
        w = {'hex': 4, 'oct': 3, 'bin': 1, 'bytes': 8, 'bits': 1}[k]
        nd = rng.randrange(0, 6)
        val = ''.join(rng.choice({'hex': '0123456789abcdefABCDEF', 'oct': '01234567', 'bin': '01', 'bytes': 'ab', 'bits': '01'}[k]) for _ in range(nd))
        bad_digit = rng.random() < 0.3 and k in ('hex', 'oct', 'bin') and nd > 0
        if bad_digit:
            j = rng.randrange(nd); val = val[:j] + rng.choice({'hex': 'gxz-', 'oct': '89a', 'bin': '2a9'}[k]) + val[j + 1:]
        stated = nd + rng.choice([0, 0, 1, -1, 3]) if k == 'bytes' else w * nd + rng.choice([0, 0, 0, w, -w, 1, 2])
        yield {'op': 'token_len', 'kind': k, 'val': val, 'stated': stated, 'bad_digit': bad_digit, 'route': rng.choice(['token', 'pack', 'build', 'kw_len', 'kw_name']), 'cls': rng.choice(CLASSES)}

    # a stated length of zero with a non-empty value (the only stated length for which `if length:` and `if length is not None:` differ)
    for k, vals in (('hex', ['a', 'ff']), ('oct', ['7']), ('bin', ['1', '01']), ('bytes', ['a']), ('bits', ['1'])):
        for val in vals:
            for route in ('token', 'pack', 'build', 'kw_len', 'kw_name'):
                yield {'op': 'token_len', 'kind': k, 'val': val, 'stated': 0, 'bad_digit': False, 'route': route, 'cls': rng.choice(CLASSES)}
    # e8m0mxfp holds powers of two only: anything else - also a float a few ulp away from a power of two - is refused, never rounded (every creation route)
    import math
    for _ in range(60 if tier == 'quick' else 900):
        k = rng.choice([-126, -60, -20, -4, -1, 0, 1, 3, 4, 10, 20, 52, 64, 100, 127])
        p2 = 2.0 ** k
        step = lambda x, n, d: x if n == 0 else step(math.nextafter(x, d), n - 1, d)
        f = rng.choice([step(p2, 1, math.inf), step(p2, 2, math.inf), step(p2, 3, math.inf), step(p2, 1, 0.0), step(p2, 2, 0.0), p2 * 1.5, p2 * 1.0000001, -p2, 3.0, p2, p2])
        yield {'op': 'e8m0', 'f': f.hex(), 'route': rng.choice(['kw', 'token', 'pack', 'build', 'setattr', 'array']), 'cls': rng.choice(CLASSES)}
    # an Array of 'bits:n' items takes bitstrings of exactly n bits (objects and strings alike), by every item route
    for _ in range(60 if tier == 'quick' else 900):
        n = rng.choice([1, 3, 8, 12])
        m = rng.choice([n, n, 0, n - 1, n + 1, 2 * n])
        yield {'op': 'array_bits', 'n': n, 'val': rand_bits(rng, m), 'as': rng.choice(['Bits', 'BitArray', 'BitStream', 'str']), 'route': rng.choice(['setitem', 'setslice', 'extslice', 'append', 'insert', 'extend', 'init']), 'cls': 'Bits'}
    # offset / length windows beyond the supplied bytes, bytearray, bitarray, BytesIO, file name or file handle (cases, runner and oracle of C17)
    import random as _random
    from props import c17
    for c in c17.gen_cases(_random.Random(rng.randrange(1 << 30)), tier):
        if c['op'] == 'window': yield c

def kind(c): return c['op'] + ':' + c.get('route', c.get('via', ''))

def run_impl(c):
    import bitstring
    from bitstring import Bits, BitArray, Dtype, pack, Array
    C = cls_of(c['cls']); op = c['op']
    if op == 'window':
        from props import c17
        return c17.run_impl(c)
    if op == 'e8m0':
        x = float.fromhex(c['f']); r = c['route']
        def f():
            if r == 'kw': return C(e8m0mxfp=x).bin
            if r == 'token': return C(f'e8m0mxfp={x!r}').bin
            if r == 'pack': return pack('e8m0mxfp', x).bin
            if r == 'build': return Dtype('e8m0mxfp').build(x).bin
            if r == 'setattr':
                a = BitArray('0xff'); before = a.bin
                try: a.e8m0mxfp = x
                except Exception as e: return ['raised', exn_name(e), a.bin == before]
                return a.bin
            a = Array('e8m0mxfp', [1.0, 2.0]); before = a.data.bin
            try: a[1] = x
            except Exception as e: return ['raised', exn_name(e), a.data.bin == before]
            return a.data.bin[8:]
        return attempt(f)
    if op == 'array_bits':
        n, val = c['n'], c['val']
        v = ('0b' + val if val else '') if c['as'] == 'str' else getattr(bitstring, c['as'])(bin=val)
        def f():
            r = c['route']
            if r == 'init':
                try: a = Array(f'bits{n}', [Bits(n), v])
                except Exception as e: return ['raised', exn_name(e), True]
                return [a.data.bin, len(a)]
            a = Array(f'bits{n}', [Bits(n), Bits(n), Bits(n)]); before = a.data.bin
            try:
                if r == 'setitem': a[1] = v
                elif r == 'setslice': a[0:1] = [v]
                elif r == 'extslice': a[::2] = [Bits(n), v]
                elif r == 'append': a.append(v)
                elif r == 'insert': a.insert(1, v)
                elif r == 'extend': a.extend([v])
            except Exception as e: return ['raised', exn_name(e), a.data.bin == before]
            return [a.data.bin, len(a)]
        return attempt(f)
    def mk(name, n, value, route):
        tok = f'{name}:{n}'
        if route == 'kw_len': return C(**{name: value, 'length': n}).bin
        if route == 'kw_name': return C(**{f'{name}{n}': value}).bin
        if route == 'token': return C(f'{tok}={value}').bin
        if route == 'build': return Dtype(name, n).build(value).bin
        if route == 'pack': return pack(tok, value).bin
        if route == 'setattr':
            a = BitArray('0b1011, 0xabc')
            before = a.bin
            try: setattr(a, f'{name}{n}', value)
            except Exception as e:
                return ['raised', exn_name(e), a.bin == before]
            return a.bin
        if route == 'setattr_plain':          # a.uintle = v: the length is the current length of the target
            if n <= 0: return mk(name, n, value, 'setattr')
            a = BitArray(bin='10' * n)[:n]
            before = a.bin
            try: setattr(a, name, value)
            except Exception as e:
                return ['raised', exn_name(e), a.bin == before]
            return a.bin
        if route == 'array_slice':           # a[::2] = [fits, value]: nothing may change when value does not fit
            a = Array(f'{name}{n}', [0, 0, 0, 0])
            before = (a.data.bin, a.tolist())
            try: a[::2] = [1 if not name.startswith('int') else -1, value]
            except Exception as e:
                return ['raised', exn_name(e), (a.data.bin, a.tolist()) == before]
            return a.data.bin[2 * n:3 * n]
        if route == 'array':
            a = Array(f'{name}{n}', [0, 0])
            before = (a.data.bin, a.tolist())
            try: a[1] = value
            except Exception as e:
                return ['raised', exn_name(e), (a.data.bin, a.tolist()) == before]
            try: a.append(value)
            except Exception as e:
                return ['raised', exn_name(e), False]
            return a.data.bin[n:2 * n]
    if op == 'int':
        v = c['v']
        how = c.get('astext')
        if how and abs(v) < 10 ** 30 and c['route'] in ('kw_len', 'kw_name', 'setattr', 'setattr_plain', 'build', 'pack', 'array', 'token'):
            digits = str(abs(v)); sign = '-' if v < 0 else ''
            v = {'plain': sign + digits, 'zeros': sign + '00' + digits, 'plus': ('+' if v >= 0 else '-') + digits, 'spaces': ' ' + sign + digits + ' '}[how]
            if c['route'] == 'token' and how == 'spaces': v = v.strip()
        return attempt(lambda: mk(c['name'], c['n'], v, c['route']))
    if op == 'badlen':
        val = {'bool': True, 'hex': 'a' * max(0, c['n'] // 4), 'oct': '7' * max(0, c['n'] // 3)}.get(c['name'], 0.5)
        return attempt(lambda: mk(c['name'], c['n'], val, c['route']))
    if op == 'token_len':
        k, val, st = c['kind'], c['val'], c['stated']
        v = val.encode() if k == 'bytes' else (Bits(bin=val) if k == 'bits' and c['route'] != 'token' else val)
        def f():
            r = c['route']
            if r == 'token':
                if k == 'bytes': return pack(f'bytes:{st}', v).bin
                return C(f'{k}:{st}={"0b" + val if k == "bits" else val}').bin
            if r == 'pack': return pack(f'{k}:{st}', v).bin
            if r == 'build': return Dtype(k, st).build(v).bin
            if r == 'kw_len':
                if k in ('bytes',): return pack(f'bytes:{st}', v).bin
                return C(**{k: v, 'length': st}).bin
            if r == 'kw_name':          # the length is part of the keyword: hex8='ff'
                if st < 0: return pack(f'{k}:{st}', v).bin
                return C(**{f'{k}{st}': v}).bin
        return attempt(f)

def allowed_len(name, n):
    if n < 0: return False
    if name in ('uint', 'int'): return n > 0
    if name in INTS: return n > 0 and n % 8 == 0
    if name in ('float', 'floatle', 'floatbe'): return n in (16, 32, 64)
    if name == 'bfloat': return n == 16
    if name == 'bool': return n == 1
    if name in ('p4binary', 'e4m3mxfp', 'mxint'): return n == 8
    if name == 'e3m2mxfp': return n == 6
    if name == 'e2m1mxfp': return n == 4
    if name == 'hex': return n % 4 == 0
    if name == 'oct': return n % 3 == 0

def oracle(c, obs):
    op = c['op']
    if op == 'window':
        from props import c17
        return c17.oracle(c, obs)
    if op == 'e8m0':
        import math
        x = float.fromhex(c['f'])
        ok = x > 0 and math.frexp(x)[0] == 0.5 and -127 <= math.frexp(x)[1] - 1 <= 127
        rej = (obs[0] == 'err' and obs[1] == 'ValueError') or (obs[0] == 'ok' and isinstance(obs[1], list) and obs[1][:2] == ['raised', 'ValueError'])
        if ok:
            exp = format(math.frexp(x)[1] - 1 + 127, '08b')
            return None if obs == ('ok', exp) else f"e8m0mxfp = {c['f']} (a power of two) via {c['route']}: got {obs}, expected {exp}"
        if not rej: return f"e8m0mxfp = {c['f']} is not a power of two in range, yet {c['route']} accepted it: {obs}"
        if obs[0] == 'ok' and not obs[1][2]: return f"e8m0mxfp = {c['f']} via {c['route']} was refused but the target changed"
        return None
    if op == 'array_bits':
        fits = len(c['val']) == c['n']
        if obs[0] != 'ok': return f"array_bits {c} raised {obs}"
        o = obs[1]
        if fits:
            return None if o[0] != 'raised' and len(o[0]) % c['n'] == 0 else f"Array('bits{c['n']}') refused / mangled an item of exactly {c['n']} bits via {c['route']}: {o}"
        if o[0] != 'raised' or o[1] not in ('ValueError',): return f"Array('bits{c['n']}') accepted a {len(c['val'])}-bit {c['as']} item via {c['route']}: {o}"
        if not o[2] and c['route'] != 'extend': return f"Array('bits{c['n']}') refused a {len(c['val'])}-bit item via {c['route']} but changed"
        return None
    rejected = (obs[0] == 'err' and obs[1] == 'ValueError') or (obs[0] == 'ok' and isinstance(obs[1], list) and obs[1][0] == 'raised' and obs[1][1] == 'ValueError')
    if obs[0] == 'ok' and isinstance(obs[1], list) and obs[1][0] == 'raised':
        if not obs[1][2]: return f"{c}: the rejected assignment changed the target"
        if obs[1][1] != 'ValueError': return f"{c}: raised {obs[1][1]} instead of CreationError"
    if op == 'int':
        name, n, v = c['name'], c['n'], c['v']
        signed = name.startswith('int')
        ok_len = allowed_len(name, n)
        in_range = ok_len and ((-(1 << (n - 1)) <= v < (1 << (n - 1))) if signed else (0 <= v < (1 << n)))
        if c['route'] in ('kw_name', 'token', 'pack', 'setattr', 'setattr_plain', 'array', 'array_slice') and n < 0:
            return None if obs[0] == 'err' or rejected else f"{c} accepted a negative length"
        if in_range:
            if rejected or obs[0] != 'ok': return f"in-range {name}:{n}={v} via {c['route']} was rejected: {obs}"
            if len(obs[1]) != n: return f"{name}:{n}={v} via {c['route']} has {len(obs[1])} bits"
            return None
        if not rejected: return f"{name}:{n}={v} via {c['route']} ({'bad length' if not ok_len else 'out of range'}) was not rejected with CreationError: {str(obs)[:150]}"
        return None
    if op == 'badlen':
        ok_len = allowed_len(c['name'], c['n'])
        if c['n'] < 0 and c['route'] in ('kw_name', 'token', 'pack'):
            return None if obs[0] == 'err' else f"{c} accepted"
        if ok_len:
            if obs[0] != 'ok': return f"{c['name']} with the valid length {c['n']} via {c['route']} was rejected: {obs}"
            if len(obs[1]) != c['n']: return f"{c['name']}:{c['n']} has {len(obs[1])} bits"
            return None
        if not rejected: return f"{c['name']} with the invalid length {c['n']} via {c['route']} was not rejected: {str(obs)[:150]}"
        return None
    if op == 'token_len':
        k, val, st = c['kind'], c['val'], c['stated']
        w = {'hex': 4, 'oct': 3, 'bin': 1, 'bytes': 8, 'bits': 1}[k]
        actual = len(val) * w
        stated_bits = st * 8 if k == 'bytes' else st
        good = (not c['bad_digit']) and stated_bits == actual and st >= 0 and (allowed_len(k, st) if k in ('hex', 'oct') else True)
        if val == '' and c['route'] in ('token',): return None   # 'hex:0=' has no value part: parsing question, C05
        if good:
            if obs[0] != 'ok' or len(obs[1]) != actual: return f"{k}:{st} with value {val!r} via {c['route']} should succeed with {actual} bits: {str(obs)[:120]}"
            return None
        if not rejected: return f"{k}:{st} with value {val!r} ({actual} bits, bad_digit={c['bad_digit']}) via {c['route']} was not rejected: {str(obs)[:120]}"
        return None

def nontrivial(c, obs): return obs[0] == 'err' or (isinstance(obs[1], list) and obs[1][0] == 'raised')
def classify(c, obs): return None

def coq_check(c, obs):
    if c['op'] == 'window':
        from props import c17
        return c17.coq_check(c, obs)
    if c['op'] == 'int' and c['route'] in ('kw_len', 'build', 'pack', 'token', 'kw_name') and c['n'] >= 0:
        name, n, v = c['name'], c['n'], c['v']
        signed = cbool(name.startswith('int'))
        le = cbool(name.endswith('le') or (name.endswith('ne') and sys.byteorder == 'little'))
        whole = name not in ('uint', 'int')
        o = obs if obs[0] == 'err' else ('ok', obs[1])
        if obs[0] == 'ok' and not isinstance(obs[1], str): return None
        dd = f'(mkdd "{name}" {signed} false {"[8; 16]" if whole else "[]"} {cbool(whole)} 1)'
        return (f"rbits_eqb (match get_dtype {dd} (Some {n}) with Err e => Err e | Ok _ => set_intlike {signed} {le} 0 {cz(v)} (Some {n}) end) {cres(o, cbits)}")
    return None

def search(seeds, rng):
    for c in list(seeds) + list(gen_cases(rng, 'quick')):
        try: obs = run_impl(c)
        finally: reset_options()
        msg = oracle(c, obs)
        if msg: return c, obs, msg
    return None
