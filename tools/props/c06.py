"""C06 — stream reads consume exactly what they return; the position is always valid."""
from vlib import *
from props.common import *
from props import refmodel as R
from props.c10 import ref_dec

ID = 'C06'
COQ_PROPS = ['Props/C06.v']
COQ_IMPORTS = ['Prims', 'CaseLib', 'BitsCore', 'Mutators', 'Search', 'Golomb', 'Stream']
RULE = ('histories of 3..25 stream operations (reads with every token kind and integer counts incl. 0 and negative, peeks, readlist/peeklist with stretchy tokens, seeks via pos/bytepos/bytealign, '
        'find/rfind/readto, every mutator, property assignment, copies/slices/operators) from random (content, pos) on ConstBitStream and BitStream; (bin, pos, value|exception) compared after every step '
        'with a (bits, pos) reference machine and with the Coq model; non-trivial = history in which pos moves at least twice; distinct by history')
ASSUMPTIONS = ['token interpretations are those of C02/C10 (here: bits, uint, int, bin, hex, bool, pad, bytes, ue/se/uie/sie)', 'msb0 mode']
COQ_PRELUDE = '''
Definition value_eqb (a b : value) : bool :=
  match a, b with
  | ValBits x, ValBits y => bits_eqb x y | ValZ x, ValZ y => Z.eqb x y | ValBool x, ValBool y => Bool.eqb x y | ValNone, ValNone => true | _, _ => false end.
Definition st_eqb (s : stream) (b : bits) (p : Z) : bool := bits_eqb (sbits s) b && (spos s =? p).
Definition chk {A} (eqb : A -> A -> bool) (r : stream * res A) (b : bits) (p : Z) (exp : res A) : bool :=
  st_eqb (fst r) b p && res_eqb eqb (snd r) exp.
'''
KINDS = ['bits', 'uint', 'int', 'bin', 'hex', 'bool', 'pad', 'bytes']
CK = {'bits': 'KBits', 'uint': 'KUint', 'int': 'KInt', 'bin': 'KBin', 'hex': 'KHex', 'bool': 'KBool', 'pad': 'KPad', 'bytes': 'KBytes'}
GC = {'ue': 'UE', 'se': 'SE', 'uie': 'UIE', 'sie': 'SIE'}

def rtok(rng, n, allow_stretch=True):
    r = rng.random()
    if r < 0.18: return rng.choice([0, 1, 2, 3, 8, n, n + 1, -1, rng.randrange(0, n + 2)])
    if r < 0.3: return {'c': rng.choice(list(GC))}
    if r < 0.4 and allow_stretch: return {'k': rng.choice(['bits', 'bin', 'uint', 'int', 'hex', 'bytes'])}
    k = rng.choice(KINDS)
    if k == 'bool': return {'k': 'bool', 'n': 1} if rng.random() < 0.9 else {'k': 'bool'}
    m = rng.choice([0, 1, 2, 3, 4, 5, 8, 12, 16, rng.randrange(0, n + 3)])
    if k == 'hex' and rng.random() < 0.8: m -= m % 4
    if k == 'bytes': m = rng.choice([0, 1, 2, 3])
    return {'k': k, 'n': m}

def fmt_of(t):
    if isinstance(t, int): return t
    if 'c' in t: return t['c']
    return t['k'] if 'n' not in t else f"{t['k']}:{t['n']}"

def gen_step(rng, n, mutable):
    ops = ['read', 'read', 'read', 'peek', 'readlist', 'peeklist', 'readto', 'setpos', 'setbytepos', 'getbytepos', 'bytealign', 'find', 'rfind', 'derive', 'eqhash']
    if mutable:
        ops += ['append', 'iadd', 'prepend', 'insert', 'overwrite', 'setitem', 'delitem', 'replace', 'clear', 'imul', 'keep', 'keep', 'propset']
    op = rng.choice(ops)
    st = {'op': op}
    small = lambda: rand_bits(rng, rng.choice([0, 1, 2, 3, 8]))
    if op in ('read', 'peek'): st['tok'] = rtok(rng, n)
    elif op in ('readlist', 'peeklist'):
        k = rng.randrange(0, 5); toks = [rtok(rng, max(2, n // 3), False) for _ in range(k)]
        if rng.random() < 0.35 and toks: toks[rng.randrange(len(toks))] = {'k': rng.choice(['bits', 'bin', 'uint', 'hex', 'bytes'])}
        if rng.random() < 0.08: toks.insert(rng.randrange(len(toks) + 1), {'k': 'bin'})
        st['toks'] = toks
        if rng.random() < 0.3: st['kwspell'] = True          # the lengths are passed as keyword arguments n0, n1, ... (same names every time, other values)
    elif op == 'readto': st.update(pat=rand_bits(rng, rng.choice([0, 1, 2, 3, 8])), ba=rng.choice([None, False, True]))
    elif op == 'setpos': st['p'] = rng.choice([0, n, n + 1, -1, rng.randrange(0, n + 1)])
    elif op == 'setbytepos': st['p'] = rng.choice([0, 1, n // 8, n // 8 + 1, -1])
    elif op in ('find', 'rfind'): st.update(pat=rand_bits(rng, rng.choice([1, 2, 3, 8])), start=rng.choice([None, None, rng.randrange(0, n + 1)]), ba=rng.choice([None, False, True]))
    elif op in ('append', 'iadd', 'prepend'): st['bs'] = small()
    elif op in ('insert', 'overwrite'): st.update(bs=small(), pos=rng.choice([None, None, 0, n, -1, n + 1, rng.randrange(-n - 1, n + 2)]))
    elif op == 'setitem':
        from props.c03 import rslice, rpos
        st.update(key=rng.choice([rpos(rng, n), rslice(rng, n)]), val=rng.choice([{'bits': small()}, {'int': rng.choice([0, 1, 2, -1])}]))
    elif op == 'delitem':
        from props.c03 import rslice, rpos
        st['key'] = rng.choice([rpos(rng, n), rslice(rng, n)])
    elif op == 'replace': st.update(old=rand_bits(rng, rng.choice([1, 2, 3])), new=small(), count=rng.choice([None, 1]))
    elif op == 'imul': st['n'] = rng.choice([0, 1, 2, 3, -1])
    elif op == 'keep': st.update(m=rng.choice(['reverse', 'rol', 'ror', 'set', 'invert', 'ilshift', 'irshift', 'byteswap', 'ixor']), n=rng.choice([0, 1, 3, 64, 200]))
    elif op == 'propset': st.update(name=rng.choice(['uint', 'int', 'hex', 'bin', 'uint8', 'bytes', 'bool']), v=rng.choice([0, 1, 3, 200]))
    if mutable and op in ('append', 'iadd', 'prepend', 'insert', 'overwrite', 'replace') and rng.random() < 0.12:
        st['selfarg'] = rng.choice(['old', 'new']) if op == 'replace' else 'bs'        # the stream itself is passed as this operand
    if op == 'setitem' and 'bits' in st.get('val', {}) and rng.random() < 0.1: st['selfarg'] = 'val'
    if op == 'derive': st['how'] = rng.choice(['copy', 'copycopy', 'slice', 'add', 'and', 'andself', 'orself', 'xor', 'invert', 'mul', 'lshift', 'readbits', 'cut', 'getitem', 'constructor'])
    return st

def gen_cases(rng, tier):
    N = 260 if tier == 'quick' else 5000
    for _ in range(N):
        n = rng.choice([0, 1, 7, 8, 9, 16, 24, 31, 32, 33, 40, 64]) if rng.random() < 0.8 else rng.randrange(0, 150)
        cls = rng.choice(['ConstBitStream', 'BitStream', 'BitStream'])
        bits = rand_bits(rng, n)
        yield {'op': 'history', 'cls': cls, 'bits': bits, 'pos': rng.choice([0, 0, n, rng.randrange(0, n + 1)]), 'opt_ba': rng.random() < 0.25,
               'steps': [gen_step(rng, max(n, 4), cls == 'BitStream') for _ in range(rng.randrange(3, 26))]}

    # exp-Golomb codes cut short by one to three bits at the end of the data, met by every reading method (alone and after other tokens)
    from props.c10 import ref_enc
    for _ in range(80 if tier == 'quick' else 1500):
        code = rng.choice(list(GC))
        v = rng.randrange(3, 300) * (rng.choice([1, -1]) if code in ('se', 'sie') else 1)
        w = ref_enc(code, v)
        pre = rand_bits(rng, rng.choice([0, 0, 1, 3, 8]))
        bits = pre + w[:len(w) - rng.choice([1, 1, 1, 2, 3])]
        cls = rng.choice(['ConstBitStream', 'BitStream'])
        how = rng.choice(['readlist', 'readlist', 'peeklist', 'read', 'peek'])
        if how in ('readlist', 'peeklist'):
            toks = ([{'k': 'bits', 'n': len(pre)}] if pre and rng.random() < 0.6 else []) + [{'c': code}]
            first = {'op': how, 'toks': toks}; pos = 0 if len(toks) == 2 else len(pre)
        else:
            first = {'op': how, 'tok': {'c': code}}; pos = len(pre)
        yield {'op': 'history', 'cls': cls, 'bits': bits, 'pos': pos,
               'steps': [first] + [gen_step(rng, max(len(bits), 4), cls == 'BitStream') for _ in range(rng.randrange(0, 4))]}

def kind(c): return c['cls']

def canon_val(tok, v):
    """value as [tag, payload] with strings of digits turned back into bits"""
    import bitstring
    if v is None: return ['none']
    if isinstance(v, bool): return ['bool', v]
    if isinstance(v, int): return ['z', v]
    if isinstance(v, bitstring.Bits): return ['bits', v.bin, type(v).__name__, getattr(v, 'pos', None)]
    if isinstance(v, bytes): return ['bits', ''.join(format(x, '08b') for x in v)]
    if isinstance(v, str):
        k = tok.get('k') if isinstance(tok, dict) else None
        if k == 'hex': return ['bits', ''.join(format(int(ch, 16), '04b') for ch in v)]
        if k == 'bin': return ['bits', v]
    return ['other', repr(v)]

def apply_impl(s, st):
    import bitstring, copy
    from bitstring import Bits
    op = st['op']
    B = lambda x: Bits(bin=x)
    if st.get('selfarg'):
        sa = st['selfarg']
        if op in ('append', 'iadd', 'prepend', 'insert', 'overwrite'):
            if op == 'append': return s.append(s)
            if op == 'iadd': s += s; return None
            if op == 'prepend': return s.prepend(s)
            if op == 'insert': return s.insert(s) if st['pos'] is None else s.insert(s, st['pos'])
            if op == 'overwrite': return s.overwrite(s) if st['pos'] is None else s.overwrite(s, st['pos'])
        if op == 'replace': return s.replace(s if sa == 'old' else B(st['old']), s if sa == 'new' else B(st['new']), count=st['count'])
        if op == 'setitem':
            key = slice(*st['key']) if isinstance(st['key'], list) else st['key']
            s[key] = s; return None
    if op == 'read': return canon_val(st['tok'], s.read(fmt_of(st['tok'])))
    if op == 'peek': return canon_val(st['tok'], s.peek(fmt_of(st['tok'])))
    if op in ('readlist', 'peeklist'):
        toks = [t for t in st['toks']]
        fn = s.readlist if op == 'readlist' else s.peeklist
        if st.get('kwspell') and all(isinstance(t, dict) for t in toks) and toks:
            parts, kw = [], {}
            for i, t in enumerate(toks):
                if 'n' in t and 'k' in t: parts.append(f"{t['k']}:n{i}"); kw[f'n{i}'] = t['n']
                else: parts.append(str(fmt_of(t)))
            vals = fn(', '.join(parts), **kw)
        else:
            vals = fn([fmt_of(t) for t in toks])
        nonpad = [t for t in toks if not (isinstance(t, dict) and t.get('k') == 'pad')]
        return [canon_val(t, v) for t, v in zip(nonpad, vals)] + ([['extra']] if len(vals) != len(nonpad) else [])
    if op == 'readto':
        kw = {} if st['ba'] is None else {'bytealigned': st['ba']}
        return canon_val({}, s.readto(B(st['pat']), **kw))
    if op == 'setpos': s.pos = st['p']; return None
    if op == 'setbytepos': s.bytepos = st['p']; return None
    if op == 'getbytepos': return s.bytepos
    if op == 'bytealign': return s.bytealign()
    if op in ('find', 'rfind'):
        kw = {} if st['ba'] is None else {'bytealigned': st['ba']}
        return list(getattr(s, op)(B(st['pat']), st['start'], **kw))
    if op == 'append': return s.append(B(st['bs']))
    if op == 'iadd': s += B(st['bs']); return None
    if op == 'prepend': return s.prepend(B(st['bs']))
    if op == 'insert': return s.insert(B(st['bs'])) if st['pos'] is None else s.insert(B(st['bs']), st['pos'])
    if op == 'overwrite': return s.overwrite(B(st['bs'])) if st['pos'] is None else s.overwrite(B(st['bs']), st['pos'])
    if op == 'setitem':
        key = slice(*st['key']) if isinstance(st['key'], list) else st['key']
        s[key] = B(st['val']['bits']) if 'bits' in st['val'] else st['val']['int']; return None
    if op == 'delitem':
        key = slice(*st['key']) if isinstance(st['key'], list) else st['key']
        del s[key]; return None
    if op == 'replace': return s.replace(B(st['old']), B(st['new']), count=st['count'])
    if op == 'clear': return s.clear()
    if op == 'imul': s *= st['n']; return None
    if op == 'keep':
        m, n = st['m'], st['n']
        if m == 'reverse': s.reverse()
        elif m == 'rol': s.rol(n)
        elif m == 'ror': s.ror(n)
        elif m == 'set': s.set(1, n)
        elif m == 'invert': s.invert()
        elif m == 'ilshift': s <<= n
        elif m == 'irshift': s >>= n
        elif m == 'byteswap': s.byteswap()
        elif m == 'ixor': s ^= Bits(len(s))
        return None
    if op == 'propset': setattr(s, st['name'], {'hex': 'a5', 'bin': '0110', 'bytes': b'ab', 'bool': True}.get(st['name'], st['v'])); return None
    if op == 'eqhash':
        other = type(s)(bin=s.bin)
        h = (hash(s) == hash(other)) if not isinstance(s, bitstring.BitArray) else True
        return [s == other, other == s, h, s == Bits(bin=s.bin)]
    if op == 'derive':
        how = st['how']
        if how == 'copy': r = s.copy()
        elif how == 'copycopy': r = copy.copy(s)
        elif how == 'slice': r = s[1:]
        elif how == 'add': r = s + '0b1'
        elif how == 'and': r = s & Bits(len(s))
        elif how == 'andself': r = s & s
        elif how == 'orself': r = s | s
        elif how == 'xor': r = s ^ Bits(len(s))
        elif how == 'invert': r = ~s
        elif how == 'mul': r = s * 2
        elif how == 'lshift': r = s << 1
        elif how == 'readbits': r = s.peek(min(3, len(s) - s.pos))
        elif how == 'cut': r = next(s.cut(max(1, len(s))))
        elif how == 'getitem': r = s[:]
        elif how == 'constructor': r = type(s)(s)
        return [type(r).__name__, getattr(r, 'pos', None), r is s]
    raise AssertionError(op)

def run_impl(c):
    import bitstring
    s = build(c['cls'], c['bits'], 'bin', c['pos'])
    bitstring.options.bytealigned = bool(c.get('opt_ba'))      # reset by the driver
    trace = []
    for st in c['steps']:
        before = [s.bin, s.pos]
        r = attempt(lambda: apply_impl(s, st))
        trace.append([before, list(r), [s.bin, s.pos, len(s)]])
    return ('ok', trace)

# ---------------- reference machine (written from the property text) ----------------
def ref_interp(k, b):
    if k in ('bits', 'bin', 'bytes'): return ['bits', b]
    if k == 'hex': return ['bits', b]
    if k == 'uint':
        if not b: raise R.RefErr('ValueError')
        return ['z', int(b, 2)]
    if k == 'int':
        if not b: raise R.RefErr('ValueError')
        v = int(b, 2); return ['z', v - (1 << len(b)) if b[0] == '1' else v]
    if k == 'bool': return ['bool', b == '1']
    if k == 'pad': return ['none']

def ref_toklen(t, remaining):
    """bits the token needs; raises RefErr for malformed tokens. None for variable-length"""
    if isinstance(t, int):
        if t < 0: raise R.RefErr('ValueError')
        return t
    if 'c' in t: return None
    k = t['k']
    if 'n' not in t:
        if k == 'bool': return 1
        if remaining % (8 if k == 'bytes' else 1): raise R.RefErr('ValueError')
        n = remaining // (8 if k == 'bytes' else 1)
    else: n = t['n']
    if k == 'bool' and n != 1: raise R.RefErr('ValueError')
    if k == 'hex' and n % 4: raise R.RefErr('ValueError')
    return n * (8 if k == 'bytes' else 1)

def ref_read_one(d, pos, t, remaining_for_stretch):
    """-> (value, newpos); raises RefErr"""
    L = ref_toklen(t, remaining_for_stretch)
    if L is None:
        r = ref_dec(t['c'], d[pos:])
        if r is None: raise R.RefErr('ReadError')
        return ['z', r[0]], pos + r[1]
    if L > len(d) - pos: raise R.RefErr('ReadError')
    chunk = d[pos:pos + L]
    if isinstance(t, int): return ['bits', chunk], pos + L
    return ref_interp(t['k'], chunk), pos + L

def ref_readlist(d, pos, toks):
    stretch = [i for i, t in enumerate(toks) if isinstance(t, dict) and 'n' not in t and 'c' not in t and t['k'] != 'bool']
    static = set()
    if len(stretch) > 1: static.add('BsError')
    after = 0
    for i, t in enumerate(toks):
        try:
            L = ref_toklen(t, 0) if i not in stretch else 0
        except R.RefErr as e:
            static.add(e.kind); L = 0
        if stretch and i > stretch[0]:
            if L is None: static.add('BsError')
            else: after += L
    if static:
        e = R.RefErr(sorted(static)[0]); e.kinds = static; raise e
    vals = []
    for i, t in enumerate(toks):
        rem = max(len(d) - pos - after, 0)
        v, pos = ref_read_one(d, pos, t, rem)
        if v != ['none']: vals.append(v)
    return vals, pos

def resolve_self(st, d):
    """the step with the stream-itself operand replaced by the content it has when the call is made"""
    sa = st.get('selfarg')
    if not sa: return st
    st = dict(st)
    if sa == 'val': st['val'] = {'bits': d}
    else: st[sa] = d
    return st

def ref_step(cls, d, pos, st):
    """-> (content, pos, result) ; result is ('ok', value) or ('err', set of acceptable kinds) or ('any',)"""
    st = resolve_self(st, d)
    op = st['op']
    ok = lambda v, d2=d, p2=pos: (d2, p2, ('ok', v))
    err = lambda *k: (d, pos, ('err', set(k)))
    try:
        if op in ('read', 'peek'):
            t = st['tok']
            v, p2 = ref_read_one(d, pos, t, len(d) - pos)
            return ok(v, d, p2 if op == 'read' else pos)
        if op in ('readlist', 'peeklist'):
            vals, p2 = ref_readlist(d, pos, st['toks'])
            return ok(vals, d, p2 if op == 'readlist' else pos)
        if op == 'readto':
            if not st['pat']: return err('ValueError')
            m = R.matches(d, st['pat'], pos, len(d), bool(st['ba']))
            if not m: return err('ReadError')
            e = m[0] + len(st['pat'])
            return ok(['bits', d[pos:e]], d, e)
        if op == 'setpos': return ok(None, d, st['p']) if 0 <= st['p'] <= len(d) else err('ValueError')
        if op == 'setbytepos': return ok(None, d, st['p'] * 8) if 0 <= st['p'] * 8 <= len(d) else err('ValueError')
        if op == 'getbytepos': return ok(pos // 8) if pos % 8 == 0 else err('ByteAlignError')
        if op == 'bytealign':
            sk = (-pos) % 8
            return ok(sk, d, pos + sk) if pos + sk <= len(d) else err('ValueError')
        if op in ('find', 'rfind'):
            r = (R.find if op == 'find' else R.rfind)(d, st['pat'], st['start'], None, bool(st['ba']))
            return ok(list(r), d, r[0] if r else pos)
        if op in ('append', 'iadd'): return ok(None, d + st['bs'], len(d) + len(st['bs']))
        if op == 'prepend': return ok(None, st['bs'] + d, 0)
        if op in ('insert', 'overwrite'):
            p = pos if st['pos'] is None else st['pos']
            d2 = (R.insert if op == 'insert' else R.overwrite)(d, st['bs'], p)      # an invalid position raises for an empty operand too (D59)
            if not st['bs']: return ok(None)
            p = p + len(d) if p < 0 else p
            return ok(None, d2, p + len(st['bs']))
        if op in ('setitem', 'delitem'):
            key = slice(*st['key']) if isinstance(st['key'], list) else st['key']
            if op == 'delitem': d2 = R.delitem(d, key)
            elif 'bits' in st['val']: d2 = R.setitem_bits(d, key, st['val']['bits'])
            else:
                if isinstance(key, slice) and key.step == -1: return (d, pos, ('any',))
                d2 = R.setitem_int(d, key, st['val']['int'])
            return ok(None, d2, pos if len(d2) == len(d) else 0)
        if op == 'replace':
            d2, n = R.replace(d, st['old'], st['new'], None, None, st['count'], bool(st.get('ba_eff')))
            return ok(n, d2, pos if len(d2) == len(d) else 0)
        if op == 'clear': return ok(None, '', 0)
        if op == 'imul':
            if st['n'] < 0: return err('ValueError')
            d2 = d * st['n']
            return ok(None, d2, pos if len(d2) == len(d) else (0 if not d2 else pos))
        if op == 'keep':
            m, n = st['m'], st['n']
            if m == 'reverse': d2 = R.reverse(d)
            elif m == 'rol': d2 = R.rol(d, n)
            elif m == 'ror': d2 = R.ror(d, n)
            elif m == 'set':
                d2, e = R.set_(d, 1, n)
                if e: return err(e)
            elif m == 'invert': d2 = R.invert(d, None)[0]
            elif m == 'ilshift': d2 = R.lshift(d, n)
            elif m == 'irshift': d2 = R.rshift(d, n)
            elif m == 'byteswap': d2 = R.byteswap(d, [len(d) // 8])[0]
            elif m == 'ixor': d2 = d
            return ok(None, d2, pos)
        if op == 'propset':
            name, v = st['name'], st['v']
            L = len(d)
            if name == 'uint8': L = 8
            if name in ('uint', 'uint8'):
                if L == 0 or not 0 <= v < (1 << L): return err('ValueError')
                d2 = format(v, f'0{L}b')
            elif name == 'int':
                if L == 0 or not -(1 << (L - 1)) <= v < (1 << (L - 1)): return err('ValueError')
                d2 = format(v % (1 << L), f'0{L}b')
            elif name == 'hex': d2 = '10100101'
            elif name == 'bin': d2 = '0110'
            elif name == 'bytes': d2 = '0110000101100010'
            elif name == 'bool': d2 = '1'
            # property assignment is "any other mutator": pos unchanged while it still fits; if the new value is
            # shorter than pos the only requirement left is validity, and the repaired code resets to 0
            return ok(None, d2, pos if pos <= len(d2) else 0)
        if op == 'eqhash': return ok([True, True, True, True])
        if op == 'derive':
            how = st['how']
            if how in ('and', 'andself', 'orself', 'xor') and False: pass
            if how == 'invert' and not d: return err('BsError')
            if how == 'lshift' and not d: return err('ValueError')
            if how == 'cut' and not d: return (d, pos, ('any',))
            rcls = cls
            return ok([rcls, 0, False])
    except R.RefErr as e:
        return err(*getattr(e, 'kinds', {e.kind}))
    raise AssertionError(op)

def eff(c, st):
    """the step with `bytealigned` resolved: an omitted argument means options.bytealigned (set for the whole history)"""
    if 'ba' in st and st['ba'] is None and c.get('opt_ba'): return dict(st, ba=True)
    if st.get('op') == 'replace' and c.get('opt_ba'): return dict(st, ba_eff=True)
    return st

def oracle(c, obs):
    for st, (before, r, after) in zip(c['steps'], obs[1]):
        st = eff(c, st)
        d, pos = before
        if not 0 <= after[1] <= len(after[0]): return f"{c['cls']}: pos={after[1]} outside [0, {len(after[0])}] after {st} (before: pos={pos}, {len(d)} bits)"
        if after[2] != len(after[0]): return f"len mismatch after {st}"
        d2, p2, res = ref_step(c['cls'], d, pos, st)
        if res[0] == 'any': continue
        where = f"{c['cls']}({d!r}, pos={pos}) {st}"
        if res[0] == 'err':
            if r[0] != 'err' or r[1] not in res[1]: return f"{where} should raise {sorted(res[1])}, got {str(r)[:150]}; state {after[:2]}"
            if after[0] != d or after[1] != pos: return f"{where} raised {r[1]} but changed the state to {after[:2]}"
            continue
        if r[0] != 'ok': return f"{where} raised {r[1]}; reference gives value {str(res[1])[:100]} state ({d2!r}, {p2})"
        got = r[1]
        if st['op'] in ('read', 'peek', 'readto') and got and got[0] == 'bits':
            if len(got) > 2 and got[3] not in (None, 0): return f"{where}: returned stream starts at pos {got[3]}"
            got = got[:2]
        if st['op'] in ('readlist', 'peeklist'):
            got = [g[:2] if g and g[0] == 'bits' else g for g in got]
        if got != res[1]: return f"{where} returned {str(got)[:150]}, reference gives {str(res[1])[:150]}"
        if after[0] != d2 or after[1] != p2: return f"{where} left (bits={after[0]!r}, pos={after[1]}), documented state is (bits={d2!r}, pos={p2})"
    return None

def nontrivial(c, obs):
    return sum(1 for b, r, a in obs[1] if b[1] != a[1]) >= 2

def classify(c, obs):
    # ConstBitStream exposes append()/overwrite() although it is immutable (D7/D8): identified by class + operation
    for st, (before, r, after) in zip(c['steps'], obs[1]):
        d, pos = before
        d2, p2, res = ref_step(c['cls'], d, pos, st)
        if res[0] == 'any': continue
        bad = (r[0] != 'err' or r[1] not in res[1] or after[0] != d or after[1] != pos) if res[0] == 'err' else (r[0] != 'ok' or after[0] != d2 or after[1] != p2)
        if bad:
            if c['cls'] == 'ConstBitStream' and st['op'] in ('append', 'overwrite', 'iadd'): return 'constbitstream-append-overwrite'
            return None
    return None

# ---------------- Coq correspondence ----------------
def cob(x): return copt(x, cz)
def ctok(t):
    if isinstance(t, int): return f"(TCount {cz(t)})"
    if 'c' in t: return f"(TVar {GC[t['c']]})"
    if 'n' not in t:
        return "(TFixed KBool 1)" if t['k'] == 'bool' else f"(TStretch {CK[t['k']]})"
    return f"(TFixed {CK[t['k']]} {cz(t['n'])})"
def cval(v):
    if v[0] == 'none': return 'ValNone'
    if v[0] == 'bool': return f"(ValBool {cbool(v[1])})"
    if v[0] == 'z': return f"(ValZ {cz(v[1])})"
    if v[0] == 'bits': return f"(ValBits {cbits(v[1])})"
    return 'ValNone'
def cerr(r): return f"(Err {r[1] if r[1] in COQ_EXNS else 'AssertionError'})"

def coq_step(cls, st, before, r, after):
    same = cbool(st.get('selfarg') == 'bs')
    st = resolve_self(st, before[0])
    op = st['op']
    S = f"(mkstream {cbits(before[0])} {cz(before[1])})"
    A = f"{cbits(after[0])} {cz(after[1])}"
    unit = "(Ok tt)" if r[0] == 'ok' else cerr(r)
    if op in ('read', 'peek'):
        f = 'read_token' if op == 'read' else 'peek_token'
        exp = f"(Ok {cval(r[1])})" if r[0] == 'ok' else cerr(r)
        return f"chk value_eqb ({f} {S} {ctok(st['tok'])}) {A} {exp}"
    if op in ('readlist', 'peeklist'):
        if any(isinstance(t, dict) and t.get('k') == 'bool' and 'n' not in t for t in st['toks']): return None
        exp = f"(Ok {clist(r[1], cval)})" if r[0] == 'ok' else cerr(r)
        return f"chk (list_eqb value_eqb) ({op} {S} {clist(st['toks'], ctok)}) {A} {exp}"
    if op == 'readto':
        exp = f"(Ok {cbits(r[1][1])})" if r[0] == 'ok' else cerr(r)
        if r[0] == 'err' and not st['pat']: return None
        return f"chk bits_eqb (readto {S} {cbits(st['pat'])} {cbool(bool(st['ba']))}) {A} {exp}"
    if op == 'setpos': return f"chk unit_eqb (set_pos {S} {cz(st['p'])}) {A} {unit}"
    if op == 'setbytepos': return f"chk unit_eqb (set_bytepos {S} {cz(st['p'])}) {A} {unit}"
    if op == 'getbytepos': return f"res_eqb Z.eqb (get_bytepos {S}) {('(Ok ' + cz(r[1]) + ')') if r[0] == 'ok' else cerr(r)}"
    if op == 'bytealign': return f"chk Z.eqb (bytealign {S}) {A} {('(Ok ' + cz(r[1]) + ')') if r[0] == 'ok' else cerr(r)}"
    if op in ('find', 'rfind'):
        exp = f"(Ok {cob(r[1][0] if r[1] else None)})" if r[0] == 'ok' else cerr(r)
        return f"chk (opt_eqb Z.eqb) (st_{op} false {S} {cbits(st['pat'])} {cob(st['start'])} None {cbool(bool(st['ba']))}) {A} {exp}"
    if cls == 'ConstBitStream' and op in ('append', 'iadd', 'overwrite'): return None
    if op in ('append', 'iadd'): return f"chk unit_eqb (st_append {S} {cbits(st['bs'])}) {A} {unit}"
    if op == 'prepend': return f"chk unit_eqb (st_prepend {S} {cbits(st['bs'])}) {A} {unit}"
    if op == 'insert': return f"chk unit_eqb (st_insert {S} {cbits(st['bs'])} {cob(st['pos'])}) {A} {unit}"
    if op == 'overwrite': return f"chk unit_eqb (st_overwrite {S} {same} {cbits(st['bs'])} {cob(st['pos'])}) {A} {unit}"
    if op == 'setitem':
        k, v = st['key'], st['val']
        V = f"(VBits {cbits(v['bits'])})" if 'bits' in v else f"(VInt {cz(v['int'])})"
        if isinstance(k, list): return f"chk unit_eqb (st_setitem_slice {S} {cslice(*k)} {V}) {A} {unit}"
        return f"chk unit_eqb (st_setitem_int {S} {cz(k)} {V}) {A} {unit}"
    if op == 'delitem':
        k = st['key']
        if isinstance(k, list): return f"chk unit_eqb (st_delitem_slice {S} {cslice(*k)}) {A} {unit}"
        return f"chk unit_eqb (st_delitem_int {S} {cz(k)}) {A} {unit}"
    if op == 'replace':
        exp = f"(Ok {cz(r[1])})" if r[0] == 'ok' else cerr(r)
        return f"chk Z.eqb (st_replace {S} {cbits(st['old'])} {cbits(st['new'])} None None {cob(st['count'])} {cbool(bool(st.get('ba_eff')))}) {A} {exp}"
    if op == 'clear': return f"chk unit_eqb (st_clear {S}) {A} {unit}"
    if op == 'imul': return f"chk unit_eqb (st_imul {S} {cz(st['n'])}) {A} {unit}"
    return None

def coq_check(c, obs):
    terms = []
    for st, (before, r, after) in zip(c['steps'], obs[1]):
        t = coq_step(c['cls'], eff(c, st), before, r, after)
        if t is not None: terms.append('(' + t + ')')
    return ' && '.join(terms) if terms else None

def search(seeds, rng):
    pool = list(seeds) + list(gen_cases(rng, 'thorough'))[:6000]
    for c in pool:
        try: obs = run_impl(c)
        finally: reset_options()
        msg = oracle(c, obs)
        if msg and classify(c, obs) is None: return c, obs, msg
    return None


# arguments on which the translated source of a stream method and the stream machine differ -> one-step histories
def kernel_cases(name, a):
    x = dict(a['args']); pos = x.pop('_pos', 0)
    st = None
    if name == 'k_st_setbitpos': st = {'op': 'setpos', 'p': x['pos']}
    elif name == 'k_st_setbytepos': st = {'op': 'setbytepos', 'p': x['bytepos']}
    elif name == 'k_st_getbytepos': st = {'op': 'getbytepos'}
    elif name == 'k_st_bytealign': st = {'op': 'bytealign'}
    elif name == 'k_st_clear': st = {'op': 'clear'}
    elif name in ('k_st_append', 'k_st_iadd', 'k_st_prepend'): st = {'op': {'k_st_append': 'append', 'k_st_iadd': 'iadd', 'k_st_prepend': 'prepend'}[name], 'bs': x['bs'][0]}
    elif name in ('k_st_insert', 'k_st_overwrite'):
        st = {'op': name[5:], 'bs': x['bs'][0], 'pos': x['pos']}
        if x['bs'][1]: st['selfarg'] = 'bs'
    elif name == 'k_st_delitem_slice': st = {'op': 'delitem', 'key': x['key']}
    elif name == 'k_st_delitem_int': st = {'op': 'delitem', 'key': x['key']}
    if st is None: return []
    return [{'op': 'history', 'cls': 'BitStream', 'bits': a['self'], 'pos': pos, 'steps': [st]}]
