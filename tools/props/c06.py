"""C06 — stream reads consume exactly what they return; the position is always valid."""
from vlib import *
from props.common import *
from props import refmodel as R
from props.c10 import ref_dec

ID = 'C06'
COQ_PROPS = ['Props/C06.v']
COQ_IMPORTS = ['Prims', 'CaseLib', 'BitsCore', 'Mutators', 'Search', 'Golomb', 'Stream', 'LsbPack', 'StreamLsb']
RULE = ('histories of 3..25 stream operations (reads with every token kind and integer counts incl. 0 and negative, peeks, readlist/peeklist with stretchy tokens, seeks via pos/bytepos/bytealign, '
        'find/rfind/readto, every mutator, property assignment, copies/slices/operators) from random (content, pos) on ConstBitStream and BitStream; (bin, pos, value|exception) compared after every step '
        'with a (bits, pos) reference machine and with the Coq model; every call that returns an object (each operator and its reflected / augmented form with empty, identity, self and stream operands of every '
        'promotable type, copies, slices, constructors with and without pos, read / peeked / unpacked bits, cut, split, join, pack) is probed: class, bits, pos 0, not the operand itself, reading from it moves it alone, '
        'kept objects are used again later and looked at after every step; non-stream queries never move pos; also from every construction route and under lsb0; '
        'non-trivial = history in which pos moves at least twice; distinct by history')
ASSUMPTIONS = ['token interpretations are those of C02/C10 (here: bits, uint, int, bin, hex, bool, pad, bytes, ue/se/uie/sie)', 'msb0 mode for the histories of the stream machine (the object-returning calls are also run under lsb0, where the documentation has reads go from the right)']
COQ_PRELUDE = '''
Definition value_eqb (a b : value) : bool :=
  match a, b with
  | ValBits x, ValBits y => bits_eqb x y | ValZ x, ValZ y => Z.eqb x y | ValBool x, ValBool y => Bool.eqb x y | ValNone, ValNone => true | _, _ => false end.
Definition st_eqb (s : stream) (b : bits) (p : Z) : bool := bits_eqb (sbits s) b && (spos s =? p).
Definition chk {A} (eqb : A -> A -> bool) (r : stream * res A) (b : bits) (p : Z) (exp : res A) : bool :=
  st_eqb (fst r) b p && res_eqb eqb (snd r) exp.
'''
KINDS = ['bits', 'uint', 'int', 'bin', 'hex', 'bool', 'pad', 'bytes']
CK = {'bits': 'KBits', 'uint': 'KUint', 'int': 'KInt', 'bin': 'KBin', 'hex': 'KHex', 'bool': 'KBool', 'pad': 'KPad', 'bytes': 'KBytes'}
GC = {'ue': 'UE', 'se': 'SE', 'uie': 'UIE', 'sie': 'SIE'}

def rtok(rng, n, allow_stretch=True):
    r = rng.random()
    if r < 0.18: return rng.choice([0, 1, 2, 3, 8, n, n + 1, -1, rng.randrange(0, n + 2)])
    if r < 0.3: return {'c': rng.choice(list(GC))}
    if r < 0.4 and allow_stretch: return {'k': rng.choice(['bits', 'bin', 'uint', 'int', 'hex', 'bytes'])}
    k = rng.choice(KINDS)
    if k == 'bool': return {'k': 'bool', 'n': 1} if rng.random() < 0.9 else {'k': 'bool'}
    m = rng.choice([0, 1, 2, 3, 4, 5, 8, 12, 16, rng.randrange(0, n + 3)])
    if k == 'hex' and rng.random() < 0.8: m -= m % 4
    if k == 'bytes': m = rng.choice([0, 1, 2, 3])
    return {'k': k, 'n': m}

def fmt_of(t):
    if isinstance(t, int): return t
    if 'c' in t: return t['c']
    return t['k'] if 'n' not in t else f"{t['k']}:{t['n']}"

# ---------------- new objects returned by calls on a stream (operators, copies, slices, constructors, read bits) ----------------
# "every new stream object a call returns starts at 0", "other operations move pos only as documented", "pos never affects any non-stream result":
# every call below returns an object; it is probed (class, bits, pos, identity), read from, optionally KEPT and used again later in the history
# ('usekept'), while the stream it came from, the operand streams and all kept objects must stay where they were.
STREAMS = ('ConstBitStream', 'BitStream')
BINOPS = ['add', 'radd', 'and', 'or', 'xor', 'rand', 'ror', 'rxor']
AUGOPS = ['aug_add', 'aug_and', 'aug_or', 'aug_xor', 'aug_mul', 'aug_lshift', 'aug_rshift']      # on a ConstBitStream `t = s; t op= x` is the binary operator (a new object); on a BitStream it is run as the binary operator too
UNOPS = ['mul', 'rmul', 'lshift', 'rshift', 'invert', 'copy', 'copycopy', 'slice', 'ctor', 'ctor_pos', 'ctor_other', 'ctor_other_pos',
         'peek_n', 'read_n', 'peek_bits', 'read_bits', 'peeklist_bits', 'readlist_bits', 'unpack_bits', 'bitsprop', 'cut', 'split', 'join', 'pack_bits', 'readto_obj']
NEWOBJ_HOWS = BINOPS + AUGOPS + UNOPS
LSB0_HOWS = BINOPS + AUGOPS + ['mul', 'rmul', 'lshift', 'rshift', 'invert', 'copy', 'copycopy', 'slice', 'ctor', 'ctor_pos', 'ctor_other', 'ctor_other_pos', 'peek_n', 'read_n', 'unpack_bits', 'bitsprop', 'pack_bits', 'join']
OPERAND_TYPES = ['str', 'str', 'hexstr', 'Bits', 'BitArray', 'ConstBitStream', 'BitStream', 'list', 'tuple', 'bytes', 'bytearray', 'bitarray', 'gen', 'self', 'selfcopy']
NSPECS = [0, 1, 2, 3, 8, 'len-1', 'len', 'len+1', 1000, -1]
PURE = ['len', 'bin', 'tobytes', 'count1', 'count0', 'all', 'any', 'startswith', 'endswith', 'contains', 'findall', 'str', 'repr', 'bool', 'iter', 'index', 'pp', 'eq', 'ne', 'hash',
        'tobitarray', 'uint', 'hex', 'bytes_prop', 'copy_eq', 'tofile']

def gen_operand(rng, samelen, identity=False):
    """an operand of a binary operator: its type and either explicit bits or (for & | ^, which need the stream's current length) a rule"""
    x = {'t': rng.choice(OPERAND_TYPES), 'pos': rng.choice([0, 0, 1, 3, 8, 1000])}          # pos: where an operand that is itself a stream stands (capped by its length)
    if samelen:
        x['mode'] = rng.choice(['zeros', 'ones', 'alt', 'inv', 'same'])
        if rng.random() < 0.08: x['bits'] = rand_bits(rng, rng.choice([0, 1, 8]))            # (almost always) another length: refused
    else:
        x['bits'] = '' if identity or rng.random() < 0.45 else rand_bits(rng, rng.choice([1, 2, 3, 4, 8, 16, 24]))
    return x

def gen_newobj(rng, n, cls, how=None, identity=False, lsb0=False):
    how = how or rng.choice(LSB0_HOWS if lsb0 else NEWOBJ_HOWS)
    st = {'op': 'newobj', 'how': how, 'probe': rng.choice([0, 1, 3, 4, 8, 1000]), 'keep': rng.random() < 0.6}
    base = how[4:] if how.startswith('aug_') else how
    if base in ('add', 'radd'): st['x'] = gen_operand(rng, False, identity)
    elif base in ('and', 'or', 'xor', 'rand', 'ror', 'rxor'):
        st['x'] = gen_operand(rng, True)
        if identity: st['x'].pop('bits', None); st['x']['t'] = rng.choice(['self', 'self', 'selfcopy', 'Bits', 'str'])
    elif base in ('mul', 'rmul'): st['n'] = 1 if identity else rng.choice([0, 1, 1, 2, 3, -1])
    elif base in ('lshift', 'rshift'): st['n'] = 0 if identity else rng.choice(NSPECS)
    elif base == 'slice':
        st['key'] = [None, None, rng.choice([None, 1])] if identity else rng.choice([[None, None, None], [0, None, None], [None, 'len', None], [0, 'len', 1], [None, None, -1], [None, None, 2], [1, None, None],
                                                                                     ['len', None, None], [3, 3, None], [-1, None, None], [None, None, 0],
                                                                                     [rng.randrange(-n - 1, n + 2), rng.randrange(-n - 1, n + 2), rng.choice([None, 1, -1, 2, 3, -2])]])
    elif base in ('ctor_pos', 'ctor_other_pos'): st['pmode'] = rng.choice(['zero', 'mid', 'end', 'end', 'over'])
    elif base in ('peek_n', 'read_n', 'peek_bits', 'read_bits', 'peeklist_bits', 'readlist_bits'): st['n'] = rng.choice([0, 0, 1, 3, 8, 'rest', 'rest+1'])
    elif base == 'cut': st.update(w=rng.choice([1, 3, 8, 16, 1000]), i=rng.randrange(0, 8))
    elif base in ('split', 'readto_obj'): st.update(pat=rand_bits(rng, rng.choice([1, 1, 2, 3, 8])), i=rng.randrange(0, 8))
    elif base == 'join': st['items'] = [gen_operand(rng, False) for _ in range(rng.choice([0, 1, 2, 3]))]
    return st

def gen_usekept(rng, n):
    return {'op': 'usekept', 'j': rng.randrange(0, 4), 'how': rng.choice(['read', 'read', 'peek', 'setpos', 'readall', 'look']), 'n': rng.choice([0, 1, 2, 3, 8, 'rest', 'rest+1'])}

def gen_pure(rng, n):
    st = {'op': 'pure', 'm': rng.choice(PURE)}
    if st['m'] in ('startswith', 'endswith', 'contains', 'findall'): st['pat'] = rand_bits(rng, rng.choice([1, 1, 2, 3, 8]))
    if st['m'] == 'index': st['i'] = rng.randrange(-n - 1, n + 1)
    return st

def gen_newobj_cases(rng, tier):
    """short histories made of object-returning calls only, over classes, construction routes, positions (start / inside / end), bit numberings and options"""
    N = 260 if tier == 'quick' else 6000
    sweep = [(h, cls) for h in NEWOBJ_HOWS for cls in STREAMS]
    for i in range(N):
        n = rng.choice([0, 1, 7, 8, 9, 16, 17, 31, 32, 33, 40, 64, 65]) if rng.random() < 0.85 else rng.randrange(0, 200)
        lsb0 = rng.random() < 0.2
        if i < len(sweep):
            # every route to a new object at least once per run with the operand / count / slice that changes nothing, on a stream that is not at 0
            how, cls = sweep[i]; n = max(n, 8); lsb0 = False
            first = [gen_newobj(rng, n, cls, how, identity=True)]
            first[0]['keep'] = True
        else:
            cls = rng.choice(STREAMS); first = []
        route = rng.choice(['bin', 'bin', 'auto', 'copy']) if lsb0 else rng.choice(['bin', 'bin', 'bin', 'auto', 'auto', 'bytes', 'iter', 'bitarray', 'slice', 'copy', 'join', 'bytesio', 'file', 'file_exact', 'filehandle_raw'])
        steps = list(first)
        for _ in range(rng.randrange(2, 9)):
            r = rng.random()
            if r < 0.62: steps.append(gen_newobj(rng, max(n, 4), cls, lsb0=lsb0, identity=rng.random() < 0.3))
            elif r < 0.8: steps.append(gen_usekept(rng, max(n, 4)))
            elif r < 0.9: steps.append({'op': 'setpos', 'p': rng.choice([0, n, rng.randrange(0, n + 1)])})
            elif lsb0: steps.append(gen_usekept(rng, max(n, 4)))
            else: steps.append(rng.choice([{'op': 'read', 'tok': rng.choice([0, 1, 3, 8])}, gen_pure(rng, max(n, 4))]))
        pos = rng.choice([n, n // 2, rng.randrange(0, n + 1), rng.randrange(0, n + 1), 0])
        if i < len(sweep) and pos == 0: pos = rng.choice([n, n // 2, 1])          # (a position copied from, or shared with, the original shows only away from 0)
        c = {'op': 'history', 'cls': cls, 'bits': rand_bits(rng, n), 'pos': pos, 'route': route, 'steps': steps}
        if lsb0: c['opt_lsb0'] = True
        elif rng.random() < 0.2: c['opt_ba'] = True
        yield c

def gen_step(rng, n, mutable):
    ops = ['read', 'read', 'read', 'peek', 'readlist', 'peeklist', 'readto', 'setpos', 'setbytepos', 'getbytepos', 'bytealign', 'find', 'rfind', 'derive', 'eqhash',
           'newobj', 'newobj', 'usekept', 'pure']
    if mutable:
        ops += ['append', 'iadd', 'prepend', 'insert', 'overwrite', 'setitem', 'delitem', 'replace', 'clear', 'imul', 'keep', 'keep', 'propset']
    op = rng.choice(ops)
    if op == 'newobj': return gen_newobj(rng, n, 'BitStream' if mutable else 'ConstBitStream')
    if op == 'usekept': return gen_usekept(rng, n)
    if op == 'pure': return gen_pure(rng, n)
    st = {'op': op}
    small = lambda: rand_bits(rng, rng.choice([0, 1, 2, 3, 8]))
    if op in ('read', 'peek'): st['tok'] = rtok(rng, n)
    elif op in ('readlist', 'peeklist'):
        k = rng.randrange(0, 5); toks = [rtok(rng, max(2, n // 3), False) for _ in range(k)]
        if rng.random() < 0.35 and toks: toks[rng.randrange(len(toks))] = {'k': rng.choice(['bits', 'bin', 'uint', 'hex', 'bytes'])}
        if rng.random() < 0.08: toks.insert(rng.randrange(len(toks) + 1), {'k': 'bin'})
        st['toks'] = toks
        if rng.random() < 0.3: st['kwspell'] = True          # the lengths are passed as keyword arguments n0, n1, ... (same names every time, other values)
    elif op == 'readto': st.update(pat=rand_bits(rng, rng.choice([0, 1, 2, 3, 8])), ba=rng.choice([None, False, True]))
    elif op == 'setpos': st['p'] = rng.choice([0, n, n + 1, -1, rng.randrange(0, n + 1)])
    elif op == 'setbytepos': st['p'] = rng.choice([0, 1, n // 8, n // 8 + 1, -1])
    elif op in ('find', 'rfind'): st.update(pat=rand_bits(rng, rng.choice([1, 2, 3, 8])), start=rng.choice([None, None, rng.randrange(0, n + 1)]), ba=rng.choice([None, False, True]))
    elif op in ('append', 'iadd', 'prepend'): st['bs'] = small()
    elif op in ('insert', 'overwrite'): st.update(bs=small(), pos=rng.choice([None, None, 0, n, -1, n + 1, rng.randrange(-n - 1, n + 2)]))
    elif op == 'setitem':
        from props.c03 import rslice, rpos
        st.update(key=rng.choice([rpos(rng, n), rslice(rng, n)]), val=rng.choice([{'bits': small()}, {'int': rng.choice([0, 1, 2, -1])}]))
    elif op == 'delitem':
        from props.c03 import rslice, rpos
        st['key'] = rng.choice([rpos(rng, n), rslice(rng, n)])
    elif op == 'replace': st.update(old=rand_bits(rng, rng.choice([1, 2, 3])), new=small(), count=rng.choice([None, 1]))
    elif op == 'imul': st['n'] = rng.choice([0, 1, 2, 3, -1])
    elif op == 'keep': st.update(m=rng.choice(['reverse', 'rol', 'ror', 'set', 'invert', 'ilshift', 'irshift', 'byteswap', 'ixor']), n=rng.choice([0, 1, 3, 64, 200]))
    elif op == 'propset': st.update(name=rng.choice(['uint', 'int', 'hex', 'bin', 'uint8', 'bytes', 'bool']), v=rng.choice([0, 1, 3, 200]))
    if mutable and op in ('append', 'iadd', 'prepend', 'insert', 'overwrite', 'replace') and rng.random() < 0.12:
        st['selfarg'] = rng.choice(['old', 'new']) if op == 'replace' else 'bs'        # the stream itself is passed as this operand
    if op == 'setitem' and 'bits' in st.get('val', {}) and rng.random() < 0.1: st['selfarg'] = 'val'
    if op == 'derive': st['how'] = rng.choice(['copy', 'copycopy', 'slice', 'add', 'and', 'andself', 'orself', 'xor', 'invert', 'mul', 'lshift', 'readbits', 'cut', 'getitem', 'constructor'])
    return st

def gen_cases(rng, tier):
    N = 260 if tier == 'quick' else 5000
    for _ in range(N):
        n = rng.choice([0, 1, 7, 8, 9, 16, 24, 31, 32, 33, 40, 64]) if rng.random() < 0.8 else rng.randrange(0, 150)
        cls = rng.choice(['ConstBitStream', 'BitStream', 'BitStream'])
        bits = rand_bits(rng, n)
        yield {'op': 'history', 'cls': cls, 'bits': bits, 'pos': rng.choice([0, 0, n, rng.randrange(0, n + 1)]), 'opt_ba': rng.random() < 0.25,
               'steps': [gen_step(rng, max(n, 4), cls == 'BitStream') for _ in range(rng.randrange(3, 26))]}

    # exp-Golomb codes cut short by one to three bits at the end of the data, met by every reading method (alone and after other tokens)
    from props.c10 import ref_enc
    for _ in range(80 if tier == 'quick' else 1500):
        code = rng.choice(list(GC))
        v = rng.randrange(3, 300) * (rng.choice([1, -1]) if code in ('se', 'sie') else 1)
        w = ref_enc(code, v)
        pre = rand_bits(rng, rng.choice([0, 0, 1, 3, 8]))
        bits = pre + w[:len(w) - rng.choice([1, 1, 1, 2, 3])]
        cls = rng.choice(['ConstBitStream', 'BitStream'])
        how = rng.choice(['readlist', 'readlist', 'peeklist', 'read', 'peek'])
        if how in ('readlist', 'peeklist'):
            toks = ([{'k': 'bits', 'n': len(pre)}] if pre and rng.random() < 0.6 else []) + [{'c': code}]
            first = {'op': how, 'toks': toks}; pos = 0 if len(toks) == 2 else len(pre)
        else:
            first = {'op': how, 'tok': {'c': code}}; pos = len(pre)
        yield {'op': 'history', 'cls': cls, 'bits': bits, 'pos': pos,
               'steps': [first] + [gen_step(rng, max(len(bits), 4), cls == 'BitStream') for _ in range(rng.randrange(0, 4))]}

    yield from gen_newobj_cases(rng, tier)

    # list reads whose lengths are keyword arguments, several times in ONE history with the same format text and keyword names and other values
    # (deterministic coverage of what the random 'kwspell' steps reach only by luck: a parse memo keyed on the names would reuse the first lengths)
    for _ in range(25 if tier == 'quick' else 400):
        n = rng.choice([24, 32, 40, 64])
        cls = rng.choice(['ConstBitStream', 'BitStream'])
        kinds = [rng.choice(['uint', 'int', 'bin', 'bits', 'hex', 'pad']) for _ in range(rng.randrange(1, 4))]
        steps = []
        for _ in range(rng.randrange(2, 5)):
            toks = [{'k': k, 'n': (4 * rng.randrange(1, 4) if k == 'hex' else rng.randrange(1, 9))} for k in kinds]
            steps.append({'op': rng.choice(['readlist', 'peeklist', 'readlist']), 'toks': toks, 'kwspell': True})
            if rng.random() < 0.4: steps.append({'op': 'setpos', 'p': rng.choice([0, 0, 3, 8])})
        yield {'op': 'history', 'cls': cls, 'bits': rand_bits(rng, n), 'pos': 0, 'steps': steps}

    # the same kind of histories with options.lsb0 set (before the stream exists): every step is evaluated on the mode-parametric machine of StreamLsb.v
    # (step by step: content, position, value or exception); the machine is the judge here, the msb0 str reference does not apply
    for _ in range(70 if tier == 'quick' else 1500):
        n = rng.choice([0, 1, 7, 8, 9, 16, 24, 31, 32, 33, 40]) if rng.random() < 0.8 else rng.randrange(0, 90)
        cls = rng.choice(['ConstBitStream', 'BitStream', 'BitStream'])
        yield {'op': 'history', 'cls': cls, 'bits': rand_bits(rng, n), 'pos': rng.choice([0, 0, n, rng.randrange(0, n + 1)]), 'opt_lsb0': True, 'machine': True,
               'steps': [st for st in (gen_step(rng, max(n, 4), cls == 'BitStream') for _ in range(rng.randrange(3, 20))) if st['op'] in LSB0_MACHINE_OPS and 'selfarg' not in st]}

LSB0_MACHINE_OPS = ('read', 'peek', 'readlist', 'peeklist', 'readto', 'setpos', 'setbytepos', 'getbytepos', 'bytealign', 'find', 'rfind', 'append', 'iadd', 'prepend', 'insert', 'overwrite',
                    'setitem', 'delitem', 'replace', 'clear', 'imul')

def kind(c): return c['cls']

def zc(v):
    """an int as a canonical value; beyond 4000 bits (a stream grown by repeated *=, read whole as one integer) as hex text: neither json nor str() take such a number"""
    return ['z', v] if v.bit_length() <= 4000 else ['zhex', format(v, 'x')]

def canon_val(tok, v):
    """value as [tag, payload] with strings of digits turned back into bits"""
    import bitstring
    if v is None: return ['none']
    if isinstance(v, bool): return ['bool', v]
    if isinstance(v, int): return zc(v)
    if isinstance(v, bitstring.Bits): return ['bits', v.bin, type(v).__name__, getattr(v, 'pos', None)]
    if isinstance(v, bytes): return ['bits', ''.join(format(x, '08b') for x in v)]
    if isinstance(v, str):
        k = tok.get('k') if isinstance(tok, dict) else None
        if k == 'hex': return ['bits', ''.join(format(int(ch, 16), '04b') for ch in v)]
        if k == 'bin': return ['bits', v]
    return ['other', repr(v)]

def apply_impl(s, st):
    import bitstring, copy
    from bitstring import Bits
    op = st['op']
    B = lambda x: Bits(bin=x)
    if st.get('selfarg'):
        sa = st['selfarg']
        if op in ('append', 'iadd', 'prepend', 'insert', 'overwrite'):
            if op == 'append': return s.append(s)
            if op == 'iadd': s += s; return None
            if op == 'prepend': return s.prepend(s)
            if op == 'insert': return s.insert(s) if st['pos'] is None else s.insert(s, st['pos'])
            if op == 'overwrite': return s.overwrite(s) if st['pos'] is None else s.overwrite(s, st['pos'])
        if op == 'replace': return s.replace(s if sa == 'old' else B(st['old']), s if sa == 'new' else B(st['new']), count=st['count'])
        if op == 'setitem':
            key = slice(*st['key']) if isinstance(st['key'], list) else st['key']
            s[key] = s; return None
    if op == 'read': return canon_val(st['tok'], s.read(fmt_of(st['tok'])))
    if op == 'peek': return canon_val(st['tok'], s.peek(fmt_of(st['tok'])))
    if op in ('readlist', 'peeklist'):
        toks = [t for t in st['toks']]
        fn = s.readlist if op == 'readlist' else s.peeklist
        if st.get('kwspell') and all(isinstance(t, dict) for t in toks) and toks:
            parts, kw = [], {}
            for i, t in enumerate(toks):
                if 'n' in t and 'k' in t: parts.append(f"{t['k']}:n{i}"); kw[f'n{i}'] = t['n']
                else: parts.append(str(fmt_of(t)))
            vals = fn(', '.join(parts), **kw)
        else:
            vals = fn([fmt_of(t) for t in toks])
        nonpad = [t for t in toks if not (isinstance(t, dict) and t.get('k') == 'pad')]
        return [canon_val(t, v) for t, v in zip(nonpad, vals)] + ([['extra']] if len(vals) != len(nonpad) else [])
    if op == 'readto':
        kw = {} if st['ba'] is None else {'bytealigned': st['ba']}
        return canon_val({}, s.readto(B(st['pat']), **kw))
    if op == 'setpos': s.pos = st['p']; return None
    if op == 'setbytepos': s.bytepos = st['p']; return None
    if op == 'getbytepos': return s.bytepos
    if op == 'bytealign': return s.bytealign()
    if op in ('find', 'rfind'):
        kw = {} if st['ba'] is None else {'bytealigned': st['ba']}
        return list(getattr(s, op)(B(st['pat']), st['start'], **kw))
    if op == 'append': return s.append(B(st['bs']))
    if op == 'iadd': s += B(st['bs']); return None
    if op == 'prepend': return s.prepend(B(st['bs']))
    if op == 'insert': return s.insert(B(st['bs'])) if st['pos'] is None else s.insert(B(st['bs']), st['pos'])
    if op == 'overwrite': return s.overwrite(B(st['bs'])) if st['pos'] is None else s.overwrite(B(st['bs']), st['pos'])
    if op == 'setitem':
        key = slice(*st['key']) if isinstance(st['key'], list) else st['key']
        s[key] = B(st['val']['bits']) if 'bits' in st['val'] else st['val']['int']; return None
    if op == 'delitem':
        key = slice(*st['key']) if isinstance(st['key'], list) else st['key']
        del s[key]; return None
    if op == 'replace': return s.replace(B(st['old']), B(st['new']), count=st['count'])
    if op == 'clear': return s.clear()
    if op == 'imul': s *= st['n']; return None
    if op == 'keep':
        m, n = st['m'], st['n']
        if m == 'reverse': s.reverse()
        elif m == 'rol': s.rol(n)
        elif m == 'ror': s.ror(n)
        elif m == 'set': s.set(1, n)
        elif m == 'invert': s.invert()
        elif m == 'ilshift': s <<= n
        elif m == 'irshift': s >>= n
        elif m == 'byteswap': s.byteswap()
        elif m == 'ixor': s ^= Bits(len(s))
        return None
    if op == 'propset': setattr(s, st['name'], {'hex': 'a5', 'bin': '0110', 'bytes': b'ab', 'bool': True}.get(st['name'], st['v'])); return None
    if op == 'eqhash':
        other = type(s)(bin=s.bin)
        h = (hash(s) == hash(other)) if not isinstance(s, bitstring.BitArray) else True
        return [s == other, other == s, h, s == Bits(bin=s.bin)]
    if op == 'derive':
        how = st['how']
        if how == 'copy': r = s.copy()
        elif how == 'copycopy': r = copy.copy(s)
        elif how == 'slice': r = s[1:]
        elif how == 'add': r = s + '0b1'
        elif how == 'and': r = s & Bits(len(s))
        elif how == 'andself': r = s & s
        elif how == 'orself': r = s | s
        elif how == 'xor': r = s ^ Bits(len(s))
        elif how == 'invert': r = ~s
        elif how == 'mul': r = s * 2
        elif how == 'lshift': r = s << 1
        elif how == 'readbits': r = s.peek(min(3, len(s) - s.pos))
        elif how == 'cut': r = next(s.cut(max(1, len(s))))
        elif how == 'getitem': r = s[:]
        elif how == 'constructor': r = type(s)(s)
        return [type(r).__name__, getattr(r, 'pos', None), r is s]
    raise AssertionError(op)

def run_impl(c):
    import bitstring
    if c.get('opt_lsb0'): bitstring.options.lsb0 = True        # before anything has a position (the documentation: switching invalidates positions); reset by the driver
    s = build(c['cls'], c['bits'], c.get('route', 'bin'), c['pos'])
    bitstring.options.bytealigned = bool(c.get('opt_ba'))      # reset by the driver
    trace = []
    kept = []           # stream objects returned by earlier calls of this history, used again later ('usekept') and looked at after every step
    for st in c['steps']:
        before = [s.bin, s.pos]
        if st['op'] == 'newobj': r = attempt(lambda: do_newobj(s, st, kept))
        elif st['op'] == 'usekept': r = attempt(lambda: do_usekept(kept, st))
        elif st['op'] == 'pure': r = attempt(lambda: do_pure(s, st))
        else: r = attempt(lambda: apply_impl(s, st))
        trace.append([before, list(r), [s.bin, s.pos, len(s)], [[k.bin, k.pos] for k in kept]])
    return ('ok', trace)

# ---- runner of the object-returning calls ----
def resolve_n(v, n, pos):
    if isinstance(v, str): return {'len': n, 'len-1': n - 1, 'len+1': n + 1, 'rest': n - pos, 'rest+1': n - pos + 1}[v]
    return v

def resolve_p(pmode, n): return {'zero': 0, 'mid': n // 2, 'end': n, 'over': n + 1}[pmode]

def inv_bits(d): return ''.join('1' if ch == '0' else '0' for ch in d)

def operand_bits(x, d):
    if x['t'] in ('self', 'selfcopy'): return d
    if 'bits' in x: return x['bits']
    n = len(d)
    return {'zeros': '0' * n, 'ones': '1' * n, 'alt': ('10' * n)[:n], 'inv': inv_bits(d), 'same': d}[x['mode']]

def operand_type(x, bits, base):
    t = x['t']
    if t in ('bytes', 'bytearray') and len(bits) % 8: t = 'list'
    if t == 'hexstr' and len(bits) % 4: t = 'str'
    if t == 'bitarray' and base in ('rand', 'ror', 'rxor'): t = 'tuple'        # bitarray's own operator refuses the pair before the library is asked
    return t

def make_operand(t, bits, s, xpos):
    if t == 'self': return s
    if t == 'selfcopy': return type(s)(bin=bits)
    if t in CLASSES:
        o = cls_of(t)(bin=bits)
        if hasattr(o, 'pos'): o.pos = min(xpos, len(bits))
        return o
    if t == 'str': return '0b' + bits if bits else ''
    if t == 'hexstr': return '0x' + ''.join(format(int(bits[i:i + 4], 2), 'x') for i in range(0, len(bits), 4)) if bits else ''
    return promotable(bits, t)

def do_newobj(s, st, kept):
    import bitstring, copy, operator
    from bitstring import Bits, pack
    how = st['how']; base = how[4:] if how.startswith('aug_') else how
    d = s.bin; n = len(d); p0 = s.pos
    xo = xb = None
    if 'x' in st:
        xb = operand_bits(st['x'], d); xo = make_operand(operand_type(st['x'], xb, base), xb, s, st['x'].get('pos', 0))
    xs = xo if (xo is not None and xo is not s and hasattr(xo, 'pos')) else None
    xrec = [xs.pos] if xs is not None else None
    N = resolve_n(st.get('n'), n, p0)
    aug = how.startswith('aug_') and not isinstance(s, bitstring.BitArray)
    FWD = {'add': (operator.add, operator.iadd), 'and': (operator.and_, operator.iand), 'or': (operator.or_, operator.ior), 'xor': (operator.xor, operator.ixor)}
    REV = {'radd': operator.add, 'rand': operator.and_, 'ror': operator.or_, 'rxor': operator.xor}
    items = None
    if base in FWD: r = FWD[base][1 if aug else 0](s, xo)
    elif base in REV: r = REV[base](xo, s)
    elif base == 'mul': r = operator.imul(s, N) if aug else s * N
    elif base == 'rmul': r = N * s
    elif base == 'lshift': r = operator.ilshift(s, N) if aug else s << N
    elif base == 'rshift': r = operator.irshift(s, N) if aug else s >> N
    elif base == 'invert': r = ~s
    elif base == 'copy': r = s.copy()
    elif base == 'copycopy': r = copy.copy(s)
    elif base == 'slice': r = s[slice(*[resolve_n(v, n, p0) for v in st['key']])]
    elif base == 'ctor': r = type(s)(s)
    elif base == 'ctor_pos': r = type(s)(s, pos=resolve_p(st['pmode'], n))
    elif base in ('ctor_other', 'ctor_other_pos'):
        O = bitstring.BitStream if type(s) is bitstring.ConstBitStream else bitstring.ConstBitStream
        r = O(s) if base == 'ctor_other' else O(s, pos=resolve_p(st['pmode'], n))
    elif base == 'peek_n': r = s.peek(N)
    elif base == 'read_n': r = s.read(N)
    elif base == 'peek_bits': r = s.peek(f'bits:{N}')
    elif base == 'read_bits': r = s.read(f'bits:{N}')
    elif base == 'peeklist_bits': items = s.peeklist([f'bits:{N}', 'bits']); r = items[1]
    elif base == 'readlist_bits': items = s.readlist([f'bits:{N}', 'bits']); r = items[1]
    elif base == 'unpack_bits': items = s.unpack('bits'); r = items[0]
    elif base == 'bitsprop': r = s.bits
    elif base == 'cut': items = list(s.cut(st['w'])); r = items[st['i'] % len(items)] if items else None
    elif base == 'split': items = list(s.split(Bits(bin=st['pat']))); r = items[st['i'] % len(items)] if items else None
    elif base == 'join': r = s.join([make_operand(operand_type(x, operand_bits(x, d), 'join'), operand_bits(x, d), s, x.get('pos', 0)) for x in st['items']])
    elif base == 'pack_bits': r = pack('bits', s)
    elif base == 'readto_obj': r = s.readto(Bits(bin=st['pat']))
    else: raise AssertionError(how)
    out = {'cls': type(r).__name__ if r is not None else None, 'bin': r.bin if r is not None else None, 'pos': getattr(r, 'pos', None), 'same': r is s,
           'samex': xs is not None and r is xs, 'spos': s.pos,
           'items': [[x.bin, getattr(x, 'pos', None), x is s] for x in items] if items is not None else None}
    if xs is not None: xrec.append(xs.pos)
    if r is not None and hasattr(r, 'pos'):
        k = min(st['probe'], len(r) - r.pos)
        v = r.read(k)                                     # reading from the result ...
        out['probe'] = [k, v.bin, r.pos, s.pos, getattr(v, 'pos', None)]
        j = min(st['probe'], len(s) - s.pos)
        w = s.peek(j)                                     # ... and looking at the stream it came from
        out['speek'] = [j, w.bin, r.pos, s.pos]
        if st.get('keep') and len(kept) < 4 and r is not s and all(r is not k_ for k_ in kept): kept.append(r); out['kept'] = True
    if xs is not None: xrec += [xs.pos, xs.bin == xb]
    out['x'] = xrec
    return out

def do_usekept(kept, st):
    if not kept: return ['none']
    o = kept[st['j'] % len(kept)]
    N = resolve_n(st['n'], len(o), o.pos)
    how = st['how']
    if how == 'read': v = o.read(N); return ['bits', v.bin, getattr(v, 'pos', None)]
    if how == 'peek': v = o.peek(N); return ['bits', v.bin, getattr(v, 'pos', None)]
    if how == 'setpos': o.pos = N; return ['none']
    if how == 'readall': return ['bits', o.read('bin')]
    return ['none']

def do_pure(s, st):
    import bitstring, io
    from bitstring import Bits
    m = st['m']; n = len(s)
    P = Bits(bin=st['pat']) if 'pat' in st else None
    if m == 'len': return len(s)
    if m == 'bin': return s.bin
    if m == 'tobytes': return s.tobytes().hex()
    if m == 'count1': return s.count(1)
    if m == 'count0': return s.count(0)
    if m == 'all': return s.all(1)
    if m == 'any': return s.any(1)
    if m == 'startswith': return s.startswith(P)
    if m == 'endswith': return s.endswith(P)
    if m == 'contains': return P in s
    if m == 'findall': return list(s.findall(P))
    if m == 'str': str(s); return None
    if m == 'repr': repr(s); return None
    if m == 'bool': bool(s); return None
    if m == 'iter': return ''.join('1' if b else '0' for b in s)
    if m == 'index': return s[st['i']]
    if m == 'pp': s.pp(stream=io.StringIO()); return None
    if m == 'eq': return [s == Bits(bin=s.bin), Bits(bin=s.bin) == s, s == type(s)(bin=s.bin)]
    if m == 'ne': return s != Bits(bin=s.bin)
    if m == 'hash': return True if isinstance(s, bitstring.BitArray) else hash(s) == hash(Bits(bin=s.bin))
    if m == 'tobitarray': return s.tobitarray().to01()
    if m == 'uint': return format(s.uint, 'x') if n else None           # (as text: a replay file cannot hold a 10 000 digit number)
    if m == 'hex': return s.hex if n and n % 4 == 0 else None
    if m == 'bytes_prop': return s.bytes.hex() if n and n % 8 == 0 else None
    if m == 'copy_eq': return s.copy() == s
    if m == 'tofile':
        f = io.BytesIO(); s.tofile(f); return f.getvalue().hex()
    raise AssertionError(m)

# ---------------- reference machine (written from the property text) ----------------
def ref_interp(k, b):
    if k in ('bits', 'bin', 'bytes'): return ['bits', b]
    if k == 'hex': return ['bits', b]
    if k == 'uint':
        if not b: raise R.RefErr('ValueError')
        return zc(int(b, 2))
    if k == 'int':
        if not b: raise R.RefErr('ValueError')
        v = int(b, 2); return zc(v - (1 << len(b)) if b[0] == '1' else v)
    if k == 'bool': return ['bool', b == '1']
    if k == 'pad': return ['none']

def ref_toklen(t, remaining):
    """bits the token needs; raises RefErr for malformed tokens. None for variable-length"""
    if isinstance(t, int):
        if t < 0: raise R.RefErr('ValueError')
        return t
    if 'c' in t: return None
    k = t['k']
    if 'n' not in t:
        if k == 'bool': return 1
        if remaining % (8 if k == 'bytes' else 1): raise R.RefErr('ValueError')
        n = remaining // (8 if k == 'bytes' else 1)
    else: n = t['n']
    if k == 'bool' and n != 1: raise R.RefErr('ValueError')
    if k == 'hex' and n % 4: raise R.RefErr('ValueError')
    return n * (8 if k == 'bytes' else 1)

def ref_read_one(d, pos, t, remaining_for_stretch):
    """-> (value, newpos); raises RefErr"""
    L = ref_toklen(t, remaining_for_stretch)
    if L is None:
        r = ref_dec(t['c'], d[pos:])
        if r is None: raise R.RefErr('ReadError')
        return ['z', r[0]], pos + r[1]
    if L > len(d) - pos: raise R.RefErr('ReadError')
    chunk = d[pos:pos + L]
    if isinstance(t, int): return ['bits', chunk], pos + L
    return ref_interp(t['k'], chunk), pos + L

def ref_readlist(d, pos, toks):
    stretch = [i for i, t in enumerate(toks) if isinstance(t, dict) and 'n' not in t and 'c' not in t and t['k'] != 'bool']
    static = set()
    if len(stretch) > 1: static.add('BsError')
    after = 0
    for i, t in enumerate(toks):
        try:
            L = ref_toklen(t, 0) if i not in stretch else 0
        except R.RefErr as e:
            static.add(e.kind); L = 0
        if stretch and i > stretch[0]:
            if L is None: static.add('BsError')
            else: after += L
    if static:
        e = R.RefErr(sorted(static)[0]); e.kinds = static; raise e
    vals = []
    for i, t in enumerate(toks):
        rem = max(len(d) - pos - after, 0)
        v, pos = ref_read_one(d, pos, t, rem)
        if v != ['none']: vals.append(v)
    return vals, pos

def resolve_self(st, d):
    """the step with the stream-itself operand replaced by the content it has when the call is made"""
    sa = st.get('selfarg')
    if not sa: return st
    st = dict(st)
    if sa == 'val': st['val'] = {'bits': d}
    else: st[sa] = d
    return st

def ref_step(cls, d, pos, st):
    """-> (content, pos, result) ; result is ('ok', value) or ('err', set of acceptable kinds) or ('any',)"""
    st = resolve_self(st, d)
    op = st['op']
    ok = lambda v, d2=d, p2=pos: (d2, p2, ('ok', v))
    err = lambda *k: (d, pos, ('err', set(k)))
    try:
        if op in ('read', 'peek'):
            t = st['tok']
            v, p2 = ref_read_one(d, pos, t, len(d) - pos)
            return ok(v, d, p2 if op == 'read' else pos)
        if op in ('readlist', 'peeklist'):
            vals, p2 = ref_readlist(d, pos, st['toks'])
            return ok(vals, d, p2 if op == 'readlist' else pos)
        if op == 'readto':
            if not st['pat']: return err('ValueError')
            m = R.matches(d, st['pat'], pos, len(d), bool(st['ba']))
            if not m: return err('ReadError')
            e = m[0] + len(st['pat'])
            return ok(['bits', d[pos:e]], d, e)
        if op == 'setpos': return ok(None, d, st['p']) if 0 <= st['p'] <= len(d) else err('ValueError')
        if op == 'setbytepos': return ok(None, d, st['p'] * 8) if 0 <= st['p'] * 8 <= len(d) else err('ValueError')
        if op == 'getbytepos': return ok(pos // 8) if pos % 8 == 0 else err('ByteAlignError')
        if op == 'bytealign':
            sk = (-pos) % 8
            return ok(sk, d, pos + sk) if pos + sk <= len(d) else err('ValueError')
        if op in ('find', 'rfind'):
            r = (R.find if op == 'find' else R.rfind)(d, st['pat'], st['start'], None, bool(st['ba']))
            return ok(list(r), d, r[0] if r else pos)
        if op in ('append', 'iadd'): return ok(None, d + st['bs'], len(d) + len(st['bs']))
        if op == 'prepend': return ok(None, st['bs'] + d, 0)
        if op in ('insert', 'overwrite'):
            p = pos if st['pos'] is None else st['pos']
            d2 = (R.insert if op == 'insert' else R.overwrite)(d, st['bs'], p)      # an invalid position raises for an empty operand too (D59)
            if not st['bs']: return ok(None)
            p = p + len(d) if p < 0 else p
            return ok(None, d2, p + len(st['bs']))
        if op in ('setitem', 'delitem'):
            key = slice(*st['key']) if isinstance(st['key'], list) else st['key']
            if op == 'delitem': d2 = R.delitem(d, key)
            elif 'bits' in st['val']: d2 = R.setitem_bits(d, key, st['val']['bits'])
            else:
                if isinstance(key, slice) and key.step == -1: return (d, pos, ('any',))
                d2 = R.setitem_int(d, key, st['val']['int'])
            return ok(None, d2, pos if len(d2) == len(d) else 0)
        if op == 'replace':
            d2, n = R.replace(d, st['old'], st['new'], None, None, st['count'], bool(st.get('ba_eff')))
            return ok(n, d2, pos if len(d2) == len(d) else 0)
        if op == 'clear': return ok(None, '', 0)
        if op == 'imul':
            if st['n'] < 0: return err('ValueError')
            d2 = d * st['n']
            return ok(None, d2, pos if len(d2) == len(d) else (0 if not d2 else pos))
        if op == 'keep':
            m, n = st['m'], st['n']
            if m == 'reverse': d2 = R.reverse(d)
            elif m == 'rol': d2 = R.rol(d, n)
            elif m == 'ror': d2 = R.ror(d, n)
            elif m == 'set':
                d2, e = R.set_(d, 1, n)
                if e: return err(e)
            elif m == 'invert': d2 = R.invert(d, None)[0]
            elif m == 'ilshift': d2 = R.lshift(d, n)
            elif m == 'irshift': d2 = R.rshift(d, n)
            elif m == 'byteswap': d2 = R.byteswap(d, [len(d) // 8])[0]
            elif m == 'ixor': d2 = d
            return ok(None, d2, pos)
        if op == 'propset':
            name, v = st['name'], st['v']
            L = len(d)
            if name == 'uint8': L = 8
            if name in ('uint', 'uint8'):
                if L == 0 or not 0 <= v < (1 << L): return err('ValueError')
                d2 = format(v, f'0{L}b')
            elif name == 'int':
                if L == 0 or not -(1 << (L - 1)) <= v < (1 << (L - 1)): return err('ValueError')
                d2 = format(v % (1 << L), f'0{L}b')
            elif name == 'hex': d2 = '10100101'
            elif name == 'bin': d2 = '0110'
            elif name == 'bytes': d2 = '0110000101100010'
            elif name == 'bool': d2 = '1'
            # property assignment is "any other mutator": pos unchanged while it still fits; if the new value is
            # shorter than pos the only requirement left is validity, and the repaired code resets to 0
            return ok(None, d2, pos if pos <= len(d2) else 0)
        if op == 'eqhash': return ok([True, True, True, True])
        if op == 'derive':
            how = st['how']
            if how in ('and', 'andself', 'orself', 'xor') and False: pass
            if how == 'invert' and not d: return err('BsError')
            if how == 'lshift' and not d: return err('ValueError')
            if how == 'cut' and not d: return (d, pos, ('any',))
            rcls = cls
            return ok([rcls, 0, False])
    except R.RefErr as e:
        return err(*getattr(e, 'kinds', {e.kind}))
    raise AssertionError(op)

def eff(c, st):
    """the step with `bytealigned` resolved: an omitted argument means options.bytealigned (set for the whole history)"""
    if 'ba' in st and st['ba'] is None and c.get('opt_ba'): return dict(st, ba=True)
    if st.get('op') == 'replace' and c.get('opt_ba'): return dict(st, ba_eff=True)
    return st

def ref_newobj(cls, d, pos, st, ba, lsb0):
    """what the property (and the documented value of each operator) says about a call that returns an object:
    -> ('err', kinds) | ('ok', {'cls': class or None (not fixed by the text), 'bits', 'rpos': position of the result, 'spos': position of the stream afterwards, 'items': [bits] | None})"""
    how = st['how']; base = how[4:] if how.startswith('aug_') else how
    n = len(d)
    other = 'BitStream' if cls == 'ConstBitStream' else 'ConstBitStream'
    N = resolve_n(st.get('n'), n, pos)
    def E(bits, rc=cls, rpos=0, spos=pos, items=None): return ('ok', {'cls': rc, 'bits': bits, 'rpos': rpos, 'spos': spos, 'items': items})
    win = lambda a, k: d[n - a - k:n - a] if lsb0 else d[a:a + k]          # the k bits a read at position a consumes: right to left under lsb0
    try:
        if 'x' in st:
            xb = operand_bits(st['x'], d); t = operand_type(st['x'], xb, base)
            left = t if t in CLASSES else cls                              # the result takes the class of the left operand when that is a bitstring
        if base == 'add': return E(d + xb)
        if base == 'radd': return E(xb + d, left)
        if base in ('and', 'or', 'xor', 'rand', 'ror', 'rxor'):
            if len(xb) != n: return ('err', {'ValueError'})
            f = {'and': lambda a, b: a & b, 'or': lambda a, b: a | b, 'xor': lambda a, b: a ^ b}[base[1:] if base[0] == 'r' and base != 'or' else base]
            bits = ''.join(str(f(int(a), int(b))) for a, b in zip(d, xb))
            return E(bits, left if base in ('rand', 'ror', 'rxor') else cls)
        if base in ('mul', 'rmul'):
            if N < 0: return ('err', {'ValueError'})
            return E(d * N)
        if base == 'lshift': return E(R.lshift(d, N))
        if base == 'rshift': return E(R.rshift(d, N))
        if base == 'invert':
            if not d: return ('err', {'BsError'})
            return E(inv_bits(d))
        if base in ('copy', 'copycopy', 'ctor'): return E(d)
        if base == 'ctor_other': return E(d, other)
        if base in ('ctor_pos', 'ctor_other_pos'):
            P = resolve_p(st['pmode'], n)
            if P > n: return ('err', {'BsError', 'ValueError'})
            return E(d, cls if base == 'ctor_pos' else other, P)
        if base == 'slice':
            key = [resolve_n(v, n, pos) for v in st['key']]
            if key[2] == 0: return ('err', {'ValueError'})
            return E(d[::-1][slice(*key)][::-1] if lsb0 else d[slice(*key)])
        if base in ('peek_n', 'peek_bits', 'read_n', 'read_bits'):
            if N > n - pos: return ('err', {'ReadError'})
            return E(win(pos, N), None, 0, pos + N if base.startswith('read') else pos)
        if base in ('peeklist_bits', 'readlist_bits'):
            if N > n - pos: return ('err', {'ReadError'})
            items = [d[pos:pos + N], d[pos + N:]]
            return E(items[1], None, 0, n if base.startswith('read') else pos, items)
        if base == 'unpack_bits': return E(d, None, 0, pos, [d])
        if base == 'bitsprop': return E(d, None)
        if base == 'cut':
            items = R.cut(d, st['w'])
            return E(items[st['i'] % len(items)] if items else None, None, 0, pos, items)
        if base == 'split':
            items = R.split(d, st['pat'], ba=ba)
            return E(items[st['i'] % len(items)] if items else None, None, 0, pos, items)
        if base == 'join': return E(d.join(operand_bits(x, d) for x in st['items']))
        if base == 'pack_bits': return E(d, 'BitStream')
        if base == 'readto_obj':
            m = R.matches(d, st['pat'], pos, n, ba)
            if not m: return ('err', {'ReadError'})
            e = m[0] + len(st['pat'])
            return E(d[pos:e], None, 0, e)
    except R.RefErr as e:
        return ('err', {e.kind})
    raise AssertionError(how)

NOCHECK = '<not compared>'
def ref_pure(d, pos, st, ba):
    """-> ('err', kinds) | ('ok', value | NOCHECK): values of calls that do not return streams; none of them may move the position"""
    m = st['m']; n = len(d); p = st.get('pat')
    tob = lambda: (int(d + '0' * (-n % 8), 2).to_bytes((n + 7) // 8, 'big').hex() if n else '')
    if m == 'len': return ('ok', n)
    if m in ('bin', 'iter', 'tobitarray'): return ('ok', d)
    if m in ('tobytes', 'tofile'): return ('ok', tob())
    if m == 'count1': return ('ok', d.count('1'))
    if m == 'count0': return ('ok', d.count('0'))
    if m == 'all': return ('ok', all(ch == '1' for ch in d))
    if m == 'any': return ('ok', any(ch == '1' for ch in d))
    if m == 'startswith': return ('ok', d.startswith(p))
    if m == 'endswith': return ('ok', d.endswith(p))
    if m == 'contains': return ('ok', NOCHECK if ba else p in d)
    if m == 'findall': return ('ok', R.findall(d, p, ba=ba))
    if m in ('str', 'repr', 'bool', 'pp'): return ('ok', NOCHECK)
    if m == 'index':
        i = st['i']
        if not -n <= i < n: return ('err', {'IndexError'})
        return ('ok', d[i] == '1')
    if m == 'eq': return ('ok', [True, True, True])
    if m == 'ne': return ('ok', False)
    if m in ('hash', 'copy_eq'): return ('ok', True)
    if m == 'uint': return ('ok', format(int(d, 2), 'x') if n else None)
    if m == 'hex': return ('ok', format(int(d, 2), f'0{n // 4}x') if n and n % 4 == 0 else None)
    if m == 'bytes_prop': return ('ok', tob() if n and n % 8 == 0 else None)
    raise AssertionError(m)

def judge_newobj(c, st, d, pos, r, after, K, ba, lsb0):
    """-> message or None; appends to K (the reference states of the kept objects)"""
    where = f"{c['cls']}({d!r}, pos={pos}{', lsb0' if lsb0 else ''}{', route ' + c['route'] if c.get('route') else ''}) {st}"
    res = ref_newobj(c['cls'], d, pos, st, ba, lsb0)
    if res[0] == 'err':
        if r[0] != 'err' or r[1] not in res[1]: return f"{where} should raise {sorted(res[1])}, got {str(r)[:200]}"
        if after[0] != d or after[1] != pos: return f"{where} raised {r[1]} but changed the stream to (bits={after[0]!r}, pos={after[1]})"
        return None
    e = res[1]
    if r[0] != 'ok': return f"{where} raised {r[1]}; the reference gives an object holding {str(e['bits'])[:80]!r}"
    o = r[1]
    if after[0] != d: return f"{where} changed the bits of the stream it was called on to {after[0]!r}"
    if o['spos'] != e['spos']: return f"{where} left the stream it was called on at pos {o['spos']}, documented: {e['spos']}"
    if o['x'] is not None and (o['x'][0] != o['x'][1] or not o['x'][-1]):
        return f"{where} moved / changed its operand stream: operand pos {o['x'][0]} -> {o['x'][1]}, operand bits unchanged: {o['x'][-1]}"
    if e['items'] is not None:
        if [i[0] for i in o['items']] != e['items'] and not lsb0: return f"{where} returned items {[i[0] for i in o['items']][:6]}, reference gives {e['items'][:6]}"
        for b, p, same in o['items']:
            if p not in (None, 0): return f"{where}: a returned stream object starts at pos {p}, not 0"
            if same: return f"{where}: a returned item is the stream itself, not a new object"
    if e['bits'] is None:
        if o['cls'] is not None: return f"{where} returned an object, reference gives none"
        return None
    if o['cls'] is None: return f"{where} returned no object, reference gives {e['bits']!r}"
    if o['same']: return f"{where} returned the stream itself (result is operand), not a new object: reading from the result moves the original"
    if o['samex']: return f"{where} returned its operand stream itself, not a new object"
    if e['cls'] is not None and o['cls'] != e['cls']: return f"{where} returned a {o['cls']}, expected a {e['cls']}"
    if o['bin'] != e['bits']: return f"{where} returned bits {o['bin']!r}, reference gives {e['bits']!r}"
    if o['cls'] in STREAMS:
        if o['pos'] != e['rpos']: return f"{where}: the new {o['cls']} starts at pos {o['pos']}, not {e['rpos']}"
        E = e['bits']; rp = e['rpos']; sp = e['spos']; n = len(d)
        k = min(st['probe'], len(E) - rp)
        win = lambda bits, a, w: bits[len(bits) - a - w:len(bits) - a] if lsb0 else bits[a:a + w]
        pk, pv, prpos, pspos, pvpos = o['probe']
        if pk != k or pv != win(E, rp, k): return f"{where}: reading {k} bits from the result gave {pv!r} (asked for {pk}), reference gives {win(E, rp, k)!r}"
        if prpos != rp + k: return f"{where}: after reading {k} bits from the result its pos is {prpos}, not {rp + k}"
        if pspos != sp: return f"{where}: reading from the result moved the stream it came from to pos {pspos} (was {sp})"
        if pvpos not in (None, 0): return f"{where}: bits read from the result start at pos {pvpos}"
        j = min(st['probe'], n - sp)
        sj, sv, srpos, sspos = o['speek']
        if sj != j or sv != win(d, sp, j): return f"{where}: afterwards peek({j}) on the original stream at pos {sp} gave {sv!r}, reference gives {win(d, sp, j)!r}"
        if srpos != rp + k or sspos != sp: return f"{where}: looking at the original stream moved a position: result pos {srpos} (expected {rp + k}), original pos {sspos} (expected {sp})"
        if o.get('kept'): K.append([E, rp + k])
    else:
        if o['pos'] is not None: return f"{where}: result of class {o['cls']} has a pos"
    if after[1] != e['spos']: return f"{where} left the stream it was called on at pos {after[1]}, documented: {e['spos']}"
    return None

def judge_usekept(c, st, r, K, lsb0):
    if not K:
        return None if r == ['ok', ['none']] else f"usekept without kept objects gave {r}"
    j = st['j'] % len(K)
    bits, pos = K[j]; n = len(bits)
    N = resolve_n(st['n'], n, pos)
    how = st['how']
    where = f"kept object #{j} (bits={bits!r}, pos={pos}{', lsb0' if lsb0 else ''}) {st}"
    win = lambda a, w: bits[n - a - w:n - a] if lsb0 else bits[a:a + w]
    if how in ('read', 'peek'):
        kinds = {'ValueError'} if N < 0 else {'ReadError'} if N > n - pos else None
        if kinds:
            return None if r[0] == 'err' and r[1] in kinds else f"{where} should raise {sorted(kinds)}, got {str(r)[:120]}"
        if r[0] != 'ok' or r[1][:2] != ['bits', win(pos, N)]: return f"{where} returned {str(r)[:120]}, reference gives {win(pos, N)!r}"
        if r[1][2] not in (None, 0): return f"{where}: the bits read start at pos {r[1][2]}"
        if how == 'read': K[j] = [bits, pos + N]
    elif how == 'setpos':
        if not 0 <= N <= n:
            return None if r[0] == 'err' and r[1] == 'ValueError' else f"{where} should raise ValueError, got {str(r)[:120]}"
        if r[0] != 'ok': return f"{where} raised {r[1]}"
        K[j] = [bits, N]
    elif how == 'readall':
        exp = bits[:n - pos] if lsb0 else bits[pos:]
        if r[0] != 'ok' or r[1] != ['bits', exp]: return f"{where} returned {str(r)[:120]}, reference gives {exp!r}"
        K[j] = [bits, n]
    elif r[0] != 'ok': return f"{where} raised {r[1]}"
    return None

def oracle(c, obs):
    K = []           # reference (bits, pos) of the kept objects: only a call ON a kept object may change its entry
    lsb0 = bool(c.get('opt_lsb0'))
    for st, t in zip(c['steps'], obs[1]):
        before, r, after = t[:3]
        kept_obs = t[3] if len(t) > 3 else None
        st = eff(c, st)
        d, pos = before
        if not 0 <= after[1] <= len(after[0]): return f"{c['cls']}: pos={after[1]} outside [0, {len(after[0])}] after {st} (before: pos={pos}, {len(d)} bits)"
        if after[2] != len(after[0]): return f"len mismatch after {st}"
        msg = None
        if st['op'] == 'newobj': msg = judge_newobj(c, st, d, pos, r, after, K, bool(c.get('opt_ba')), lsb0)
        elif st['op'] == 'usekept':
            msg = judge_usekept(c, st, r, K, lsb0)
            if not msg and (after[0] != d or after[1] != pos): msg = f"using kept object {st} changed the stream it once came from: ({d!r}, {pos}) -> ({after[0]!r}, {after[1]})"
        elif st['op'] == 'pure':
            res = ref_pure(d, pos, st, bool(c.get('opt_ba')))
            where = f"{c['cls']}({d!r}, pos={pos}) {st}"
            if res[0] == 'err':
                if r[0] != 'err' or r[1] not in res[1]: msg = f"{where} should raise {sorted(res[1])}, got {str(r)[:150]}"
            elif r[0] != 'ok': msg = f"{where} raised {r[1]}"
            elif res[1] != NOCHECK and r[1] != res[1]: msg = f"{where} returned {str(r[1])[:150]}, reference gives {str(res[1])[:150]}"
            if not msg and (after[0] != d or after[1] != pos): msg = f"{where} is not a position-moving call but left (bits={after[0]!r}, pos={after[1]})"
        elif lsb0 and c.get('machine'):
            # judged by the lsb0 machine (coq_check) and, for the operations that obey it (C12_stream_step_mirror), by the mirror law on the msb0 str reference
            if r[0] == 'err' and (after[0] != d or after[1] != pos): msg = f"{c['cls']}({d!r}, pos={pos}, lsb0) {st} raised {r[1]} but changed the state to {after[:2]}"
            else: msg = judge_step_mirror(c, st, d, pos, r, after)
        else:
            msg = judge_step(c, st, d, pos, r, after)
        if msg: return msg
        if kept_obs is not None and [list(x) for x in kept_obs] != K:
            return f"{c['cls']}({d!r}, pos={pos}) {st}: stream objects returned by earlier calls are now at (bits, pos) = {kept_obs}, they were left at {K}: a call on one object moved / changed another"
    return None

def judge_step_mirror(c, st, d, pos, r, after):
    """lsb0 step on (d, pos) = mirror of the msb0 step with reversed bitstring operands on (reversed d, pos): reversed content, same position, same exception
    (not for reads of exp-Golomb tokens, refused under lsb0, nor for integer slice assignment, whose integer is encoded in stored order); values of reads are
    left to the machine, position-valued results (find, rfind, replace count, bytealign) are the same numbers"""
    op = st['op']
    toks = st.get('toks', [st['tok']] if 'tok' in st else [])
    if any(isinstance(t, dict) and 'c' in t for t in toks): return None
    if op == 'setitem' and 'int' in st.get('val', {}): return None
    m = dict(st)
    for k in ('bs', 'pat', 'old', 'new'):
        if isinstance(m.get(k), str): m[k] = m[k][::-1]
    if op == 'setitem' and 'bits' in m.get('val', {}): m['val'] = {'bits': m['val']['bits'][::-1]}
    d2, p2, res = ref_step(c['cls'], d[::-1], pos, m)
    if res[0] == 'any': return None
    where = f"{c['cls']}({d!r}, pos={pos}, lsb0) {st}"
    if res[0] == 'err':
        if r[0] != 'err' or r[1] not in res[1]: return f"{where} should raise {sorted(res[1])} (as the mirrored msb0 call does), got {str(r)[:150]}"
        return None
    if r[0] != 'ok': return f"{where} raised {r[1]}; the mirrored msb0 call succeeds with state ({d2[::-1]!r}, {p2})"
    if after[0] != d2[::-1] or after[1] != p2: return f"{where} left (bits={after[0]!r}, pos={after[1]}); the mirror of the msb0 call on the reversed data gives (bits={d2[::-1]!r}, pos={p2})"
    if op in ('find', 'rfind', 'replace', 'bytealign', 'getbytepos') and r[1] != res[1]: return f"{where} returned {r[1]}, the mirrored msb0 call returns {res[1]}"
    return None

def judge_step(c, st, d, pos, r, after):
        d2, p2, res = ref_step(c['cls'], d, pos, st)
        if res[0] == 'any': return None
        where = f"{c['cls']}({d!r}, pos={pos}) {st}"
        if res[0] == 'err':
            if r[0] != 'err' or r[1] not in res[1]: return f"{where} should raise {sorted(res[1])}, got {str(r)[:150]}; state {after[:2]}"
            if after[0] != d or after[1] != pos: return f"{where} raised {r[1]} but changed the state to {after[:2]}"
            return None
        if r[0] != 'ok': return f"{where} raised {r[1]}; reference gives value {str(res[1])[:100]} state ({d2!r}, {p2})"
        got = r[1]
        if st['op'] in ('read', 'peek', 'readto') and got and got[0] == 'bits':
            if len(got) > 2 and got[3] not in (None, 0): return f"{where}: returned stream starts at pos {got[3]}"
            got = got[:2]
        if st['op'] in ('readlist', 'peeklist'):
            got = [g[:2] if g and g[0] == 'bits' else g for g in got]
        if got != res[1]: return f"{where} returned {str(got)[:150]}, reference gives {str(res[1])[:150]}"
        if after[0] != d2 or after[1] != p2: return f"{where} left (bits={after[0]!r}, pos={after[1]}), documented state is (bits={d2!r}, pos={p2})"
        return None

def nontrivial(c, obs):
    return sum(1 for t in obs[1] if t[0][1] != t[2][1]) >= 2

def classify(c, obs):
    # ConstBitStream exposes append()/overwrite() although it is immutable (D7/D8): identified by class + operation
    for st, t in zip(c['steps'], obs[1]):
        before, r, after = t[:3]
        if st['op'] in ('newobj', 'usekept', 'pure'): continue
        d, pos = before
        d2, p2, res = ref_step(c['cls'], d, pos, st)
        if res[0] == 'any': continue
        bad = (r[0] != 'err' or r[1] not in res[1] or after[0] != d or after[1] != pos) if res[0] == 'err' else (r[0] != 'ok' or after[0] != d2 or after[1] != p2)
        if bad:
            if c['cls'] == 'ConstBitStream' and st['op'] in ('append', 'overwrite', 'iadd'): return 'constbitstream-append-overwrite'
            return None
    return None

# ---------------- Coq correspondence ----------------
def cob(x): return copt(x, cz)
def ctok(t):
    if isinstance(t, int): return f"(TCount {cz(t)})"
    if 'c' in t: return f"(TVar {GC[t['c']]})"
    if 'n' not in t:
        return "(TFixed KBool 1)" if t['k'] == 'bool' else f"(TStretch {CK[t['k']]})"
    return f"(TFixed {CK[t['k']]} {cz(t['n'])})"
def cval(v):
    if v[0] == 'none': return 'ValNone'
    if v[0] == 'bool': return f"(ValBool {cbool(v[1])})"
    if v[0] == 'z': return f"(ValZ {cz(v[1])})"
    if v[0] == 'bits': return f"(ValBits {cbits(v[1])})"
    return 'ValNone'
def cerr(r): return f"(Err {r[1] if r[1] in COQ_EXNS else 'AssertionError'})"

def coq_step(cls, st, before, r, after, lsb0=False):
    if lsb0: return coq_step_lsb0(cls, st, before, r, after)
    same = cbool(st.get('selfarg') == 'bs')
    st = resolve_self(st, before[0])
    op = st['op']
    S = f"(mkstream {cbits(before[0])} {cz(before[1])})"
    A = f"{cbits(after[0])} {cz(after[1])}"
    unit = "(Ok tt)" if r[0] == 'ok' else cerr(r)
    if op in ('read', 'peek', 'readlist', 'peeklist') and 'zhex' in json.dumps(r[1]): return None          # a number too long to be written out
    if op in ('read', 'peek'):
        f = 'read_token' if op == 'read' else 'peek_token'
        exp = f"(Ok {cval(r[1])})" if r[0] == 'ok' else cerr(r)
        return f"chk value_eqb ({f} {S} {ctok(st['tok'])}) {A} {exp}"
    if op in ('readlist', 'peeklist'):
        if any(isinstance(t, dict) and t.get('k') == 'bool' and 'n' not in t for t in st['toks']): return None
        exp = f"(Ok {clist(r[1], cval)})" if r[0] == 'ok' else cerr(r)
        return f"chk (list_eqb value_eqb) ({op} {S} {clist(st['toks'], ctok)}) {A} {exp}"
    if op == 'readto':
        exp = f"(Ok {cbits(r[1][1])})" if r[0] == 'ok' else cerr(r)
        if r[0] == 'err' and not st['pat']: return None
        return f"chk bits_eqb (readto {S} {cbits(st['pat'])} {cbool(bool(st['ba']))}) {A} {exp}"
    if op == 'setpos': return f"chk unit_eqb (set_pos {S} {cz(st['p'])}) {A} {unit}"
    if op == 'setbytepos': return f"chk unit_eqb (set_bytepos {S} {cz(st['p'])}) {A} {unit}"
    if op == 'getbytepos': return f"res_eqb Z.eqb (get_bytepos {S}) {('(Ok ' + cz(r[1]) + ')') if r[0] == 'ok' else cerr(r)}"
    if op == 'bytealign': return f"chk Z.eqb (bytealign {S}) {A} {('(Ok ' + cz(r[1]) + ')') if r[0] == 'ok' else cerr(r)}"
    if op in ('find', 'rfind'):
        exp = f"(Ok {cob(r[1][0] if r[1] else None)})" if r[0] == 'ok' else cerr(r)
        return f"chk (opt_eqb Z.eqb) (st_{op} false {S} {cbits(st['pat'])} {cob(st['start'])} None {cbool(bool(st['ba']))}) {A} {exp}"
    if cls == 'ConstBitStream' and op in ('append', 'iadd', 'overwrite'): return None
    if op in ('append', 'iadd'): return f"chk unit_eqb (st_append {S} {cbits(st['bs'])}) {A} {unit}"
    if op == 'prepend': return f"chk unit_eqb (st_prepend {S} {cbits(st['bs'])}) {A} {unit}"
    if op == 'insert': return f"chk unit_eqb (st_insert {S} {cbits(st['bs'])} {cob(st['pos'])}) {A} {unit}"
    if op == 'overwrite': return f"chk unit_eqb (st_overwrite {S} {same} {cbits(st['bs'])} {cob(st['pos'])}) {A} {unit}"
    if op == 'setitem':
        k, v = st['key'], st['val']
        V = f"(VBits {cbits(v['bits'])})" if 'bits' in v else f"(VInt {cz(v['int'])})"
        if isinstance(k, list): return f"chk unit_eqb (st_setitem_slice {S} {cslice(*k)} {V}) {A} {unit}"
        return f"chk unit_eqb (st_setitem_int {S} {cz(k)} {V}) {A} {unit}"
    if op == 'delitem':
        k = st['key']
        if isinstance(k, list): return f"chk unit_eqb (st_delitem_slice {S} {cslice(*k)}) {A} {unit}"
        return f"chk unit_eqb (st_delitem_int {S} {cz(k)}) {A} {unit}"
    if op == 'replace':
        exp = f"(Ok {cz(r[1])})" if r[0] == 'ok' else cerr(r)
        return f"chk Z.eqb (st_replace {S} {cbits(st['old'])} {cbits(st['new'])} None None {cob(st['count'])} {cbool(bool(st.get('ba_eff')))}) {A} {exp}"
    if op == 'clear': return f"chk unit_eqb (st_clear {S}) {A} {unit}"
    if op == 'imul': return f"chk unit_eqb (st_imul {S} {cz(st['n'])}) {A} {unit}"
    return None

def coq_step_lsb0(cls, st, before, r, after):
    """the same step on the machine of StreamLsb.v with the option on"""
    st = resolve_self(st, before[0])
    op = st['op']
    S = f"(mkstream {cbits(before[0])} {cz(before[1])})"
    A = f"{cbits(after[0])} {cz(after[1])}"
    unit = "(Ok tt)" if r[0] == 'ok' else cerr(r)
    if r[0] == 'err' and r[1] not in COQ_EXNS: return None
    if op in ('read', 'peek', 'readlist', 'peeklist') and 'zhex' in json.dumps(r[1]): return None
    if op in ('read', 'peek'):
        exp = f"(Ok {cval(r[1])})" if r[0] == 'ok' else cerr(r)
        return f"chk value_eqb ({op}_token_m true {S} {ctok(st['tok'])}) {A} {exp}"
    if op in ('readlist', 'peeklist'):
        if any(isinstance(t, dict) and t.get('k') == 'bool' and 'n' not in t for t in st['toks']): return None
        exp = f"(Ok {clist(r[1], cval)})" if r[0] == 'ok' else cerr(r)
        return f"chk (list_eqb value_eqb) ({op}_m true {S} {clist(st['toks'], ctok)}) {A} {exp}"
    if op == 'readto':
        exp = f"(Ok {cbits(r[1][1])})" if r[0] == 'ok' else cerr(r)
        if r[0] == 'err' and not st['pat']: return None
        return f"chk bits_eqb (readto_m true {S} {cbits(st['pat'])} {cbool(bool(st['ba']))}) {A} {exp}"
    if op == 'setpos': return f"chk unit_eqb (set_pos {S} {cz(st['p'])}) {A} {unit}"
    if op == 'setbytepos': return f"chk unit_eqb (set_bytepos {S} {cz(st['p'])}) {A} {unit}"
    if op == 'getbytepos': return f"res_eqb Z.eqb (get_bytepos {S}) {('(Ok ' + cz(r[1]) + ')') if r[0] == 'ok' else cerr(r)}"
    if op == 'bytealign': return f"chk Z.eqb (bytealign {S}) {A} {('(Ok ' + cz(r[1]) + ')') if r[0] == 'ok' else cerr(r)}"
    if op in ('find', 'rfind'):
        exp = f"(Ok {cob(r[1][0] if r[1] else None)})" if r[0] == 'ok' else cerr(r)
        return f"chk (opt_eqb Z.eqb) (st_{op} true {S} {cbits(st['pat'])} {cob(st['start'])} None {cbool(bool(st['ba']))}) {A} {exp}"
    if cls == 'ConstBitStream' and op in ('append', 'iadd', 'overwrite'): return None
    if op in ('append', 'iadd'): return f"chk unit_eqb (st_append_m true {S} {cbits(st['bs'])}) {A} {unit}"
    if op == 'prepend': return f"chk unit_eqb (st_prepend_m true {S} {cbits(st['bs'])}) {A} {unit}"
    if op == 'insert': return f"chk unit_eqb (st_insert_m true {S} {cbits(st['bs'])} {cob(st['pos'])}) {A} {unit}"
    if op == 'overwrite': return f"chk unit_eqb (st_overwrite_m true {S} false {cbits(st['bs'])} {cob(st['pos'])}) {A} {unit}"
    if op == 'setitem':
        k, v = st['key'], st['val']
        V = f"(VBits {cbits(v['bits'])})" if 'bits' in v else f"(VInt {cz(v['int'])})"
        if isinstance(k, list): return f"chk unit_eqb (st_setitem_slice_m true {S} {cslice(*k)} {V}) {A} {unit}"
        return f"chk unit_eqb (st_setitem_int_m true {S} {cz(k)} {V}) {A} {unit}"
    if op == 'delitem':
        k = st['key']
        if isinstance(k, list): return f"chk unit_eqb (st_delitem_slice_m true {S} {cslice(*k)}) {A} {unit}"
        return f"chk unit_eqb (st_delitem_int_m true {S} {cz(k)}) {A} {unit}"
    if op == 'replace':
        exp = f"(Ok {cz(r[1])})" if r[0] == 'ok' else cerr(r)
        return f"chk Z.eqb (st_replace_m true {S} {cbits(st['old'])} {cbits(st['new'])} None None {cob(st['count'])} {cbool(bool(st.get('ba_eff')))}) {A} {exp}"
    if op == 'clear': return f"chk unit_eqb (st_clear {S}) {A} {unit}"
    if op == 'imul': return f"chk unit_eqb (st_imul_m true {S} {cz(st['n'])}) {A} {unit}"
    return None

def coq_check(c, obs):
    terms = []
    if c.get('opt_lsb0') and not c.get('machine'): return None              # kept-object histories: judged by the str reference only
    for st, tr in zip(c['steps'], obs[1]):
        before, r, after = tr[:3]
        if st['op'] in ('newobj', 'usekept', 'pure'): continue
        t = coq_step(c['cls'], eff(c, st), before, r, after, lsb0=bool(c.get('opt_lsb0')))
        if t is not None: terms.append('(' + t + ')')
    return ' && '.join(terms) if terms else None

def search(seeds, rng):
    pool = list(seeds) + list(gen_cases(rng, 'thorough'))[:6000]
    for c in pool:
        try: obs = run_impl(c)
        finally: reset_options()
        msg = oracle(c, obs)
        if msg and classify(c, obs) is None: return c, obs, msg
    return None


# arguments on which the translated source of a stream method and the stream machine differ -> one-step histories
def kernel_cases(name, a):
    x = dict(a['args']); pos = x.pop('_pos', 0)
    st = None
    if name == 'k_st_setbitpos': st = {'op': 'setpos', 'p': x['pos']}
    elif name == 'k_st_setbytepos': st = {'op': 'setbytepos', 'p': x['bytepos']}
    elif name == 'k_st_getbytepos': st = {'op': 'getbytepos'}
    elif name == 'k_st_bytealign': st = {'op': 'bytealign'}
    elif name == 'k_st_clear': st = {'op': 'clear'}
    elif name in ('k_st_append', 'k_st_iadd', 'k_st_prepend'): st = {'op': {'k_st_append': 'append', 'k_st_iadd': 'iadd', 'k_st_prepend': 'prepend'}[name], 'bs': x['bs'][0]}
    elif name in ('k_st_insert', 'k_st_overwrite'):
        st = {'op': name[5:], 'bs': x['bs'][0], 'pos': x['pos']}
        if x['bs'][1]: st['selfarg'] = 'bs'
    elif name == 'k_st_delitem_slice': st = {'op': 'delitem', 'key': x['key']}
    elif name == 'k_st_delitem_int': st = {'op': 'delitem', 'key': x['key']}
    if st is None: return []
    return [{'op': 'history', 'cls': 'BitStream', 'bits': a['self'], 'pos': pos, 'steps': [st]}]
