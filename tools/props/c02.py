"""C02 — value <-> bits round trip and canonical encoding for every fixed dtype."""
from vlib import *
from props.common import *
from gen import dtypes as gendtypes
import struct, sys, math

ID = 'C02'
COQ_PROPS = ['Props/C02.v']
COQ_IMPORTS = ['Prims', 'CaseLib', 'Golomb', 'IntCodec']
RULE = ('all fixed dtypes (uint, int, be/le/ne forms, hex, oct, bin, bytes, bool, bits, float 16/32/64 in every endianness) x lengths 1..520 (whole bytes for endian types; exhaustively 1..24 for ints) x '
        'values at 0, +-1, min, max and random x six creation routes (keyword+length, length in the name, property assignment, token string, Dtype.build, pack) x five reading routes '
        '(property, property with length, Dtype.parse, unpack, read) x four classes; conversely random bit patterns of valid lengths are interpreted and rebuilt. '
        'non-trivial = value not 0; distinct by (dtype, length, value, routes)')
TRUSTED_BASE = ['translator tools/gen/dtypes.py (bridged: generated dtype table = IntCodec model table, by reflexivity)']
ASSUMPTIONS = ['struct.pack/unpack is the IEEE 754 reference for floats (floats are compared through their bytes / float.hex, never as floats)', 'int.to_bytes / format() are the independent integer encoders']

BRIDGE = '''From Coq Require Import ZArith List String Bool. Import ListNotations.
From BS Require Import Prims Golomb IntCodec.
From Gen Require Import GenDtypes.
Open Scope string_scope. Open Scope Z_scope.
(* the register as the model knows it: name, signed, variable_length, allowed lengths, ellipsis, multiplier *)
Definition model_register : list (string * bool * bool * list Z * bool * Z) := [
  ("uint", false, false, [], false, 1); ("uintle", false, false, [8; 16], true, 1); ("uintbe", false, false, [8; 16], true, 1);
  ("int", true, false, [], false, 1); ("intle", true, false, [8; 16], true, 1); ("intbe", true, false, [8; 16], true, 1);
  ("hex", false, false, [0; 4], true, 1); ("bin", false, false, [], false, 1); ("oct", false, false, [0; 3], true, 1);
  ("float", true, false, [16; 32; 64], false, 1); ("floatle", true, false, [16; 32; 64], false, 1);
  ("bfloat", true, false, [16], false, 1); ("bfloatle", true, false, [16], false, 1);
  ("bits", false, false, [], false, 1); ("bool", false, false, [1], false, 1); ("bytes", false, false, [], false, 8);
  ("se", true, true, [], false, 1); ("ue", false, true, [], false, 1); ("sie", true, true, [], false, 1); ("uie", false, true, [], false, 1);
  ("pad", false, false, [], false, 1);
  ("p3binary", true, false, [8], false, 1); ("p4binary", true, false, [8], false, 1); ("e4m3mxfp", true, false, [8], false, 1);
  ("e5m2mxfp", true, false, [8], false, 1); ("e3m2mxfp", true, false, [6], false, 1); ("e2m3mxfp", true, false, [6], false, 1);
  ("e2m1mxfp", true, false, [4], false, 1); ("e8m0mxfp", false, false, [8], false, 1); ("mxint", true, false, [8], false, 1)].
Theorem register_as_modelled :
  map (fun d => (d_name d, d_signed d, d_variable d, d_allowed d, d_ellipsis d, d_mult d)) gen_dtypes = model_register.
Proof. reflexivity. Qed.
(* each name is wired to its own setter and getter (a swapped pair would type-check in Python) *)
Theorem setters_getters_match_names :
  forallb (fun d => (String.eqb (d_set d) ("_set" ++ d_name d) || String.eqb (d_set d) ("_set" ++ d_name d ++ "be") || String.eqb (d_set d) ("_set" ++ d_name d ++ "_safe"))
                 && (String.eqb (d_get d) ("_get" ++ d_name d) || String.eqb (d_get d) ("_get" ++ d_name d ++ "be"))) gen_dtypes = true.
Proof. vm_compute. reflexivity. Qed.
Theorem native_aliases_follow_byteorder :
  (if gen_byteorder_little then gen_aliases_little else gen_aliases_big) =
  (if gen_byteorder_little then [("uintle", "uintne"); ("intle", "intne"); ("floatle", "floatne"); ("bfloatle", "bfloatne")]
   else [("uintbe", "uintne"); ("intbe", "intne"); ("floatbe", "floatne"); ("bfloatbe", "bfloatne")]) /\\
  gen_aliases_common = [("float", "floatbe"); ("bfloat", "bfloatbe"); ("int", "i"); ("uint", "u"); ("hex", "h"); ("oct", "o"); ("bin", "b"); ("float", "f")].
Proof. split; reflexivity. Qed.
Print Assumptions register_as_modelled.
'''

def generate(out):
    text, data = gendtypes.emit(REPO)
    info = gen_build([('GenDtypes', text)], [('BridgeC02', BRIDGE)])
    info['functions'] = ['dtype_definitions', 'aliases']; info['data'] = {'n_dtypes': len(data['dtypes'])}
    return info

INTS = ['uint', 'int', 'uintbe', 'intbe', 'uintle', 'intle', 'uintne', 'intne']
CREATE_ROUTES = ['kw_len', 'kw_name', 'setattr', 'token', 'build', 'pack', 'pack_kw', 'pack_kw_len']
READ_ROUTES = ['prop', 'prop_len', 'parse', 'unpack', 'read']

def boundary(rng, name, n):
    signed = name.startswith('int')
    lo, hi = (-(1 << (n - 1)), (1 << (n - 1)) - 1) if signed else (0, (1 << n) - 1)
    return min(hi, max(lo, rng.choice([0, 1, -1 if signed else 1, lo, hi, lo + 1, hi - 1, rng.randrange(lo, hi + 1), rng.randrange(lo, hi + 1)])))

def gen_cases(rng, tier):
    N = 700 if tier == 'quick' else 12000
    for i in range(N):
        name = rng.choice(INTS)
        if name in ('uint', 'int'): n = rng.choice(list(range(1, 25)) + [31, 32, 33, 63, 64, 65, 127, 128, 129, 255, 256, 257, 520]) if rng.random() < 0.8 else rng.randrange(1, 300)
        else: n = 8 * rng.choice([1, 2, 3, 4, 5, 7, 8, 9, 16, 17, 32, 65])
        v = boundary(rng, name, n)
        if not name.startswith('int') and v < 0: v = -v
        yield {'op': 'int', 'name': name, 'n': n, 'v': v, 'cr': rng.choice(CREATE_ROUTES), 'rr': rng.choice(READ_ROUTES), 'cls': rng.choice(CLASSES), 'lsb0': rng.random() < 0.25}
    for _ in range(N // 3):
        k = rng.choice(['hex', 'oct', 'bin', 'bytes', 'bool', 'bits'])
        n = 1 if k == 'bool' else rng.choice([0, 1, 2, 3, 5, 8, 16, 31, 32, 33, 64, 65, 130, 257])
        yield {'op': 'digits', 'kind': k, 'digits': [rng.randrange({'hex': 16, 'oct': 8, 'bin': 2, 'bytes': 256, 'bool': 2, 'bits': 2}[k]) for _ in range(n)],
               'cr': rng.choice(CREATE_ROUTES), 'rr': rng.choice(READ_ROUTES), 'cls': rng.choice(CLASSES), 'upper': rng.random() < 0.3, 'lsb0': rng.random() < 0.25}
    for _ in range(N // 3):
        n = rng.choice([16, 32, 64]); e = rng.choice(['float', 'floatbe', 'floatle', 'floatne'])
        f = rng.choice([0.0, -0.0, 1.0, -1.5, 0.1, 1e-8, 65504.0, 65520.0, 65505.0, -65510.0, 65519.99, 3.4028234663852886e38, 3.4028235e38, -3.402823466385289e38, 3.4028235677973362e38, 3.4028235677973366e38, 1.7976931348623157e308, 1e10, 1e39, -1e39, float('inf'), float('-inf'), float('nan'), 5.9604644775390625e-08,
                        rng.uniform(-1e3, 1e3), rng.uniform(-1, 1) * 10 ** rng.randrange(-50, 50), struct.unpack('>d', struct.pack('>Q', rng.getrandbits(64)))[0]])
        yield {'op': 'float', 'name': e, 'n': n, 'f': f.hex() if f == f else 'nan', 'cr': rng.choice(CREATE_ROUTES), 'rr': rng.choice(READ_ROUTES), 'cls': rng.choice(CLASSES), 'lsb0': rng.random() < 0.25}
    for _ in range(N // 2):
        name = rng.choice(INTS + ['hex', 'oct', 'bin', 'bytes', 'float', 'floatle'])
        n = rng.choice([16, 32, 64]) if name.startswith('float') else 8 * rng.randrange(1, 9) if name not in ('uint', 'int', 'bin', 'hex', 'oct') else rng.randrange(1, 70) * {'hex': 4, 'oct': 3}.get(name, 1)
        yield {'op': 'pattern', 'name': name, 'bits': rand_bits(rng, n), 'cls': rng.choice(CLASSES), 'lsb0': rng.random() < 0.25}

    # property assignment on a mutable object, an in-place edit of that object, then the same (dtype, length, value) through every creation route:
    # the routes must still agree with the canonical encoding (a setter that adopts a shared / cached store shows up here)
    EDITS = ['invert', 'append', 'del', 'set', 'reverse', 'ilshift', 'setitem', 'clear']
    for _ in range(N // 6):
        r = rng.random()
        if r < 0.3:
            name = rng.choice(INTS); n = 8 * rng.choice([1, 2, 4, 8]); v = boundary(rng, name, n)
            if not name.startswith('int') and v < 0: v = -v
            spec = {'name': name, 'n': n, 'v': v}
        elif r < 0.7:
            k = rng.choice(['hex', 'oct', 'bin', 'bytes', 'bits', 'bits'])
            nd = rng.choice([1, 2, 3, 6])
            spec = {'kind': k, 'digits': [rng.randrange({'hex': 16, 'oct': 8, 'bin': 2, 'bytes': 256, 'bits': 2}[k]) for _ in range(nd)], 'asstr': rng.random() < 0.6}
        else:
            spec = {'name': rng.choice(['float', 'floatle', 'floatne', 'floatbe']), 'n': rng.choice([16, 32, 64]), 'f': rng.choice([1.0, -2.5, 0.1, 0.0]).hex()}
        yield dict(spec, op='adopt', cls=rng.choice(MUTABLE), edit=rng.choice(EDITS), with_len=rng.random() < 0.5, lsb0=rng.random() < 0.2)

def kind(c): return c['op'] + ':' + c.get('name', c.get('kind', ''))

def create(C, name, n, value, route):
    """build class C object for dtype name, length n (units), value, via route. n None = no length"""
    import bitstring
    from bitstring import Dtype, pack, BitArray, Bits
    tok = name if n is None else f'{name}:{n}'
    if route == 'kw_len':
        if name == 'bytes': return C(bytes=value, length=8 * n)     # bytes= takes its length in bits (documented)
        return C(**{name: value}) if n is None else C(**{name: value, 'length': n})
    if route == 'kw_name': return C(**{(name if n is None else f'{name}{n}'): value})
    if route == 'setattr':
        a = bitstring.BitArray() if C in (Bits, BitArray) else bitstring.BitStream()
        setattr(a, name if n is None else f'{name}{n}', value)
        return C(a)
    if route == 'token': return C(f'{tok}={value}') if not isinstance(value, (bytes, Bits)) else C(**{name: value})
    if route == 'build': return C(Dtype(name, n).build(value) if n is not None else Dtype(name).build(value))
    if route == 'pack': return C(pack(tok, value))
    if route == 'pack_kw': return C(pack(f'{tok}=v', v=value))                      # the value supplied by keyword (also falsy ones: 0, 0.0, False)
    if route == 'pack_kw_len':
        return C(pack(f'{name}:n=v', n=n, v=value)) if n is not None else C(pack(f'{name}=v', v=value))

def read(s, name, n, route):
    import bitstring
    from bitstring import Dtype
    tok = name if n is None else f'{name}:{n}'
    if route == 'prop': return getattr(s, name)
    if route == 'prop_len': return getattr(s, name if n is None else f'{name}{n}')
    if route == 'parse': return (Dtype(name, n) if n is not None else Dtype(name)).parse(s)
    if route == 'unpack': return s.unpack(tok)[0]
    if route == 'read': return bitstring.ConstBitStream(s).read(tok)

def cval(v):
    import bitstring
    if isinstance(v, float): return ['f', v.hex() if v == v else 'nan']
    if isinstance(v, bytes): return ['b', list(v)]
    if isinstance(v, bitstring.Bits): return ['bits', v.bin]
    return v

def run_impl(c):
    import bitstring
    bitstring.options.lsb0 = bool(c.get('lsb0'))     # whole-value interpretations and the stored bits are the same in both numberings (reset by the driver)
    C = cls_of(c['cls']); op = c['op']
    if op == 'int':
        def f():
            s = create(C, c['name'], c['n'], c['v'], c['cr'])
            return [s.bin, type(s).__name__, cval(read(s, c['name'], c['n'], c['rr']))]
        return attempt(f)
    if op == 'digits':
        k, ds = c['kind'], c['digits']
        def f():
            if k == 'hex': val, n = ''.join('0123456789abcdef'[d] for d in ds), 4 * len(ds)
            elif k == 'oct': val, n = ''.join(str(d) for d in ds), 3 * len(ds)
            elif k == 'bin': val, n = ''.join(str(d) for d in ds), len(ds)
            elif k == 'bytes': val, n = bytes(ds), len(ds)
            elif k == 'bool': val, n = bool(ds[0]), None
            elif k == 'bits': val, n = bitstring.Bits(bin=''.join(str(d) for d in ds)), len(ds)
            if c['upper'] and isinstance(val, str): val = val.upper()
            if isinstance(val, str) and not val and c['cr'] in ('token', 'kw_name'): return ['skip']
            nn = None if k == 'bool' else n
            s = create(C, k, nn, val, c['cr'])
            if k in ('hex', 'oct', 'bin', 'bits') and nn == 0 and c['rr'] in ('unpack', 'read', 'prop_len', 'parse'): return [s.bin, 'skipread']
            return [s.bin, cval(read(s, k, nn, c['rr']))]
        return attempt(f)
    if op == 'float':
        x = float.fromhex(c['f']) if c['f'] != 'nan' else float('nan')
        def f():
            s = create(C, c['name'], c['n'], x, c['cr'])
            return [s.bin, cval(read(s, c['name'], c['n'], c['rr']))]
        return attempt(f)
    if op == 'adopt':
        from bitstring import Bits
        def f():
            if 'kind' in c:
                k, ds = c['kind'], c['digits']
                name = k
                if k == 'hex': val, n = ''.join('0123456789abcdef'[d] for d in ds), 4 * len(ds)
                elif k == 'oct': val, n = ''.join(str(d) for d in ds), 3 * len(ds)
                elif k == 'bin': val, n = ''.join(str(d) for d in ds), len(ds)
                elif k == 'bytes': val, n = bytes(ds), len(ds)
                else:
                    b = ''.join(str(d) for d in ds); n = len(ds)
                    val = ('0b' + b) if c['asstr'] else Bits(bin=b)          # a.bits = <token string> goes through the string cache
            elif 'f' in c: name, n, val = c['name'], c['n'], float.fromhex(c['f'])
            else: name, n, val = c['name'], c['n'], c['v']
            a = C()
            setattr(a, f'{name}{n}' if c['with_len'] and name not in ('bits',) else name, val) if not (name in INTS + ['float', 'floatle', 'floatne', 'floatbe'] and not c['with_len']) else setattr(a, f'{name}{n}', val)
            got0 = a.bin
            e = c['edit']
            if e == 'invert': a.invert()
            elif e == 'append': a.append('0b1')
            elif e == 'del': del a[0:2]
            elif e == 'set': a.set(True); a.set(0, 0)
            elif e == 'reverse': a.reverse(); a.invert(0)
            elif e == 'ilshift': a <<= 1
            elif e == 'setitem': a[0] = not a[0]
            elif e == 'clear': a.clear()
            after = []
            for route in CREATE_ROUTES:
                if route == 'token' and isinstance(val, (bytes, Bits)): continue
                try: after.append([route, create(Bits, name, n, val, route).bin])
                except Exception as ex: after.append([route, 'RAISES ' + type(ex).__name__])
            if isinstance(val, str) and name == 'bits': after.append(['auto', Bits(val).bin])
            if isinstance(val, Bits): after.append(['operand', val.bin])
            return [got0, after]
        return attempt(f)
    if op == 'pattern':
        def f():
            s = C(bin=c['bits'])
            v = getattr(s, c['name'])
            t = C(**{c['name']: v, 'length': len(c['bits']) // (8 if c['name'] == 'bytes' else 1)}) if c['name'] not in ('hex', 'oct', 'bin', 'bytes') else C(**{c['name']: v})
            return [cval(v), t.bin]
        return attempt(f)

def ref_int_bits(name, n, v):
    signed = name.startswith('int')
    if signed: v &= (1 << n) - 1
    be = format(v, f'0{n}b')
    le = name.endswith('le') or (name.endswith('ne') and sys.byteorder == 'little')
    if le: be = ''.join(be[i:i + 8] for i in range(n - 8, -1, -8))
    return be

def ref_float_bits(name, n, x):
    code = {16: 'e', 32: 'f', 64: 'd'}[n]
    le = name.endswith('le') or (name.endswith('ne') and sys.byteorder == 'little')
    try: b = struct.pack(('<' if le else '>') + code, x)
    except OverflowError: b = struct.pack(('<' if le else '>') + code, math.copysign(float('inf'), x))
    return ''.join(format(y, '08b') for y in b), struct.unpack(('<' if le else '>') + code, b)[0]

def oracle(c, obs):
    op = c['op']
    if op == 'int':
        exp = ref_int_bits(c['name'], c['n'], c['v'])
        if obs != ('ok', [exp, c['cls'], c['v']]):
            return f"{c['name']}:{c['n']} = {c['v']} created via {c['cr']}, read via {c['rr']} as {c['cls']}: got {str(obs)[:160]}, canonical encoding {exp[:64]}"
        return None
    if op == 'digits':
        if obs == ('ok', ['skip']): return None
        k, ds = c['kind'], c['digits']
        w = {'hex': 4, 'oct': 3, 'bin': 1, 'bytes': 8, 'bool': 1, 'bits': 1}[k]
        exp = ''.join(format(d, f'0{w}b') for d in ds)
        if obs[0] != 'ok' or obs[1][0] != exp: return f"{k} digits {ds[:10]} via {c['cr']}: got {str(obs)[:120]}, expected bits {exp[:64]}"
        if obs[1][1] == 'skipread': return None
        val = {'hex': lambda: ''.join('0123456789abcdef'[d] for d in ds), 'oct': lambda: ''.join(map(str, ds)), 'bin': lambda: ''.join(map(str, ds)),
               'bytes': lambda: ['b', ds], 'bool': lambda: bool(ds[0]), 'bits': lambda: ['bits', exp]}[k]()
        if obs[1][1] != val: return f"{k} read back via {c['rr']} gave {str(obs[1][1])[:80]}, expected {str(val)[:80]}"
        return None
    if op == 'float':
        x = float.fromhex(c['f']) if c['f'] != 'nan' else float('nan')
        bits, back = ref_float_bits(c['name'], c['n'], x)
        if obs[0] != 'ok': return f"float {c} raised {obs}"
        if x == x and obs[1][0] != bits: return f"{c['name']}:{c['n']} = {c['f']} via {c['cr']}: bits {obs[1][0]} differ from struct's {bits}"
        exp = ['f', back.hex() if back == back else 'nan']
        if obs[1][1] != exp: return f"{c['name']}:{c['n']} = {c['f']} read via {c['rr']} gave {obs[1][1]}, struct gives {exp}"
        return None
    if op == 'adopt':
        if obs[0] != 'ok': return f"adopt {c} raised {obs}"
        if 'kind' in c:
            w = {'hex': 4, 'oct': 3, 'bin': 1, 'bytes': 8, 'bits': 1}[c['kind']]
            exp = ''.join(format(d, f'0{w}b') for d in c['digits'])
        elif 'f' in c: exp = ref_float_bits(c['name'], c['n'], float.fromhex(c['f']))[0]
        else: exp = ref_int_bits(c['name'], c['n'], c['v'])
        got0, after = obs[1]
        if got0 != exp: return f"property assignment {c} gave {got0}, canonical encoding {exp}"
        for route, b in after:
            if b != exp: return f"after a {c['cls']} was given the value through its property and edited in place ({c['edit']}), creation route {route} gives {b} for {c}; canonical encoding {exp}"
        return None
    if op == 'pattern':
        if obs[0] != 'ok': return f"pattern {c} raised {obs}"
        v, rebuilt = obs[1]
        if v == ['f', 'nan']: return None
        if rebuilt != c['bits']: return f"interpreting {c['bits'][:64]} as {c['name']} ({str(v)[:40]}) and rebuilding gives {rebuilt[:64]}"
        return None

def nontrivial(c, obs): return c.get('v', 1) != 0
def classify(c, obs): return None

def coq_check(c, obs):
    op = c['op']
    if op == 'int' and obs[0] == 'ok':
        name, n, v = c['name'], c['n'], c['v']
        signed = cbool(name.startswith('int'))
        le = name.endswith('le') or (name.endswith('ne') and sys.byteorder == 'little')
        getter = {'uint': 'getuint', 'int': 'getint', 'uintbe': 'getuintbe', 'intbe': 'getintbe', 'uintle': 'getuintle', 'intle': 'getintle',
                  'uintne': 'getuintle' if le else 'getuintbe', 'intne': 'getintle' if le else 'getintbe'}[name]
        return (f"rbits_eqb (set_intlike {signed} {cbool(le)} 0 {cz(v)} (Some {n})) (Ok {cbits(obs[1][0])}) && "
                f"rz_eqb ({getter} {cbits(obs[1][0])}) (Ok {cz(obs[1][2])})")
    if op == 'digits' and obs[0] == 'ok' and obs[1] != ['skip'] and c['kind'] in ('hex', 'oct', 'bin'):
        w = {'hex': 4, 'oct': 3, 'bin': 1}[c['kind']]
        return (f"rbits_eqb (digits2bits {w} {clist(c['digits'], cz)}) (Ok {cbits(obs[1][0])}) && "
                f"res_eqb zlist_eqb (bits2digits {w} {cbits(obs[1][0])}) (Ok {clist(c['digits'], cz)})")
    return None

def search(seeds, rng):
    for c in list(seeds) + list(gen_cases(rng, 'quick')):
        try: obs = run_impl(c)
        finally: reset_options()
        msg = oracle(c, obs)
        if msg: return c, obs, msg
    return None
