"""C02 — value <-> bits round trip and canonical encoding for every fixed dtype."""
from vlib import *
from props.common import *
from gen import dtypes as gendtypes
import struct, sys, math

ID = 'C02'
COQ_PROPS = ['Props/C02.v']
COQ_IMPORTS = ['Prims', 'CaseLib', 'Golomb', 'IntCodec']
RULE = ('all fixed dtypes (uint, int, be/le/ne forms, hex, oct, bin, bytes, bool, bits, float 16/32/64 in every endianness) x lengths 1..520 (whole bytes for endian types; exhaustively 1..24 for ints) x '
        'values at 0, +-1, min, max and random x six creation routes (keyword+length, length in the name, property assignment, token string, Dtype.build, pack) x five reading routes '
        '(property, property with length, Dtype.parse, unpack, read) x four classes; conversely random bit patterns of valid lengths are interpreted and rebuilt. '
        'one stream object read field by field through thirteen stream reading routes with refused calls of 27 kinds in between (too few bits for read / peek / readlist / peeklist / '
        'Dtype reads, bad tokens, absent patterns, refused positions, properties and mutations); every creation and reading route again after a prelude of Dtype constructions in '
        '17 spellings (from instances, with length= / scale=), uses of those Dtypes, refused creations and interpretations; '
        'histories of property assignments on one mutable object (length in the name equal to / below / above the current length, aliases, plain names; refused for size, range, digits, length, '
        'name or position; accepted ones in between): bits, length and position survive a refusal, every reading route and the next assignment agree with the canonical encoding; '
        'non-trivial = value not 0; distinct by (dtype, length, value, routes)')
TRUSTED_BASE = ['translator tools/gen/dtypes.py (bridged: generated dtype table = IntCodec model table, by reflexivity)']
ASSUMPTIONS = ['struct.pack/unpack is the IEEE 754 reference for floats (floats are compared through their bytes / float.hex, never as floats)', 'int.to_bytes / format() are the independent integer encoders']

BRIDGE = '''From Coq Require Import ZArith List String Bool. Import ListNotations.
From BS Require Import Prims Golomb IntCodec.
From Gen Require Import GenDtypes.
Open Scope string_scope. Open Scope Z_scope.
(* the register as the model knows it: name, signed, variable_length, allowed lengths, ellipsis, multiplier *)
Definition model_register : list (string * bool * bool * list Z * bool * Z) := [
  ("uint", false, false, [], false, 1); ("uintle", false, false, [8; 16], true, 1); ("uintbe", false, false, [8; 16], true, 1);
  ("int", true, false, [], false, 1); ("intle", true, false, [8; 16], true, 1); ("intbe", true, false, [8; 16], true, 1);
  ("hex", false, false, [0; 4], true, 1); ("bin", false, false, [], false, 1); ("oct", false, false, [0; 3], true, 1);
  ("float", true, false, [16; 32; 64], false, 1); ("floatle", true, false, [16; 32; 64], false, 1);
  ("bfloat", true, false, [16], false, 1); ("bfloatle", true, false, [16], false, 1);
  ("bits", false, false, [], false, 1); ("bool", false, false, [1], false, 1); ("bytes", false, false, [], false, 8);
  ("se", true, true, [], false, 1); ("ue", false, true, [], false, 1); ("sie", true, true, [], false, 1); ("uie", false, true, [], false, 1);
  ("pad", false, false, [], false, 1);
  ("p3binary", true, false, [8], false, 1); ("p4binary", true, false, [8], false, 1); ("e4m3mxfp", true, false, [8], false, 1);
  ("e5m2mxfp", true, false, [8], false, 1); ("e3m2mxfp", true, false, [6], false, 1); ("e2m3mxfp", true, false, [6], false, 1);
  ("e2m1mxfp", true, false, [4], false, 1); ("e8m0mxfp", false, false, [8], false, 1); ("mxint", true, false, [8], false, 1)].
Theorem register_as_modelled :
  map (fun d => (d_name d, d_signed d, d_variable d, d_allowed d, d_ellipsis d, d_mult d)) gen_dtypes = model_register.
Proof. reflexivity. Qed.
(* each name is wired to its own setter and getter (a swapped pair would type-check in Python) *)
Theorem setters_getters_match_names :
  forallb (fun d => (String.eqb (d_set d) ("_set" ++ d_name d) || String.eqb (d_set d) ("_set" ++ d_name d ++ "be") || String.eqb (d_set d) ("_set" ++ d_name d ++ "_safe"))
                 && (String.eqb (d_get d) ("_get" ++ d_name d) || String.eqb (d_get d) ("_get" ++ d_name d ++ "be"))) gen_dtypes = true.
Proof. vm_compute. reflexivity. Qed.
Theorem native_aliases_follow_byteorder :
  (if gen_byteorder_little then gen_aliases_little else gen_aliases_big) =
  (if gen_byteorder_little then [("uintle", "uintne"); ("intle", "intne"); ("floatle", "floatne"); ("bfloatle", "bfloatne")]
   else [("uintbe", "uintne"); ("intbe", "intne"); ("floatbe", "floatne"); ("bfloatbe", "bfloatne")]) /\\
  gen_aliases_common = [("float", "floatbe"); ("bfloat", "bfloatbe"); ("int", "i"); ("uint", "u"); ("hex", "h"); ("oct", "o"); ("bin", "b"); ("float", "f")].
Proof. split; reflexivity. Qed.
Print Assumptions register_as_modelled.
'''

def generate(out):
    text, data = gendtypes.emit(REPO)
    info = gen_build([('GenDtypes', text)], [('BridgeC02', BRIDGE)])
    info['functions'] = ['dtype_definitions', 'aliases']; info['data'] = {'n_dtypes': len(data['dtypes'])}
    return info

INTS = ['uint', 'int', 'uintbe', 'intbe', 'uintle', 'intle', 'uintne', 'intne']
CREATE_ROUTES = ['kw_len', 'kw_name', 'setattr', 'token', 'build', 'pack', 'pack_kw', 'pack_kw_len']
READ_ROUTES = ['prop', 'prop_len', 'parse', 'unpack', 'read']

def boundary(rng, name, n):
    signed = name.startswith('int')
    lo, hi = (-(1 << (n - 1)), (1 << (n - 1)) - 1) if signed else (0, (1 << n) - 1)
    return min(hi, max(lo, rng.choice([0, 1, -1 if signed else 1, lo, hi, lo + 1, hi - 1, rng.randrange(lo, hi + 1), rng.randrange(lo, hi + 1)])))

def gen_cases(rng, tier):
    N = 700 if tier == 'quick' else 12000
    for i in range(N):
        name = rng.choice(INTS)
        if name in ('uint', 'int'): n = rng.choice(list(range(1, 25)) + [31, 32, 33, 63, 64, 65, 127, 128, 129, 255, 256, 257, 520]) if rng.random() < 0.8 else rng.randrange(1, 300)
        else: n = 8 * rng.choice([1, 2, 3, 4, 5, 7, 8, 9, 16, 17, 32, 65])
        v = boundary(rng, name, n)
        if not name.startswith('int') and v < 0: v = -v
        yield {'op': 'int', 'name': name, 'n': n, 'v': v, 'cr': rng.choice(CREATE_ROUTES), 'rr': rng.choice(READ_ROUTES), 'cls': rng.choice(CLASSES), 'lsb0': rng.random() < 0.25}
    for _ in range(N // 3):
        k = rng.choice(['hex', 'oct', 'bin', 'bytes', 'bool', 'bits'])
        n = 1 if k == 'bool' else rng.choice([0, 1, 2, 3, 5, 8, 16, 31, 32, 33, 64, 65, 130, 257])
        yield {'op': 'digits', 'kind': k, 'digits': [rng.randrange({'hex': 16, 'oct': 8, 'bin': 2, 'bytes': 256, 'bool': 2, 'bits': 2}[k]) for _ in range(n)],
               'cr': rng.choice(CREATE_ROUTES), 'rr': rng.choice(READ_ROUTES), 'cls': rng.choice(CLASSES), 'upper': rng.random() < 0.3, 'lsb0': rng.random() < 0.25}
    for _ in range(N // 3):
        n = rng.choice([16, 32, 64]); e = rng.choice(['float', 'floatbe', 'floatle', 'floatne'])
        f = rng.choice([0.0, -0.0, 1.0, -1.5, 0.1, 1e-8, 65504.0, 65520.0, 65505.0, -65510.0, 65519.99, 3.4028234663852886e38, 3.4028235e38, -3.402823466385289e38, 3.4028235677973362e38, 3.4028235677973366e38, 1.7976931348623157e308, 1e10, 1e39, -1e39, float('inf'), float('-inf'), float('nan'), 5.9604644775390625e-08,
                        rng.uniform(-1e3, 1e3), rng.uniform(-1, 1) * 10 ** rng.randrange(-50, 50), struct.unpack('>d', struct.pack('>Q', rng.getrandbits(64)))[0]])
        yield {'op': 'float', 'name': e, 'n': n, 'f': f.hex() if f == f else 'nan', 'cr': rng.choice(CREATE_ROUTES), 'rr': rng.choice(READ_ROUTES), 'cls': rng.choice(CLASSES), 'lsb0': rng.random() < 0.25}
    for _ in range(N // 2):
        name = rng.choice(INTS + ['hex', 'oct', 'bin', 'bytes', 'float', 'floatle'])
        n = rng.choice([16, 32, 64]) if name.startswith('float') else 8 * rng.randrange(1, 9) if name not in ('uint', 'int', 'bin', 'hex', 'oct') else rng.randrange(1, 70) * {'hex': 4, 'oct': 3}.get(name, 1)
        yield {'op': 'pattern', 'name': name, 'bits': rand_bits(rng, n), 'cls': rng.choice(CLASSES), 'lsb0': rng.random() < 0.25}

    # property assignment on a mutable object, an in-place edit of that object, then the same (dtype, length, value) through every creation route:
    # the routes must still agree with the canonical encoding (a setter that adopts a shared / cached store shows up here)
    EDITS = ['invert', 'append', 'del', 'set', 'reverse', 'ilshift', 'setitem', 'clear']
    for _ in range(N // 6):
        r = rng.random()
        if r < 0.3:
            name = rng.choice(INTS); n = 8 * rng.choice([1, 2, 4, 8]); v = boundary(rng, name, n)
            if not name.startswith('int') and v < 0: v = -v
            spec = {'name': name, 'n': n, 'v': v}
        elif r < 0.7:
            k = rng.choice(['hex', 'oct', 'bin', 'bytes', 'bits', 'bits'])
            nd = rng.choice([1, 2, 3, 6])
            spec = {'kind': k, 'digits': [rng.randrange({'hex': 16, 'oct': 8, 'bin': 2, 'bytes': 256, 'bits': 2}[k]) for _ in range(nd)], 'asstr': rng.random() < 0.6}
        else:
            spec = {'name': rng.choice(['float', 'floatle', 'floatne', 'floatbe']), 'n': rng.choice([16, 32, 64]), 'f': rng.choice([1.0, -2.5, 0.1, 0.0]).hex()}
        yield dict(spec, op='adopt', cls=rng.choice(MUTABLE), edit=rng.choice(EDITS), with_len=rng.random() < 0.5, lsb0=rng.random() < 0.2)

    # one stream object, read field after field through every reading route, with REFUSED calls in between (a read / peek / readlist / peeklist / readto / unpack /
    # property / position assignment / mutation that cannot be satisfied): a refused call consumes nothing, so the next read still returns the field at the position
    for _ in range(N // 2):
        yield gen_stream(rng, tier)
    # history: what a plain dtype encodes and decodes does not depend on what was done before. A prelude of Dtype constructions in every spelling (from name + length,
    # from a token, from a Dtype instance with or without length= / scale=, scaled variants), of uses of those Dtypes, and of refused creations / interpretations
    # precedes an ordinary case; afterwards the case, EVERY creation route and EVERY reading route must still give the canonical encoding and the value
    for _ in range(N // 2):
        yield gen_hist(rng, tier)
    # one MUTABLE object built from a value, then a history of property assignments on it - refused ones (a value of another size than the length in the name, a value
    # out of range, invalid digits, a length the dtype does not allow, unknown / read-only names, positions beyond the end; the named length equal to, smaller and larger
    # than the object's current length) and accepted ones in between: a refused assignment leaves bits, length and position alone, every reading route still returns the
    # value the object was last given, and a later length-keeping assignment (a.uint = w) gives the bits every other creation route gives
    for _ in range(N // 2):
        yield gen_refset(rng, tier)

def kind(c):
    if c['op'] == 'refset': return 'refset:' + c['cls']
    if c['op'] == 'hist': return 'hist:' + c['field'][0]
    if c['op'] == 'stream': return 'stream:' + c['cls']
    return c['op'] + ':' + c.get('name', c.get('kind', ''))

# ---------------------------------------------------------------------------------------------------------------------------------------------
# fields: (dtype name, length in the dtype's units, JSON value)  ->  reference bits and the value every reading route has to return
# ---------------------------------------------------------------------------------------------------------------------------------------------
FLOATS = ['float', 'floatbe', 'floatle', 'floatne']
DIGITK = {'hex': 16, 'oct': 8, 'bin': 2, 'bytes': 256, 'bits': 2}
DIGITW = {'hex': 4, 'oct': 3, 'bin': 1, 'bytes': 8, 'bool': 1, 'bits': 1}

def gen_field(rng, small=False):
    """[name, n, v]: v is an int (ints), a hex float string (floats), a list of digits (hex/oct/bin/bytes/bits) or a bool"""
    r = rng.random()
    if r < 0.4:
        name = rng.choice(INTS)
        n = rng.choice(list(range(1, 25)) + [31, 32, 33, 63, 64, 65, 127, 128]) if name in ('uint', 'int') else 8 * rng.choice([1, 1, 2, 2, 3, 4, 5, 8, 9])
        v = boundary(rng, name, n)
        if not name.startswith('int') and v < 0: v = -v
        return [name, n, v]
    if r < 0.6:
        f = rng.choice([0.0, -0.0, 1.0, -1.5, 0.1, 65504.0, 1e-8, 3.0e38, rng.uniform(-1e3, 1e3), rng.uniform(-1, 1) * 10 ** rng.randrange(-30, 30), float('inf'), float('-inf')])
        return [rng.choice(FLOATS), rng.choice([16, 32, 64]), f.hex()]
    if r < 0.95:
        k = rng.choice(['hex', 'oct', 'bin', 'bytes', 'bits'])
        return [k, None, [rng.randrange(DIGITK[k]) for _ in range(rng.choice([1, 1, 2, 3, 4, 5, 8, 9, 16, 17] if not small else [1, 2, 3]))]]
    return ['bool', None, rng.random() < 0.5]

def field_ref(fl):
    """(bits, units, python value to create from, canonical JSON form of the value read back)"""
    name, n, v = fl
    if name in INTS: return ref_int_bits(name, n, v), n, v, v
    if name in FLOATS:
        x = float.fromhex(v); bits, back = ref_float_bits(name, n, x)
        return bits, n, x, ['f', back.hex()]
    if name == 'bool': return ('1' if v else '0'), None, bool(v), bool(v)
    w = DIGITW[name]; bits = ''.join(format(d, f'0{w}b') for d in v); u = len(v) * (w if name in ('hex', 'oct') else 1)     # hex:n / oct:n count bits
    if name == 'hex': t = ''.join('0123456789abcdef'[d] for d in v); return bits, u, t, t
    if name in ('oct', 'bin'): t = ''.join(map(str, v)); return bits, u, t, t
    if name == 'bytes': return bits, u, bytes(v), ['b', list(v)]
    return bits, u, ('bits', bits), ['bits', bits]

# ---------------------------------------------------------------------------------------------------------------------------------------------
# op 'stream'
# ---------------------------------------------------------------------------------------------------------------------------------------------
STREAM_ROUTES = ['read_tok', 'read_nocolon', 'read_dtype', 'read_dtype_tok', 'peek_read', 'readlist_str', 'readlist_list', 'readlist_dtype', 'peeklist_read', 'readlist_kw',
                 'read_int_prop', 'read_bits_prop', 'slice_prop', 'read_tok', 'peek_read']
REFUSALS = ['read_long', 'peek_long', 'read_long_same', 'peek_long_same', 'read_int_long', 'peek_int_long', 'readlist_long', 'peeklist_long', 'readlist_list_long', 'read_dtype_long',
            'peek_dtype_long', 'read_bad_token', 'read_negative', 'readto_absent', 'find_absent', 'unpack_long', 'prop_refused', 'parse_long', 'pos_beyond', 'pos_negative',
            'bytepos_beyond', 'read_golomb_off_end', 'mutation_refused', 'readlist_kw_long', 'read_bad_length', 'peek_bad_token', 'read_rest_unaligned', 'assign_refused', 'assign_refused']

def gen_stream(rng, tier):
    nf = rng.choice([1, 1, 2, 3, 4, 6])
    fields = [gen_field(rng) for _ in range(nf)]
    lsb0 = nf == 1 and rng.random() < 0.3
    lead = '' if lsb0 else rand_bits(rng, rng.choice([0, 0, 0, 1, 3, 5, 8, 13]))
    tail = '' if lsb0 else rng.choice(['', '', '0', '000', '0000000', '1', '10110', rand_bits(rng, rng.randrange(0, 40))])
    script = []
    for _ in fields:
        k = rng.choice([0, 1, 1, 1, 2, 3])
        script.append({'refusals': [[rng.choice(REFUSALS), rng.randrange(1 << 16)] for _ in range(k)], 'route': rng.choice(STREAM_ROUTES)})
    return {'op': 'stream', 'cls': rng.choice(['ConstBitStream', 'BitStream']), 'fields': fields, 'lead': lead, 'tail': tail, 'script': script,
            'via': rng.choice(['bin', 'bytes', 'auto', 'copy', 'file']), 'lsb0': lsb0, 'end_refusals': [[rng.choice(REFUSALS), rng.randrange(1 << 16)] for _ in range(rng.choice([0, 1, 2]))]}

def tok_of(name, u, colon=True):
    return name if u is None else (f'{name}:{u}' if colon else f'{name}{u}')

def too_long_token(r, rem, same=None):
    """a token of a fixed-length dtype that needs more bits than the `rem` that are left"""
    m = rem + 1 + r % 3
    choices = [f'uint:{m}', f'int:{m}', f'bin:{m}', f'bits:{m}', f'pad:{m}', f'hex:{4 * (m // 4 + 1)}', f'oct:{3 * (m // 3 + 1)}', f'bytes:{m // 8 + 1}', f'uintbe:{8 * (m // 8 + 1)}',
               f'uintle:{8 * (m // 8 + 1)}', f'intle:{8 * (m // 8 + 1)}', f'intne:{8 * (m // 8 + 1)}', f'uint{m}', f'intbe{8 * (m // 8 + 1)}']
    for w in (16, 32, 64):
        if rem < w: choices += [f'float:{w}', f'floatle:{w}', f'floatne{w}']
    if rem < 16: choices += ['bfloat', 'bfloatle:16']
    if rem < 8: choices += ['p3binary', 'e4m3mxfp', 'mxint', 'e8m0mxfp']
    if rem == 0: choices += ['bool', 'uint:1']
    if same:
        name = same
        if name in ('uintbe', 'intbe', 'uintle', 'intle', 'uintne', 'intne'): return f'{name}:{8 * (m // 8 + 1)}'
        if name in FLOATS: return f'{name}:64' if rem < 64 else f'uint:{m}'
        if name == 'hex': return f'hex:{4 * (m // 4 + 1)}'
        if name == 'oct': return f'oct:{3 * (m // 3 + 1)}'
        if name == 'bytes': return f'bytes:{m // 8 + 1}'
        if name == 'bool': return f'uint:{m}'
        return f'{name}:{m}'
    return choices[(r >> 2) % len(choices)]

def refuse(s, kind, r, name, rest_bits):
    """one call that cannot be satisfied, on the stream itself; whatever it does is recorded, not judged (the reads after it are)"""
    import bitstring
    from bitstring import Dtype
    rem = len(rest_bits)
    long_tok = too_long_token(r, rem); same_tok = too_long_token(r, rem, same=name)
    def mk_dtype(tok):
        nm, _, ln = tok.partition(':')
        return Dtype(nm, int(ln)) if ln else Dtype(tok)
    if kind == 'read_long': return s.read(long_tok)
    if kind == 'peek_long': return s.peek(long_tok)
    if kind == 'read_long_same': return s.read(same_tok)
    if kind == 'peek_long_same': return s.peek(same_tok)
    if kind == 'read_int_long': return s.read(rem + 1 + r % 9)
    if kind == 'peek_int_long': return s.peek(rem + 1 + r % 9)
    if kind == 'readlist_long': return s.readlist(f'bits:{min(rem, r % 5)}, {long_tok}')          # the first token can be read, the second cannot
    if kind == 'peeklist_long': return s.peeklist(f'bits:{min(rem, r % 5)}, {same_tok}')
    if kind == 'readlist_list_long': return s.readlist([min(rem, r % 7), long_tok, 'bool'])
    if kind == 'readlist_kw_long': return s.readlist('uint:a, bits:b', a=min(rem, 3), b=rem + 1)
    if kind == 'read_dtype_long': return s.read(mk_dtype(same_tok if ':' in same_tok else long_tok if ':' in long_tok else f'uint:{rem + 1}'))
    if kind == 'peek_dtype_long': return s.peek(mk_dtype(long_tok if ':' in long_tok else f'int:{rem + 2}'))
    if kind == 'read_bad_token': return s.read(['nonsense:8', 'uint:0x', 'float:17', 'uintbe:12', 'bool:2', 'uint:-3', '', 'ue:3', 'hex:'][r % 9])
    if kind == 'peek_bad_token': return s.peek(['nonsense', 'intle:7', 'bfloat:8', 'e4m3mxfp:7', 'bytes:-1'][r % 5])
    if kind == 'read_bad_length': return s.read(f'{name}:0') if name not in ('bool',) else s.read('bool:0')
    if kind == 'read_negative': return (s.read if r % 2 else s.peek)(-1 - r % 5)
    if kind in ('readto_absent', 'find_absent'):
        pat = None
        for k in range(40):                   # a pattern that does not occur in what is left (chosen against the reference bits)
            cand = format((r * 2654435761 + k * 40503) % (1 << 11), '011b')
            if cand not in rest_bits: pat = cand; break
        if pat is None: return 'no-absent-pattern'
        return s.readto('0b' + pat) if kind == 'readto_absent' else s.find('0b' + pat, s.pos)
    if kind == 'unpack_long': return s.unpack(f'bits:{len(s)}, uint:{1 + r % 9}')
    if kind == 'prop_refused':
        which = ['float', 'floatle', 'hex', 'oct', 'bytes', 'uintle', 'intbe', 'bool', 'bfloat', 'e4m3mxfp', 'uint7777', 'ue', 'se'][r % 13]
        return getattr(s, which)             # refused for most lengths (when it is not, it is just another read-only interpretation)
    if kind == 'parse_long': return Dtype('uint', len(s) + 1 + r % 8).parse(s)
    if kind == 'pos_beyond': s.pos = len(s) + 1 + r % 70; return 'set'
    if kind == 'pos_negative': s.pos = -1 - r % 9; return 'set'
    if kind == 'bytepos_beyond': s.bytepos = len(s) // 8 + 1 + r % 5; return 'set'
    if kind == 'read_golomb_off_end':
        if '1' in rest_bits: return 'not-applicable'          # only a run of zeros to the end is a code that runs off the end
        return s.read(['ue', 'se', 'uie', 'sie'][r % 4])
    if kind == 'read_rest_unaligned':
        for nm, w in (('hex', 4), ('oct', 3), ('bytes', 8), ('uintle', 8), ('floatbe', 0)):
            if (w and rem % w) or (not w and rem not in (16, 32, 64)): return s.read(nm)        # "the rest" is not a whole number of units: refused
        return 'not-applicable'
    if kind == 'assign_refused':          # a property assignment that cannot be carried out: the named length is the object's own length (or not), the value is not of that size
        L = len(s); k = r % 10; x = r >> 4          # (an object that is not mutable refuses every assignment)
        if k == 0: setattr(s, f'bin{L}', '1' * (L + 1 + x % 3))
        elif k == 1: setattr(s, f'bits{L}', bitstring.Bits(max(L - 1 - x % 2, 0)))
        elif k == 2: setattr(s, f'hex{L}' if L % 4 == 0 else f'bin{L}', 'f' * (L // 4 + 1))
        elif k == 3: setattr(s, f'bytes{L // 8}' if L % 8 == 0 else f'bits{L}', bytes(L // 8 + 1))
        elif k == 4: setattr(s, f'uint{L}', 1 << L)
        elif k == 5: setattr(s, f'int{L}', -(1 << (L - 1)) - 1)
        elif k == 6: setattr(s, ['hex', 'bin', 'oct'][x % 3], ['zz', '012', '89'][x % 3])
        elif k == 7: setattr(s, 'uint', 1 << L)
        elif k == 8: setattr(s, f'bin{L + 1 + x % 8}', '1' * L)
        else: setattr(s, f'oct{L}' if L % 3 == 0 else f'bits{L + 1}', '7' * (L // 3 + 1))
        return 'set'
    if kind == 'mutation_refused':
        if not isinstance(s, bitstring.BitStream): return s.read(long_tok)
        L = len(s); k = r % 8
        if k == 0: return s.insert('0b1', L + 1 + r % 5)
        if k == 1: return s.overwrite('0b101', L + 1)
        if k == 2: s[L + r % 3] = 1; return 'set'
        if k == 3: del s[L + r % 3]; return 'del'
        if k == 4: return s.rol(1, L + 1, L + 2)
        if k == 5: return s.set(1, L + r % 4)
        if k == 6: return s.invert(-L - 1 - r % 4)
        return s.byteswap(L // 8 + 1 + r % 3)
    raise AssertionError(kind)

def read_field(s, route, name, u, nbits):
    """the field at the position, through one reading route of the stream; the position ends up behind the field"""
    from bitstring import Dtype
    tok = tok_of(name, u)
    if route == 'read_tok': return cval(s.read(tok))
    if route == 'read_nocolon': return cval(s.read(tok_of(name, u, False)))
    if route == 'read_dtype': return cval(s.read(Dtype(name, u) if u is not None else Dtype(name)))
    if route == 'read_dtype_tok': return cval(s.read(Dtype(tok)))
    if route == 'peek_read': a = cval(s.peek(tok)); b = cval(s.read(tok)); return b if a == b else ['peek/read differ', a, b]
    if route == 'readlist_str': return cval(s.readlist(tok)[0])
    if route == 'readlist_list': return cval(s.readlist([tok])[0])
    if route == 'readlist_dtype': return cval(s.readlist([Dtype(tok)])[0])
    if route == 'readlist_kw': return cval(s.readlist(f'{name}:n', n=u)[0]) if u is not None else cval(s.readlist(name + ':1')[0])
    if route == 'peeklist_read': a = cval(s.peeklist(tok)[0]); b = cval(s.readlist(['pad:0', tok])[0]); return b if a == b else ['peeklist/readlist differ', a, b]
    if route == 'read_int_prop': return cval(getattr(s.read(nbits), name))
    if route == 'read_bits_prop': return cval(getattr(s.read(f'bits:{nbits}'), tok_of(name, u, False)))
    if route == 'slice_prop':
        p = s.pos; v = cval(getattr(s[p:p + nbits], name)); s.pos = p + nbits; return v
    raise AssertionError(route)

def run_stream(c):
    import bitstring, os, tempfile
    refs = [field_ref(fl) for fl in c['fields']]
    allbits = c['lead'] + ''.join(r[0] for r in refs) + c['tail']
    C = cls_of(c['cls'])
    def f():
        via = c['via']; n = len(allbits)
        if via == 'bin' or n == 0: s = C(bin=allbits)
        elif via == 'auto': s = C('0b' + allbits)
        elif via == 'copy': s = C(bitstring.Bits(bin=allbits))
        elif via == 'bytes':
            pad = allbits + '0' * (-n % 8); s = C(bytes=int(pad, 2).to_bytes(len(pad) // 8, 'big'), length=n)
        else:
            pad = '101' + allbits + '0' * (-(n + 3) % 8)
            fd, path = tempfile.mkstemp(prefix='verif_c02_')
            try:
                with os.fdopen(fd, 'wb') as fh: fh.write(int(pad, 2).to_bytes(len(pad) // 8, 'big'))
                s = C(filename=path, offset=3, length=n)
            finally: os.unlink(path)
        bitstring.options.lsb0 = bool(c.get('lsb0'))
        if not c.get('lsb0'): s.pos = len(c['lead'])
        out = []; at = len(c['lead'])
        def refusals(lst, name):
            o = []
            for k, r in lst:
                try: x = refuse(s, k, r, name, allbits[at:]); o.append([k, 'returned'])
                except Exception as ex: o.append([k, type(ex).__name__])
            return o
        for fl, ref, step in zip(c['fields'], refs, c['script']):
            ro = refusals(step['refusals'], fl[0])
            try: v = read_field(s, step['route'], fl[0], ref[1], len(ref[0]))
            except Exception as ex: v = 'RAISES ' + type(ex).__name__ + ': ' + str(ex)[:90]
            at += len(ref[0])
            out.append([ro, v])
        ro = refusals(c.get('end_refusals', []), 'uint')
        try: rest = s.read(len(s) - s.pos).bin if not c.get('lsb0') else ''
        except Exception as ex: rest = 'RAISES ' + type(ex).__name__ + ': ' + str(ex)[:90]
        return [out, ro, rest, s.bin]
    return attempt(f, 20)

def oracle_stream(c, obs):
    if obs[0] != 'ok': return f"stream case could not be run: {obs} for {str(c)[:300]}"
    out, ro_end, rest, allb = obs[1]
    refs = [field_ref(fl) for fl in c['fields']]
    hist = []
    for i, (fl, ref, step, (ro, v)) in enumerate(zip(c['fields'], refs, c['script'], out)):
        hist += [f"{k} ({what})" for k, what in ro]
        if v != ref[3]:
            before = ('after the earlier calls [' + ', '.join(hist[-5:]) + '] (refused ones with what they raised)') if hist else 'as the first call'
            return (f"{c['cls']}{' [lsb0]' if c.get('lsb0') else ''} holding {len(c['fields'])} field(s) after {len(c['lead'])} leading bits: field {i} is {tok_of(fl[0], ref[1])} = {str(ref[3])[:60]} (bits {ref[0][:48]}); "
                    f"{before} on the same stream, reading it through {step['route']} gave {str(v)[:200]}")
        hist.append(f"{step['route']} of {tok_of(fl[0], ref[1])}")
    if not c.get('lsb0') and rest != c['tail']:
        return f"{c['cls']} after reading all {len(c['fields'])} fields and the refused calls {ro_end}: the rest of the stream reads as {rest[:80]!r}, it holds {c['tail']!r}"
    exp_all = c['lead'] + ''.join(r[0] for r in refs) + c['tail']
    if allb != exp_all: return f"{c['cls']}: after reads and refused calls the stream holds {allb[:80]}, it was built from {exp_all[:80]}"
    return None

# ---------------------------------------------------------------------------------------------------------------------------------------------
# op 'hist'
# ---------------------------------------------------------------------------------------------------------------------------------------------
SPELLINGS = ['name_len', 'token', 'nocolon', 'kwlen', 'name_only', 'from_dtype', 'from_dtype_same_len', 'from_dtype_len', 'from_dtype_scale', 'from_dtype_len_scale', 'from_scaled_dtype',
             'from_scaled_dtype_noscale', 'name_len_scale', 'token_scale', 'kw_scale_only', 'from_dtype_scale_none', 'register']
USES = ['none', 'none', 'build', 'parse', 'attrs', 'str', 'hash_eq', 'array', 'readlist', 'read', 'pack', 'copy', 'build_bad', 'unpack', 'array_dtype_set', 'setattr']
SCALES = [1, 1.0, True, 2, 0.25, 4, -1, 0.5, 3, 2 ** -10, 1e3, 0, -2.5, 8.0]
HIST_STEPS = ['dtype', 'dtype', 'dtype', 'dtype', 'refused_create', 'refused_read', 'other_value', 'token_misuse']

def gen_pstep(rng, name, u):
    k = rng.choice(HIST_STEPS)
    if rng.random() < 0.3:           # a neighbouring dtype / length instead of the one the case is about
        if rng.random() < 0.5: name = rng.choice(INTS + FLOATS + ['hex', 'oct', 'bin', 'bytes', 'bits', 'bool'])
        if u is not None: u = max(1, u + rng.choice([-8, -1, 1, 8, 16])) if name not in FLOATS else rng.choice([16, 32, 64])
    st = {'k': k, 'name': name, 'u': u, 'lsb0': rng.random() < 0.15, 'r': rng.randrange(1 << 16)}
    if k == 'dtype':
        st.update(sp=rng.choice(SPELLINGS), scale=rng.choice(SCALES), scale2=rng.choice(SCALES), u2=rng.choice([None, 1, 8, 16, 24, 32, 64, (u or 8) + 8, u]), use=rng.choice(USES))
    elif k in ('refused_create', 'other_value'): st.update(cr=rng.choice(CREATE_ROUTES), cls=rng.choice(CLASSES), edit=rng.choice(['none', 'invert', 'append', 'clear']))
    elif k == 'refused_read': st.update(rr=rng.choice(READ_ROUTES), cls=rng.choice(CLASSES), d=rng.choice([-1, 1, 3, 8, -8]))
    return st

def gen_hist(rng, tier):
    r = rng.random()
    if r < 0.5:
        name = rng.choice(INTS)
        n = rng.choice(list(range(1, 25)) + [31, 32, 33, 63, 64, 65, 128]) if name in ('uint', 'int') else 8 * rng.choice([1, 2, 2, 3, 4, 8])
        v = boundary(rng, name, n)
        if not name.startswith('int') and v < 0: v = -v
        fl = [name, n, v]
    elif r < 0.75:
        fl = [rng.choice(FLOATS), rng.choice([16, 32, 64]), rng.choice([0.0, -0.0, 1.0, -1.5, 0.1, 65504.0, 1e-8, 0.25, 4.0, rng.uniform(-1e3, 1e3)]).hex()]
    else:
        fl = gen_field(rng)
        while fl[0] in INTS + FLOATS: fl = gen_field(rng)
    u = field_ref(fl)[1]
    prelude = [gen_pstep(rng, fl[0], u) for _ in range(rng.choice([1, 1, 2, 3, 4, 6, 9, 14]))]
    return {'op': 'hist', 'field': fl, 'prelude': prelude, 'cr': rng.choice(CREATE_ROUTES), 'rr': rng.choice(READ_ROUTES), 'cls': rng.choice(CLASSES), 'lsb0': rng.random() < 0.2,
            'refuse': [[rng.choice(REFUSALS), rng.randrange(1 << 16)] for _ in range(rng.choice([0, 1, 2]))]}         # refused calls on the object each reading route then reads from

def make_dtype(st):
    """the Dtype of a prelude step in the spelling it asks for"""
    import bitstring
    from bitstring import Dtype
    name, u, sp, sc, sc2, u2 = st['name'], st['u'], st['sp'], st['scale'], st['scale2'], st['u2']
    plain = lambda: Dtype(name, u) if u is not None else Dtype(name)
    if sp == 'name_len': return plain()
    if sp == 'token': return Dtype(tok_of(name, u))
    if sp == 'nocolon': return Dtype(tok_of(name, u, False))
    if sp == 'kwlen': return Dtype(name, length=u)
    if sp == 'name_only': return Dtype(name)
    if sp == 'from_dtype': return Dtype(plain())
    if sp == 'from_dtype_same_len': return Dtype(plain(), u)
    if sp == 'from_dtype_len': return Dtype(plain(), length=u2)
    if sp == 'from_dtype_scale': return Dtype(plain(), scale=sc)
    if sp == 'from_dtype_len_scale': return Dtype(plain(), u2, sc)
    if sp == 'from_scaled_dtype': return Dtype(Dtype(name, u, scale=sc), scale=sc2)
    if sp == 'from_scaled_dtype_noscale': return Dtype(Dtype(name, u, scale=sc))
    if sp == 'name_len_scale': return Dtype(name, u, sc)
    if sp == 'token_scale': return Dtype(tok_of(name, u), scale=sc)
    if sp == 'kw_scale_only': return Dtype(name, scale=sc)
    if sp == 'from_dtype_scale_none': return Dtype(Dtype(name, u, scale=sc), length=u, scale=None)
    if sp == 'register': return bitstring.dtypes.dtype_register.get_dtype(name, u, scale=sc if st['r'] % 2 else None)
    raise AssertionError(sp)

def other_value(name, u, r, bad=False):
    """another value of the dtype (bad: one the dtype has to refuse)"""
    import bitstring
    if name in INTS:
        signed = name.startswith('int'); lo, hi = (-(1 << (u - 1)), (1 << (u - 1)) - 1) if signed else (0, (1 << u) - 1)
        if bad: return [hi + 1, lo - 1, 'abc', None, hi + 1 + r, 1.5][r % 6]
        return lo + r % (hi - lo + 1)
    if name in FLOATS: return ['abc', None, [1.0], 1j][r % 4] if bad else [1.0, -2.5, 0.1, 0.0, 1e10, 3][r % 6]
    if name == 'bool': return ['2', 'maybe', 7, None][r % 4] if bad else bool(r % 2)
    k = max((u or 1) // {'hex': 4, 'oct': 3}.get(name, 1), 1)          # digits / bytes / bits
    if name == 'hex': return 'xyz' if bad else format(r, 'x').zfill(k)[-k:]
    if name == 'oct': return '89' if bad else format(r, 'o').zfill(k)[-k:]
    if name == 'bin': return '012' if bad else format(r, 'b').zfill(k)[-k:]
    if name == 'bytes': return (b'\x00' * (k + 1) if r % 2 else 17) if bad else bytes((r + i) % 256 for i in range(k))
    return (bitstring.Bits(k + 1) if r % 2 else 'zz') if bad else bitstring.Bits(uint=r % (1 << min(k, 16)), length=k) if k >= 16 else bitstring.Bits(uint=r % (1 << k), length=k)

def run_pstep(st):
    import bitstring, copy
    from bitstring import Dtype, Bits, BitArray
    name, u, r, k = st['name'], st['u'], st['r'], st['k']
    if k == 'dtype':
        d = make_dtype(st); use = st['use']
        nb = d.bitlength or 8
        some = Bits(uint=r % (1 << min(nb, 16)), length=nb)
        if use == 'build': return d.build(other_value(d.name, d.length, r))
        if use == 'build_bad': return d.build(other_value(d.name, d.length, r, bad=True))
        if use == 'parse': return d.parse(some)
        if use == 'attrs': return [d.name, d.length, d.bitlength, d.scale, d.is_signed, d.bits_per_item, d.variable_length, d.return_type, d.get_fn, d.set_fn, d.read_fn]
        if use == 'str': return [str(d), repr(d)]
        if use == 'hash_eq': return [hash(d), d == Dtype(name, u), d != Dtype(tok_of(name, u)), d == name, {d: 1}]
        if use == 'array':
            a = bitstring.Array(d, [other_value(d.name, d.length, r)]); a.append(other_value(d.name, d.length, r + 1)); return [a.tolist(), a.dtype, a.data.bin]
        if use == 'array_dtype_set':
            a = bitstring.Array(tok_of(name, u), [other_value(name, u, r)]); a.dtype = d; return [a.tolist(), a.dtype]
        if use == 'readlist': return bitstring.ConstBitStream(some + some).readlist([d, d])
        if use == 'read': s = bitstring.BitStream(some); return [s.peek(d), s.read(d)]
        if use == 'unpack': return some.unpack([d])
        if use == 'pack': return bitstring.pack(str(d) if r % 2 else tok_of(d.name, d.length), other_value(d.name, d.length, r))
        if use == 'copy': return [copy.copy(d), copy.deepcopy(d)]
        if use == 'setattr':
            for attr in ('scale', 'length', 'name', 'bitlength'):          # read-only properties: refused
                try: setattr(d, attr, st['scale'])
                except Exception: pass
            return d
        return d
    if k == 'refused_create':
        kk = r % 5
        C = cls_of(st['cls'])
        if kk == 0 and name in INTS + FLOATS: return create(C, name, (u + 3 if name not in ('uint', 'int') else 0) if name in INTS else 17, other_value(name, u, r), st['cr'])     # a length the dtype does not allow
        if kk == 1: return C(f'{tok_of(name, u)}=')       # a token without its value
        return create(C, name, u, other_value(name, u, r, bad=True), st['cr'])
    if k == 'other_value':
        o = create(cls_of(st['cls']), name, u, other_value(name, u, r), st['cr'])
        if isinstance(o, BitArray):
            e = st['edit']
            if e == 'invert' and len(o): o.invert()
            elif e == 'append': o.append('0b1')
            elif e == 'clear': o.clear()
        return o
    if k == 'refused_read':
        nb = len(field_ref([name, u, other_json(name, u)])[0]) if name != 'bool' else 1
        s = cls_of(st['cls'])(bin='1' * max(nb + st['d'], 0))              # not the number of bits the dtype needs
        return read(s, name, u, st['rr'])
    if k == 'token_misuse':
        t = tok_of(name, u)
        return [Bits, BitArray][r % 2]([t + '=1=2', t + ':3', t + '=', '=' + t, t + '=0x', name + ':-1=0', name + ':=1'][r % 7])
    raise AssertionError(k)

def other_json(name, u):
    if name in INTS: return 0
    if name in FLOATS: return (0.0).hex()
    if name == 'bool': return False
    return [0] * max((u or 1) // {'hex': 4, 'oct': 3}.get(name, 1), 1)

def run_hist(c):
    import bitstring
    from bitstring import Bits
    fl = c['field']; bits, u, val, back = field_ref(fl)
    name = fl[0]
    if isinstance(val, tuple): val = Bits(bin=val[1])
    def off():
        # diagnostic only (names the prelude step after which the plain dtype stopped giving the canonical encoding / the value)
        bitstring.options.lsb0 = False
        try: return [create(Bits, name, u, val, 'build').bin, create(Bits, name, u, val, 'kw_len').bin, cval(read(Bits(bin=bits), name, u, 'parse')), cval(read(Bits(bin=bits), name, u, 'prop_len'))] != [bits, bits, back, back]
        except Exception: return True
    def f():
        before = off(); culprit = None
        for i, st in enumerate(c['prelude']):
            bitstring.options.lsb0 = bool(st.get('lsb0'))
            try: with_alarm(lambda: run_pstep(st), 3)
            except Exception: pass          # not judged: nothing the prelude does may change what the plain dtype encodes or returns afterwards
            if culprit is None and not before and off(): culprit = i
        if culprit is not None: CULPRITS.setdefault(tok_of(name, u), describe_pstep(c['prelude'][culprit]))
        if before: before = CULPRITS.get(tok_of(name, u)) or True
        bitstring.options.lsb0 = bool(c.get('lsb0'))
        C = cls_of(c['cls'])
        try:
            s = create(C, name, u, val, c['cr'])
            base = [s.bin, type(s).__name__, cval(read(s, name, u, c['rr']))]
        except Exception as ex: base = 'RAISES ' + type(ex).__name__ + ': ' + str(ex)[:90]
        made = []
        for route in CREATE_ROUTES:
            if route == 'token' and isinstance(val, (bytes, Bits)): continue
            if route in ('token', 'kw_name') and isinstance(val, str) and not val: continue
            try: made.append([route, create(C, name, u, val, route).bin])
            except Exception as ex: made.append([route, 'RAISES ' + type(ex).__name__ + ': ' + str(ex)[:90]])
        got = []
        for route in READ_ROUTES:
            try:
                o = C(bin=bits)
                target = bitstring.ConstBitStream(o) if route == 'read' else o          # the object the route reads from gets the refused calls first
                for k, r in c.get('refuse', []):
                    try: refuse(target, k, r, name, bits)
                    except Exception: pass
                got.append([route, cval(target.read(tok_of(name, u)) if route == 'read' else read(o, name, u, route))])
            except Exception as ex: got.append([route, 'RAISES ' + type(ex).__name__ + ': ' + str(ex)[:90]])
        return [base, made, got, before, culprit]
    return attempt(f, 30)

CULPRITS = {}        # diagnostic: per dtype, the first prelude step of this process after which the plain dtype no longer gave its canonical encoding

def describe_pstep(st):
    t = tok_of(st['name'], st['u'])
    if st['k'] == 'dtype':
        sp = st['sp']; sc, sc2, u2 = st['scale'], st['scale2'], st['u2']
        txt = {'name_len': f"Dtype({st['name']!r}, {st['u']})", 'token': f"Dtype({t!r})", 'nocolon': f"Dtype({tok_of(st['name'], st['u'], False)!r})", 'kwlen': f"Dtype({st['name']!r}, length={st['u']})",
               'name_only': f"Dtype({st['name']!r})", 'from_dtype': f"Dtype(Dtype({t!r}))", 'from_dtype_same_len': f"Dtype(Dtype({t!r}), {st['u']})", 'from_dtype_len': f"Dtype(Dtype({t!r}), length={u2})",
               'from_dtype_scale': f"Dtype(Dtype({t!r}), scale={sc})", 'from_dtype_len_scale': f"Dtype(Dtype({t!r}), {u2}, {sc})", 'from_scaled_dtype': f"Dtype(Dtype({t!r}, scale={sc}), scale={sc2})",
               'from_scaled_dtype_noscale': f"Dtype(Dtype({t!r}, scale={sc}))", 'name_len_scale': f"Dtype({st['name']!r}, {st['u']}, {sc})", 'token_scale': f"Dtype({t!r}, scale={sc})",
               'kw_scale_only': f"Dtype({st['name']!r}, scale={sc})", 'from_dtype_scale_none': f"Dtype(Dtype({t!r}, scale={sc}), length={st['u']}, scale=None)", 'register': f"dtype_register.get_dtype({st['name']!r}, {st['u']}, scale=...)"}[sp]
        return txt + (f" then {st['use']}" if st['use'] != 'none' else '')
    if st['k'] in ('refused_create', 'other_value'): return f"{st['k']} of {t} via {st['cr']} as {st['cls']}"
    if st['k'] == 'refused_read': return f"refused read of {t} via {st['rr']} from {st['d']:+d} bits"
    return f"{st['k']} of {t}"

def oracle_hist(c, obs):
    fl = c['field']; bits, u, val, back = field_ref(fl)
    t = tok_of(fl[0], u)
    pre = "after {" + '; '.join(describe_pstep(st) for st in c['prelude'])[:500] + "} "
    if obs[0] != 'ok': return pre + f"the case could not be run: {obs}"
    base, made, got, before, culprit = obs[1]
    if culprit is not None: pre = f"after {{{describe_pstep(c['prelude'][culprit])}}} (step {culprit + 1} of a prelude of {len(c['prelude'])}; the plain dtype was right before it and wrong right after it) "
    if before: pre = ("(the plain dtype was already wrong when this case started: state left behind by an earlier case of this run"
                      + (f", first seen right after its prelude step {{{before}}}" if isinstance(before, str) else '') + ") " + pre)
    what = f"{t} = {str(back)[:50]}{' [lsb0]' if c.get('lsb0') else ''}"
    if base != [bits, c['cls'], back]:
        return pre + f"{what} created via {c['cr']} and read via {c['rr']} as {c['cls']} gave {str(base)[:200]}; canonical encoding {bits[:64]}, value {str(back)[:50]}"
    for route, b in made:
        if b != bits: return pre + f"{what}: creation route {route} ({c['cls']}) gives {b[:120]}; canonical encoding {bits[:64]}"
    for route, v in got:
        if v != back: return pre + f"the bits {bits[:64]} of {what}: {('after the refused calls ' + ', '.join(k for k, _ in c['refuse']) + ' on the same object, ') if c.get('refuse') else ''}reading route {route} ({c['cls']}) returns {str(v)[:120]}; the value is {str(back)[:50]}"
    return None

# ---------------------------------------------------------------------------------------------------------------------------------------------
# op 'refset': a history of property assignments on ONE mutable object. The model of the object is a str of '0'/'1': an accepted assignment of
# (dtype, length, value) replaces it by the canonical encoding, a refused assignment leaves it (and the length, and a stream's position) alone.
# What varies: the class, both bit numberings, how the object was first built (every creation route), the dtype named in the assignment (with
# its aliases u i h o b f), the length in the name EQUAL to / just below / just above / unrelated to the current length of the object, no
# length in the name (the current length is used), and why the assignment cannot be carried out.
# ---------------------------------------------------------------------------------------------------------------------------------------------
ALIAS = {'uint': 'u', 'int': 'i', 'hex': 'h', 'oct': 'o', 'bin': 'b', 'float': 'f'}
ENDIAN_INTS = ['uintbe', 'intbe', 'uintle', 'intle', 'uintne', 'intne']

def spell(rng, name):
    return ALIAS[name] if name in ALIAS and rng.random() < 0.3 else name

def near_len(rng, L, w):
    """a length for the name, in bits: a positive multiple of w that is the current length L of the object (when that can be), just below it, just above it or unrelated"""
    N = rng.choice([L, L, L, L, L, L - w, L + w, L + 8, L - 8, 8, 16, 2 * L, rng.randrange(1, 40)])
    N -= N % w
    return N if N > 0 else w

def gen_refused_step(rng, L, stream):
    """an assignment that cannot be carried out on an object of L bits - from the documentation of the types alone"""
    r = rng.random()
    if r < 0.42:            # hex / oct / bin / bytes / bits with the length in the name and a value of another size
        k = rng.choice(['hex', 'oct', 'bin', 'bytes', 'bits']); w = DIGITW[k]
        N = near_len(rng, L, w); nd = N // w
        M = rng.choice([nd - 1, nd + 1, nd - 1, nd + 1, 2 * nd, 0, nd + 3, nd - 2, L // w, (L + w - 1) // w])
        if M < 0 or M == nd: M = nd + 1
        ds = [rng.randrange(DIGITK[k]) for _ in range(M)]
        if k == 'hex': s = ''.join('0123456789abcdef'[d] for d in ds); val = rng.choice([s, s, s.upper(), '0x' + s if s else s])
        elif k == 'oct': s = ''.join(map(str, ds)); val = rng.choice([s, s, '0o' + s if s else s])
        elif k == 'bin': s = ''.join(map(str, ds)); val = rng.choice([s, s, '0b' + s if s else s])
        elif k == 'bytes': val = {rng.choice(['b', 'b', 'ba']): ds}
        else:
            s = ''.join(map(str, ds))
            val = rng.choice([{'bits': s, 'cls': rng.choice(CLASSES)}, {'bits': s, 'cls': 'Bits'}, '0b' + s if s else '', ds if ds else {'bits': '', 'cls': 'BitArray'}])
        return {'attr': f"{spell(rng, k)}{N // 8 if k == 'bytes' else N}", 'val': val, 'why': f'a value of {M * w} bits under a name that says {N} bits'}
    if r < 0.62:            # an integer outside the range of the length in the name
        name = rng.choice(INTS); N = near_len(rng, L, 1 if name in ('uint', 'int') else 8)
        signed = name.startswith('int'); lo, hi = (-(1 << (N - 1)), (1 << (N - 1)) - 1) if signed else (0, (1 << N) - 1)
        v = rng.choice([hi + 1, lo - 1, hi + 1, lo - 1, hi + 2 + rng.getrandbits(20), lo - 2 - rng.getrandbits(20), 1 << (N + 64), -(1 << (N + 3))])
        return {'attr': f'{spell(rng, name)}{N}', 'val': v, 'why': f'outside the range of {N} bits'}
    if r < 0.72:            # an invalid digit, with or without a length in the name
        k = rng.choice(['hex', 'oct', 'bin']); w = DIGITW[k]; sized = rng.random() < 0.6
        N = near_len(rng, L, w); nd = N // w if sized else rng.choice([1, 2, max(L // w, 1), 5])
        s = ['0123456789abcdef'[rng.randrange(DIGITK[k])] for _ in range(nd)]
        s[rng.randrange(nd)] = rng.choice({'hex': 'gzG', 'oct': '89a', 'bin': '2a9'}[k])
        return {'attr': f'{spell(rng, k)}{N}' if sized else spell(rng, k), 'val': ''.join(s), 'why': 'an invalid digit'}
    if r < 0.82:            # a length in the name that the dtype does not have
        whole = lambda n: n > 0 and n % 8 == 0
        fl = lambda n: n in (16, 32, 64)
        name, ok, val = rng.choice([('float', fl, 1.0), ('floatle', fl, -2.5), ('floatbe', fl, 0.5), ('floatne', fl, 3.0), ('bfloat', lambda n: n == 16, 1.0), ('uintbe', whole, 1), ('intle', whole, -1),
                                    ('uintne', whole, 0), ('uintle', whole, 1), ('intbe', whole, 0), ('intne', whole, -1), ('bool', lambda n: n == 1, True), ('hex', lambda n: n % 4 == 0, None),
                                    ('oct', lambda n: n % 3 == 0, None), ('e4m3mxfp', lambda n: n == 8, 1.0), ('uint', lambda n: n > 0, 0), ('int', lambda n: n > 0, 0)])
        N = rng.choice([n for n in [L, L, L, L + 1, L - 1, L + 4, L - 4, 12, 17, 7, 2, 0] if n >= 0 and not ok(n)])
        if val is None: val = {'hex': 'a' * max(N // 4, 1), 'oct': '7' * max(N // 3, 1)}[name]
        return {'attr': f'{spell(rng, name)}{N}', 'val': val, 'why': f'{name} has no length {N}'}
    if r < 0.92:            # no length in the name: the current length of the object is the length (ints, floats)
        opts = [('uint', 1 << L), ('uint', -1), ('int', 1 << (L - 1)), ('int', -(1 << (L - 1)) - 1), ('uint', (1 << L) + rng.getrandbits(12)), ('uint', 1 << (L + 64))]
        if L % 8: opts += [(n, 0) for n in ENDIAN_INTS]
        else: opts += [('uintbe', 1 << L), ('uintle', 1 << L), ('intne', 1 << (L - 1)), ('intle', -(1 << (L - 1)) - 1), ('uintne', -1), ('intbe', 1 << (L + 3))]
        if L not in (16, 32, 64): opts += [('float', 1.0), ('floatle', 0.5), ('floatne', 2.0), ('floatbe', -1.0)]
        name, v = rng.choice(opts)
        return {'attr': spell(rng, name), 'val': v, 'why': f'not a {name} of the current {L} bits'}
    if r < 0.97 and stream:  # a position that does not exist
        k = rng.randrange(9)
        attr, v = rng.choice([('pos', L + 1 + k), ('pos', -1 - k), ('bitpos', L + 1 + k), ('bitpos', -1 - k), ('bytepos', L // 8 + 1 + k), ('bytepos', -1 - k)])
        return {'attr': attr, 'val': v, 'why': 'no such position'}
    return {'attr': rng.choice(['ue', 'uie']), 'val': -1 - rng.randrange(9), 'why': 'a negative value for an unsigned code'}

def gen_undet_step(rng, L):
    """an assignment the documentation does not decide (unknown names, values of another Python type): whatever happens, a refusal changes nothing"""
    N = near_len(rng, L, 1); B = near_len(rng, L, 8)
    attr, val = rng.choice([('len', 3), ('length', 3), ('foo', 3), ('foo8', 3), (f'uint{N}x', 1), (f'Uint{N}', 1), (f'uint_{N}', 1), (f'hex-{N}', 'a'), ('pos', L + 3), ('bytepos', L),
                            (f'uint{N}', None), (f'uint{N}', 'abc'), ('uint', None), (f'int{N}', [1]), (f'hex{B}', {'b': [97] * (B // 4)}), (f'bytes{B // 8}', 'a' * (B // 8)), ('bytes', 'abc'),
                            (f'bits{N}', 5), (f'bin{N}', 5), (f'float{rng.choice([16, 32, 64])}', 'x'), ('bool', 2), ('bool', 'maybe'), ('se', 'x'), (f'bits{N}', None), (f'oct{N - N % 3 or 3}', 7)])
    return {'attr': attr, 'val': val, 'why': 'not a documented assignment'}

def gen_ok_step(rng, L, plain_int=0.0):
    """an assignment of a value that fits: with the length in the name, or plain (ints / floats keep the current length L, the other types take the length of the value)"""
    r = rng.random()
    if r >= plain_int and rng.random() < 0.5:
        fl = gen_field(rng, small=True); u = field_ref(fl)[1]
        return {'attr': spell(rng, fl[0]) + ('' if u is None else str(u)), 'field': fl}
    opts = ['uint', 'int', 'uint', 'int'] + (ENDIAN_INTS if L % 8 == 0 else []) + (FLOATS if L in (16, 32, 64) else [])
    if r >= plain_int: opts += ['hex', 'oct', 'bin', 'bytes', 'bits', 'bool']
    name = rng.choice(opts)
    if name in INTS:
        v = boundary(rng, name, L)
        if not name.startswith('int') and v < 0: v = -v
        fl = [name, L, v]
    elif name in FLOATS: fl = [name, L, rng.choice([0.0, -0.0, 1.0, -1.5, 0.1, 0.25, 1e-8, rng.uniform(-1e3, 1e3)]).hex()]
    elif name == 'bool': fl = ['bool', None, rng.random() < 0.5]
    else: fl = [name, None, [rng.randrange(DIGITK[name]) for _ in range(rng.choice([1, 2, 3, 4, 8, 9]))]]
    return {'attr': spell(rng, name), 'field': fl}

def gen_refset(rng, tier):
    if rng.random() < 0.35:           # lengths that hex, oct, bin, bytes and bits names can all state
        name = rng.choice(['uint', 'int']); L = rng.choice([8, 12, 16, 24, 24, 32, 48, 64, 72, 120])
        fl = [name, L, abs(boundary(rng, name, L)) if name == 'uint' else boundary(rng, name, L)]
    else: fl = gen_field(rng)
    cls = rng.choice(MUTABLE); L = len(field_ref(fl)[0]); L0 = L
    steps = []
    for i in range(rng.choice([1, 1, 1, 2, 2, 3, 5] if tier == 'quick' else [1, 1, 2, 3, 5, 8])):
        q = rng.random()
        if q < (0.85 if i == 0 else 0.65): st = dict(gen_refused_step(rng, L, cls == 'BitStream'), k='refuse')
        elif q < 0.92:
            st = dict(gen_ok_step(rng, L), k='ok'); L = len(field_ref(st['field'])[0])
        else: st = dict(gen_undet_step(rng, L), k='any')
        steps.append(st)
    if not any(st['k'] == 'refuse' for st in steps): steps.append(dict(gen_refused_step(rng, L, cls == 'BitStream'), k='refuse'))
    return {'op': 'refset', 'cls': cls, 'field': fl, 'cr': rng.choice(CREATE_ROUTES), 'pos': rng.choice([None, 0, 1, L0 // 2, L0]), 'steps': steps, 'then': gen_ok_step(rng, L, plain_int=0.7),
            'rr': rng.choice(READ_ROUTES), 'lsb0': rng.random() < 0.25}

def rs_pv(v):
    if isinstance(v, dict):
        if 'b' in v: return bytes(v['b'])
        if 'ba' in v: return bytearray(v['ba'])
        if 'bits' in v: return cls_of(v.get('cls', 'Bits'))(bin=v['bits'])
    return v

def run_refset(c):
    import bitstring
    from bitstring import Bits
    C = cls_of(c['cls'])
    def pyval(fl):
        v = field_ref(fl)[2]
        return Bits(bin=v[1]) if isinstance(v, tuple) else v
    def f():
        bitstring.options.lsb0 = bool(c.get('lsb0'))
        fl = c['field']
        a = create(C, fl[0], field_ref(fl)[1], pyval(fl), c['cr'])
        if c.get('pos') is not None and hasattr(a, 'pos'): a.pos = c['pos']
        snap = lambda: [a.bin, len(a), getattr(a, 'pos', None), list(a.tobytes())]
        log = [[type(a).__name__] + snap()]
        cur = fl
        for st in c['steps']:
            val = pyval(st['field']) if st['k'] == 'ok' else rs_pv(st['val'])
            try: setattr(a, st['attr'], val); r = 'accepted'
            except Exception as ex: r = exn_name(ex)
            log.append([r] + snap())
            if st['k'] == 'ok': cur = st['field']
        reads = []; u = field_ref(cur)[1]
        for route in READ_ROUTES:
            try: reads.append([route, cval(read(a, cur[0], u, route))])
            except Exception as ex: reads.append([route, 'RAISES ' + type(ex).__name__ + ': ' + str(ex)[:90]])
        if hasattr(a, 'pos'):
            try: a.pos = 0; reads.append(['read on the stream itself', cval(a.read(tok_of(cur[0], u)))])
            except Exception as ex: reads.append(['read on the stream itself', 'RAISES ' + type(ex).__name__ + ': ' + str(ex)[:90]])
        th = c['then']; tf = th['field']; tu = field_ref(tf)[1]
        try:
            setattr(a, th['attr'], pyval(tf)); t = [a.bin, len(a), cval(read(a, tf[0], tu, c['rr']))]
        except Exception as ex: t = 'RAISES ' + type(ex).__name__ + ': ' + str(ex)[:90]
        made = []
        for route in CREATE_ROUTES:
            val = pyval(tf)
            if route == 'token' and isinstance(val, (bytes, Bits)): continue
            try: made.append([route, create(Bits, tf[0], tu, val, route).bin])
            except Exception as ex: made.append([route, 'RAISES ' + type(ex).__name__ + ': ' + str(ex)[:90]])
        return [log, reads, t, made]
    return attempt(f, 20)

def oracle_refset(c, obs):
    fl = c['field']; bits0, u0, _, back0 = field_ref(fl)
    who = f"{c['cls']}{' [lsb0]' if c.get('lsb0') else ''} built from {tok_of(fl[0], u0)} = {str(back0)[:40]} via {c['cr']} ({len(bits0)} bits)"
    if obs[0] != 'ok': return f"{who}: the case could not be run: {obs}"
    log, reads, t, made = obs[1]
    if log[0][:3] != [c['cls'], bits0, len(bits0)]: return f"{who}: it is a {log[0][0]} holding {log[0][1][:64]} ({log[0][2]} bits); canonical encoding {bits0[:64]}"
    cur = fl; known = True; prev = log[0][1:]; hist = []
    after = lambda: (', after ' + '; '.join(hist[-4:])) if hist else ''
    for st, ent in zip(c['steps'], log[1:]):
        r, now = ent[0], ent[1:]
        if st['k'] == 'ok':
            b, uu, _, bk = field_ref(st['field'])
            what = f"a.{st['attr']} = {str(bk)[:50]}"
            if r != 'accepted': return f"{who}{after()}: the assignment {what} (a value that fits) was refused with {r}"
            if now[0] != b or now[1] != len(b): return f"{who}{after()}: the assignment {what} left the object holding {now[0][:64]} ({now[1]} bits); canonical encoding {b[:64]} ({len(b)} bits)"
            cur = st['field']; known = True
        else:
            what = f"a.{st['attr']} = {str(st['val'])[:50]}"
            if r == 'accepted':
                if st['k'] == 'refuse':
                    return f"{who}{after()}: the assignment {what} ({st['why']}) has no encoding, every other creation route refuses it; it was accepted and the object now holds {now[0][:64]} ({now[1]} bits)"
                known = False
            elif now != prev:
                return (f"{who}{after()}: the assignment {what} ({st['why']}) was refused with {r}, yet the object changed: bits {prev[0][:48]} -> {now[0][:48]}, length {prev[1]} -> {now[1]}, "
                        f"position {prev[2]} -> {now[2]}; it no longer holds the value it was given")
        hist.append(f"{what} ({r})"); prev = now
    if not known: return None
    b, uu, _, bk = field_ref(cur)
    for route, v in reads:
        if v != bk: return f"{who}{after()}: it holds {tok_of(cur[0], uu)} = {str(bk)[:50]}; reading route {route} returns {str(v)[:120]}"
    tf = c['then']['field']; tb, tu, _, tbk = field_ref(tf)
    what = f"a.{c['then']['attr']} = {str(tbk)[:50]}"
    if t != [tb, len(tb), tbk]:
        return f"{who}{after()}: the later assignment {what} gives {str(t)[:160]}; the canonical encoding of {tok_of(tf[0], tu)} is {tb[:64]} ({len(tb)} bits), as given by the other creation routes"
    for route, x in made:
        if x != tb: return f"{who}{after()} and {what}: creation route {route} now gives {x[:120]} for {tok_of(tf[0], tu)} = {str(tbk)[:50]}; canonical encoding {tb[:64]}"
    return None

def create(C, name, n, value, route):
    """build class C object for dtype name, length n (units), value, via route. n None = no length"""
    import bitstring
    from bitstring import Dtype, pack, BitArray, Bits
    tok = name if n is None else f'{name}:{n}'
    if route == 'kw_len':
        if name == 'bytes': return C(bytes=value, length=8 * n)     # bytes= takes its length in bits (documented)
        return C(**{name: value}) if n is None else C(**{name: value, 'length': n})
    if route == 'kw_name': return C(**{(name if n is None else f'{name}{n}'): value})
    if route == 'setattr':
        a = bitstring.BitArray() if C in (Bits, BitArray) else bitstring.BitStream()
        setattr(a, name if n is None else f'{name}{n}', value)
        return C(a)
    if route == 'token': return C(f'{tok}={value}') if not isinstance(value, (bytes, Bits)) else C(**{name: value})
    if route == 'build': return C(Dtype(name, n).build(value) if n is not None else Dtype(name).build(value))
    if route == 'pack': return C(pack(tok, value))
    if route == 'pack_kw': return C(pack(f'{tok}=v', v=value))                      # the value supplied by keyword (also falsy ones: 0, 0.0, False)
    if route == 'pack_kw_len':
        return C(pack(f'{name}:n=v', n=n, v=value)) if n is not None else C(pack(f'{name}=v', v=value))

def read(s, name, n, route):
    import bitstring
    from bitstring import Dtype
    tok = name if n is None else f'{name}:{n}'
    if route == 'prop': return getattr(s, name)
    if route == 'prop_len': return getattr(s, name if n is None else f'{name}{n}')
    if route == 'parse': return (Dtype(name, n) if n is not None else Dtype(name)).parse(s)
    if route == 'unpack': return s.unpack(tok)[0]
    if route == 'read': return bitstring.ConstBitStream(s).read(tok)

def cval(v):
    import bitstring
    if isinstance(v, float): return ['f', v.hex() if v == v else 'nan']
    if isinstance(v, bytes): return ['b', list(v)]
    if isinstance(v, bitstring.Bits): return ['bits', v.bin]
    return v

def run_impl(c):
    import bitstring
    bitstring.options.lsb0 = bool(c.get('lsb0'))     # whole-value interpretations and the stored bits are the same in both numberings (reset by the driver)
    C = cls_of(c['cls']); op = c['op']
    if op == 'stream': return run_stream(c)
    if op == 'hist': return run_hist(c)
    if op == 'refset': return run_refset(c)
    if op == 'int':
        def f():
            s = create(C, c['name'], c['n'], c['v'], c['cr'])
            return [s.bin, type(s).__name__, cval(read(s, c['name'], c['n'], c['rr']))]
        return attempt(f)
    if op == 'digits':
        k, ds = c['kind'], c['digits']
        def f():
            if k == 'hex': val, n = ''.join('0123456789abcdef'[d] for d in ds), 4 * len(ds)
            elif k == 'oct': val, n = ''.join(str(d) for d in ds), 3 * len(ds)
            elif k == 'bin': val, n = ''.join(str(d) for d in ds), len(ds)
            elif k == 'bytes': val, n = bytes(ds), len(ds)
            elif k == 'bool': val, n = bool(ds[0]), None
            elif k == 'bits': val, n = bitstring.Bits(bin=''.join(str(d) for d in ds)), len(ds)
            if c['upper'] and isinstance(val, str): val = val.upper()
            if isinstance(val, str) and not val and c['cr'] in ('token', 'kw_name'): return ['skip']
            nn = None if k == 'bool' else n
            s = create(C, k, nn, val, c['cr'])
            if k in ('hex', 'oct', 'bin', 'bits') and nn == 0 and c['rr'] in ('unpack', 'read', 'prop_len', 'parse'): return [s.bin, 'skipread']
            return [s.bin, cval(read(s, k, nn, c['rr']))]
        return attempt(f)
    if op == 'float':
        x = float.fromhex(c['f']) if c['f'] != 'nan' else float('nan')
        def f():
            s = create(C, c['name'], c['n'], x, c['cr'])
            return [s.bin, cval(read(s, c['name'], c['n'], c['rr']))]
        return attempt(f)
    if op == 'adopt':
        from bitstring import Bits
        def f():
            if 'kind' in c:
                k, ds = c['kind'], c['digits']
                name = k
                if k == 'hex': val, n = ''.join('0123456789abcdef'[d] for d in ds), 4 * len(ds)
                elif k == 'oct': val, n = ''.join(str(d) for d in ds), 3 * len(ds)
                elif k == 'bin': val, n = ''.join(str(d) for d in ds), len(ds)
                elif k == 'bytes': val, n = bytes(ds), len(ds)
                else:
                    b = ''.join(str(d) for d in ds); n = len(ds)
                    val = ('0b' + b) if c['asstr'] else Bits(bin=b)          # a.bits = <token string> goes through the string cache
            elif 'f' in c: name, n, val = c['name'], c['n'], float.fromhex(c['f'])
            else: name, n, val = c['name'], c['n'], c['v']
            a = C()
            setattr(a, f'{name}{n}' if c['with_len'] and name not in ('bits',) else name, val) if not (name in INTS + ['float', 'floatle', 'floatne', 'floatbe'] and not c['with_len']) else setattr(a, f'{name}{n}', val)
            got0 = a.bin
            e = c['edit']
            if e == 'invert': a.invert()
            elif e == 'append': a.append('0b1')
            elif e == 'del': del a[0:2]
            elif e == 'set': a.set(True); a.set(0, 0)
            elif e == 'reverse': a.reverse(); a.invert(0)
            elif e == 'ilshift': a <<= 1
            elif e == 'setitem': a[0] = not a[0]
            elif e == 'clear': a.clear()
            after = []
            for route in CREATE_ROUTES:
                if route == 'token' and isinstance(val, (bytes, Bits)): continue
                try: after.append([route, create(Bits, name, n, val, route).bin])
                except Exception as ex: after.append([route, 'RAISES ' + type(ex).__name__])
            if isinstance(val, str) and name == 'bits': after.append(['auto', Bits(val).bin])
            if isinstance(val, Bits): after.append(['operand', val.bin])
            return [got0, after]
        return attempt(f)
    if op == 'pattern':
        def f():
            s = C(bin=c['bits'])
            v = getattr(s, c['name'])
            t = C(**{c['name']: v, 'length': len(c['bits']) // (8 if c['name'] == 'bytes' else 1)}) if c['name'] not in ('hex', 'oct', 'bin', 'bytes') else C(**{c['name']: v})
            return [cval(v), t.bin]
        return attempt(f)

def ref_int_bits(name, n, v):
    signed = name.startswith('int')
    if signed: v &= (1 << n) - 1
    be = format(v, f'0{n}b')
    le = name.endswith('le') or (name.endswith('ne') and sys.byteorder == 'little')
    if le: be = ''.join(be[i:i + 8] for i in range(n - 8, -1, -8))
    return be

def ref_float_bits(name, n, x):
    code = {16: 'e', 32: 'f', 64: 'd'}[n]
    le = name.endswith('le') or (name.endswith('ne') and sys.byteorder == 'little')
    try: b = struct.pack(('<' if le else '>') + code, x)
    except OverflowError: b = struct.pack(('<' if le else '>') + code, math.copysign(float('inf'), x))
    return ''.join(format(y, '08b') for y in b), struct.unpack(('<' if le else '>') + code, b)[0]

def oracle(c, obs):
    op = c['op']
    if op == 'stream': return oracle_stream(c, obs)
    if op == 'hist': return oracle_hist(c, obs)
    if op == 'refset': return oracle_refset(c, obs)
    if op == 'int':
        exp = ref_int_bits(c['name'], c['n'], c['v'])
        if obs != ('ok', [exp, c['cls'], c['v']]):
            return f"{c['name']}:{c['n']} = {c['v']} created via {c['cr']}, read via {c['rr']} as {c['cls']}: got {str(obs)[:160]}, canonical encoding {exp[:64]}"
        return None
    if op == 'digits':
        if obs == ('ok', ['skip']): return None
        k, ds = c['kind'], c['digits']
        w = {'hex': 4, 'oct': 3, 'bin': 1, 'bytes': 8, 'bool': 1, 'bits': 1}[k]
        exp = ''.join(format(d, f'0{w}b') for d in ds)
        if obs[0] != 'ok' or obs[1][0] != exp: return f"{k} digits {ds[:10]} via {c['cr']}: got {str(obs)[:120]}, expected bits {exp[:64]}"
        if obs[1][1] == 'skipread': return None
        val = {'hex': lambda: ''.join('0123456789abcdef'[d] for d in ds), 'oct': lambda: ''.join(map(str, ds)), 'bin': lambda: ''.join(map(str, ds)),
               'bytes': lambda: ['b', ds], 'bool': lambda: bool(ds[0]), 'bits': lambda: ['bits', exp]}[k]()
        if obs[1][1] != val: return f"{k} read back via {c['rr']} gave {str(obs[1][1])[:80]}, expected {str(val)[:80]}"
        return None
    if op == 'float':
        x = float.fromhex(c['f']) if c['f'] != 'nan' else float('nan')
        bits, back = ref_float_bits(c['name'], c['n'], x)
        if obs[0] != 'ok': return f"float {c} raised {obs}"
        if x == x and obs[1][0] != bits: return f"{c['name']}:{c['n']} = {c['f']} via {c['cr']}: bits {obs[1][0]} differ from struct's {bits}"
        exp = ['f', back.hex() if back == back else 'nan']
        if obs[1][1] != exp: return f"{c['name']}:{c['n']} = {c['f']} read via {c['rr']} gave {obs[1][1]}, struct gives {exp}"
        return None
    if op == 'adopt':
        if obs[0] != 'ok': return f"adopt {c} raised {obs}"
        if 'kind' in c:
            w = {'hex': 4, 'oct': 3, 'bin': 1, 'bytes': 8, 'bits': 1}[c['kind']]
            exp = ''.join(format(d, f'0{w}b') for d in c['digits'])
        elif 'f' in c: exp = ref_float_bits(c['name'], c['n'], float.fromhex(c['f']))[0]
        else: exp = ref_int_bits(c['name'], c['n'], c['v'])
        got0, after = obs[1]
        if got0 != exp: return f"property assignment {c} gave {got0}, canonical encoding {exp}"
        for route, b in after:
            if b != exp: return f"after a {c['cls']} was given the value through its property and edited in place ({c['edit']}), creation route {route} gives {b} for {c}; canonical encoding {exp}"
        return None
    if op == 'pattern':
        if obs[0] != 'ok': return f"pattern {c} raised {obs}"
        v, rebuilt = obs[1]
        if v == ['f', 'nan']: return None
        if rebuilt != c['bits']: return f"interpreting {c['bits'][:64]} as {c['name']} ({str(v)[:40]}) and rebuilding gives {rebuilt[:64]}"
        return None

def nontrivial(c, obs):
    if c['op'] == 'hist': return c['field'][2] not in (0, False, (0.0).hex())
    return c.get('v', 1) != 0
def classify(c, obs): return None

def coq_check(c, obs):
    op = c['op']
    if op == 'int' and obs[0] == 'ok':
        name, n, v = c['name'], c['n'], c['v']
        signed = cbool(name.startswith('int'))
        le = name.endswith('le') or (name.endswith('ne') and sys.byteorder == 'little')
        getter = {'uint': 'getuint', 'int': 'getint', 'uintbe': 'getuintbe', 'intbe': 'getintbe', 'uintle': 'getuintle', 'intle': 'getintle',
                  'uintne': 'getuintle' if le else 'getuintbe', 'intne': 'getintle' if le else 'getintbe'}[name]
        return (f"rbits_eqb (set_intlike {signed} {cbool(le)} 0 {cz(v)} (Some {n})) (Ok {cbits(obs[1][0])}) && "
                f"rz_eqb ({getter} {cbits(obs[1][0])}) (Ok {cz(obs[1][2])})")
    if op == 'hist' and obs[0] == 'ok' and isinstance(obs[1][0], list):       # the model knows no history: the case inside is evaluated as it is
        name, n, v = c['field']; b = obs[1][0]
        if name in INTS: return coq_check({'op': 'int', 'name': name, 'n': n, 'v': v}, ('ok', b))
        if name in ('hex', 'oct', 'bin'): return coq_check({'op': 'digits', 'kind': name, 'digits': v}, ('ok', [b[0], b[2]]))
        return None
    if op == 'digits' and obs[0] == 'ok' and obs[1] != ['skip'] and c['kind'] in ('hex', 'oct', 'bin'):
        w = {'hex': 4, 'oct': 3, 'bin': 1}[c['kind']]
        return (f"rbits_eqb (digits2bits {w} {clist(c['digits'], cz)}) (Ok {cbits(obs[1][0])}) && "
                f"res_eqb zlist_eqb (bits2digits {w} {cbits(obs[1][0])}) (Ok {clist(c['digits'], cz)})")
    return None

def search(seeds, rng):
    for c in list(seeds) + list(gen_cases(rng, 'quick')):
        try: obs = run_impl(c)
        finally: reset_options()
        msg = oracle(c, obs)
        if msg: return c, obs, msg
    return None
