"""C05 — pack, unpack and token strings are mutually inverse and compositional."""
from vlib import *
from props.common import *
import struct, sys

ID = 'C05'
COQ_PROPS = ['Props/C05.v']
COQ_IMPORTS = ['Prims', 'CaseLib', 'BitsCore', 'Golomb', 'IntCodec', 'Mutators', 'Search', 'Stream', 'Pack']
RULE = ('formats drawn from the grammar fmt ::= token | fmt, fmt | n*(fmt) | n*token | (fmt) with every dtype, the length spellings name:n / namen / keyword, struct codes with the four prefixes and counts, '
        'nested brackets, whitespace, pads and at most one length-less token, with conforming values: pack length and bits vs independently computed per-token encodings, unpack, embedded =value strings, '
        'all splits of a format in two, n*(f), wrong arity; the parser functions compared with a reference flattening; a malformed stream must raise ValueError and terminate. '
        'non-trivial = format with a factor, bracket or struct code; distinct by (format, values)')
ASSUMPTIONS = ['the string front end (tokenparser/preprocess_tokens/expand_brackets/structparser) is tied by the grammar oracle and correspondence of parser outputs, not proved',
               'msb0 (the lsb0 token order is C12)']
COQ_PRELUDE = '''
Definition value_eqb (a b : value) : bool :=
  match a, b with
  | ValBits x, ValBits y => bits_eqb x y | ValZ x, ValZ y => Z.eqb x y | ValBool x, ValBool y => Bool.eqb x y | ValNone, ValNone => true | _, _ => false end.
'''
CK = {'bits': 'KBits', 'uint': 'KUint', 'int': 'KInt', 'bin': 'KBin', 'hex': 'KHex', 'bool': 'KBool', 'pad': 'KPad', 'bytes': 'KBytes'}
GC = {'ue': 'UE', 'se': 'SE', 'uie': 'UIE', 'sie': 'SIE'}
STRUCT = {'b': ('int', 1), 'B': ('uint', 1), 'h': ('int', 2), 'H': ('uint', 2), 'l': ('int', 4), 'L': ('uint', 4), 'i': ('int', 4), 'I': ('uint', 4), 'q': ('int', 8), 'Q': ('uint', 8)}

# ---------- the format AST and its printer ----------
def gen_token(rng, allow_stretch):
    r = rng.random()
    if r < 0.12:
        pre = rng.choice('<>=')
        codes = ''.join((str(k) if (k := rng.choice([1, 1, 2, 3])) > 1 else '') + rng.choice(list(STRUCT)) for _ in range(rng.randrange(1, 3)))
        return {'t': 'struct', 'pre': pre, 'codes': codes}
    if r < 0.2: return {'t': 'var', 'name': rng.choice(list(GC))}
    if r < 0.26 and allow_stretch: return {'t': 'stretch', 'name': rng.choice(['bits', 'bin', 'hex', 'bytes'])}
    name = rng.choice(['uint', 'int', 'hex', 'bin', 'oct', 'bits', 'bytes', 'bool', 'pad', 'uintle', 'intbe', 'float'])
    if name == 'bool': return {'t': 'fixed', 'name': 'bool', 'n': 1, 'spell': rng.choice(['bare', 'colon'])}
    n = rng.choice([1, 2, 3, 4, 5, 8, 12, 16, 24])
    if name == 'hex': n = 4 * rng.choice([1, 2, 3])
    if name == 'oct': n = 3 * rng.choice([1, 2, 3])
    if name in ('uintle', 'intbe'): n = 8 * rng.choice([1, 2, 3])
    if name == 'bytes': n = rng.choice([1, 2, 3])
    if name == 'float': n = rng.choice([16, 32, 64])
    return {'t': 'fixed', 'name': name, 'n': n, 'spell': rng.choice(['colon', 'colon', 'joined', 'kw'])}

def gen_fmt(rng, depth, allow_stretch=True):
    r = rng.random()
    if depth == 0 or r < 0.45: return gen_token(rng, allow_stretch)
    if r < 0.7: return {'t': 'seq', 'items': [gen_fmt(rng, depth - 1, False) for _ in range(rng.randrange(2, 4))]}
    if r < 0.82: return {'t': 'rep', 'n': rng.choice([0, 1, 2, 3]), 'body': gen_fmt(rng, depth - 1, False), 'bracket': True}
    if r < 0.92: return {'t': 'rep', 'n': rng.choice([1, 2, 3]), 'body': gen_token(rng, False), 'bracket': False}
    return {'t': 'paren', 'body': gen_fmt(rng, depth - 1, False)}

def show(f, rng, kw):
    sp = lambda: rng.choice(['', '', ' ', '  '])
    t = f['t']
    if t == 'fixed':
        if f['name'] == 'bool' and f['spell'] == 'bare': return 'bool'
        if f['spell'] == 'joined': return f"{f['name']}{f['n']}"
        if f['spell'] == 'kw':
            # keyword names include ones that are tails of token names ('ue' = 'u' + 'e', 'hex' = 'h' + 'ex', ...): a token must never be re-read as name + keyword
            # ... and names of parameters of the library's private helpers ('pos', 'dtypes', 'length', 'offset', 'token_list', 'keys': D61); the public parameter names 'fmt' and 'self' cannot be keywords in Python itself
            pool = [x for x in ('e', 'ex', 'ie', 'in', 'it', 'its', 'pos', 'ool', 'ytes', 'int', 'x', 'n', 'ad', 'loat', 'ct', 'length', 'dtypes', 'offset', 'keys', 'token_list', 'values', 'kwargs', 'cls', 's') if x not in kw]
            k = pool[(len(kw) * 5 + f['n']) % len(pool)] if pool and (f['n'] + len(kw)) % 2 == 0 else f"len{len(kw)}"
            kw[k] = f['n']; return f"{f['name']}:{k}"
        return f"{f['name']}{sp()}:{sp()}{f['n']}"
    if t == 'var': return f['name']
    if t == 'stretch': return f['name']
    if t == 'struct': return f['pre'] + f['codes']
    if t == 'seq': return (sp() + ',' + sp()).join(show(x, rng, kw) for x in f['items'])
    if t == 'rep':
        inner = show(f['body'], rng, kw)
        return f"{f['n']}{sp()}*{sp()}({inner})" if f['bracket'] else f"{f['n']}*{inner}"
    if t == 'paren': return '(' + show(f['body'], rng, kw) + ')'

def flatten(f):
    """list of elementary tokens (name, length-in-units or None)"""
    t = f['t']
    if t == 'fixed': return [(f['name'], f['n'])]
    if t == 'var': return [(f['name'], None)]
    if t == 'stretch': return [(f['name'], None)]
    if t == 'struct':
        out, num = [], ''
        for ch in f['codes']:
            if ch.isdigit(): num += ch; continue
            kind, sz = STRUCT[ch]
            end = {'<': 'le', '>': 'be', '=': 'ne'}[f['pre']] if sz > 1 else ''
            out += [(kind + end, 8 * sz)] * (int(num) if num else 1); num = ''
        return out
    if t == 'seq': return [x for it in f['items'] for x in flatten(it)]
    if t == 'rep': return flatten(f['body']) * f['n']
    if t == 'paren': return flatten(f['body'])

def has_zero_bracket(f):
    t = f['t']
    if t == 'rep': return (f['n'] == 0 and f['bracket']) or has_zero_bracket(f['body'])
    if t == 'seq': return any(has_zero_bracket(x) for x in f['items'])
    if t == 'paren': return has_zero_bracket(f['body'])
    return False

def rand_value(rng, name, n):
    """(python value to pack, expected bits, value unpack returns (canonical))"""
    if name in ('uint', 'uintle', 'uintbe', 'uintne'):
        v = rng.choice([0, 1, (1 << n) - 1, rng.randrange(1 << n)]); be = format(v, f'0{n}b')
        if name.endswith('le') or (name.endswith('ne') and sys.byteorder == 'little'): be = ''.join(be[i:i + 8] for i in range(n - 8, -1, -8))
        return v, be, v
    if name in ('int', 'intle', 'intbe', 'intne'):
        v = rng.choice([0, -1, (1 << (n - 1)) - 1, -(1 << (n - 1)), rng.randrange(-(1 << (n - 1)), 1 << (n - 1))]); be = format(v & ((1 << n) - 1), f'0{n}b')
        if name.endswith('le') or (name.endswith('ne') and sys.byteorder == 'little'): be = ''.join(be[i:i + 8] for i in range(n - 8, -1, -8))
        return v, be, v
    if name == 'hex':
        k = n // 4 if n is not None else rng.randrange(0, 4); s = ''.join(rng.choice('0123456789abcdef') for _ in range(k))
        return s, ''.join(format(int(c, 16), '04b') for c in s), s
    if name == 'oct':
        s = ''.join(rng.choice('01234567') for _ in range(n // 3)); return s, ''.join(format(int(c), '03b') for c in s), s
    if name in ('bin', 'bits'):
        k = n if n is not None else rng.randrange(0, 9); s = ''.join(rng.choice('01') for _ in range(k))
        return (('0b' + s if s else '') if name == 'bits' else s), s, (['bits', s] if name == 'bits' else s)
    if name == 'bytes':
        k = n if n is not None else rng.randrange(0, 3); b = bytes(rng.randrange(256) for _ in range(k))
        return b, ''.join(format(x, '08b') for x in b), ['b', list(b)]
    if name == 'bool':
        v = rng.random() < 0.5; return v, '1' if v else '0', v
    if name == 'pad': return None, '0' * n, None
    if name == 'float':
        v = rng.choice([0.0, -0.0, 0.0, -0.0, 1.5, -2.25, 1e-3, 100.0]); code = {16: 'e', 32: 'f', 64: 'd'}[n]
        b = struct.pack('>' + code, v); return v, ''.join(format(x, '08b') for x in b), ['f', struct.unpack('>' + code, b)[0].hex()]
    if name in GC:
        from props.c10 import ref_enc
        v = rng.randrange(0, 40) if name in ('ue', 'uie') else rng.randrange(-20, 21)
        if rng.random() < 0.25:
            k = rng.choice([7, 8, 31, 32, 33, 47, 48, 49, 50, 52, 53, 54, 63, 64, 65, 70, 100])
            v = (1 << k) + rng.choice([-3, -2, -1, 0, 1])
            if name in ('se', 'sie') and rng.random() < 0.5: v = -v
        return v, ref_enc(name, v), v

def gen_cases(rng, tier):
    N = 500 if tier == 'quick' else 8000
    for _ in range(N):
        f = gen_fmt(rng, rng.choice([0, 1, 2, 2, 3]))
        kw = {}
        s = show(f, rng, kw)
        toks = flatten(f)
        vals = [rand_value(rng, nm, n) for nm, n in toks]
        yield {'op': 'pack', 'fmt': s, 'kw': kw, 'toks': [list(t) for t in toks], 'vals': [v[0] for v in vals], 'bits': [v[1] for v in vals], 'back': [v[2] for v in vals],
               'zero_bracket': has_zero_bracket(f), 'split': rng.randrange(0, len(toks) + 1), 'arity': rng.choice([0, 0, 0, -1, 1])}
    # one length-less ("filler") token inside a sequence: variable-length (exp-Golomb) and fixed tokens before it, only fixed-length ones after it;
    # unpack must size the filler by what is left after the tokens that FOLLOW it
    for _ in range(120 if tier == 'quick' else 2000):
        def fixed():
            while True:
                t = gen_token(rng, False)
                if t['t'] == 'fixed': return t
        pre = [rng.choice([{'t': 'var', 'name': rng.choice(list(GC))}, fixed(), {'t': 'var', 'name': rng.choice(list(GC))}]) for _ in range(rng.randrange(0, 3))]
        post = [fixed() for _ in range(rng.randrange(0, 3))]
        f = {'t': 'seq', 'items': pre + [{'t': 'stretch', 'name': rng.choice(['bits', 'bin', 'hex', 'bytes'])}] + post}
        kw = {}
        s = show(f, rng, kw)
        toks = flatten(f)
        vals = [rand_value(rng, nm, n) for nm, n in toks]
        yield {'op': 'pack', 'fmt': s, 'kw': kw, 'toks': [list(t) for t in toks], 'vals': [v[0] for v in vals], 'bits': [v[1] for v in vals], 'back': [v[2] for v in vals],
               'zero_bracket': False, 'split': rng.randrange(0, len(toks) + 1), 'arity': 0}
    # the same list-of-formats pack twice, and its first item alone afterwards (each item is parsed and cached on its own)
    for _ in range(40 if tier == 'quick' else 600):
        items = []
        for _ in range(rng.randrange(2, 4)):
            f = gen_fmt(rng, rng.choice([0, 1]), False); kw = {}
            txt = show(f, rng, kw)
            items.append([None if kw else txt, flatten(f)])
        if any(i[0] is None for i in items): continue
        toks = [t for i in items for t in i[1]]
        vals = [rand_value(rng, nm, n) for nm, n in toks]
        n0 = len(items[0][1])
        yield {'op': 'packlist', 'fmts': [i[0] for i in items], 'vals': [v[0] for v in vals], 'bits': [v[1] for v in vals], 'n0': n0}
    for _ in range(80 if tier == 'quick' else 1200):
        name = rng.choice(['hex', 'bin', 'oct', 'bytes', 'bits'])
        w = {'hex': 4, 'bin': 1, 'oct': 3, 'bytes': 8, 'bits': 1}[name]
        nd = rng.randrange(1, 5)
        stated_units = rng.choice([0, 0, nd - 1, nd + 1, 2 * nd])            # digits (bytes for 'bytes'); never nd
        stated = stated_units * (1 if name == 'bytes' else w)
        val = ''.join(rng.choice({'hex': '0123456789abcdef', 'bin': '01', 'oct': '01234567', 'bytes': 'ab', 'bits': '01'}[name]) for _ in range(nd))
        other = rng.choice([None, ('uint:8', 1), ('bool', True)])
        yield {'op': 'missized', 'name': name, 'stated': stated, 'val': val, 'spell': rng.choice(['colon', 'joined', 'kw']), 'other': other, 'first': rng.random() < 0.5}
    bad = ['(uint:8', 'uint:8)', '2*(uint:8', 'x*(uint8), 2*(uint8)', '*(uint:8)', '2*', 'uint:8,,(', '((uint:8)', ')(', '3*(', 'a*(b*(c))', '2*(uint8))', 'uint:8=1=2', ':8', 'uint::8', '2**uint8', '-1*(uint8)', '1.5*(uint8)']
    for s in bad:
        yield {'op': 'malformed', 'fmt': s}
    for depth in (50, 400, 1100, 3000):
        yield {'op': 'malformed', 'fmt': '(' * depth + 'uint:8' + ')' * depth}
        yield {'op': 'malformed', 'fmt': '2*(' * min(depth, 12) + 'uint:8' + ')' * min(depth, 12)}
    for _ in range(60 if tier == 'quick' else 1500):
        chars = '()*,:=0123456789 uintbhexabc<>'
        yield {'op': 'malformed', 'fmt': ''.join(rng.choice(chars) for _ in range(rng.randrange(1, 14)))}

def kind(c): return c['op']

def canon(v):
    import bitstring
    if isinstance(v, float): return ['f', v.hex()]
    if isinstance(v, bytes): return ['b', list(v)]
    if isinstance(v, bitstring.Bits): return ['bits', v.bin]
    return v

def pyval(v):
    return bytes(v) if isinstance(v, list) else v

def run_impl(c):
    import bitstring
    from bitstring import pack, Bits
    if c['op'] == 'malformed':
        def f():
            r = {}
            for name, fn in (('pack', lambda: pack(c['fmt'], 1, 2, 3).bin), ('bits', lambda: Bits(c['fmt']).bin), ('unpack', lambda: [canon(x) for x in Bits('0xabcdef').unpack(c['fmt'])]),
                             ('pre', lambda: bitstring.utils.preprocess_tokens(c['fmt']))):
                r[name] = list(attempt(fn, 5))
            return r
        return attempt(f, 30)
    if c['op'] == 'missized':
        nm, st, val = c['name'], c['stated'], c['val']
        tok = {'colon': f'{nm}:{st}', 'joined': f'{nm}{st}', 'kw': f'{nm}:n'}[c['spell']]
        kw = {'n': st} if c['spell'] == 'kw' else {}
        pyv = val.encode() if nm == 'bytes' else (('0b' + val) if nm == 'bits' else val)
        fm, vs = [tok], [pyv]
        if c['other']:
            if c['first']: fm, vs = [c['other'][0]] + fm, [c['other'][1]] + vs
            else: fm, vs = fm + [c['other'][0]], vs + [c['other'][1]]
        r = {'pack': list(attempt(lambda: pack(', '.join(fm), *vs, **kw).bin))}
        if nm != 'bytes' and c['spell'] != 'kw':
            emb = ', '.join(f'{t}={v}' for t, v in zip(fm, vs))
            r['string'] = list(attempt(lambda: Bits(emb).bin))
        return ('ok', r)
    vals = [v for v in c['vals'] if v is not None]
    if c['op'] == 'packlist':
        def g():
            pv = [pyval(v) for v in vals]
            a = pack(c['fmts'], *pv).bin
            b = pack(c['fmts'], *pv).bin
            k = sum(1 for v in c['vals'][:c['n0']] if v is not None)
            first = pack(c['fmts'][0], *pv[:k]).bin
            joined = pack(', '.join(c['fmts']), *pv).bin
            return [a, b, first, joined]
        return attempt(g, 20)
    def f():
        out = {}
        p = pack(c['fmt'], *vals, **c['kw'])
        out['bin'] = p.bin; out['len'] = len(p); out['cls'] = type(p).__name__
        out['unpack'] = [canon(x) for x in p.unpack(c['fmt'], **c['kw'])]
        out['pre'] = bitstring.utils.preprocess_tokens(c['fmt'])
        # arity
        if c['arity'] == -1 and vals: out['few'] = list(attempt(lambda: pack(c['fmt'], *vals[:-1], **c['kw']).bin))
        if c['arity'] == 1: out['many'] = list(attempt(lambda: pack(c['fmt'], *(vals + [0]), **c['kw']).bin))
        # embedded values build the same bits
        emb = []
        ok = not c['kw']
        for (nm, n), v in zip(c['toks'], c['vals']):
            if nm == 'pad': emb.append(f'pad:{n}'); continue
            if isinstance(v, bytes) or (nm == 'float') or v == '' or (nm in ('hex', 'bin', 'oct', 'bits', 'bytes') and n is None and v in ('', '0b')): ok = False; break
            emb.append(f"{nm}{'' if n is None else ':' + str(n)}={v}")
        if ok and emb: out['embedded'] = list(attempt(lambda: Bits(', '.join(emb)).bin))
        return out
    return attempt(f, 20)

def oracle(c, obs):
    if c['op'] == 'malformed':
        if obs[0] != 'ok': return f"malformed format {c['fmt']!r}: {obs}"
        for name, r in obs[1].items():
            if r[0] == 'err' and r[1] not in ('ValueError', 'ReadError', 'BsError', 'TypeError'):
                return f"{name}({c['fmt']!r}) raised {r[1]} (only CreationError/ValueError/ReadError/Error are documented); OutOfFuel = did not terminate"
        return None
    if c['op'] == 'missized':
        for how, r in obs[1].items():
            if r != ['err', 'ValueError']:
                return f"{how}: token {c['name']} with the stated length {c['stated']} ({c['spell']}) and the value {c['val']!r} ({len(c['val'])} digits) must raise CreationError, got {r}"
        return None
    if c['op'] == 'packlist':
        if obs[0] != 'ok': return f"pack({c['fmts']}, {c['vals']}) raised {obs}"
        a, b, first, joined = obs[1]
        exp = ''.join(c['bits']); exp0 = ''.join(c['bits'][:c['n0']])
        if a != exp or b != exp or joined != exp or first != exp0:
            return (f"pack with the list format {c['fmts']} and values {c['vals']}: first call {a!r}, second call {b!r}, first item alone afterwards {first!r}, "
                    f"joined string {joined!r}; concatenation of token encodings is {exp!r} (first item: {exp0!r})")
        return None
    exp_bits = ''.join(c['bits'])
    if obs[0] != 'ok': return f"pack({c['fmt']!r}, {c['vals']}, {c['kw']}) raised {obs}"
    o = obs[1]
    if o['bin'] != exp_bits or o['len'] != len(exp_bits): return f"pack({c['fmt']!r}, {c['vals']}) = {o['bin']!r} ({o['len']} bits), concatenation of token encodings is {exp_bits!r}"
    if o['cls'] != 'BitStream': return f"pack returned a {o['cls']}"
    back = [b for (nm, n), b in zip(c['toks'], c['back']) if nm != 'pad']
    nstretch = sum(1 for nm, n in c['toks'] if n is None and nm not in ('ue', 'se', 'uie', 'sie'))
    if o['unpack'] != back: return f"unpack({c['fmt']!r}) of the packed bits gave {o['unpack']}, packed values were {back}"
    if 'few' in o and o['few'] != ['err', 'ValueError']: return f"pack({c['fmt']!r}) with one value missing: {o['few']}"
    if 'many' in o and o['many'] != ['err', 'ValueError']: return f"pack({c['fmt']!r}) with one value too many: {o['many']}"
    if 'embedded' in o and o['embedded'] != ['ok', exp_bits]: return f"token string with embedded values for {c['fmt']!r} gave {o['embedded']}, expected {exp_bits!r}"
    want = [f"{nm}{'' if n is None else n}" for nm, n in c['toks']]
    got = [t.replace(':', '').replace(' ', '') for t in o['pre']]
    norm = lambda L: [x.replace('uintne', 'uintne').lower() for x in L]
    # keyword lengths stay symbolic in preprocess_tokens; compare only when no keywords are used
    if not c['kw']:
        got2 = []
        for t in o['pre']:
            got2.append(t.replace(' ', ''))
        exp2 = []
        for nm, n in c['toks']:
            exp2.append(nm if n is None else None)
        if len(o['pre']) != len(c['toks']): return f"preprocess_tokens({c['fmt']!r}) has {len(o['pre'])} tokens {o['pre']}, the grammar flattens it to {len(c['toks'])}"
    return None

def nontrivial(c, obs): return c['op'] == 'pack' and any(ch in c['fmt'] for ch in '*(<>=')
def classify(c, obs): return None

def cval(nm, v):
    if nm in ('uint', 'int') or nm in GC: return f"(ValZ {cz(v)})"
    if nm == 'bool': return f"(ValBool {cbool(v)})"
    return None

def coq_check(c, obs):
    """token-level pack/unpack for formats whose tokens the model covers"""
    if c['op'] != 'pack' or obs[0] != 'ok' : return None
    toks, vals = [], []
    for (nm, n), v, b in zip(c['toks'], c['vals'], c['bits']):
        if nm in ('uint', 'int', 'bool'): toks.append(f"(TFixed {CK[nm]} {n}, @None value)"); vals.append(cval(nm, v))
        elif nm in GC: toks.append(f"(TVar {GC[nm]}, @None value)"); vals.append(cval(nm, v))
        elif nm == 'pad': toks.append(f"(TFixed KPad {n}, @None value)")
        elif nm in ('bits', 'bin', 'hex', 'bytes') and n is not None: toks.append(f"(TFixed {CK[nm]} {n}, @None value)"); vals.append(f"(ValBits {cbits(b)})")
        else: return None
    if not toks: return None
    T = '[' + '; '.join(toks) + ']'; V = ('[' + '; '.join(vals) + ']') if vals else '(@nil value)'
    return (f"rbits_eqb (pack false {T} {V}) (Ok {cbits(obs[1]['bin'])}) && "
            f"res_eqb (list_eqb value_eqb) (unpack {cbits(obs[1]['bin'])} (map fst {T})) (Ok {V})")

def search(seeds, rng):
    for c in list(seeds) + list(gen_cases(rng, 'quick')):
        try: obs = run_impl(c)
        finally: reset_options()
        msg = oracle(c, obs)
        if msg: return c, obs, msg
    return None
