"""C05 — pack, unpack and token strings are mutually inverse and compositional."""
from vlib import *
from props.common import *
import struct, sys, math, copy, random

ID = 'C05'
COQ_PROPS = ['Props/C05.v']
COQ_IMPORTS = ['Prims', 'CaseLib', 'BitsCore', 'Golomb', 'IntCodec', 'Mutators', 'Search', 'Stream', 'Pack', 'Tokenizer']
RULE = ('formats drawn from the grammar fmt ::= token | fmt, fmt | n*(fmt) | n*token | (fmt) with every dtype, the length spellings name:n / namen / alias / bare number / keyword, struct codes with the four prefixes and counts, '
        'nested brackets, whitespace, pads and at most one length-less token, with conforming values given positionally (as objects or as text), embedded as =text or through =keyword: pack length and bits vs '
        'independently computed per-token encodings, unpack / readlist / peeklist on the four classes, token strings (flat and bracketed) on the four classes, '
        'splits of a format in two, n*(f), wrong arity; formats that contain the same sub-format text several times (same body under different factors, digit-suffix factors, nested, bare, '
        'token-level prefixes / suffixes); value spellings (sign, zero padding, whitespace, prefixes, letter case, float notations); the parser functions compared with a reference flattening; '
        'integer tokens of every kind, width and length spelling, struct codes with the four prefixes and counts, alone / under a factor / between other tokens, given values at and beyond the ends of their range '
        '(by one, by less than a factor of two, by multiples of 2**n, by far) through every value route: the bits, or CreationError and never a wrapped value; '
        'formats given as lists / tuples of items (strings of one or more tokens, ints, Dtype objects) to unpack / readlist / peeklist / pack, the one length-less token of a record in any item: the same as the comma-joined string; '
        'a malformed stream must raise ValueError and terminate. non-trivial = format with a factor, bracket, struct code or value in the text; distinct by (format, values)')
ASSUMPTIONS = ['the string front end (tokenparser/preprocess_tokens/expand_brackets/structparser) is tied by the grammar oracle and correspondence of parser outputs, not proved',
               'msb0 (the lsb0 token order is C12)']
COQ_PRELUDE = '''
Definition value_eqb (a b : value) : bool :=
  match a, b with
  | ValBits x, ValBits y => bits_eqb x y | ValZ x, ValZ y => Z.eqb x y | ValBool x, ValBool y => Bool.eqb x y | ValNone, ValNone => true | _, _ => false end.
'''
CK = {'bits': 'KBits', 'uint': 'KUint', 'int': 'KInt', 'bin': 'KBin', 'hex': 'KHex', 'bool': 'KBool', 'pad': 'KPad', 'bytes': 'KBytes'}
GC = {'ue': 'UE', 'se': 'SE', 'uie': 'UIE', 'sie': 'SIE'}
STRUCT = {'b': ('int', 1), 'B': ('uint', 1), 'h': ('int', 2), 'H': ('uint', 2), 'l': ('int', 4), 'L': ('uint', 4), 'i': ('int', 4), 'I': ('uint', 4), 'q': ('int', 8), 'Q': ('uint', 8)}
INTK = ('uint', 'int', 'uintle', 'intle', 'uintbe', 'intbe', 'uintne', 'intne')
FLOATK = ('float', 'floatbe', 'floatle', 'floatne', 'bfloat')
ALIAS = {'uint': 'u', 'int': 'i', 'float': 'f', 'hex': 'h', 'bin': 'b', 'oct': 'o'}
KW_POOL = ('e', 'ex', 'ie', 'in', 'it', 'its', 'pos', 'ool', 'ytes', 'int', 'x', 'n', 'ad', 'loat', 'ct', 'length', 'dtypes', 'offset', 'keys', 'token_list', 'values', 'kwargs', 'cls', 's')

# ---------- the format AST and its printer ----------
# nodes: fixed / var / stretch / struct (leaves), seq, rep, paren, and lit = an already printed sub-format (its exact text can be used several times in one format)
def gen_token(rng, allow_stretch):
    r = rng.random()
    if r < 0.12:
        pre = rng.choice('<>=')
        codes = ''.join((str(k) if (k := rng.choice([1, 1, 2, 3])) > 1 else '') + rng.choice(list(STRUCT)) for _ in range(rng.randrange(1, 3)))
        return {'t': 'struct', 'pre': pre, 'codes': codes}
    if r < 0.2: return {'t': 'var', 'name': rng.choice(list(GC))}
    if r < 0.26 and allow_stretch: return {'t': 'stretch', 'name': rng.choice(['bits', 'bin', 'hex', 'bytes'])}
    name = rng.choice(['uint', 'int', 'hex', 'bin', 'oct', 'bits', 'bytes', 'bool', 'pad', 'uintle', 'intbe', 'float', 'uint', 'int',
                       'uintbe', 'intle', 'uintne', 'intne', 'bfloat', 'floatle', 'floatbe'])
    if name == 'bool': return {'t': 'fixed', 'name': 'bool', 'n': 1, 'spell': rng.choice(['bare', 'colon'])}
    n = rng.choice([1, 2, 3, 4, 5, 8, 12, 16, 24, 1, 2, 3, 4, 5, 8, 12, 16, 24, 7, 9, 15, 17, 31, 32, 33, 63, 64, 65])
    if name == 'hex': n = 4 * rng.choice([1, 2, 3, 1, 2, 3, 4, 8, 16])
    if name == 'oct': n = 3 * rng.choice([1, 2, 3, 1, 2, 3, 5, 11])
    if name[-2:] in ('le', 'be', 'ne') and name not in FLOATK: n = 8 * rng.choice([1, 2, 3, 1, 2, 3, 4, 8])
    if name == 'bytes': n = rng.choice([1, 2, 3, 1, 2, 3, 4, 8])
    if name in ('float', 'floatle', 'floatbe'): n = rng.choice([16, 32, 64])
    if name == 'bfloat': n = 16
    f = {'t': 'fixed', 'name': name, 'n': n, 'spell': rng.choice(['colon', 'colon', 'joined', 'kw'])}
    if name in ALIAS and rng.random() < 0.15: f['alias'] = True            # 'u8', 'i:12', 'h8' ...
    if name == 'bits' and rng.random() < 0.15: f['spell'] = 'number'          # a bare number is a bits token
    return f

def gen_fmt(rng, depth, allow_stretch=True):
    r = rng.random()
    if depth == 0 or r < 0.45: return gen_token(rng, allow_stretch)
    if r < 0.7: return {'t': 'seq', 'items': [gen_fmt(rng, depth - 1, False) for _ in range(rng.randrange(2, 4))]}
    if r < 0.82: return {'t': 'rep', 'n': rng.choice([0, 1, 2, 3]), 'body': gen_fmt(rng, depth - 1, False), 'bracket': True}
    if r < 0.92: return {'t': 'rep', 'n': rng.choice([1, 2, 3]), 'body': gen_token(rng, False), 'bracket': False}
    return {'t': 'paren', 'body': gen_fmt(rng, depth - 1, False)}

def new_ctx(vp=0.0, tp=0.0):
    """vp: probability that a token carries its value in the format text (=text or =keyword); tp: probability that a positional value is handed over as text"""
    return {'kw': {}, 'lk': [], 'vp': vp, 'tp': tp}

def new_key(ctx, n, stem):
    # keyword names include ones that are tails of token names ('ue' = 'u' + 'e', 'hex' = 'h' + 'ex', ...): a token must never be re-read as name + keyword
    # ... and names of parameters of the library's private helpers ('pos', 'dtypes', 'length', 'offset', 'token_list', 'keys': D61); the public parameter names 'fmt' and 'self' cannot be keywords in Python itself
    kw = ctx['kw']
    pool = [x for x in KW_POOL if x not in kw]
    return pool[(len(kw) * 5 + n) % len(pool)] if pool and (n + len(kw)) % 2 == 0 else f"{stem}{len(kw)}"

def jv(v): return list(v) if isinstance(v, bytes) else v

def leaf(rng, ctx, nm, n, tok):
    """one elementary token whose text (without a value) is tok -> (text without value, text as packed, leaf record)"""
    L = {'nm': nm, 'n': n, 'mode': 'pos'}
    if nm == 'pad': return tok, tok, L
    sp = lambda: rng.choice(['', '', '', ' '])
    if rng.random() < ctx['vp']:
        v, b, bk = rand_value(rng, nm, n)
        L.update(v=jv(v), bits=b, back=bk)
        t = spell(rng, nm, v, True) if rng.random() < 0.7 else None
        if t is not None:
            L.update(mode='emb', txt=t)
            return tok, tok + sp() + '=' + sp() + t, L
        k = new_key(ctx, n or 0, 'v')
        t = spell(rng, nm, v, False) if rng.random() < 0.5 else None       # a keyword value may itself be text; otherwise the object (falsy ones included)
        ctx['kw'][k] = jv(v) if t is None else t
        L.update(mode='kwv', txt=t, key=k)
        return tok, tok + sp() + '=' + sp() + k, L
    if rng.random() < ctx['tp']: L['mode'] = 'postext'
    return tok, tok, L

def render(f, rng, ctx):
    """-> (format text without values, format text as packed, flat list of leaf records)"""
    sp = lambda: rng.choice(['', '', ' ', '  '])
    t = f['t']
    if t == 'lit': return f['plain'], f['full'], copy.deepcopy(f['flat'])
    if t == 'fixed':
        nm = ALIAS[f['name']] if f.get('alias') else f['name']
        if f['name'] == 'bool' and f['spell'] == 'bare': tok = 'bool'
        elif f['spell'] == 'number': tok = str(f['n'])
        elif f['spell'] == 'joined': tok = f"{nm}{f['n']}"
        elif f['spell'] == 'kw':
            same = [x for x in ctx['lk'] if ctx['kw'][x] == f['n']]
            if same and rng.random() < 0.5: k = rng.choice(same)          # one keyword gives the length of several tokens
            else:
                k = new_key(ctx, f['n'], 'len')
                ctx['kw'][k] = f['n']; ctx['lk'].append(k)
            tok = f"{nm}{sp()}:{sp()}{k}"
        else: tok = f"{nm}{sp()}:{sp()}{f['n']}"
        p, fu, L = leaf(rng, ctx, f['name'], f['n'], tok)
        return p, fu, [L]
    if t in ('var', 'stretch'):
        p, fu, L = leaf(rng, ctx, f['name'], None, f['name'])
        return p, fu, [L]
    if t == 'struct':
        s = f['pre'] + f['codes']
        return s, s, [{'nm': nm, 'n': n, 'mode': 'postext' if rng.random() < ctx['tp'] else 'pos'} for nm, n in flatten(f)]
    if t == 'seq':
        parts = [render(x, rng, ctx) for x in f['items']]
        seps = f.get('seps') or [sp() + ',' + sp() for _ in parts[1:]]
        join = lambda k: ''.join(x[k] + (seps[i] if i < len(seps) else '') for i, x in enumerate(parts))
        return join(0), join(1), [L for x in parts for L in x[2]]
    if t == 'rep':
        p, fu, fl = render(f['body'], rng, ctx)
        a, b = f.get('ws') or (sp(), sp())
        head = f"{f['n']}{a}*{b}(" if f['bracket'] else f"{f['n']}*"
        tail = ')' if f['bracket'] else ''
        return head + p + tail, head + fu + tail, [copy.deepcopy(L) for _ in range(f['n']) for L in fl]
    if t == 'paren':
        p, fu, fl = render(f['body'], rng, ctx)
        return '(' + p + ')', '(' + fu + ')', fl

def show(f, rng, kw):
    ctx = new_ctx(); ctx['kw'] = kw
    return render(f, rng, ctx)[0]

def freeze(f, rng, ctx):
    p, fu, fl = render(f, rng, ctx)
    return {'t': 'lit', 'plain': p, 'full': fu, 'flat': fl}

def flatten(f):
    """list of elementary tokens (name, length-in-units or None)"""
    t = f['t']
    if t == 'lit': return [(L['nm'], L['n']) for L in f['flat']]
    if t == 'fixed': return [(f['name'], f['n'])]
    if t == 'var': return [(f['name'], None)]
    if t == 'stretch': return [(f['name'], None)]
    if t == 'struct':
        out, num = [], ''
        for ch in f['codes']:
            if ch.isdigit(): num += ch; continue
            kind, sz = STRUCT[ch]
            end = {'<': 'le', '>': 'be', '=': 'ne', '@': 'ne'}[f['pre']] if sz > 1 else ''
            out += [(kind + end, 8 * sz)] * (int(num) if num else 1); num = ''
        return out
    if t == 'seq': return [x for it in f['items'] for x in flatten(it)]
    if t == 'rep': return flatten(f['body']) * f['n']
    if t == 'paren': return flatten(f['body'])

def has_zero_bracket(f):
    t = f['t']
    if t == 'rep': return (f['n'] == 0 and f['bracket']) or has_zero_bracket(f['body'])
    if t == 'seq': return any(has_zero_bracket(x) for x in f['items'])
    if t == 'paren': return has_zero_bracket(f['body'])
    return False

def fbits(b): return ''.join(format(x, '08b') for x in b)

def float_bytes(name, n, v):
    """the IEEE encoding of v for a float token, by struct (bfloat: the upper half of the single-precision encoding, exact for the values used)"""
    if name == 'bfloat': return struct.pack('>f', v)[:2]
    code = {16: 'e', 32: 'f', 64: 'd'}[n]
    end = '<' if name == 'floatle' or (name == 'floatne' and sys.byteorder == 'little') else '>'
    return struct.pack(end + code, v)

def float_back(name, n, b):
    if name == 'bfloat': return struct.unpack('>f', b + b'\0\0')[0]
    code = {16: 'e', 32: 'f', 64: 'd'}[n]
    end = '<' if name == 'floatle' or (name == 'floatne' and sys.byteorder == 'little') else '>'
    return struct.unpack(end + code, b)[0]

def rand_value(rng, name, n):
    """(python value to pack, expected bits, value unpack returns (canonical))"""
    if name in ('uint', 'uintle', 'uintbe', 'uintne'):
        v = rng.choice([0, 1, (1 << n) - 1, rng.randrange(1 << n)]); be = format(v, f'0{n}b')
        if name.endswith('le') or (name.endswith('ne') and sys.byteorder == 'little'): be = ''.join(be[i:i + 8] for i in range(n - 8, -1, -8))
        return v, be, v
    if name in ('int', 'intle', 'intbe', 'intne'):
        v = rng.choice([0, -1, (1 << (n - 1)) - 1, -(1 << (n - 1)), rng.randrange(-(1 << (n - 1)), 1 << (n - 1))]); be = format(v & ((1 << n) - 1), f'0{n}b')
        if name.endswith('le') or (name.endswith('ne') and sys.byteorder == 'little'): be = ''.join(be[i:i + 8] for i in range(n - 8, -1, -8))
        return v, be, v
    if name == 'hex':
        k = n // 4 if n is not None else rng.randrange(0, 4); s = ''.join(rng.choice('0123456789abcdef') for _ in range(k))
        return s, ''.join(format(int(c, 16), '04b') for c in s), s
    if name == 'oct':
        s = ''.join(rng.choice('01234567') for _ in range(n // 3)); return s, ''.join(format(int(c), '03b') for c in s), s
    if name in ('bin', 'bits'):
        k = n if n is not None else rng.randrange(0, 9); s = ''.join(rng.choice('01') for _ in range(k))
        return (('0b' + s if s else '') if name == 'bits' else s), s, (['bits', s] if name == 'bits' else s)
    if name == 'bytes':
        k = n if n is not None else rng.randrange(0, 3); b = bytes(rng.randrange(256) for _ in range(k))
        return list(b), fbits(b), ['b', list(b)]                      # bytes travel as a list of ints (JSON); pyval() restores them
    if name == 'bool':
        v = rng.random() < 0.5; return v, '1' if v else '0', v
    if name == 'pad': return None, '0' * n, None
    if name in FLOATK:
        v = rng.choice([0.0, -0.0, 0.0, -0.0, 1.5, -2.25, 1e-3, 100.0, 0.5, -0.0625, 3.0, float('inf'), float('-inf'), float('nan')])
        if name == 'bfloat' and v == 1e-3: v = 0.25
        b = float_bytes(name, n, v); return v, fbits(b), ['f', float_back(name, n, b).hex()]
    if name in GC:
        from props.c10 import ref_enc
        v = rng.randrange(0, 40) if name in ('ue', 'uie') else rng.randrange(-20, 21)
        if rng.random() < 0.25:
            k = rng.choice([7, 8, 31, 32, 33, 47, 48, 49, 50, 52, 53, 54, 63, 64, 65, 70, 100])
            v = (1 << k) + rng.choice([-3, -2, -1, 0, 1])
            if name in ('se', 'sie') and rng.random() < 0.5: v = -v
        return v, ref_enc(name, v), v

# ---------- values written as text ----------
def spell(rng, nm, v, in_format):
    """A text spelling of the conforming value v for a token of kind nm (None when there is none): decimal integers with an optional sign and zero padding, the
    notations of Python's float(), digits of the hex / oct / bin tokens in either letter case with or without the 0x / 0o / 0b prefix, prefixed literals for bits,
    '1' / '0' / 'True' / 'False' for bool.  Surrounding whitespace: anywhere inside a format string (it is stripped from formats); around numbers when the text is
    handed over as a value (int() and float() accept it).  What the text stands for is decided here by int() / float() of plain Python, not by the library."""
    ws = lambda s: rng.choice(['', '', '', ' ', '  ', '\t']) + s + rng.choice(['', '', '', ' ', '  '])
    if nm in INTK or nm in GC:
        signed = nm.startswith('int') or nm in ('se', 'sie')
        sign = '-' if v < 0 else rng.choice(['', '', '+'])
        if v == 0 and signed and rng.random() < 0.15: sign = '-'
        s = sign + rng.choice(['', '', '0', '00', '000', '0000000']) + str(abs(v))
        assert int(s) == v
        return ws(s)
    if nm in FLOATK:
        if v != v: s = rng.choice(['nan', 'nan', 'NaN'])
        elif v in (float('inf'), float('-inf')): s = ('-' if v < 0 else rng.choice(['', '+'])) + rng.choice(['inf', 'inf', 'Infinity', 'INF'])
        else:
            a = abs(v); neg = math.copysign(1.0, v) < 0
            forms = [repr(a), repr(a), '%.12f' % a, '%e' % a, '%E' % a, '0' + repr(a), '000' + repr(a), repr(a) + '0']
            if a == int(a) and 'e' not in repr(a): forms += [str(int(a)), str(int(a)) + '.', str(int(a)) + 'e0']
            if 0 < a < 1 and repr(a).startswith('0.'): forms += [repr(a)[1:]]
            s = ('-' if neg else rng.choice(['', '', '+'])) + rng.choice(forms)
            if float(s) != v or math.copysign(1.0, float(s)) != math.copysign(1.0, v): s = repr(v)
        return ws(s)
    if nm == 'hex':
        if not v: return None
        s = rng.choice([v, v, v.upper(), ''.join(rng.choice([c, c.upper()]) for c in v)])
        assert int(s, 16) == int(v, 16) and len(s) == len(v)
        s = rng.choice(['', '', '0x', '0X']) + s
    elif nm == 'oct':
        if not v: return None
        s = rng.choice(['', '', '0o', '0O']) + v
    elif nm == 'bin':
        if not v: return None
        s = rng.choice(['', '', '0b', '0B']) + v
    elif nm == 'bits':
        b = v[2:]
        if not b: return None
        forms = ['0b' + b, '0b' + b, '0B' + b]
        if len(b) % 4 == 0: h = format(int(b, 2), f'0{len(b) // 4}x'); forms += ['0x' + h, '0x' + h.upper(), '0X' + h]
        if len(b) % 3 == 0: forms += ['0o' + format(int(b, 2), f'0{len(b) // 3}o')]
        s = rng.choice(forms)
    elif nm == 'bool':
        return rng.choice(['1', 'True']) if v else rng.choice(['0', 'False'])
    else:
        return None                 # bytes have no text form
    return ws(s) if in_format else s

def mk_case(rng, f, ctx=None, **extra):
    """render the format, draw a value for every elementary token that still needs one, and record per token the reference encoding"""
    ctx = ctx or new_ctx()
    items = f['items'] if f['t'] == 'seq' else [f]
    sp = lambda: rng.choice(['', '', ' ', '  '])
    parts = [render(x, rng, ctx) for x in items]
    seps = f.get('seps') or [sp() + ',' + sp() for _ in parts[1:]]
    join = lambda k, lo=0, hi=None: ''.join(parts[i][k] + (seps[i] if i < (len(parts) if hi is None else hi) - 1 else '') for i in range(lo, len(parts) if hi is None else hi))
    plain, full = join(0), join(1)
    flat = [L for x in parts for L in x[2]]
    toks, vals, bits, back, args, etext = [], [], [], [], [], []
    npos = []                       # positional values consumed by each top-level item
    for x in parts:
        k = 0
        for L in x[2]:
            nm, n = L['nm'], L['n']
            toks.append([nm, n])
            if L['mode'] in ('emb', 'kwv'):
                v, b, bk, t = L['v'], L['bits'], L['back'], L['txt']
                if L['mode'] == 'emb' and ''.join(t.split()) in ctx['kw']: return None           # the text of a value must not happen to be a keyword of this call
            else:
                v, b, bk = rand_value(rng, nm, n)
                t = None
                if nm != 'pad':
                    k += 1
                    if L['mode'] == 'postext': t = spell(rng, nm, v, False)
                    args.append(jv(v) if t is None else t)
            if t is None and nm != 'pad':       # a spelling for the flat token string
                t = spell(rng, nm, v, True) if rng.random() < 0.5 else (None if isinstance(v, (bytes, list)) or v == '' or v == '0b' else str(v))
            vals.append(jv(v)); bits.append(b); back.append(bk); etext.append(t)
        npos.append(k)
    c = {'op': 'pack', 'fmt': full, 'plain': plain, 'kw': ctx['kw'], 'lkw': {k: ctx['kw'][k] for k in ctx['lk']}, 'toks': toks, 'vals': vals, 'bits': bits, 'back': back,
         'args': args, 'etext': etext, 'zero_bracket': has_zero_bracket(f), 'arity': rng.choice([0, 0, 0, -1, 1]),
         'ucls': rng.choice(CLASSES), 'umeth': rng.choice(['unpack', 'unpack', 'readlist', 'peeklist'])}
    # the top-level items of the format, each with its own text (used for the same format given as a LIST of items) and, for an item that is one plain token,
    # the equivalent non-text item of a list format: an int for 'bits:n', a Dtype for the others
    c['parts'] = [[x[0], part_alt(it)] for it, x in zip(items, parts)]
    if len(parts) >= 2:
        # the format is 'f1, f2': the bits are those of f1 followed by those of f2
        k = rng.randrange(1, len(parts))
        c['split'] = {'f1': join(1, 0, k), 'f2': join(1, k, None), 'a1': sum(npos[:k]), 't1': sum(len(x[2]) for x in parts[:k])}
    c.update(extra)
    return c

def part_alt(f):
    if f['t'] == 'fixed':
        if f['name'] == 'bits': return ['int', f['n']]
        return ['dtype', f['name'], None if f['name'] == 'bool' else f['n']]
    if f['t'] in ('var', 'stretch'): return ['dtype', f['name'], None]
    return None

# ---------- a format given as a list of items ----------
def partition(rng, units, p_cut=0.5, p_alt=0.5):
    """units: [[text, alt], ...] -> the items of a list format: consecutive units grouped (a group is one string, its tokens joined by commas); a group of one
    plain token may instead be the int / Dtype that means the same"""
    out, i = [], 0
    while i < len(units):
        j = i + 1
        while j < len(units) and rng.random() >= p_cut: j += 1
        if j == i + 1 and units[i][1] is not None and rng.random() < p_alt: out.append(list(units[i][1]))
        else: out.append(['str', rng.choice([', ', ',', ' , ']).join(u[0] for u in units[i:j])])
        i = j
    return out

def all_groupings(n):
    """every way to cut n consecutive units into consecutive groups, as lists of (first, past-the-last) index pairs"""
    for mask in range(1 << max(n - 1, 0)):
        out, i = [], 0
        for j in range(1, n + 1):
            if j == n or mask >> (j - 1) & 1: out.append((i, j)); i = j
        yield out

def grouped(rng, units, groups, p_alt):
    return [list(units[i][1]) if j == i + 1 and units[i][1] is not None and rng.random() < p_alt else ['str', ', '.join(u[0] for u in units[i:j])] for i, j in groups]

def list_format(items, as_tuple=False):
    """the python object for a list format recorded as [['str', text] | ['int', n] | ['dtype', name, length], ...]"""
    from bitstring import Dtype
    out = [it[1] if it[0] in ('str', 'int') else (Dtype(it[1]) if it[2] is None else Dtype(it[1], it[2])) for it in items]
    return tuple(out) if as_tuple else out

def show_list(items):
    return '[' + ', '.join(repr(it[1]) if it[0] in ('str', 'int') else (f"Dtype({it[1]!r})" if it[2] is None else f"Dtype({it[1]!r}, {it[2]})") for it in items) + ']'

STRETCH_KINDS = ('bits', 'bin', 'hex', 'oct', 'bytes', 'uint', 'int', 'pad', 'float')
def stretch_value(rng, K):
    """content for a token without a length -> (value to pack or None when pack has no such token, bits, what reading returns); the reading side is worked out
    from the bits alone (digits in base 16 / 8 / 2, two's complement, IEEE by struct)"""
    unit = {'hex': 4, 'oct': 3, 'bytes': 8}.get(K, 1)
    k = rng.choice([0, 1, 1, 2, 3, 4, 5, 7, 8, 9, 15, 16, 17, 31, 32, 33, 64, 65, 100])
    if K in ('uint', 'int'): k = max(k, 1)
    if K == 'float': k = rng.choice([16, 32, 64])
    b = ''.join(rng.choice('01') for _ in range(k * unit)) if rng.random() < 0.8 else rng.choice('01') * (k * unit)
    if K == 'float':
        code = {16: 'e', 32: 'f', 64: 'd'}[k]
        by = int(b, 2).to_bytes(k // 8, 'big'); v = struct.unpack('>' + code, by)[0]
        return None, b, ['f', v.hex()]
    if K == 'bits': return ('0b' + b if b else ''), b, ['bits', b]
    if K == 'bin': return b, b, b
    if K == 'hex': h = ''.join(format(int(b[i:i + 4], 2), 'x') for i in range(0, len(b), 4)); return h, b, h
    if K == 'oct': o = ''.join(str(int(b[i:i + 3], 2)) for i in range(0, len(b), 3)); return o, b, o
    if K == 'bytes': by = [int(b[i:i + 8], 2) for i in range(0, len(b), 8)]; return by, b, ['b', by]
    if K == 'uint': return None, b, int(b, 2)
    if K == 'int': return None, b, int(b, 2) - ((1 << len(b)) if b[0] == '1' else 0)
    if K == 'pad': return None, b, None

def gen_listread(rng, tier):
    """A record with ONE token that has no length, anywhere in it: any tokens in front (self-delimiting codes included), only tokens of known length behind (plain,
    struct codes, factors, pads), read back with the format given as a list in which the length-less token's item is not the last one - items that are strings of one
    or several tokens, ints or Dtype objects - and packed through the same lists."""
    q = tier == 'quick'
    def fixed_unit():
        r = rng.random()
        if r < 0.15:
            pre = rng.choice('<>=@')
            return {'t': 'struct', 'pre': pre, 'codes': ''.join((str(k) if (k := rng.choice([1, 1, 2, 3])) > 1 else '') + rng.choice(list(STRUCT)) for _ in range(rng.randrange(1, 3)))}
        while True:
            t = gen_token(rng, False)
            if t['t'] == 'fixed': break
        if r < 0.3: return {'t': 'rep', 'n': rng.choice([1, 2, 3]), 'body': t, 'bracket': rng.random() < 0.5}
        if r < 0.36: return {'t': 'rep', 'n': 2, 'bracket': True, 'body': {'t': 'seq', 'items': [t, {'t': 'fixed', 'name': 'bool', 'n': 1, 'spell': 'bare'}]}}
        return t
    for _ in range(160 if q else 3000):
        ctx = new_ctx()
        pre = [({'t': 'var', 'name': rng.choice(list(GC))} if rng.random() < 0.3 else fixed_unit()) for _ in range(rng.choice([0, 1, 1, 2, 3]))]
        post = [fixed_unit() for _ in range(rng.choice([1, 1, 1, 2, 3]) if rng.random() < 0.9 else 0)]
        K = rng.choice(STRETCH_KINDS)
        units, leaves = [], []
        for f in pre + [None] + post:
            if f is None:
                v, b, bk = stretch_value(rng, K)
                units.append([K, ['dtype', K, None]]); leaves.append([K, None, jv(v), b, bk]); continue
            plain, _, fl = render(f, rng, ctx)
            units.append([plain, part_alt(f)])
            for L in fl:
                v, b, bk = rand_value(rng, L['nm'], L['n'])
                leaves.append([L['nm'], L['n'], jv(v), b, bk])
        lkw = {k: ctx['kw'][k] for k in ctx['lk']}
        si = len(pre)
        lists = []
        if q or len(units) > 6:
            # the length-less token ends its item / shares it with what precedes / with part of what follows; then random groupings
            if post:
                lists.append([['str', ', '.join(u[0] for u in units[:si + 1])]] + partition(rng, units[si + 1:], 0.6, 0.6))
                lists.append(partition(rng, units[:si], 0.6, 0.5) + [list(units[si][1]) if rng.random() < 0.5 else ['str', K]] + partition(rng, units[si + 1:], 0.5, 0.7))
                if len(post) > 1: lists.append(partition(rng, units[:si], 0.5, 0.3) + [['str', ', '.join(u[0] for u in units[si:si + 2])]] + partition(rng, units[si + 2:], 0.5, 0.5))
            lists.append(partition(rng, units, 0.5, 0.5))
        else:
            for g in all_groupings(len(units)):
                lists.append(grouped(rng, units, g, 0.0))
                if any(j == i + 1 and units[i][1] is not None for i, j in g): lists.append(grouped(rng, units, g, 0.7))
        yield {'op': 'listread', 'units': units, 'leaves': leaves, 'lkw': lkw, 'lists': lists, 'K': K, 'cls': rng.choice(CLASSES), 'scls': rng.choice(['ConstBitStream', 'BitStream']),
               'meth': rng.choice(['readlist', 'readlist', 'peeklist']), 'pre': ''.join(rng.choice('01') for _ in range(rng.choice([0, 0, 1, 3, 8, 13]))), 'tuple': rng.random() < 0.15}

# ---------- values that do not fit ----------
def int_range(nm, n):
    return (-(1 << (n - 1)), (1 << (n - 1)) - 1) if nm.startswith('int') else (0, (1 << n) - 1)

def fit_bits(nm, n, v):
    """the bits of the value v in a token of kind nm (n bits), None when v is not a value of that token: integers by int.to_bytes (whole bytes) / two's complement digits,
    the unsigned codes by the tables, bool by its two values"""
    if nm in GC:
        from props.c10 import ref_enc
        return ref_enc(nm, v)
    if nm == 'bool': return {0: '0', 1: '1'}.get(v) if v in (0, 1) else None
    lo, hi = int_range(nm, n)
    if not lo <= v <= hi: return None
    if n % 8 == 0:
        order = 'little' if nm.endswith('le') or (nm.endswith('ne') and sys.byteorder == 'little') else 'big'
        return fbits(v.to_bytes(n // 8, order, signed=nm.startswith('int')))
    return format(v & ((1 << n) - 1), f'0{n}b')

def edge_values(rng, nm, n, few):
    """values around the two ends of the range of an n-bit integer token: just inside, just outside, outside by less than a factor of two (where a wrapped value has
    the right number of bits), exact multiples of 2**n away from a value that fits, further out by whole bytes, far away"""
    lo, hi = int_range(nm, n); M = 1 << n
    must = [hi + 1, lo - 1, M - 1, M, -M, hi, lo]
    r_in = rng.randrange(lo, hi + 1)
    more = [hi + 2, lo - 2, M + 1, -M + 1, -M - 1, hi + M, lo - M, lo + M, hi - M, r_in + M, r_in - M, r_in + 2 * M, 2 * M - 1, -2 * M, (1 << (n + 8)) - 1, 1 << (n + 8), -(1 << (n + 8)),
            (1 << (n + 8)) + r_in, rng.randrange(hi + 1, hi + M + 1), rng.randrange(lo - M, lo), 256 ** (n // 8 + 1) - 1, -(M >> 1) - 1, (M >> 1),
            (1 << (n + rng.randrange(1, 80))) + rng.randrange(-3, 4), -(1 << (n + rng.randrange(1, 80))) + rng.randrange(-3, 4), 10 ** 30, -10 ** 30,
            0, -1, 1, lo + 1, hi - 1, r_in]
    if few: more = rng.sample(more, 9)
    out = []
    for v in must + more:
        if v not in out: out.append(v)
    return out

FILLERS = [('uint:8', 200, '200', '11001000'), ('bool', True, '1', '1'), ('hex:8', 'a5', 'a5', '10100101'), ('ue', 3, '3', '00100'), ('pad:3', None, None, '000'),
           ('int:5', -3, '-3', '11101'), ('bits:3', '0b101', '0b101', '101'), ('intle:16', -2, '-2', '1111111011111111'), ('>H', 513, None, '0000001000000001'), ('se', -1, '-1', '011')]

def range_token(rng, nm, n):
    if n is None: return (nm if nm != 'bool' else rng.choice(['bool', 'bool:1'])), {}
    a = ALIAS[nm] if nm in ALIAS and rng.random() < 0.2 else nm
    r = rng.random()
    if r < 0.4: return f'{a}:{n}', {}
    if r < 0.65: return f'{a}{n}', {}
    if r < 0.8: return f'{a} : {n}', {}
    return f'{a}:w', {'w': n}

def gen_range(rng, tier):
    """Every integer token (the eight kinds with any spelling of the length, struct codes with each of the four prefixes and with counts, alone, repeated by a factor,
    between other tokens) packed with a value at or beyond the ends of its range, the value handed over in every way there is.  A value that fits gives its bits;
    one that does not fit - by one, by less than a factor of two, by whole multiples of 2**n, by far - is refused with CreationError and never wrapped."""
    q = tier == 'quick'
    def around():
        return [rng.randrange(len(FILLERS)) for _ in range(rng.choice([0, 0, 1, 2]))]
    def other(nm, n):
        lo, hi = int_range(nm, n); return rng.choice([0, lo, hi, rng.randrange(lo, hi + 1)])
    for nm in INTK:
        bytewise = nm[-2:] in ('le', 'be', 'ne')
        if bytewise: widths = [8, 16, 24, 32, 40, 48, 56, 64] + ([rng.choice([72, 80, 128])] if q else [72, 80, 96, 128, 136, 256])
        else: widths = [8, 16, 32, 64] + (rng.sample([1, 2, 3, 4, 5, 7, 9, 12, 15, 17, 24, 31, 33, 63, 65, 127, 128, 129], 5) if q else list(range(1, 67)) + [127, 128, 129, 255, 256])
        for n in widths:
            for v in edge_values(rng, nm, n, q):
                tok, lkw = range_token(rng, nm, n)
                rep = rng.choice([0, 0, 0, 2, 3])
                els = [[nm, n, other(nm, n)] for _ in range(rep or 1)]; at = rng.randrange(len(els)); els[at][2] = v
                yield {'op': 'range', 'tok': tok, 'lkw': lkw, 'struct': False, 'els': els, 'at': at, 'rep': rep, 'repstyle': rng.choice(['factor', 'bracket']), 'txt': spell(rng, nm, v, True),
                       'pre': around(), 'post': around()}
    # struct codes: each prefix, one or several codes with counts, the value under test in any place
    for code, (sk, sz) in STRUCT.items():
        for pre in '<>=@':
            end = {'<': 'le', '>': 'be', '=': 'ne', '@': 'ne'}[pre] if sz > 1 else ''
            nm, n = sk + end, 8 * sz
            for v in edge_values(rng, nm, n, True) if q else edge_values(rng, nm, n, False):
                if q and rng.random() < 0.45 and v not in ((1 << n) - 1, -(1 << n), int_range(nm, n)[1] + 1, int_range(nm, n)[0] - 1): continue
                group = [[code, rng.choice([1, 1, 1, 2, 3])]]
                for _ in range(rng.choice([0, 0, 1, 2])): group.insert(rng.randrange(len(group) + 1), [rng.choice(list(STRUCT)), rng.choice([1, 1, 2])])
                els, cand = [], []
                for cd, cnt in group:
                    k2, s2 = STRUCT[cd]; nm2 = k2 + ({'<': 'le', '>': 'be', '=': 'ne', '@': 'ne'}[pre] if s2 > 1 else '')
                    for _ in range(cnt):
                        if cd == code: cand.append(len(els))
                        els.append([nm2, 8 * s2, other(nm2, 8 * s2)])
                at = rng.choice(cand); els[at][2] = v
                tok = pre + ''.join((str(cnt) if cnt > 1 or rng.random() < 0.1 else '') + cd for cd, cnt in group)
                rep = rng.choice([0, 0, 0, 2])
                if rep: els = [list(e) for e in els] + [[e[0], e[1], other(e[0], e[1])] for e in els]
                yield {'op': 'range', 'tok': tok, 'lkw': {}, 'struct': True, 'els': els, 'at': at, 'rep': rep, 'repstyle': rng.choice(['factor', 'bracket']), 'txt': spell(rng, nm, v, False),
                       'pre': around(), 'post': around()}
    # the unsigned codes have no negative values, a bool has two values
    for nm in ('ue', 'uie', 'bool'):
        vals = [-1, -2, -3, -255, -256, -(1 << 64), 0, 1, 5] if nm != 'bool' else [2, 3, -1, 255, 256, 0, 1]
        for v in vals + ([-rng.randrange(1, 1 << 70) for _ in range(3 if q else 40)] if nm != 'bool' else []):
            tok, lkw = range_token(rng, nm, None)
            rep = rng.choice([0, 0, 2])
            els = [[nm, None, rng.choice([0, 1])] for _ in range(rep or 1)]; at = rng.randrange(len(els)); els[at][2] = v
            yield {'op': 'range', 'tok': tok, 'lkw': lkw, 'struct': False, 'els': els, 'at': at, 'rep': rep, 'repstyle': rng.choice(['factor', 'bracket']),
                   'txt': spell(rng, nm, v, True) if nm != 'bool' else str(v), 'pre': around(), 'post': around()}

# ---------- formats that contain the same text more than once ----------
def gen_repeat_fmt(rng, ctx, big):
    """One format in which a sub-format B occurs several times, literally the same text: in brackets under different factors (one factor's digits a suffix or a
    prefix of another's: 2 and 12, 1 and 10), without a factor, nested inside another repeated bracket, bare, with the factor on its first token only, and next to
    near-copies (B without its first / last token, B with a token whose name is a tail of the original: uint -> int).  Expansion has to be by position."""
    tight = rng.random() < 0.65
    def tok():
        r = rng.random()
        f = gen_token(rng, False) if r < 0.85 else gen_fmt(rng, 1, False)
        return freeze(f, rng, ctx)
    k = rng.choice([1, 2, 2, 2, 3])
    T = [tok() for _ in range(k)]
    seps = [(',' if tight else rng.choice([',', ', ', ' , '])) for _ in T[1:]]
    def seq(items, s=None):
        return items[0] if len(items) == 1 else {'t': 'seq', 'items': list(items), 'seps': list(s if s is not None else seps[:len(items) - 1])}
    B = seq(T)
    def rep(n, body, bracket=True):
        if n is None: return {'t': 'paren', 'body': body}
        r = {'t': 'rep', 'n': n, 'body': body, 'bracket': bracket}
        if tight or rng.random() < 0.5: r['ws'] = ['', '']
        return r
    # factors related by their digits
    a = rng.choice([None, 0, 1, 1, 2, 2, 3])
    fam = [a]
    cap = 113 if big else 23
    for _ in range(3):
        r = rng.random()
        if a is None: n = rng.choice([None, 1, 2, 3, 10, 12])
        elif r < 0.4: n = int(rng.choice('12') + str(a))                 # 2 -> 12, 22
        elif r < 0.55: n = int(str(a) + rng.choice('012')) if a else 10  # 2 -> 20, 21
        elif r < 0.65: n = int('1' + rng.choice('01') + str(a))          # 2 -> 102, 112
        elif r < 0.75: n = a
        elif r < 0.85: n = None
        else: n = rng.choice([0, 1, 2, 3, 4])
        if n is not None and n > cap: n = int('1' + str(a))
        fam.append(n)
    rng.shuffle(fam)
    def near():
        r = rng.random()
        if r < 0.3 and k > 1: return seq(T[1:], seps[1:])                # B without its first token
        if r < 0.5 and k > 1: return seq(T[:-1], seps[:-1])              # ... without its last
        if r < 0.7:                                                      # a further token in front / behind
            x = tok(); return seq([x] + T, [seps[0] if seps else ','] + seps) if rng.random() < 0.5 else seq(T + [x], seps + [seps[0] if seps else ','])
        # the same text with the first letter of a token name dropped (uint:8 -> int:8): the original ends with the new text
        for i, t in enumerate(T):
            if len(t['flat']) == 1 and t['flat'][0]['mode'] in ('pos', 'postext') and t['plain'].startswith('uint') and t['flat'][0]['nm'].startswith('uint'):
                L = dict(t['flat'][0]); L['nm'] = L['nm'][1:]
                t2 = {'t': 'lit', 'plain': t['plain'][1:], 'full': t['full'][1:], 'flat': [L]}
                return seq(T[:i] + [t2] + T[i + 1:])
        return B
    occ = []
    for n in fam:
        r = rng.random()
        body = B if r < 0.8 else near()
        if r < 0.55: o = rep(n, body)
        elif r < 0.7:                                                    # nested inside another repeated bracket, with or without a neighbour
            inner = rep(n if n is None or n <= 12 else 12, body)
            other = rng.choice([None, tok(), tok(), rep(rng.choice([None, 2]), body)])
            its = [inner] if other is None else ([other, inner] if rng.random() < 0.5 else [inner, other])
            o = rep(rng.choice([None, 1, 2, 3]), seq(its, [rng.choice(seps) if seps else ','] * (len(its) - 1)))
        elif r < 0.8: o = body                                           # bare
        elif r < 0.9 and n is not None:                                  # 'n*t1, t2': the factor belongs to the first token only
            first = T[0]
            head = rep(n, first, bracket=False) if len(first['flat']) == 1 and not any(ch in first['plain'] for ch in '(*,') and first['plain'][0] not in '<>=@' else rep(n, first)
            o = seq([head] + T[1:])
        else: o = rep(None, rep(n, body))
        occ.append(o)
    if rng.random() < 0.4: occ.insert(rng.randrange(len(occ) + 1), tok())
    top = {'t': 'seq', 'items': occ}
    if tight: top['seps'] = [','] * (len(occ) - 1)
    if rng.random() < 0.15: top = {'t': 'seq', 'items': [rep(rng.choice([None, 1, 2]), top), tok()]}
    return top

def gen_cases(rng, tier):
    big = tier != 'quick'
    N = 500 if tier == 'quick' else 8000
    for _ in range(N):
        f = gen_fmt(rng, rng.choice([0, 1, 2, 2, 3]))
        c = mk_case(rng, f, new_ctx(rng.choice([0, 0, 0, 0.3, 0.6, 1.0]), rng.choice([0, 0, 0.5, 1.0])))
        if c: yield c
    # one length-less ("filler") token inside a sequence: variable-length (exp-Golomb) and fixed tokens before it, only fixed-length ones after it;
    # unpack must size the filler by what is left after the tokens that FOLLOW it
    for _ in range(120 if tier == 'quick' else 2000):
        def fixed():
            while True:
                t = gen_token(rng, False)
                if t['t'] == 'fixed': return t
        pre = [rng.choice([{'t': 'var', 'name': rng.choice(list(GC))}, fixed(), {'t': 'var', 'name': rng.choice(list(GC))}]) for _ in range(rng.randrange(0, 3))]
        post = [fixed() for _ in range(rng.randrange(0, 3))]
        f = {'t': 'seq', 'items': pre + [{'t': 'stretch', 'name': rng.choice(['bits', 'bin', 'hex', 'bytes'])}] + post}
        c = mk_case(rng, f, new_ctx(rng.choice([0, 0, 0.4]), rng.choice([0, 0, 0.5])), arity=0)
        if c: yield c
    # the same sub-format text several times in one format: expansion is by position, never by text
    for _ in range(250 if tier == 'quick' else 5000):
        ctx = new_ctx(rng.choice([0, 0, 0, 0.4, 1.0]), rng.choice([0, 0, 0, 0.5]))
        f = gen_repeat_fmt(rng, ctx, big)
        if len(flatten(f)) > (400 if big else 160): continue
        c = mk_case(rng, f, ctx, repeat=True)
        if c: yield c
    # values written as text, every kind of token, each way of handing a value over (in the format, as a positional str, through a keyword), alone and inside factors / brackets
    for _ in range(250 if tier == 'quick' else 5000):
        def valued():
            while True:
                t = gen_token(rng, False)
                if t['t'] == 'struct' or t['t'] == 'var' or t['t'] == 'fixed' and t['name'] not in ('pad', 'bytes'): return t
        r = rng.random()
        if r < 0.4: f = valued()
        elif r < 0.7: f = {'t': 'seq', 'items': [valued() for _ in range(rng.randrange(2, 4))]}
        else: f = {'t': 'seq', 'items': [valued(), {'t': 'rep', 'n': rng.choice([1, 2, 3]), 'bracket': True, 'body': {'t': 'seq', 'items': [valued(), valued()]}}, valued()][:rng.choice([2, 3])]}
        vp, tp = rng.choice([(1.0, 0), (1.0, 0), (0, 1.0), (0.5, 1.0), (0.7, 0.5)])
        c = mk_case(rng, f, new_ctx(vp, tp), arity=0)
        if c: yield c
    # the same list-of-formats pack twice, and its first item alone afterwards (each item is parsed and cached on its own)
    for _ in range(40 if tier == 'quick' else 600):
        items = []
        for _ in range(rng.randrange(2, 4)):
            f = gen_fmt(rng, rng.choice([0, 1]), False); kw = {}
            txt = show(f, rng, kw)
            items.append([None if kw else txt, flatten(f)])
        if any(i[0] is None for i in items): continue
        toks = [t for i in items for t in i[1]]
        vals = [rand_value(rng, nm, n) for nm, n in toks]
        n0 = len(items[0][1])
        yield {'op': 'packlist', 'fmts': [i[0] for i in items], 'vals': [v[0] for v in vals], 'bits': [v[1] for v in vals], 'n0': n0}
    for _ in range(80 if tier == 'quick' else 1200):
        name = rng.choice(['hex', 'bin', 'oct', 'bytes', 'bits'])
        w = {'hex': 4, 'bin': 1, 'oct': 3, 'bytes': 8, 'bits': 1}[name]
        nd = rng.randrange(1, 5)
        stated_units = rng.choice([0, 0, nd - 1, nd + 1, 2 * nd])            # digits (bytes for 'bytes'); never nd
        stated = stated_units * (1 if name == 'bytes' else w)
        val = ''.join(rng.choice({'hex': '0123456789abcdef', 'bin': '01', 'oct': '01234567', 'bytes': 'ab', 'bits': '01'}[name]) for _ in range(nd))
        other = rng.choice([None, ('uint:8', 1), ('bool', True)])
        yield {'op': 'missized', 'name': name, 'stated': stated, 'val': val, 'spell': rng.choice(['colon', 'joined', 'kw']), 'other': other, 'first': rng.random() < 0.5}
    bad = ['(uint:8', 'uint:8)', '2*(uint:8', 'x*(uint8), 2*(uint8)', '*(uint:8)', '2*', 'uint:8,,(', '((uint:8)', ')(', '3*(', 'a*(b*(c))', '2*(uint8))', 'uint:8=1=2', ':8', 'uint::8', '2**uint8', '-1*(uint8)', '1.5*(uint8)']
    for s in bad:
        yield {'op': 'malformed', 'fmt': s}
    for depth in (50, 400, 1100, 3000):
        yield {'op': 'malformed', 'fmt': '(' * depth + 'uint:8' + ')' * depth}
        yield {'op': 'malformed', 'fmt': '2*(' * min(depth, 12) + 'uint:8' + ')' * min(depth, 12)}
    for _ in range(60 if tier == 'quick' else 1500):
        chars = '()*,:=0123456789 uintbhexabc<>'
        yield {'op': 'malformed', 'fmt': ''.join(rng.choice(chars) for _ in range(rng.randrange(1, 14)))}

_gen_cases_base = gen_cases
def gen_cases(rng, tier):
    """every case of the base generator, and for every format text with a bracket (well-formed or malformed) the bracket expansion on its own:
    utils.expand_brackets(text without whitespace) is compared with the Coq model Tokenizer.expand_brackets and with an independent recursive-descent expansion"""
    seen, budget = set(), (400 if tier == 'quick' else 6000)
    # an auxiliary generator seeded from rng (whose state is then put back: the cases of the earlier rounds stay exactly what they were for a given seed)
    st = rng.getstate(); aux = random.Random(rng.getrandbits(64)); rng.setstate(st)
    yield from gen_range(aux, tier)
    yield from gen_listread(aux, tier)
    for c in _gen_cases_base(rng, tier):
        if c['op'] == 'pack' and c.get('parts'):
            # the same format as a LIST of items: its top-level items grouped at random, single plain tokens also as ints / Dtype objects
            c['lfmt'] = partition(aux, c['parts'], aux.choice([0.3, 0.6, 1.0]), 0.4)
            c['lcls'] = aux.choice(CLASSES); c['lmeth'] = aux.choice(['unpack', 'readlist', 'peeklist'])
            c['lpre'] = ''.join(aux.choice('01') for _ in range(aux.choice([0, 0, 2, 8, 11]))); c['ltuple'] = aux.random() < 0.15
        yield c
        texts = [c['fmt']] if isinstance(c.get('fmt'), str) else [f for f in c.get('fmts', []) if isinstance(f, str)]
        for t in texts:
            t = ''.join(t.split())
            if ('(' in t or ')' in t) and t not in seen and len(t) <= 160 and budget > 0 and t.isascii() and '"' not in t:
                seen.add(t); budget -= 1
                yield {'op': 'expand', 'fmt': t}
    # shapes the grammar generator does not produce: digit runs that merge into new factors, stray brackets, factors with leading zeros, empty bodies
    for t in ['1(2*(a))', 'a)(b)', '(a))', '007*(a)', '0*(a),b', 'a,0*(b)', '2*(),a', '()', '2*(a,3*(b,(c)),d),e', '12*(a)', '(a,b),3*(a,b)', '2*(a,b),12*(a,b)', '3*(x,2*(f)),12*(f)',
              '2*(u8)3*(u4)', '*(a)', 'x*(a)', '2*((a)', '((a),(b))', '10*(a,b)', '9*(9*(a))']:
        yield {'op': 'expand', 'fmt': t}
    for _ in range(40 if tier == 'quick' else 800):
        yield {'op': 'expand', 'fmt': ''.join(rng.choice('()*,0123a:') for _ in range(rng.randrange(1, 13)))}

def ref_expand(s):
    """independent expansion by recursive descent, for well-formed inputs only (None otherwise): seq := item (',' item)* ; item := [digits '*'] '(' seq ')' | text without brackets or commas.
    A bracket with factor n stands for its expanded body written n times joined by commas (once without a factor; nothing at all for n = 0)."""
    pos = 0
    def seq():
        nonlocal pos
        parts = [item()]
        while pos < len(s) and s[pos] == ',':
            pos += 1; parts.append(item())
        return ','.join(parts)
    def item():
        nonlocal pos
        st = pos
        while pos < len(s) and s[pos].isdigit() and s[pos].isascii(): pos += 1
        if pos > st and s[pos:pos + 2] == '*(':
            n = int(s[st:pos]); pos += 2; body = seq()
            if pos >= len(s) or s[pos] != ')': raise SyntaxError
            pos += 1
            if pos < len(s) and s[pos] not in ',)': raise SyntaxError          # text glued to a bracket: not a well-formed format
            return ','.join([body] * n)
        pos = st
        if s[pos:pos + 1] == '(':
            pos += 1; body = seq()
            if pos >= len(s) or s[pos] != ')': raise SyntaxError
            pos += 1
            if pos < len(s) and s[pos] not in ',)': raise SyntaxError
            return body
        while pos < len(s) and s[pos] not in '(),': pos += 1
        if pos < len(s) and s[pos] == '(': raise SyntaxError                   # text glued in front of a bracket ("a(b)", "x*(a)")
        return s[st:pos]
    try:
        r = seq()
        return r if pos == len(s) else None
    except (SyntaxError, IndexError, RecursionError):
        return None

def kind(c): return 'pack_repeat' if c.get('repeat') else c['op']

def canon(v):
    import bitstring
    if isinstance(v, float): return ['f', v.hex()]
    if isinstance(v, bytes): return ['b', list(v)]
    if isinstance(v, bitstring.Bits): return ['bits', v.bin]
    return v

def pyval(v):
    return bytes(v) if isinstance(v, list) else v

def run_impl(c):
    import bitstring
    from bitstring import pack, Bits
    if c['op'] == 'expand':
        return attempt(lambda: bitstring.utils.expand_brackets(c['fmt']), 20)
    if c['op'] == 'malformed':
        def f():
            r = {}
            for name, fn in (('pack', lambda: pack(c['fmt'], 1, 2, 3).bin), ('bits', lambda: Bits(c['fmt']).bin), ('unpack', lambda: [canon(x) for x in Bits('0xabcdef').unpack(c['fmt'])]),
                             ('pre', lambda: bitstring.utils.preprocess_tokens(c['fmt']))):
                r[name] = list(attempt(fn, 5))
            return r
        return attempt(f, 30)
    if c['op'] == 'missized':
        nm, st, val = c['name'], c['stated'], c['val']
        tok = {'colon': f'{nm}:{st}', 'joined': f'{nm}{st}', 'kw': f'{nm}:n'}[c['spell']]
        kw = {'n': st} if c['spell'] == 'kw' else {}
        pyv = val.encode() if nm == 'bytes' else (('0b' + val) if nm == 'bits' else val)
        fm, vs = [tok], [pyv]
        if c['other']:
            if c['first']: fm, vs = [c['other'][0]] + fm, [c['other'][1]] + vs
            else: fm, vs = fm + [c['other'][0]], vs + [c['other'][1]]
        r = {'pack': list(attempt(lambda: pack(', '.join(fm), *vs, **kw).bin))}
        if nm != 'bytes' and c['spell'] != 'kw':
            emb = ', '.join(f'{t}={v}' for t, v in zip(fm, vs))
            r['string'] = list(attempt(lambda: Bits(emb).bin))
        return ('ok', r)
    if c['op'] == 'packlist':
        vals = [v for v in c['vals'] if v is not None]
        def g():
            pv = [pyval(v) for v in vals]
            a = pack(c['fmts'], *pv).bin
            b = pack(c['fmts'], *pv).bin
            k = sum(1 for v in c['vals'][:c['n0']] if v is not None)
            first = pack(c['fmts'][0], *pv[:k]).bin
            joined = pack(', '.join(c['fmts']), *pv).bin
            return [a, b, first, joined]
        return attempt(g, 20)
    if c['op'] == 'range':
        tok, lkw, els, at = c['tok'], c['lkw'], c['els'], c['at']
        v, txt, rep = els[at][2], c['txt'], c['rep']
        wrap = lambda t: t if not rep else (f"{rep}*{t}" if c['repstyle'] == 'factor' else f"{rep}*({t})")
        pre = [FILLERS[i] for i in c['pre']]; post = [FILLERS[i] for i in c['post']]
        fv = lambda fl: [x[1] for x in fl if x[1] is not None]
        def fmt(T): return ', '.join([x[0] for x in pre] + [T] + [x[0] for x in post])
        def vals(target): return fv(pre) + [target if i == at else e[2] for i, e in enumerate(els)] + fv(post)
        R = {'pos': lambda: pack(fmt(wrap(tok)), *vals(v), **lkw).bin,
             'postext': lambda: pack(fmt(wrap(tok)), *vals(txt), **lkw).bin,
             'list': lambda: pack([x[0] for x in pre] + [wrap(tok)] + [x[0] for x in post], *vals(v), **lkw).bin,
             'tuple_text': lambda: pack(tuple([x[0] for x in pre] + [wrap(tok)] + [x[0] for x in post]), *vals(txt), **lkw).bin}
        if not c['struct']:
            # the value in the format text / behind a keyword: with a factor every copy takes it
            R['emb'] = lambda: pack(fmt(wrap(tok + ' = ' + txt)), *(fv(pre) + fv(post)), **lkw).bin
            R['kwv'] = lambda: pack(fmt(wrap(tok + '=val')), *(fv(pre) + fv(post)), val=v, **lkw).bin
            R['kwvtext'] = lambda: pack(fmt(wrap(tok + '=val')), *(fv(pre) + fv(post)), val=txt, **lkw).bin
            if not lkw and all(x[2] is not None or x[1] is None for x in pre + post):
                emb = lambda x: x[0] if x[1] is None else f'{x[0]}={x[2]}'
                S = ', '.join([emb(x) for x in pre] + [wrap(tok + '=' + txt)] + [emb(x) for x in post])
                for cn in CLASSES: R['string:' + cn] = lambda cn=cn: cls_of(cn)(S).bin
                R['string:pack'] = lambda: pack(S).bin
                R['string:add'] = lambda: (bitstring.BitArray('0b1') + S).bin[1:]
                def app():
                    b = bitstring.BitStream(); b.append(S); return b.bin
                R['string:append'] = app
        return ('ok', {k: list(attempt(f)) for k, f in R.items()})
    if c['op'] == 'listread':
        exp = ''.join(L[3] for L in c['leaves'])
        lkw = c['lkw']
        def one(items):
            r = {}
            def un():
                o = cls_of(c['cls'])(bin=exp)
                return [canon(x) for x in o.unpack(list_format(items, c['tuple']), **lkw)]
            r['unpack'] = list(attempt(un, 10))
            def rd():
                o = cls_of(c['scls'])(bin=c['pre'] + exp); o.pos = len(c['pre'])
                got = getattr(o, c['meth'])(list_format(items, c['tuple']), **lkw)
                return [[canon(x) for x in got], o.pos]
            r[c['meth']] = list(attempt(rd, 10))
            if all(L[2] is not None or L[0] == 'pad' for L in c['leaves']) and c['K'] != 'pad' and all(it[0] == 'str' for it in items):
                r['pack'] = list(attempt(lambda: pack(list_format(items, c['tuple']), *[pyval(L[2]) for L in c['leaves'] if L[0] != 'pad'], **lkw).bin, 10))
            return r
        joined = [['str', ', '.join(u[0] for u in c['units'])]]
        return ('ok', [one(joined)] + [one(items) for items in c['lists']])
    args = [pyval(v) for v in c['args']]
    kw = {k: pyval(v) for k, v in c['kw'].items()}
    lkw = c['lkw']
    def f():
        out = {}
        p = pack(c['fmt'], *args, **kw)
        out['bin'] = p.bin; out['len'] = len(p); out['cls'] = type(p).__name__
        out['unpack'] = [canon(x) for x in p.unpack(c['plain'], **lkw)]
        out['pre'] = bitstring.utils.preprocess_tokens(c['fmt'])
        # arity
        if c['arity'] == -1 and args: out['few'] = list(attempt(lambda: pack(c['fmt'], *args[:-1], **kw).bin))
        if c['arity'] == 1: out['many'] = list(attempt(lambda: pack(c['fmt'], *(args + [0]), **kw).bin))
        return out
    r = attempt(f, 20)
    if r[0] != 'ok': return r
    out = r[1]
    exp = ''.join(c['bits'])
    # reading the reference bits back with the format, on each class and through each reading method
    def rd():
        o = cls_of(c['ucls'])(bin=exp)
        m = c['umeth'] if hasattr(o, 'pos') else 'unpack'
        got = getattr(o, m)(c['plain'], **lkw)
        return [m, [canon(x) for x in got], getattr(o, 'pos', None)]
    out['read'] = list(attempt(rd, 10))
    # reading them back with the format given as a list of items (strings of one or more tokens, ints, Dtype objects)
    if 'lfmt' in c:
        def lrd():
            m = c['lmeth'] if c['lcls'] in ('ConstBitStream', 'BitStream') else 'unpack'
            pre = c['lpre'] if m != 'unpack' else ''
            o = cls_of(c['lcls'])(bin=pre + exp)
            if m != 'unpack': o.pos = len(pre)
            got = getattr(o, m)(list_format(c['lfmt'], c['ltuple']), **lkw)
            return [m, [canon(x) for x in got], getattr(o, 'pos', None), len(pre)]
        out['lread'] = list(attempt(lrd, 10))
        if all(it[0] == 'str' for it in c['lfmt']) and c['fmt'] == c['plain']:
            out['lpack'] = list(attempt(lambda: pack(list_format(c['lfmt'], c['ltuple']), *args, **kw).bin, 10))
    if all(t is not None or nm == 'pad' for (nm, n), t in zip(c['toks'], c['etext'])) and c['toks']:
        flat = ', '.join(f'pad:{n}' if nm == 'pad' else f"{nm}{'' if n is None else ':' + str(n)}={t}" for (nm, n), t in zip(c['toks'], c['etext']))
        out['embedded'] = {cn: list(attempt(lambda: cls_of(cn)(flat).bin)) for cn in CLASSES}
        out['embedded']['pack'] = list(attempt(lambda: pack(flat).bin))
        out['embedded']['text'] = flat
    # ... and with its brackets and factors
    if not args and c['fmt'].strip():
        o2 = {}
        if not kw:
            for cn in CLASSES: o2[cn] = list(attempt(lambda: cls_of(cn)(c['fmt']).bin))
            o2['fromstring'] = list(attempt(lambda: Bits.fromstring(c['fmt']).bin))
            o2['add'] = list(attempt(lambda: (bitstring.BitArray() + c['fmt']).bin))
            o2['append'] = list(attempt(lambda: (lambda b: (b.append(c['fmt']), b.bin)[1])(bitstring.BitStream())))
            o2['eq'] = list(attempt(lambda: exp if Bits(bin=exp) == c['fmt'] else 'unequal'))
        out['string'] = o2
    # 'f1, f2' = f1 followed by f2
    if 'split' in c:
        s = c['split']
        out['split'] = [list(attempt(lambda: pack(s['f1'], *args[:s['a1']], **kw).bin)), list(attempt(lambda: pack(s['f2'], *args[s['a1']:], **kw).bin))]
    return ('ok', out)

def oracle(c, obs):
    if c['op'] == 'expand':
        exp = ref_expand(c['fmt'])
        if exp is None:
            # not a well-formed format: the expansion either raises ValueError or returns some text (the Coq model says which); nothing else may happen
            return None if obs[0] == 'ok' or obs[1] == 'ValueError' else f"expand_brackets({c['fmt']!r}) raised {obs[1]}"
        if '0*(' in c['fmt'] or '00*(' in c['fmt']: exp_ok = None     # what is left around an empty expansion (neighbouring commas) is decided by the model
        else: exp_ok = exp
        if obs[0] != 'ok': return f"expand_brackets({c['fmt']!r}) raised {obs[1]}; the format is well formed and expands to {exp!r}"
        if exp_ok is not None and obs[1] != exp_ok: return f"expand_brackets({c['fmt']!r}) = {obs[1]!r}; writing each bracket's body factor times gives {exp_ok!r}"
        return None
    if c['op'] == 'malformed':
        if obs[0] != 'ok': return f"malformed format {c['fmt']!r}: {obs}"
        for name, r in obs[1].items():
            if r[0] == 'err' and r[1] not in ('ValueError', 'ReadError', 'BsError', 'TypeError'):
                return f"{name}({c['fmt']!r}) raised {r[1]} (only CreationError/ValueError/ReadError/Error are documented); OutOfFuel = did not terminate"
        return None
    if c['op'] == 'missized':
        for how, r in obs[1].items():
            if r != ['err', 'ValueError']:
                return f"{how}: token {c['name']} with the stated length {c['stated']} ({c['spell']}) and the value {c['val']!r} ({len(c['val'])} digits) must raise CreationError, got {r}"
        return None
    if c['op'] == 'packlist':
        if obs[0] != 'ok': return f"pack({c['fmts']}, {c['vals']}) raised {obs}"
        a, b, first, joined = obs[1]
        exp = ''.join(c['bits']); exp0 = ''.join(c['bits'][:c['n0']])
        if a != exp or b != exp or joined != exp or first != exp0:
            return (f"pack with the list format {c['fmts']} and values {c['vals']}: first call {a!r}, second call {b!r}, first item alone afterwards {first!r}, "
                    f"joined string {joined!r}; concatenation of token encodings is {exp!r} (first item: {exp0!r})")
        return None
    if c['op'] == 'range':
        if obs[0] != 'ok': return f"range case {c}: {obs}"
        els, at, rep = c['els'], c['at'], c['rep']
        nm, n, v = els[at]
        pre = ''.join(FILLERS[i][3] for i in c['pre']); post = ''.join(FILLERS[i][3] for i in c['post'])
        for how, r in obs[1].items():
            every = how in ('emb', 'kwv', 'kwvtext') or how.startswith('string:')      # routes on which every copy under a factor takes the value
            parts = [fit_bits(e[0], e[1], v if (every or i == at) else e[2]) for i, e in enumerate(els)]
            exp = ['err', 'ValueError'] if any(p is None for p in parts) else ['ok', pre + ''.join(parts) + post]
            if r != exp:
                rng_txt = '' if n is None else f" (range {int_range(nm, n)[0]} .. {int_range(nm, n)[1]})"
                return (f"token {c['tok']!r}{' x' + str(rep) + ' (' + c['repstyle'] + ')' if rep else ''} with keywords {c['lkw']}, between {[FILLERS[i][0] for i in c['pre']]} and {[FILLERS[i][0] for i in c['post']]}, "
                        f"element {at} of kinds {[(e[0], e[1]) for e in els]} given the value {v} (text {c['txt']!r}) through route {how}: got {r}, expected "
                        f"{'CreationError: the value is not one of a ' + str(n) + '-bit ' + nm + rng_txt if exp[0] == 'err' else exp}")
        return None
    if c['op'] == 'listread':
        if obs[0] != 'ok': return f"listread case {c}: {obs}"
        exp = ''.join(L[3] for L in c['leaves'])
        back = [L[4] for L in c['leaves'] if L[0] != 'pad']
        joined = [['str', ', '.join(u[0] for u in c['units'])]]
        for items, r in zip([joined] + c['lists'], obs[1]):
            what = (f"the bits {exp!r} (for {c['meth']}: behind the {len(c['pre'])} bits {c['pre']!r}, pos set past them) of the tokens {[(L[0], L[1]) for L in c['leaves']]} (values {back[:12]}), format given as the {'tuple' if c['tuple'] else 'list'} {show_list(items)} "
                    f"with keywords {c['lkw']} (the same tokens as {joined[0][1]!r})")
            for how, x in r.items():
                if how == 'unpack': e = ['ok', back]
                elif how == 'pack': e = ['ok', exp]
                else: e = ['ok', [back, len(c['pre']) + (len(exp) if how == 'readlist' else 0)]]
                if x != e: return f"{c['cls'] if how == 'unpack' else c['scls'] if how != 'pack' else ''} {how} of {what}: got {x}, expected {e}"
        return None
    exp_bits = ''.join(c['bits'])
    call = f"pack({c['fmt']!r}, *{c['args'][:12]}{'...' if len(c['args']) > 12 else ''} ({len(c['args'])} values), **{c['kw']})"
    if obs[0] != 'ok': return f"{call} raised {obs}; the format flattens to {len(c['toks'])} tokens {c['toks'][:12]} with the values {c['vals'][:12]}"
    o = obs[1]
    if o['bin'] != exp_bits or o['len'] != len(exp_bits): return f"{call} = {o['bin']!r} ({o['len']} bits), concatenation of token encodings of {c['toks'][:12]} with the values {c['vals'][:12]} is {exp_bits!r} ({len(exp_bits)} bits)"
    if o['cls'] != 'BitStream': return f"pack returned a {o['cls']}"
    back = [b for (nm, n), b in zip(c['toks'], c['back']) if nm != 'pad']
    if o['unpack'] != back: return f"unpack({c['plain']!r}) of the packed bits gave {len(o['unpack'])} values {o['unpack'][:12]}, the {len(back)} packed values were {back[:12]}"
    if 'few' in o and o['few'] != ['err', 'ValueError']: return f"pack({c['fmt']!r}) with one value missing: {o['few']}"
    if 'many' in o and o['many'] != ['err', 'ValueError']: return f"pack({c['fmt']!r}) with one value too many: {o['many']}"
    if 'read' in o:
        r = o['read']
        if r[0] != 'ok': return f"{c['ucls']}(bin={exp_bits!r}).{c['umeth']}({c['plain']!r}, **{c['lkw']}) raised {r}; these are the bits of the tokens {c['toks'][:12]} with the values {back[:12]}"
        m, got, pos = r[1]
        if got != back: return f"{c['ucls']}(bin={exp_bits!r}).{m}({c['plain']!r}) gave {len(got)} values {got[:12]}, the bits encode the {len(back)} values {back[:12]}"
        want_pos = None if pos is None else (len(exp_bits) if m == 'readlist' else 0)
        if m != 'unpack' and pos != want_pos: return f"{c['ucls']}(bin=...).{m}({c['plain']!r}) left pos = {pos}, expected {want_pos}"
    if 'lread' in o:
        r = o['lread']
        lshow = f"{c['lcls']}(bin={c['lpre']!r} + {exp_bits!r}).{c['lmeth']}({'tuple' if c['ltuple'] else 'list'} {show_list(c['lfmt'])}, **{c['lkw']})"
        if r[0] != 'ok': return f"{lshow} raised {r}; the items together are the format {c['plain']!r}, whose tokens {c['toks'][:12]} with the values {back[:12]} give these bits"
        m, got, pos, np = r[1]
        if got != back: return f"{lshow} ({m}) gave {len(got)} values {got[:12]}; the items together are the format {c['plain']!r}, for which the bits encode the {len(back)} values {back[:12]}"
        want_pos = None if pos is None else (np + len(exp_bits) if m == 'readlist' else np)
        if pos != want_pos: return f"{lshow} ({m}) left pos = {pos}, expected {want_pos}"
    if 'lpack' in o and o['lpack'] != ['ok', exp_bits]:
        return f"pack({'tuple' if c['ltuple'] else 'list'} {show_list(c['lfmt'])}, *{c['args'][:12]}, **{c['kw']}) gave {o['lpack']}; the items together are the format {c['fmt']!r} which packs to {exp_bits!r}"
    if 'embedded' in o:
        for how, r in o['embedded'].items():
            if how != 'text' and r != ['ok', exp_bits]:
                return f"token string {o['embedded']['text']!r} (values of {c['fmt']!r} written as text) through {how} gave {r}, the values {c['vals'][:12]} encode to {exp_bits!r}"
    if 'string' in o:
        for how, r in o['string'].items():
            if r != ['ok', exp_bits]: return f"token string {c['fmt']!r} through {how} gave {r}; its tokens {c['toks'][:12]} with the values {c['vals'][:12]} encode to {exp_bits!r}"
    if 'split' in o:
        s = c['split']; e1 = ''.join(c['bits'][:s['t1']]); e2 = ''.join(c['bits'][s['t1']:])
        if o['split'] != [['ok', e1], ['ok', e2]]:
            return f"format {c['fmt']!r} = {s['f1']!r} followed by {s['f2']!r}: packing the two parts gave {o['split']}, expected {e1!r} and {e2!r}"
    if len(o['pre']) != len(c['toks']): return f"preprocess_tokens({c['fmt']!r}) has {len(o['pre'])} tokens {o['pre'][:12]}, the grammar flattens it to {len(c['toks'])}"
    return None

def nontrivial(c, obs): return (c['op'] == 'pack' and any(ch in c['fmt'] for ch in '*(<>=')) or c['op'] in ('range', 'listread')
def classify(c, obs): return None

def cval(nm, v):
    if nm in ('uint', 'int') or nm in GC: return f"(ValZ {cz(v)})"
    if nm == 'bool': return f"(ValBool {cbool(v)})"
    return None

def coq_check(c, obs):
    """token-level pack/unpack for formats whose tokens the model covers; bracket expansion on the character-level model"""
    if c['op'] == 'expand':
        if obs[0] == 'ok':
            if not obs[1].isascii() or '"' in obs[1] or len(obs[1]) > 4000: return None
            return f'res_eqb String.eqb (run (100 * 100)%nat "{c["fmt"]}") (Ok "{obs[1]}"%string)'
        return f'res_eqb String.eqb (run (100 * 100)%nat "{c["fmt"]}") (Err {obs[1]})' if obs[1] in COQ_EXNS else 'false'
    if c['op'] != 'pack' or obs[0] != 'ok' : return None
    if c.get('repeat') and len(c['toks']) > 24: return None        # the model works on the flattened token list, which says nothing about how the text was expanded: the long ones are left to the oracle
    toks, vals = [], []
    for (nm, n), v, b in zip(c['toks'], c['vals'], c['bits']):
        if nm in ('uint', 'int', 'bool'): toks.append(f"(TFixed {CK[nm]} {n}, @None value)"); vals.append(cval(nm, v))
        elif nm in GC: toks.append(f"(TVar {GC[nm]}, @None value)"); vals.append(cval(nm, v))
        elif nm == 'pad': toks.append(f"(TFixed KPad {n}, @None value)")
        elif nm in ('bits', 'bin', 'hex', 'bytes') and n is not None: toks.append(f"(TFixed {CK[nm]} {n}, @None value)"); vals.append(f"(ValBits {cbits(b)})")
        else: return None
    if not toks: return None
    T = '[' + '; '.join(toks) + ']'; V = ('[' + '; '.join(vals) + ']') if vals else '(@nil value)'
    return (f"rbits_eqb (pack false {T} {V}) (Ok {cbits(obs[1]['bin'])}) && "
            f"res_eqb (list_eqb value_eqb) (unpack {cbits(obs[1]['bin'])} (map fst {T})) (Ok {V})")

def search(seeds, rng):
    for c in list(seeds) + list(gen_cases(rng, 'quick')):
        try: obs = run_impl(c)
        finally: reset_options()
        msg = oracle(c, obs)
        if msg: return c, obs, msg
    return None
