"""C05 — pack, unpack and token strings are mutually inverse and compositional."""
from vlib import *
from props.common import *
import struct, sys, math, copy

ID = 'C05'
COQ_PROPS = ['Props/C05.v']
COQ_IMPORTS = ['Prims', 'CaseLib', 'BitsCore', 'Golomb', 'IntCodec', 'Mutators', 'Search', 'Stream', 'Pack', 'Tokenizer']
RULE = ('formats drawn from the grammar fmt ::= token | fmt, fmt | n*(fmt) | n*token | (fmt) with every dtype, the length spellings name:n / namen / alias / bare number / keyword, struct codes with the four prefixes and counts, '
        'nested brackets, whitespace, pads and at most one length-less token, with conforming values given positionally (as objects or as text), embedded as =text or through =keyword: pack length and bits vs '
        'independently computed per-token encodings, unpack / readlist / peeklist on the four classes, token strings (flat and bracketed) on the four classes, '
        'splits of a format in two, n*(f), wrong arity; formats that contain the same sub-format text several times (same body under different factors, digit-suffix factors, nested, bare, '
        'token-level prefixes / suffixes); value spellings (sign, zero padding, whitespace, prefixes, letter case, float notations); the parser functions compared with a reference flattening; '
        'a malformed stream must raise ValueError and terminate. non-trivial = format with a factor, bracket, struct code or value in the text; distinct by (format, values)')
ASSUMPTIONS = ['the string front end (tokenparser/preprocess_tokens/expand_brackets/structparser) is tied by the grammar oracle and correspondence of parser outputs, not proved',
               'msb0 (the lsb0 token order is C12)']
COQ_PRELUDE = '''
Definition value_eqb (a b : value) : bool :=
  match a, b with
  | ValBits x, ValBits y => bits_eqb x y | ValZ x, ValZ y => Z.eqb x y | ValBool x, ValBool y => Bool.eqb x y | ValNone, ValNone => true | _, _ => false end.
'''
CK = {'bits': 'KBits', 'uint': 'KUint', 'int': 'KInt', 'bin': 'KBin', 'hex': 'KHex', 'bool': 'KBool', 'pad': 'KPad', 'bytes': 'KBytes'}
GC = {'ue': 'UE', 'se': 'SE', 'uie': 'UIE', 'sie': 'SIE'}
STRUCT = {'b': ('int', 1), 'B': ('uint', 1), 'h': ('int', 2), 'H': ('uint', 2), 'l': ('int', 4), 'L': ('uint', 4), 'i': ('int', 4), 'I': ('uint', 4), 'q': ('int', 8), 'Q': ('uint', 8)}
INTK = ('uint', 'int', 'uintle', 'intle', 'uintbe', 'intbe', 'uintne', 'intne')
FLOATK = ('float', 'floatbe', 'floatle', 'floatne', 'bfloat')
ALIAS = {'uint': 'u', 'int': 'i', 'float': 'f', 'hex': 'h', 'bin': 'b', 'oct': 'o'}
KW_POOL = ('e', 'ex', 'ie', 'in', 'it', 'its', 'pos', 'ool', 'ytes', 'int', 'x', 'n', 'ad', 'loat', 'ct', 'length', 'dtypes', 'offset', 'keys', 'token_list', 'values', 'kwargs', 'cls', 's')

# ---------- the format AST and its printer ----------
# nodes: fixed / var / stretch / struct (leaves), seq, rep, paren, and lit = an already printed sub-format (its exact text can be used several times in one format)
def gen_token(rng, allow_stretch):
    r = rng.random()
    if r < 0.12:
        pre = rng.choice('<>=')
        codes = ''.join((str(k) if (k := rng.choice([1, 1, 2, 3])) > 1 else '') + rng.choice(list(STRUCT)) for _ in range(rng.randrange(1, 3)))
        return {'t': 'struct', 'pre': pre, 'codes': codes}
    if r < 0.2: return {'t': 'var', 'name': rng.choice(list(GC))}
    if r < 0.26 and allow_stretch: return {'t': 'stretch', 'name': rng.choice(['bits', 'bin', 'hex', 'bytes'])}
    name = rng.choice(['uint', 'int', 'hex', 'bin', 'oct', 'bits', 'bytes', 'bool', 'pad', 'uintle', 'intbe', 'float', 'uint', 'int',
                       'uintbe', 'intle', 'uintne', 'intne', 'bfloat', 'floatle', 'floatbe'])
    if name == 'bool': return {'t': 'fixed', 'name': 'bool', 'n': 1, 'spell': rng.choice(['bare', 'colon'])}
    n = rng.choice([1, 2, 3, 4, 5, 8, 12, 16, 24, 1, 2, 3, 4, 5, 8, 12, 16, 24, 7, 9, 15, 17, 31, 32, 33, 63, 64, 65])
    if name == 'hex': n = 4 * rng.choice([1, 2, 3, 1, 2, 3, 4, 8, 16])
    if name == 'oct': n = 3 * rng.choice([1, 2, 3, 1, 2, 3, 5, 11])
    if name[-2:] in ('le', 'be', 'ne') and name not in FLOATK: n = 8 * rng.choice([1, 2, 3, 1, 2, 3, 4, 8])
    if name == 'bytes': n = rng.choice([1, 2, 3, 1, 2, 3, 4, 8])
    if name in ('float', 'floatle', 'floatbe'): n = rng.choice([16, 32, 64])
    if name == 'bfloat': n = 16
    f = {'t': 'fixed', 'name': name, 'n': n, 'spell': rng.choice(['colon', 'colon', 'joined', 'kw'])}
    if name in ALIAS and rng.random() < 0.15: f['alias'] = True            # 'u8', 'i:12', 'h8' ...
    if name == 'bits' and rng.random() < 0.15: f['spell'] = 'number'          # a bare number is a bits token
    return f

def gen_fmt(rng, depth, allow_stretch=True):
    r = rng.random()
    if depth == 0 or r < 0.45: return gen_token(rng, allow_stretch)
    if r < 0.7: return {'t': 'seq', 'items': [gen_fmt(rng, depth - 1, False) for _ in range(rng.randrange(2, 4))]}
    if r < 0.82: return {'t': 'rep', 'n': rng.choice([0, 1, 2, 3]), 'body': gen_fmt(rng, depth - 1, False), 'bracket': True}
    if r < 0.92: return {'t': 'rep', 'n': rng.choice([1, 2, 3]), 'body': gen_token(rng, False), 'bracket': False}
    return {'t': 'paren', 'body': gen_fmt(rng, depth - 1, False)}

def new_ctx(vp=0.0, tp=0.0):
    """vp: probability that a token carries its value in the format text (=text or =keyword); tp: probability that a positional value is handed over as text"""
    return {'kw': {}, 'lk': [], 'vp': vp, 'tp': tp}

def new_key(ctx, n, stem):
    # keyword names include ones that are tails of token names ('ue' = 'u' + 'e', 'hex' = 'h' + 'ex', ...): a token must never be re-read as name + keyword
    # ... and names of parameters of the library's private helpers ('pos', 'dtypes', 'length', 'offset', 'token_list', 'keys': D61); the public parameter names 'fmt' and 'self' cannot be keywords in Python itself
    kw = ctx['kw']
    pool = [x for x in KW_POOL if x not in kw]
    return pool[(len(kw) * 5 + n) % len(pool)] if pool and (n + len(kw)) % 2 == 0 else f"{stem}{len(kw)}"

def jv(v): return list(v) if isinstance(v, bytes) else v

def leaf(rng, ctx, nm, n, tok):
    """one elementary token whose text (without a value) is tok -> (text without value, text as packed, leaf record)"""
    L = {'nm': nm, 'n': n, 'mode': 'pos'}
    if nm == 'pad': return tok, tok, L
    sp = lambda: rng.choice(['', '', '', ' '])
    if rng.random() < ctx['vp']:
        v, b, bk = rand_value(rng, nm, n)
        L.update(v=jv(v), bits=b, back=bk)
        t = spell(rng, nm, v, True) if rng.random() < 0.7 else None
        if t is not None:
            L.update(mode='emb', txt=t)
            return tok, tok + sp() + '=' + sp() + t, L
        k = new_key(ctx, n or 0, 'v')
        t = spell(rng, nm, v, False) if rng.random() < 0.5 else None       # a keyword value may itself be text; otherwise the object (falsy ones included)
        ctx['kw'][k] = jv(v) if t is None else t
        L.update(mode='kwv', txt=t, key=k)
        return tok, tok + sp() + '=' + sp() + k, L
    if rng.random() < ctx['tp']: L['mode'] = 'postext'
    return tok, tok, L

def render(f, rng, ctx):
    """-> (format text without values, format text as packed, flat list of leaf records)"""
    sp = lambda: rng.choice(['', '', ' ', '  '])
    t = f['t']
    if t == 'lit': return f['plain'], f['full'], copy.deepcopy(f['flat'])
    if t == 'fixed':
        nm = ALIAS[f['name']] if f.get('alias') else f['name']
        if f['name'] == 'bool' and f['spell'] == 'bare': tok = 'bool'
        elif f['spell'] == 'number': tok = str(f['n'])
        elif f['spell'] == 'joined': tok = f"{nm}{f['n']}"
        elif f['spell'] == 'kw':
            same = [x for x in ctx['lk'] if ctx['kw'][x] == f['n']]
            if same and rng.random() < 0.5: k = rng.choice(same)          # one keyword gives the length of several tokens
            else:
                k = new_key(ctx, f['n'], 'len')
                ctx['kw'][k] = f['n']; ctx['lk'].append(k)
            tok = f"{nm}{sp()}:{sp()}{k}"
        else: tok = f"{nm}{sp()}:{sp()}{f['n']}"
        p, fu, L = leaf(rng, ctx, f['name'], f['n'], tok)
        return p, fu, [L]
    if t in ('var', 'stretch'):
        p, fu, L = leaf(rng, ctx, f['name'], None, f['name'])
        return p, fu, [L]
    if t == 'struct':
        s = f['pre'] + f['codes']
        return s, s, [{'nm': nm, 'n': n, 'mode': 'postext' if rng.random() < ctx['tp'] else 'pos'} for nm, n in flatten(f)]
    if t == 'seq':
        parts = [render(x, rng, ctx) for x in f['items']]
        seps = f.get('seps') or [sp() + ',' + sp() for _ in parts[1:]]
        join = lambda k: ''.join(x[k] + (seps[i] if i < len(seps) else '') for i, x in enumerate(parts))
        return join(0), join(1), [L for x in parts for L in x[2]]
    if t == 'rep':
        p, fu, fl = render(f['body'], rng, ctx)
        a, b = f.get('ws') or (sp(), sp())
        head = f"{f['n']}{a}*{b}(" if f['bracket'] else f"{f['n']}*"
        tail = ')' if f['bracket'] else ''
        return head + p + tail, head + fu + tail, [copy.deepcopy(L) for _ in range(f['n']) for L in fl]
    if t == 'paren':
        p, fu, fl = render(f['body'], rng, ctx)
        return '(' + p + ')', '(' + fu + ')', fl

def show(f, rng, kw):
    ctx = new_ctx(); ctx['kw'] = kw
    return render(f, rng, ctx)[0]

def freeze(f, rng, ctx):
    p, fu, fl = render(f, rng, ctx)
    return {'t': 'lit', 'plain': p, 'full': fu, 'flat': fl}

def flatten(f):
    """list of elementary tokens (name, length-in-units or None)"""
    t = f['t']
    if t == 'lit': return [(L['nm'], L['n']) for L in f['flat']]
    if t == 'fixed': return [(f['name'], f['n'])]
    if t == 'var': return [(f['name'], None)]
    if t == 'stretch': return [(f['name'], None)]
    if t == 'struct':
        out, num = [], ''
        for ch in f['codes']:
            if ch.isdigit(): num += ch; continue
            kind, sz = STRUCT[ch]
            end = {'<': 'le', '>': 'be', '=': 'ne'}[f['pre']] if sz > 1 else ''
            out += [(kind + end, 8 * sz)] * (int(num) if num else 1); num = ''
        return out
    if t == 'seq': return [x for it in f['items'] for x in flatten(it)]
    if t == 'rep': return flatten(f['body']) * f['n']
    if t == 'paren': return flatten(f['body'])

def has_zero_bracket(f):
    t = f['t']
    if t == 'rep': return (f['n'] == 0 and f['bracket']) or has_zero_bracket(f['body'])
    if t == 'seq': return any(has_zero_bracket(x) for x in f['items'])
    if t == 'paren': return has_zero_bracket(f['body'])
    return False

def fbits(b): return ''.join(format(x, '08b') for x in b)

def float_bytes(name, n, v):
    """the IEEE encoding of v for a float token, by struct (bfloat: the upper half of the single-precision encoding, exact for the values used)"""
    if name == 'bfloat': return struct.pack('>f', v)[:2]
    code = {16: 'e', 32: 'f', 64: 'd'}[n]
    end = '<' if name == 'floatle' or (name == 'floatne' and sys.byteorder == 'little') else '>'
    return struct.pack(end + code, v)

def float_back(name, n, b):
    if name == 'bfloat': return struct.unpack('>f', b + b'\0\0')[0]
    code = {16: 'e', 32: 'f', 64: 'd'}[n]
    end = '<' if name == 'floatle' or (name == 'floatne' and sys.byteorder == 'little') else '>'
    return struct.unpack(end + code, b)[0]

def rand_value(rng, name, n):
    """(python value to pack, expected bits, value unpack returns (canonical))"""
    if name in ('uint', 'uintle', 'uintbe', 'uintne'):
        v = rng.choice([0, 1, (1 << n) - 1, rng.randrange(1 << n)]); be = format(v, f'0{n}b')
        if name.endswith('le') or (name.endswith('ne') and sys.byteorder == 'little'): be = ''.join(be[i:i + 8] for i in range(n - 8, -1, -8))
        return v, be, v
    if name in ('int', 'intle', 'intbe', 'intne'):
        v = rng.choice([0, -1, (1 << (n - 1)) - 1, -(1 << (n - 1)), rng.randrange(-(1 << (n - 1)), 1 << (n - 1))]); be = format(v & ((1 << n) - 1), f'0{n}b')
        if name.endswith('le') or (name.endswith('ne') and sys.byteorder == 'little'): be = ''.join(be[i:i + 8] for i in range(n - 8, -1, -8))
        return v, be, v
    if name == 'hex':
        k = n // 4 if n is not None else rng.randrange(0, 4); s = ''.join(rng.choice('0123456789abcdef') for _ in range(k))
        return s, ''.join(format(int(c, 16), '04b') for c in s), s
    if name == 'oct':
        s = ''.join(rng.choice('01234567') for _ in range(n // 3)); return s, ''.join(format(int(c), '03b') for c in s), s
    if name in ('bin', 'bits'):
        k = n if n is not None else rng.randrange(0, 9); s = ''.join(rng.choice('01') for _ in range(k))
        return (('0b' + s if s else '') if name == 'bits' else s), s, (['bits', s] if name == 'bits' else s)
    if name == 'bytes':
        k = n if n is not None else rng.randrange(0, 3); b = bytes(rng.randrange(256) for _ in range(k))
        return list(b), fbits(b), ['b', list(b)]                      # bytes travel as a list of ints (JSON); pyval() restores them
    if name == 'bool':
        v = rng.random() < 0.5; return v, '1' if v else '0', v
    if name == 'pad': return None, '0' * n, None
    if name in FLOATK:
        v = rng.choice([0.0, -0.0, 0.0, -0.0, 1.5, -2.25, 1e-3, 100.0, 0.5, -0.0625, 3.0, float('inf'), float('-inf'), float('nan')])
        if name == 'bfloat' and v == 1e-3: v = 0.25
        b = float_bytes(name, n, v); return v, fbits(b), ['f', float_back(name, n, b).hex()]
    if name in GC:
        from props.c10 import ref_enc
        v = rng.randrange(0, 40) if name in ('ue', 'uie') else rng.randrange(-20, 21)
        if rng.random() < 0.25:
            k = rng.choice([7, 8, 31, 32, 33, 47, 48, 49, 50, 52, 53, 54, 63, 64, 65, 70, 100])
            v = (1 << k) + rng.choice([-3, -2, -1, 0, 1])
            if name in ('se', 'sie') and rng.random() < 0.5: v = -v
        return v, ref_enc(name, v), v

# ---------- values written as text ----------
def spell(rng, nm, v, in_format):
    """A text spelling of the conforming value v for a token of kind nm (None when there is none): decimal integers with an optional sign and zero padding, the
    notations of Python's float(), digits of the hex / oct / bin tokens in either letter case with or without the 0x / 0o / 0b prefix, prefixed literals for bits,
    '1' / '0' / 'True' / 'False' for bool.  Surrounding whitespace: anywhere inside a format string (it is stripped from formats); around numbers when the text is
    handed over as a value (int() and float() accept it).  What the text stands for is decided here by int() / float() of plain Python, not by the library."""
    ws = lambda s: rng.choice(['', '', '', ' ', '  ', '\t']) + s + rng.choice(['', '', '', ' ', '  '])
    if nm in INTK or nm in GC:
        signed = nm.startswith('int') or nm in ('se', 'sie')
        sign = '-' if v < 0 else rng.choice(['', '', '+'])
        if v == 0 and signed and rng.random() < 0.15: sign = '-'
        s = sign + rng.choice(['', '', '0', '00', '000', '0000000']) + str(abs(v))
        assert int(s) == v
        return ws(s)
    if nm in FLOATK:
        if v != v: s = rng.choice(['nan', 'nan', 'NaN'])
        elif v in (float('inf'), float('-inf')): s = ('-' if v < 0 else rng.choice(['', '+'])) + rng.choice(['inf', 'inf', 'Infinity', 'INF'])
        else:
            a = abs(v); neg = math.copysign(1.0, v) < 0
            forms = [repr(a), repr(a), '%.12f' % a, '%e' % a, '%E' % a, '0' + repr(a), '000' + repr(a), repr(a) + '0']
            if a == int(a) and 'e' not in repr(a): forms += [str(int(a)), str(int(a)) + '.', str(int(a)) + 'e0']
            if 0 < a < 1 and repr(a).startswith('0.'): forms += [repr(a)[1:]]
            s = ('-' if neg else rng.choice(['', '', '+'])) + rng.choice(forms)
            if float(s) != v or math.copysign(1.0, float(s)) != math.copysign(1.0, v): s = repr(v)
        return ws(s)
    if nm == 'hex':
        if not v: return None
        s = rng.choice([v, v, v.upper(), ''.join(rng.choice([c, c.upper()]) for c in v)])
        assert int(s, 16) == int(v, 16) and len(s) == len(v)
        s = rng.choice(['', '', '0x', '0X']) + s
    elif nm == 'oct':
        if not v: return None
        s = rng.choice(['', '', '0o', '0O']) + v
    elif nm == 'bin':
        if not v: return None
        s = rng.choice(['', '', '0b', '0B']) + v
    elif nm == 'bits':
        b = v[2:]
        if not b: return None
        forms = ['0b' + b, '0b' + b, '0B' + b]
        if len(b) % 4 == 0: h = format(int(b, 2), f'0{len(b) // 4}x'); forms += ['0x' + h, '0x' + h.upper(), '0X' + h]
        if len(b) % 3 == 0: forms += ['0o' + format(int(b, 2), f'0{len(b) // 3}o')]
        s = rng.choice(forms)
    elif nm == 'bool':
        return rng.choice(['1', 'True']) if v else rng.choice(['0', 'False'])
    else:
        return None                 # bytes have no text form
    return ws(s) if in_format else s

def mk_case(rng, f, ctx=None, **extra):
    """render the format, draw a value for every elementary token that still needs one, and record per token the reference encoding"""
    ctx = ctx or new_ctx()
    items = f['items'] if f['t'] == 'seq' else [f]
    sp = lambda: rng.choice(['', '', ' ', '  '])
    parts = [render(x, rng, ctx) for x in items]
    seps = f.get('seps') or [sp() + ',' + sp() for _ in parts[1:]]
    join = lambda k, lo=0, hi=None: ''.join(parts[i][k] + (seps[i] if i < (len(parts) if hi is None else hi) - 1 else '') for i in range(lo, len(parts) if hi is None else hi))
    plain, full = join(0), join(1)
    flat = [L for x in parts for L in x[2]]
    toks, vals, bits, back, args, etext = [], [], [], [], [], []
    npos = []                       # positional values consumed by each top-level item
    for x in parts:
        k = 0
        for L in x[2]:
            nm, n = L['nm'], L['n']
            toks.append([nm, n])
            if L['mode'] in ('emb', 'kwv'):
                v, b, bk, t = L['v'], L['bits'], L['back'], L['txt']
                if L['mode'] == 'emb' and ''.join(t.split()) in ctx['kw']: return None           # the text of a value must not happen to be a keyword of this call
            else:
                v, b, bk = rand_value(rng, nm, n)
                t = None
                if nm != 'pad':
                    k += 1
                    if L['mode'] == 'postext': t = spell(rng, nm, v, False)
                    args.append(jv(v) if t is None else t)
            if t is None and nm != 'pad':       # a spelling for the flat token string
                t = spell(rng, nm, v, True) if rng.random() < 0.5 else (None if isinstance(v, (bytes, list)) or v == '' or v == '0b' else str(v))
            vals.append(jv(v)); bits.append(b); back.append(bk); etext.append(t)
        npos.append(k)
    c = {'op': 'pack', 'fmt': full, 'plain': plain, 'kw': ctx['kw'], 'lkw': {k: ctx['kw'][k] for k in ctx['lk']}, 'toks': toks, 'vals': vals, 'bits': bits, 'back': back,
         'args': args, 'etext': etext, 'zero_bracket': has_zero_bracket(f), 'arity': rng.choice([0, 0, 0, -1, 1]),
         'ucls': rng.choice(CLASSES), 'umeth': rng.choice(['unpack', 'unpack', 'readlist', 'peeklist'])}
    if len(parts) >= 2:
        # the format is 'f1, f2': the bits are those of f1 followed by those of f2
        k = rng.randrange(1, len(parts))
        c['split'] = {'f1': join(1, 0, k), 'f2': join(1, k, None), 'a1': sum(npos[:k]), 't1': sum(len(x[2]) for x in parts[:k])}
    c.update(extra)
    return c

# ---------- formats that contain the same text more than once ----------
def gen_repeat_fmt(rng, ctx, big):
    """One format in which a sub-format B occurs several times, literally the same text: in brackets under different factors (one factor's digits a suffix or a
    prefix of another's: 2 and 12, 1 and 10), without a factor, nested inside another repeated bracket, bare, with the factor on its first token only, and next to
    near-copies (B without its first / last token, B with a token whose name is a tail of the original: uint -> int).  Expansion has to be by position."""
    tight = rng.random() < 0.65
    def tok():
        r = rng.random()
        f = gen_token(rng, False) if r < 0.85 else gen_fmt(rng, 1, False)
        return freeze(f, rng, ctx)
    k = rng.choice([1, 2, 2, 2, 3])
    T = [tok() for _ in range(k)]
    seps = [(',' if tight else rng.choice([',', ', ', ' , '])) for _ in T[1:]]
    def seq(items, s=None):
        return items[0] if len(items) == 1 else {'t': 'seq', 'items': list(items), 'seps': list(s if s is not None else seps[:len(items) - 1])}
    B = seq(T)
    def rep(n, body, bracket=True):
        if n is None: return {'t': 'paren', 'body': body}
        r = {'t': 'rep', 'n': n, 'body': body, 'bracket': bracket}
        if tight or rng.random() < 0.5: r['ws'] = ['', '']
        return r
    # factors related by their digits
    a = rng.choice([None, 0, 1, 1, 2, 2, 3])
    fam = [a]
    cap = 113 if big else 23
    for _ in range(3):
        r = rng.random()
        if a is None: n = rng.choice([None, 1, 2, 3, 10, 12])
        elif r < 0.4: n = int(rng.choice('12') + str(a))                 # 2 -> 12, 22
        elif r < 0.55: n = int(str(a) + rng.choice('012')) if a else 10  # 2 -> 20, 21
        elif r < 0.65: n = int('1' + rng.choice('01') + str(a))          # 2 -> 102, 112
        elif r < 0.75: n = a
        elif r < 0.85: n = None
        else: n = rng.choice([0, 1, 2, 3, 4])
        if n is not None and n > cap: n = int('1' + str(a))
        fam.append(n)
    rng.shuffle(fam)
    def near():
        r = rng.random()
        if r < 0.3 and k > 1: return seq(T[1:], seps[1:])                # B without its first token
        if r < 0.5 and k > 1: return seq(T[:-1], seps[:-1])              # ... without its last
        if r < 0.7:                                                      # a further token in front / behind
            x = tok(); return seq([x] + T, [seps[0] if seps else ','] + seps) if rng.random() < 0.5 else seq(T + [x], seps + [seps[0] if seps else ','])
        # the same text with the first letter of a token name dropped (uint:8 -> int:8): the original ends with the new text
        for i, t in enumerate(T):
            if len(t['flat']) == 1 and t['flat'][0]['mode'] in ('pos', 'postext') and t['plain'].startswith('uint') and t['flat'][0]['nm'].startswith('uint'):
                L = dict(t['flat'][0]); L['nm'] = L['nm'][1:]
                t2 = {'t': 'lit', 'plain': t['plain'][1:], 'full': t['full'][1:], 'flat': [L]}
                return seq(T[:i] + [t2] + T[i + 1:])
        return B
    occ = []
    for n in fam:
        r = rng.random()
        body = B if r < 0.8 else near()
        if r < 0.55: o = rep(n, body)
        elif r < 0.7:                                                    # nested inside another repeated bracket, with or without a neighbour
            inner = rep(n if n is None or n <= 12 else 12, body)
            other = rng.choice([None, tok(), tok(), rep(rng.choice([None, 2]), body)])
            its = [inner] if other is None else ([other, inner] if rng.random() < 0.5 else [inner, other])
            o = rep(rng.choice([None, 1, 2, 3]), seq(its, [rng.choice(seps) if seps else ','] * (len(its) - 1)))
        elif r < 0.8: o = body                                           # bare
        elif r < 0.9 and n is not None:                                  # 'n*t1, t2': the factor belongs to the first token only
            first = T[0]
            head = rep(n, first, bracket=False) if len(first['flat']) == 1 and not any(ch in first['plain'] for ch in '(*,') and first['plain'][0] not in '<>=@' else rep(n, first)
            o = seq([head] + T[1:])
        else: o = rep(None, rep(n, body))
        occ.append(o)
    if rng.random() < 0.4: occ.insert(rng.randrange(len(occ) + 1), tok())
    top = {'t': 'seq', 'items': occ}
    if tight: top['seps'] = [','] * (len(occ) - 1)
    if rng.random() < 0.15: top = {'t': 'seq', 'items': [rep(rng.choice([None, 1, 2]), top), tok()]}
    return top

def gen_cases(rng, tier):
    big = tier != 'quick'
    N = 500 if tier == 'quick' else 8000
    for _ in range(N):
        f = gen_fmt(rng, rng.choice([0, 1, 2, 2, 3]))
        c = mk_case(rng, f, new_ctx(rng.choice([0, 0, 0, 0.3, 0.6, 1.0]), rng.choice([0, 0, 0.5, 1.0])))
        if c: yield c
    # one length-less ("filler") token inside a sequence: variable-length (exp-Golomb) and fixed tokens before it, only fixed-length ones after it;
    # unpack must size the filler by what is left after the tokens that FOLLOW it
    for _ in range(120 if tier == 'quick' else 2000):
        def fixed():
            while True:
                t = gen_token(rng, False)
                if t['t'] == 'fixed': return t
        pre = [rng.choice([{'t': 'var', 'name': rng.choice(list(GC))}, fixed(), {'t': 'var', 'name': rng.choice(list(GC))}]) for _ in range(rng.randrange(0, 3))]
        post = [fixed() for _ in range(rng.randrange(0, 3))]
        f = {'t': 'seq', 'items': pre + [{'t': 'stretch', 'name': rng.choice(['bits', 'bin', 'hex', 'bytes'])}] + post}
        c = mk_case(rng, f, new_ctx(rng.choice([0, 0, 0.4]), rng.choice([0, 0, 0.5])), arity=0)
        if c: yield c
    # the same sub-format text several times in one format: expansion is by position, never by text
    for _ in range(250 if tier == 'quick' else 5000):
        ctx = new_ctx(rng.choice([0, 0, 0, 0.4, 1.0]), rng.choice([0, 0, 0, 0.5]))
        f = gen_repeat_fmt(rng, ctx, big)
        if len(flatten(f)) > (400 if big else 160): continue
        c = mk_case(rng, f, ctx, repeat=True)
        if c: yield c
    # values written as text, every kind of token, each way of handing a value over (in the format, as a positional str, through a keyword), alone and inside factors / brackets
    for _ in range(250 if tier == 'quick' else 5000):
        def valued():
            while True:
                t = gen_token(rng, False)
                if t['t'] == 'struct' or t['t'] == 'var' or t['t'] == 'fixed' and t['name'] not in ('pad', 'bytes'): return t
        r = rng.random()
        if r < 0.4: f = valued()
        elif r < 0.7: f = {'t': 'seq', 'items': [valued() for _ in range(rng.randrange(2, 4))]}
        else: f = {'t': 'seq', 'items': [valued(), {'t': 'rep', 'n': rng.choice([1, 2, 3]), 'bracket': True, 'body': {'t': 'seq', 'items': [valued(), valued()]}}, valued()][:rng.choice([2, 3])]}
        vp, tp = rng.choice([(1.0, 0), (1.0, 0), (0, 1.0), (0.5, 1.0), (0.7, 0.5)])
        c = mk_case(rng, f, new_ctx(vp, tp), arity=0)
        if c: yield c
    # the same list-of-formats pack twice, and its first item alone afterwards (each item is parsed and cached on its own)
    for _ in range(40 if tier == 'quick' else 600):
        items = []
        for _ in range(rng.randrange(2, 4)):
            f = gen_fmt(rng, rng.choice([0, 1]), False); kw = {}
            txt = show(f, rng, kw)
            items.append([None if kw else txt, flatten(f)])
        if any(i[0] is None for i in items): continue
        toks = [t for i in items for t in i[1]]
        vals = [rand_value(rng, nm, n) for nm, n in toks]
        n0 = len(items[0][1])
        yield {'op': 'packlist', 'fmts': [i[0] for i in items], 'vals': [v[0] for v in vals], 'bits': [v[1] for v in vals], 'n0': n0}
    for _ in range(80 if tier == 'quick' else 1200):
        name = rng.choice(['hex', 'bin', 'oct', 'bytes', 'bits'])
        w = {'hex': 4, 'bin': 1, 'oct': 3, 'bytes': 8, 'bits': 1}[name]
        nd = rng.randrange(1, 5)
        stated_units = rng.choice([0, 0, nd - 1, nd + 1, 2 * nd])            # digits (bytes for 'bytes'); never nd
        stated = stated_units * (1 if name == 'bytes' else w)
        val = ''.join(rng.choice({'hex': '0123456789abcdef', 'bin': '01', 'oct': '01234567', 'bytes': 'ab', 'bits': '01'}[name]) for _ in range(nd))
        other = rng.choice([None, ('uint:8', 1), ('bool', True)])
        yield {'op': 'missized', 'name': name, 'stated': stated, 'val': val, 'spell': rng.choice(['colon', 'joined', 'kw']), 'other': other, 'first': rng.random() < 0.5}
    bad = ['(uint:8', 'uint:8)', '2*(uint:8', 'x*(uint8), 2*(uint8)', '*(uint:8)', '2*', 'uint:8,,(', '((uint:8)', ')(', '3*(', 'a*(b*(c))', '2*(uint8))', 'uint:8=1=2', ':8', 'uint::8', '2**uint8', '-1*(uint8)', '1.5*(uint8)']
    for s in bad:
        yield {'op': 'malformed', 'fmt': s}
    for depth in (50, 400, 1100, 3000):
        yield {'op': 'malformed', 'fmt': '(' * depth + 'uint:8' + ')' * depth}
        yield {'op': 'malformed', 'fmt': '2*(' * min(depth, 12) + 'uint:8' + ')' * min(depth, 12)}
    for _ in range(60 if tier == 'quick' else 1500):
        chars = '()*,:=0123456789 uintbhexabc<>'
        yield {'op': 'malformed', 'fmt': ''.join(rng.choice(chars) for _ in range(rng.randrange(1, 14)))}

_gen_cases_base = gen_cases
def gen_cases(rng, tier):
    """every case of the base generator, and for every format text with a bracket (well-formed or malformed) the bracket expansion on its own:
    utils.expand_brackets(text without whitespace) is compared with the Coq model Tokenizer.expand_brackets and with an independent recursive-descent expansion"""
    seen, budget = set(), (400 if tier == 'quick' else 6000)
    for c in _gen_cases_base(rng, tier):
        yield c
        texts = [c['fmt']] if isinstance(c.get('fmt'), str) else [f for f in c.get('fmts', []) if isinstance(f, str)]
        for t in texts:
            t = ''.join(t.split())
            if ('(' in t or ')' in t) and t not in seen and len(t) <= 160 and budget > 0 and t.isascii() and '"' not in t:
                seen.add(t); budget -= 1
                yield {'op': 'expand', 'fmt': t}
    # shapes the grammar generator does not produce: digit runs that merge into new factors, stray brackets, factors with leading zeros, empty bodies
    for t in ['1(2*(a))', 'a)(b)', '(a))', '007*(a)', '0*(a),b', 'a,0*(b)', '2*(),a', '()', '2*(a,3*(b,(c)),d),e', '12*(a)', '(a,b),3*(a,b)', '2*(a,b),12*(a,b)', '3*(x,2*(f)),12*(f)',
              '2*(u8)3*(u4)', '*(a)', 'x*(a)', '2*((a)', '((a),(b))', '10*(a,b)', '9*(9*(a))']:
        yield {'op': 'expand', 'fmt': t}
    for _ in range(40 if tier == 'quick' else 800):
        yield {'op': 'expand', 'fmt': ''.join(rng.choice('()*,0123a:') for _ in range(rng.randrange(1, 13)))}

def ref_expand(s):
    """independent expansion by recursive descent, for well-formed inputs only (None otherwise): seq := item (',' item)* ; item := [digits '*'] '(' seq ')' | text without brackets or commas.
    A bracket with factor n stands for its expanded body written n times joined by commas (once without a factor; nothing at all for n = 0)."""
    pos = 0
    def seq():
        nonlocal pos
        parts = [item()]
        while pos < len(s) and s[pos] == ',':
            pos += 1; parts.append(item())
        return ','.join(parts)
    def item():
        nonlocal pos
        st = pos
        while pos < len(s) and s[pos].isdigit() and s[pos].isascii(): pos += 1
        if pos > st and s[pos:pos + 2] == '*(':
            n = int(s[st:pos]); pos += 2; body = seq()
            if pos >= len(s) or s[pos] != ')': raise SyntaxError
            pos += 1
            if pos < len(s) and s[pos] not in ',)': raise SyntaxError          # text glued to a bracket: not a well-formed format
            return ','.join([body] * n)
        pos = st
        if s[pos:pos + 1] == '(':
            pos += 1; body = seq()
            if pos >= len(s) or s[pos] != ')': raise SyntaxError
            pos += 1
            if pos < len(s) and s[pos] not in ',)': raise SyntaxError
            return body
        while pos < len(s) and s[pos] not in '(),': pos += 1
        if pos < len(s) and s[pos] == '(': raise SyntaxError                   # text glued in front of a bracket ("a(b)", "x*(a)")
        return s[st:pos]
    try:
        r = seq()
        return r if pos == len(s) else None
    except (SyntaxError, IndexError, RecursionError):
        return None

def kind(c): return 'pack_repeat' if c.get('repeat') else c['op']

def canon(v):
    import bitstring
    if isinstance(v, float): return ['f', v.hex()]
    if isinstance(v, bytes): return ['b', list(v)]
    if isinstance(v, bitstring.Bits): return ['bits', v.bin]
    return v

def pyval(v):
    return bytes(v) if isinstance(v, list) else v

def run_impl(c):
    import bitstring
    from bitstring import pack, Bits
    if c['op'] == 'expand':
        return attempt(lambda: bitstring.utils.expand_brackets(c['fmt']), 20)
    if c['op'] == 'malformed':
        def f():
            r = {}
            for name, fn in (('pack', lambda: pack(c['fmt'], 1, 2, 3).bin), ('bits', lambda: Bits(c['fmt']).bin), ('unpack', lambda: [canon(x) for x in Bits('0xabcdef').unpack(c['fmt'])]),
                             ('pre', lambda: bitstring.utils.preprocess_tokens(c['fmt']))):
                r[name] = list(attempt(fn, 5))
            return r
        return attempt(f, 30)
    if c['op'] == 'missized':
        nm, st, val = c['name'], c['stated'], c['val']
        tok = {'colon': f'{nm}:{st}', 'joined': f'{nm}{st}', 'kw': f'{nm}:n'}[c['spell']]
        kw = {'n': st} if c['spell'] == 'kw' else {}
        pyv = val.encode() if nm == 'bytes' else (('0b' + val) if nm == 'bits' else val)
        fm, vs = [tok], [pyv]
        if c['other']:
            if c['first']: fm, vs = [c['other'][0]] + fm, [c['other'][1]] + vs
            else: fm, vs = fm + [c['other'][0]], vs + [c['other'][1]]
        r = {'pack': list(attempt(lambda: pack(', '.join(fm), *vs, **kw).bin))}
        if nm != 'bytes' and c['spell'] != 'kw':
            emb = ', '.join(f'{t}={v}' for t, v in zip(fm, vs))
            r['string'] = list(attempt(lambda: Bits(emb).bin))
        return ('ok', r)
    if c['op'] == 'packlist':
        vals = [v for v in c['vals'] if v is not None]
        def g():
            pv = [pyval(v) for v in vals]
            a = pack(c['fmts'], *pv).bin
            b = pack(c['fmts'], *pv).bin
            k = sum(1 for v in c['vals'][:c['n0']] if v is not None)
            first = pack(c['fmts'][0], *pv[:k]).bin
            joined = pack(', '.join(c['fmts']), *pv).bin
            return [a, b, first, joined]
        return attempt(g, 20)
    args = [pyval(v) for v in c['args']]
    kw = {k: pyval(v) for k, v in c['kw'].items()}
    lkw = c['lkw']
    def f():
        out = {}
        p = pack(c['fmt'], *args, **kw)
        out['bin'] = p.bin; out['len'] = len(p); out['cls'] = type(p).__name__
        out['unpack'] = [canon(x) for x in p.unpack(c['plain'], **lkw)]
        out['pre'] = bitstring.utils.preprocess_tokens(c['fmt'])
        # arity
        if c['arity'] == -1 and args: out['few'] = list(attempt(lambda: pack(c['fmt'], *args[:-1], **kw).bin))
        if c['arity'] == 1: out['many'] = list(attempt(lambda: pack(c['fmt'], *(args + [0]), **kw).bin))
        return out
    r = attempt(f, 20)
    if r[0] != 'ok': return r
    out = r[1]
    exp = ''.join(c['bits'])
    # reading the reference bits back with the format, on each class and through each reading method
    def rd():
        o = cls_of(c['ucls'])(bin=exp)
        m = c['umeth'] if hasattr(o, 'pos') else 'unpack'
        got = getattr(o, m)(c['plain'], **lkw)
        return [m, [canon(x) for x in got], getattr(o, 'pos', None)]
    out['read'] = list(attempt(rd, 10))
    # the format as a token string: every value written out in the format itself, flat ...
    if all(t is not None or nm == 'pad' for (nm, n), t in zip(c['toks'], c['etext'])) and c['toks']:
        flat = ', '.join(f'pad:{n}' if nm == 'pad' else f"{nm}{'' if n is None else ':' + str(n)}={t}" for (nm, n), t in zip(c['toks'], c['etext']))
        out['embedded'] = {cn: list(attempt(lambda: cls_of(cn)(flat).bin)) for cn in CLASSES}
        out['embedded']['pack'] = list(attempt(lambda: pack(flat).bin))
        out['embedded']['text'] = flat
    # ... and with its brackets and factors
    if not args and c['fmt'].strip():
        o2 = {}
        if not kw:
            for cn in CLASSES: o2[cn] = list(attempt(lambda: cls_of(cn)(c['fmt']).bin))
            o2['fromstring'] = list(attempt(lambda: Bits.fromstring(c['fmt']).bin))
            o2['add'] = list(attempt(lambda: (bitstring.BitArray() + c['fmt']).bin))
            o2['append'] = list(attempt(lambda: (lambda b: (b.append(c['fmt']), b.bin)[1])(bitstring.BitStream())))
            o2['eq'] = list(attempt(lambda: exp if Bits(bin=exp) == c['fmt'] else 'unequal'))
        out['string'] = o2
    # 'f1, f2' = f1 followed by f2
    if 'split' in c:
        s = c['split']
        out['split'] = [list(attempt(lambda: pack(s['f1'], *args[:s['a1']], **kw).bin)), list(attempt(lambda: pack(s['f2'], *args[s['a1']:], **kw).bin))]
    return ('ok', out)

def oracle(c, obs):
    if c['op'] == 'expand':
        exp = ref_expand(c['fmt'])
        if exp is None:
            # not a well-formed format: the expansion either raises ValueError or returns some text (the Coq model says which); nothing else may happen
            return None if obs[0] == 'ok' or obs[1] == 'ValueError' else f"expand_brackets({c['fmt']!r}) raised {obs[1]}"
        if '0*(' in c['fmt'] or '00*(' in c['fmt']: exp_ok = None     # what is left around an empty expansion (neighbouring commas) is decided by the model
        else: exp_ok = exp
        if obs[0] != 'ok': return f"expand_brackets({c['fmt']!r}) raised {obs[1]}; the format is well formed and expands to {exp!r}"
        if exp_ok is not None and obs[1] != exp_ok: return f"expand_brackets({c['fmt']!r}) = {obs[1]!r}; writing each bracket's body factor times gives {exp_ok!r}"
        return None
    if c['op'] == 'malformed':
        if obs[0] != 'ok': return f"malformed format {c['fmt']!r}: {obs}"
        for name, r in obs[1].items():
            if r[0] == 'err' and r[1] not in ('ValueError', 'ReadError', 'BsError', 'TypeError'):
                return f"{name}({c['fmt']!r}) raised {r[1]} (only CreationError/ValueError/ReadError/Error are documented); OutOfFuel = did not terminate"
        return None
    if c['op'] == 'missized':
        for how, r in obs[1].items():
            if r != ['err', 'ValueError']:
                return f"{how}: token {c['name']} with the stated length {c['stated']} ({c['spell']}) and the value {c['val']!r} ({len(c['val'])} digits) must raise CreationError, got {r}"
        return None
    if c['op'] == 'packlist':
        if obs[0] != 'ok': return f"pack({c['fmts']}, {c['vals']}) raised {obs}"
        a, b, first, joined = obs[1]
        exp = ''.join(c['bits']); exp0 = ''.join(c['bits'][:c['n0']])
        if a != exp or b != exp or joined != exp or first != exp0:
            return (f"pack with the list format {c['fmts']} and values {c['vals']}: first call {a!r}, second call {b!r}, first item alone afterwards {first!r}, "
                    f"joined string {joined!r}; concatenation of token encodings is {exp!r} (first item: {exp0!r})")
        return None
    exp_bits = ''.join(c['bits'])
    call = f"pack({c['fmt']!r}, *{c['args'][:12]}{'...' if len(c['args']) > 12 else ''} ({len(c['args'])} values), **{c['kw']})"
    if obs[0] != 'ok': return f"{call} raised {obs}; the format flattens to {len(c['toks'])} tokens {c['toks'][:12]} with the values {c['vals'][:12]}"
    o = obs[1]
    if o['bin'] != exp_bits or o['len'] != len(exp_bits): return f"{call} = {o['bin']!r} ({o['len']} bits), concatenation of token encodings of {c['toks'][:12]} with the values {c['vals'][:12]} is {exp_bits!r} ({len(exp_bits)} bits)"
    if o['cls'] != 'BitStream': return f"pack returned a {o['cls']}"
    back = [b for (nm, n), b in zip(c['toks'], c['back']) if nm != 'pad']
    if o['unpack'] != back: return f"unpack({c['plain']!r}) of the packed bits gave {len(o['unpack'])} values {o['unpack'][:12]}, the {len(back)} packed values were {back[:12]}"
    if 'few' in o and o['few'] != ['err', 'ValueError']: return f"pack({c['fmt']!r}) with one value missing: {o['few']}"
    if 'many' in o and o['many'] != ['err', 'ValueError']: return f"pack({c['fmt']!r}) with one value too many: {o['many']}"
    if 'read' in o:
        r = o['read']
        if r[0] != 'ok': return f"{c['ucls']}(bin={exp_bits!r}).{c['umeth']}({c['plain']!r}, **{c['lkw']}) raised {r}; these are the bits of the tokens {c['toks'][:12]} with the values {back[:12]}"
        m, got, pos = r[1]
        if got != back: return f"{c['ucls']}(bin={exp_bits!r}).{m}({c['plain']!r}) gave {len(got)} values {got[:12]}, the bits encode the {len(back)} values {back[:12]}"
        want_pos = None if pos is None else (len(exp_bits) if m == 'readlist' else 0)
        if m != 'unpack' and pos != want_pos: return f"{c['ucls']}(bin=...).{m}({c['plain']!r}) left pos = {pos}, expected {want_pos}"
    if 'embedded' in o:
        for how, r in o['embedded'].items():
            if how != 'text' and r != ['ok', exp_bits]:
                return f"token string {o['embedded']['text']!r} (values of {c['fmt']!r} written as text) through {how} gave {r}, the values {c['vals'][:12]} encode to {exp_bits!r}"
    if 'string' in o:
        for how, r in o['string'].items():
            if r != ['ok', exp_bits]: return f"token string {c['fmt']!r} through {how} gave {r}; its tokens {c['toks'][:12]} with the values {c['vals'][:12]} encode to {exp_bits!r}"
    if 'split' in o:
        s = c['split']; e1 = ''.join(c['bits'][:s['t1']]); e2 = ''.join(c['bits'][s['t1']:])
        if o['split'] != [['ok', e1], ['ok', e2]]:
            return f"format {c['fmt']!r} = {s['f1']!r} followed by {s['f2']!r}: packing the two parts gave {o['split']}, expected {e1!r} and {e2!r}"
    if len(o['pre']) != len(c['toks']): return f"preprocess_tokens({c['fmt']!r}) has {len(o['pre'])} tokens {o['pre'][:12]}, the grammar flattens it to {len(c['toks'])}"
    return None

def nontrivial(c, obs): return c['op'] == 'pack' and any(ch in c['fmt'] for ch in '*(<>=')
def classify(c, obs): return None

def cval(nm, v):
    if nm in ('uint', 'int') or nm in GC: return f"(ValZ {cz(v)})"
    if nm == 'bool': return f"(ValBool {cbool(v)})"
    return None

def coq_check(c, obs):
    """token-level pack/unpack for formats whose tokens the model covers; bracket expansion on the character-level model"""
    if c['op'] == 'expand':
        if obs[0] == 'ok':
            if not obs[1].isascii() or '"' in obs[1] or len(obs[1]) > 4000: return None
            return f'res_eqb String.eqb (run (100 * 100)%nat "{c["fmt"]}") (Ok "{obs[1]}"%string)'
        return f'res_eqb String.eqb (run (100 * 100)%nat "{c["fmt"]}") (Err {obs[1]})' if obs[1] in COQ_EXNS else 'false'
    if c['op'] != 'pack' or obs[0] != 'ok' : return None
    if c.get('repeat') and len(c['toks']) > 24: return None        # the model works on the flattened token list, which says nothing about how the text was expanded: the long ones are left to the oracle
    toks, vals = [], []
    for (nm, n), v, b in zip(c['toks'], c['vals'], c['bits']):
        if nm in ('uint', 'int', 'bool'): toks.append(f"(TFixed {CK[nm]} {n}, @None value)"); vals.append(cval(nm, v))
        elif nm in GC: toks.append(f"(TVar {GC[nm]}, @None value)"); vals.append(cval(nm, v))
        elif nm == 'pad': toks.append(f"(TFixed KPad {n}, @None value)")
        elif nm in ('bits', 'bin', 'hex', 'bytes') and n is not None: toks.append(f"(TFixed {CK[nm]} {n}, @None value)"); vals.append(f"(ValBits {cbits(b)})")
        else: return None
    if not toks: return None
    T = '[' + '; '.join(toks) + ']'; V = ('[' + '; '.join(vals) + ']') if vals else '(@nil value)'
    return (f"rbits_eqb (pack false {T} {V}) (Ok {cbits(obs[1]['bin'])}) && "
            f"res_eqb (list_eqb value_eqb) (unpack {cbits(obs[1]['bin'])} (map fst {T})) (Ok {V})")

def search(seeds, rng):
    for c in list(seeds) + list(gen_cases(rng, 'quick')):
        try: obs = run_impl(c)
        finally: reset_options()
        msg = oracle(c, obs)
        if msg: return c, obs, msg
    return None
