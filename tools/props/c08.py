"""C08 — behaviour depends only on bit content, not on where the bits came from."""
from vlib import *
from props.common import *
import io, os, tempfile

ID = 'C08'
COQ_PROPS = ['Props/C08.v']
COQ_IMPORTS = ['Prims', 'CaseLib', 'BitsCore', 'Search', 'Store']
RULE = ('each content is built by every route (bin/hex text, token string incl. a cache hit, bytes with offset/length, iterable, bitarray, array, BytesIO, slice/copy of a larger object, join, '
        'file name and file handle with offset in {0, unaligned, aligned} and length in {None, whole, shorter, not a multiple of 8}) and a battery of ~45 non-mutating operations and ~20 mutators '
        '(on a mutable class) is run on each, under msb0 and lsb0; every result must equal the result for Bits(bin=content). non-trivial = route other than bin=; distinct by (content, route, mode)')
ASSUMPTIONS = ['a file is its bytes (mmap itself is not modelled)', 'repr of a file-backed object shows filename= by design and is excluded; str is included']
FILE_ROUTES = ['file_whole', 'file_len', 'file_off', 'file_off_len', 'file_unaligned', 'handle', 'handle_off_len', 'file_shorter_nonmult',
               'file_exact_len', 'handle_exact_len']
ALL_ROUTES = ROUTES + FILE_ROUTES + ['hex', 'cachehit', 'array', 'memoryview', 'fromstring', 'bitarray_little', 'bitarray_little_window', 'after_setter_hex', 'after_setter_bin', 'after_setter_bits', 'after_setter_bytes']

def gen_cases(rng, tier):
    N = 40 if tier == 'quick' else 500
    for i in range(N):
        n = rng.choice([8, 16, 20, 24, 33, 64, 100, 4, 1]) if rng.random() < 0.8 else rand_len(rng, tier)
        if i % 13 == 0 and tier == 'thorough': n = rng.choice([2001, 3000])
        bits = rand_bits(rng, n)
        for route in ALL_ROUTES:
            if tier == 'quick' and rng.random() < 0.5 and route not in FILE_ROUTES: continue
            yield {'op': 'battery', 'bits': bits, 'route': route, 'cls': rng.choice(CLASSES), 'lsb0': rng.random() < 0.3, 'seed': rng.randrange(1 << 30)}

    # store-level cases: the file window mechanism (buffer + modified_length) against Store.v
    M = 120 if tier == 'quick' else 1500
    for i in range(M):
        nb = rng.choice([1, 2, 3, 4, 5, 8])
        src = [rng.randrange(256) for _ in range(nb)]
        T = nb * 8
        off = rng.choice([None, 0, 0, 0, 3, 8, rng.randrange(0, T + 2)])
        ln = rng.choice([None, T, T, T - (off or 0), rng.randrange(0, T + 2), rng.randrange(0, T + 2)])
        v = lambda: rng.choice([None, None, -T - 3, -T, -T + 1, -2, -1, 0, 1, 2, T // 2, T - 1, T, T + 5, rng.randrange(-T - 2, T + 3)])
        yield {'op': 'store', 'src': src, 'offset': off, 'length': ln, 'key': [v(), v(), rng.choice([None, 1, 2, 3, -1, -1, -2, -3, -T, T, 7])],
               'key2': [v(), v()], 'cls': rng.choice(CLASSES), 'handle': rng.random() < 0.3}

def kind(c): return c['route'] if c['op'] == 'battery' else 'store'

def build_route(C, bits, route, tmpfiles):
    """object of class C holding `bits` built through `route`; files are created in tmpfiles"""
    import bitstring, array
    n = len(bits)
    def mkfile(prefix_bits, suffix_bits):
        allb = prefix_bits + bits + suffix_bits
        allb += '0' * ((-len(allb)) % 8)
        fd, path = tempfile.mkstemp(prefix='verif_c08_')
        with os.fdopen(fd, 'wb') as fh: fh.write(int(allb, 2).to_bytes(len(allb) // 8, 'big') if allb else b'')
        tmpfiles.append(path); return path
    if route in ROUTES: return build(C.__name__, bits, route)
    if route == 'hex':
        return C(hex=format(int(bits, 2), f'0{n // 4}x')) if n % 4 == 0 and n else C(bin=bits)
    if route.startswith('after_setter_'):
        # the same text / value was first given to another, mutable object through its property and that object was edited in place
        k = route[len('after_setter_'):]
        if not n or (k == 'hex' and n % 4) or (k == 'bytes' and n % 8): return C(bin=bits)
        val = {'hex': lambda: format(int(bits, 2), f'0{n // 4}x'), 'bin': lambda: bits, 'bits': lambda: '0b' + bits, 'bytes': lambda: int(bits, 2).to_bytes(n // 8, 'big')}[k]()
        for M in (bitstring.BitArray, bitstring.BitStream):
            a = M(); setattr(a, k, val); a.invert(); a.append('0b1'); del a[0]
            a = M(); setattr(a, k, val); a.set(1); a.reverse()
        return C(**{k: val}) if k != 'bits' else C(val)
    if route == 'cachehit':
        bitstring.Bits('0b' + bits) if n else None
        return C('0b' + bits) if n else C()
    if route == 'fromstring': return C.fromstring('0b' + bits) if n else C()
    if route == 'array':
        if n % 8 or not n: return C(bin=bits)
        return C(array.array('B', int(bits, 2).to_bytes(n // 8, 'big')))
    if route == 'memoryview':
        if n % 8 or not n: return C(bin=bits)
        return C(memoryview(int(bits, 2).to_bytes(n // 8, 'big')))
    if route == 'bitarray_little':
        import bitarray
        return C(bitarray.bitarray(bits, endian='little'))
    if route == 'bitarray_little_window':
        import bitarray
        return C(bitarray=bitarray.bitarray('101' + bits + '0110', endian='little'), offset=3, length=n)
    if n == 0: return C(bin=bits)
    if route == 'file_exact_len': return C(filename=mkfile('', ''), length=n)          # length given and equal to the whole file when n % 8 == 0
    if route == 'handle_exact_len':
        with open(mkfile('', ''), 'rb') as fh: return C(fh, length=n, offset=0)
    if route == 'file_whole':
        if n % 8: return C(filename=mkfile('', ''), length=n)
        return C(filename=mkfile('', ''))
    if route == 'file_len': return C(filename=mkfile('', '10110011' * 2), length=n)
    if route == 'file_shorter_nonmult': return C(filename=mkfile('', '1' * 13), length=n)
    if route == 'file_off':
        p = mkfile('10100101', '')
        return C(filename=p, offset=8) if n % 8 == 0 else C(filename=p, offset=8, length=n)
    if route == 'file_off_len': return C(filename=mkfile('1010010111110000', '0110'), offset=16, length=n)
    if route == 'file_unaligned': return C(filename=mkfile('101', '11111'), offset=3, length=n)
    if route == 'handle':
        p = mkfile('', '')
        with open(p, 'rb') as fh:
            return C(fh) if n % 8 == 0 else C(fh, length=n)
    if route == 'handle_off_len':
        p = mkfile('11001', '111')
        with open(p, 'rb') as fh:
            return C(fh, offset=5, length=n)
    raise AssertionError(route)

def battery(s, bits, rng_seed):
    """a list of (name, result) for non-mutating operations, then mutators on a mutable copy of the same route"""
    import bitstring, random
    from bitstring import Bits
    rng = random.Random(rng_seed)
    n = len(bits)
    i = rng.randrange(-n - 1, n + 1) if n else 0
    a, b = sorted([rng.randrange(0, n + 1), rng.randrange(0, n + 1)])
    pat = bits[a:a + 3] or '1'
    other = Bits(bin=rand_bits(rng, n))
    out = []
    def t(name, fn):
        r = attempt(fn)
        v = r[1]
        if isinstance(v, bitstring.Bits): v = ['B', type(v).__name__, v.bin]
        elif isinstance(v, (list, tuple)): v = [x.bin if isinstance(x, bitstring.Bits) else x for x in v]
        elif isinstance(v, bytes): v = list(v)
        elif isinstance(v, float): v = v.hex() if v == v else 'nan'
        out.append([name, r[0], v])
    t('len', lambda: len(s)); t('bin', lambda: s.bin); t('bool', lambda: bool(s)); t('str', lambda: str(s))
    t('eq_ref', lambda: s == Bits(bin=bits)); t('req_ref', lambda: Bits(bin=bits) == s); t('ne_other', lambda: s != other)
    t('hash', lambda: hash(s) == hash(Bits(bin=bits)) if not isinstance(s, bitstring.BitArray) else None)
    t('getitem', lambda: s[i]); t('getitem_last', lambda: s[-1]); t('getitem_past', lambda: s[n]); t('getitem_far', lambda: s[n + 7])
    t('slice', lambda: s[a:b]); t('rev', lambda: s[::-1]); t('step', lambda: s[::3]); t('negstep', lambda: s[b:a:-2])
    t('iter', lambda: [bool(x) for x in s]); t('count1', lambda: s.count(1)); t('count0', lambda: s.count(0))
    t('all', lambda: s.all(1)); t('any', lambda: s.any(1)); t('any0', lambda: s.any(0)); t('all_pos', lambda: s.all(1, [i] if n else []))
    t('add', lambda: s + '0b101'); t('radd', lambda: '0b01' + s); t('mul', lambda: s * 2); t('invert', lambda: ~s)
    t('and', lambda: s & other); t('or', lambda: s | other); t('xor', lambda: s ^ other); t('lshift', lambda: s << 3); t('rshift', lambda: s >> 2)
    t('find', lambda: s.find(Bits(bin=pat))); t('rfind', lambda: s.rfind(Bits(bin=pat))); t('findall', lambda: list(s.findall(Bits(bin=pat), count=5)))
    t('in', lambda: Bits(bin=pat) in s); t('startswith', lambda: s.startswith(Bits(bin=bits[:2]))); t('endswith', lambda: s.endswith(Bits(bin=bits[-3:])))
    t('cut', lambda: list(s.cut(5))); t('split', lambda: list(s.split(Bits(bin=pat), count=4))); t('join', lambda: s.join(['0b1', '0b0', '0b1']))
    t('tobytes', lambda: s.tobytes()); t('bytes', lambda: s.bytes); t('tobitarray', lambda: s.tobitarray().to01())
    t('uint', lambda: s.uint); t('int', lambda: s.int); t('hex', lambda: s.hex); t('oct', lambda: s.oct); t('uintle', lambda: s.uintle); t('float', lambda: s.float)
    t('unpack', lambda: s.unpack('bits:3, bin')); t('copy', lambda: s.copy()); t('toBitArray', lambda: bitstring.BitArray(s)); t('toBits', lambda: Bits(s))
    t('tofile', lambda: (lambda bio: (s.tofile(bio), bio.getvalue())[1])(io.BytesIO()))
    if hasattr(s, 'pos'):
        t('read', lambda: (s.__setattr__('pos', 0) if False else None, s.read(min(3, n)))[1]); t('pos', lambda: s.pos)
    if isinstance(s, bitstring.BitArray):
        # objects taken from s beforehand must keep their value whatever is done to s afterwards, whatever route s was built by
        import copy as _copy
        def edit_copy():
            c2 = s.copy(); c2.invert(); c2.append('0b1'); c3 = _copy.copy(s); c3.set(1); return [s.bin, len(c2), len(c3)]
        t('edit_a_copy', edit_copy)
        kept = [s.copy(), _copy.copy(s), Bits(s), bitstring.ConstBitStream(s), s[:], bitstring.BitArray(s)]
        def m(name, fn):
            def g():
                r = fn(); return [r, s.bin]
            t('mut_' + name, g)
        m('append', lambda: s.append('0b11')); m('prepend', lambda: s.prepend('0b0')); m('insert', lambda: s.insert('0b101', min(2, len(s))))
        m('overwrite', lambda: s.overwrite('0b00', 0)); m('setitem', lambda: s.__setitem__(0, 1)); m('setslice', lambda: s.__setitem__(slice(1, 3), '0b111'))
        m('del', lambda: s.__delitem__(slice(0, 2))); m('reverse', lambda: s.reverse()); m('rol', lambda: s.rol(3)); m('ror', lambda: s.ror(1, 1))
        m('set', lambda: s.set(1, [0, -1])); m('invert', lambda: s.invert(0)); m('ilshift', lambda: s.__ilshift__(1)); m('imul', lambda: s.__imul__(2))
        m('iand', lambda: s.__iand__(Bits(len(s)))); m('replace', lambda: s.replace('0b1', '0b00', count=2)); m('byteswap', lambda: s.byteswap(1)); m('clear', lambda: s.clear())
        t('kept_copies', lambda: [k.bin for k in kept])

    return out

def run_store(c):
    import bitstring
    C = cls_of(c['cls'])
    fd, path = tempfile.mkstemp(prefix='verif_c08s_')
    with os.fdopen(fd, 'wb') as fh: fh.write(bytes(c['src']))
    try:
        def f():
            kw = {}
            if c['offset'] is not None: kw['offset'] = c['offset']
            if c['length'] is not None: kw['length'] = c['length']
            if c['handle']:
                with open(path, 'rb') as fh: s = C(fh, **kw)
            else:
                s = C(filename=path, **kw)
            st = s._bitstore
            a, b, k = c['key']
            sl = attempt(lambda: s[a:b:k].bin)
            a2, b2 = c['key2']
            sl2 = attempt(lambda: s[a2:b2].bin)
            return {'mlen': st.modified_length, 'rawlen': len(st._bitarray), 'len': len(s), 'bin': s.bin, 'slice': sl, 'slice2': sl2,
                    'tobytes': list(s.tobytes()), 'count1': s.count(1), 'inv': attempt(lambda: (~s).bin), 'add': (s + '0b10').bin,
                    'eq': s == bitstring.Bits(bin=s.bin), 'copybin': s[:].bin}
        return attempt(f, 30)
    finally:
        try: os.unlink(path)
        except OSError: pass

def run_impl(c):
    import bitstring
    if c['op'] == 'store': return run_store(c)
    C = cls_of(c['cls'])
    tmp = []
    try:
        def f():
            # file/BytesIO windows must not depend on the mode, so those are built under the configured mode;
            # the generic routes use positional slicing themselves and are built under msb0
            bitstring.options.lsb0 = c['lsb0'] if c['route'] in FILE_ROUTES else False
            s = build_route(C, c['bits'], c['route'], tmp)
            bitstring.options.lsb0 = False
            ref = C(bin=c['bits'])
            bitstring.options.lsb0 = c['lsb0']
            got = battery(s, c['bits'], c['seed'])
            exp = battery(ref, c['bits'], c['seed'])
            diffs = [[g, e] for g, e in zip(got, exp) if g != e]
            return {'n_ops': len(got), 'diffs': diffs[:5], 'n_diffs': len(diffs), 'built_bin': None}
        return attempt(f, 30)
    finally:
        for p in tmp:
            try: os.unlink(p)
            except OSError: pass

def oracle_store(c, obs):
    T = len(c['src']) * 8
    allbits = ''.join(format(x, '08b') for x in c['src'])
    o = c['offset'] or 0
    valid = T > 0 and 0 <= o and (c['length'] is None or c['length'] >= 0) and o + (c['length'] or 0) <= T
    what = f"{c['cls']}({'handle' if c['handle'] else 'filename'} of {c['src']}, offset={c['offset']}, length={c['length']})"
    if T == 0: return None                                   # an empty file cannot be mapped (OS)
    if not valid:
        return None if obs[0] == 'err' else f"{what} accepted a window outside the file: {str(obs)[:200]}"
    if obs[0] != 'ok': return f"{what} raised {obs}"
    r = obs[1]
    w = allbits[o:o + c['length']] if c['length'] is not None else allbits[o:]
    a, b, k = c['key']; a2, b2 = c['key2']
    exp = {'len': len(w), 'bin': w, 'slice': ('ok', w[a:b:k]), 'slice2': ('ok', w[a2:b2]), 'count1': w.count('1'),
           'tobytes': list(int(w + '0' * (-len(w) % 8), 2).to_bytes((len(w) + 7) // 8, 'big')) if w else [],
           'inv': ('ok', ''.join('10'[int(x)] for x in w)) if w else ('err', 'BsError'), 'add': w + '10', 'eq': True, 'copybin': w}
    for key, e in exp.items():
        g = r[key]
        if isinstance(g, list) and isinstance(e, tuple): g = tuple(g)
        if g != e: return f"{what}: {key} (key={c['key']}, key2={c['key2']}) is {str(g)[:120]}, the window's bits give {str(e)[:120]}"
    return None

def oracle(c, obs):
    if c['op'] == 'store': return oracle_store(c, obs)
    if obs[0] != 'ok': return f"building {c['cls']} via {c['route']} ({len(c['bits'])} bits, lsb0={c['lsb0']}) raised {obs}"
    if obs[1]['n_diffs']:
        return (f"{c['cls']} built via {c['route']} (lsb0={c['lsb0']}, bits={c['bits'][:40]!r}..{len(c['bits'])}) differs from the bin= object in {obs[1]['n_diffs']} operations, e.g. "
                f"{str(obs[1]['diffs'][0])[:300]}")
    return None

def nontrivial(c, obs): return c['op'] == 'store' or c['route'] != 'bin'
def classify(c, obs): return None

def coq_check(c, obs):
    if c['op'] != 'store' or not c['src']: return None
    bits = ''.join(format(x, '08b') for x in c['src'])
    L, O = copt(c['length'], cz), copt(c['offset'], cz)
    if obs[0] != 'ok':
        return f"match setfile {cbits(bits)} {L} {O} with Ok _ => false | Err _ => true end"
    r = obs[1]
    a, b, k = c['key']; a2, b2 = c['key2']
    mut = c['cls'] in MUTABLE        # BitArray.__init__: an immutable (file) store is copied into memory, st_copy
    return (f"match setfile {cbits(bits)} {L} {O} with Err _ => false | Ok s0 => let s := {'st_copy s0' if mut else 's0'} in "
            f"opt_eqb Z.eqb (mlen s) {copt(r['mlen'], cz)} && (zlen (raw s) =? {r['rawlen']}) && (st_len s =? {r['len']}) && bits_eqb (bits_of s) {cbits(r['bin'])} "
            f"&& rbits_eqb (st_getslice_withstep_msb0 s {cslice(a, b, k)}) {cres(tuple(r['slice']), cbits)} "
            f"&& rbits_eqb (st_getslice_msb0 s {copt(a2, cz)} {copt(b2, cz)}) {cres(tuple(r['slice2']), cbits)} "
            f"&& zlist_eqb (st_tobytes s) {clist(r['tobytes'], cz)} && (st_count s true =? {r['count1']}) "
            f"&& bits_eqb (st_add s (mkstore {cbits('10')} None)) {cbits(r['add'])} && Bool.eqb (st_eq s (mkstore {cbits(r['bin'])} None)) {cbool(r['eq'])} end")

def search(seeds, rng):
    for c in list(seeds) + list(gen_cases(rng, 'quick')):
        try: obs = run_impl(c)
        finally: reset_options()
        msg = oracle(c, obs)
        if msg: return c, obs, msg
    return None
