"""C08 — behaviour depends only on bit content, not on where the bits came from."""
from vlib import *
from props.common import *
import io, os, tempfile

ID = 'C08'
COQ_PROPS = ['Props/C08.v']
COQ_IMPORTS = ['Prims', 'CaseLib', 'BitsCore', 'Search', 'Store']
RULE = ('each content is built by every route (bin/hex text, token string incl. a cache hit, bytes with offset/length, iterable, bitarray, array, BytesIO, slice/copy of a larger object, join, '
        'file name and file handle with offset in {0, unaligned, aligned} and length in {None, whole, shorter, not a multiple of 8}) and a battery of ~45 non-mutating operations and ~20 mutators '
        '(on a mutable class) is run on each, under msb0 and lsb0; every result must equal the result for Bits(bin=content). Routes include duplicates by copy.deepcopy / pickle (of slices, files, containers, '
        'of originals edited before or afterwards); the duplicates of the object under test are probed, edited in place and kept while the object is edited, judged against a str model of the bits alone. '
        'bytes= with offset / length (and auto, setter, pack, build, + and append) is given ~190 kinds of carriers of the same raw bytes (array / memoryview.cast / ctypes / numpy items of 1-8 bytes, '
        'multi-dimensional, strided, reversed, sliced, subclasses, mmap, iterables), judged against the bits of the raw bytes. '
        'operands: one operation L op X (39 operators / methods / constructors taking a bitstring-like, 30 operations of L alone) with the same bits x carried by ~60 plain kinds of X (text spellings, bytes-likes, iterables, bitarrays, '
        'binary streams in every state) and by bitstrings of each class built by every route, incl. 14 ways of making an empty one, L built by a route too, every pair of classes, empty operands on either side: value and class from a str model, '
        'the result edited in place / its operands edited afterwards change nothing else (nor a re-parse of the same text). source: BytesIO (subclass, buffered wrappers) and file handles of each io class in 18 / 9 states '
        '(written, partly read, seeked, extended, truncated, used before with / without offset ...) used repeatedly with windows: the bits are those of the bytes held, whatever the position. '
        'non-trivial = route other than bin=; distinct by (content, route, mode)')
ASSUMPTIONS = ['a file is its bytes (mmap itself is not modelled)', 'repr of a file-backed object shows filename= by design and is excluded; str is included']
FILE_ROUTES = ['file_whole', 'file_len', 'file_off', 'file_off_len', 'file_unaligned', 'handle', 'handle_off_len', 'file_shorter_nonmult',
               'file_exact_len', 'handle_exact_len']
# copies made by the copy / pickle modules (directly, inside containers, of slices, of file-backed objects, of objects that were or are later edited in place):
# "a slice or copy of a larger object" - the copy is a bitstring of the same bits and nothing else, whatever happens to the object it was taken from
DEEP_ROUTES = ['deepcopy', 'deepcopy_container', 'pickle', 'pickle_container', 'deepcopy_of_slice', 'pickle_of_slice', 'deepcopy_of_file', 'pickle_of_file',
               'deepcopy_then_edit_orig', 'pickle_then_edit_orig', 'deepcopy_container_then_edit_orig', 'deepcopy_of_edited', 'pickle_of_edited']
ALL_ROUTES = ROUTES + FILE_ROUTES + ['hex', 'cachehit', 'array', 'memoryview', 'fromstring', 'bitarray_little', 'bitarray_little_window', 'after_setter_hex', 'after_setter_bin', 'after_setter_bits', 'after_setter_bytes'] + DEEP_ROUTES

def gen_cases(rng, tier):
    yield from route_cases(rng, tier)
    yield from operand_cases(rng, tier)
    yield from source_cases(rng, tier)      # (last: the first and last observations of a run are kept in the evidence file, and these are short)

def route_cases(rng, tier):
    N = 40 if tier == 'quick' else 500
    for i in range(N):
        n = rng.choice([8, 16, 20, 24, 33, 64, 100, 4, 1]) if rng.random() < 0.8 else rand_len(rng, tier)
        if i % 13 == 0 and tier == 'thorough': n = rng.choice([2001, 3000])
        bits = rand_bits(rng, n)
        for route in ALL_ROUTES:
            if tier == 'quick' and rng.random() < (0.7 if route in DEEP_ROUTES else 0.5) and route not in FILE_ROUTES: continue
            # deep: the duplicates made by the copy / pickle modules are part of the battery
            yield {'op': 'battery', 'bits': bits, 'route': route, 'cls': rng.choice(CLASSES), 'lsb0': rng.random() < 0.3, 'seed': rng.randrange(1 << 30),
                   'deep': rng.random() < (0.5 if tier == 'thorough' or route in DEEP_ROUTES else 0.2)}

    # store-level cases: the file window mechanism (buffer + modified_length) against Store.v
    M = 120 if tier == 'quick' else 1500
    for i in range(M):
        nb = rng.choice([1, 2, 3, 4, 5, 8])
        src = [rng.randrange(256) for _ in range(nb)]
        T = nb * 8
        off = rng.choice([None, 0, 0, 0, 3, 8, rng.randrange(0, T + 2)])
        ln = rng.choice([None, T, T, T - (off or 0), rng.randrange(0, T + 2), rng.randrange(0, T + 2)])
        v = lambda: rng.choice([None, None, -T - 3, -T, -T + 1, -2, -1, 0, 1, 2, T // 2, T - 1, T, T + 5, rng.randrange(-T - 2, T + 3)])
        yield {'op': 'store', 'src': src, 'offset': off, 'length': ln, 'key': [v(), v(), rng.choice([None, 1, 2, 3, -1, -1, -2, -3, -T, T, 7])],
               'key2': [v(), v()], 'cls': rng.choice(CLASSES), 'handle': rng.random() < 0.3}

    # the same windows with every slice bound on or next to a boundary (None, 0, +-1, +-len, +-len+-1, beyond) and every sign / size of step, mostly on windows that keep the file mapped
    for i in range(150 if tier == 'quick' else 1000):
        nb = rng.choice([1, 2, 3, 5, 8])
        src = [rng.randrange(256) for _ in range(nb)]
        T = nb * 8
        off, ln = rng.choice([(None, None), (0, T), (None, T), (0, T), (None, T), (0, None), (None, T - 3), (0, T - 8), (3, None), (5, T - 5)])
        W = T - (off or 0) if ln is None else ln
        bound = lambda: rng.choice([None, -W - 3, -W - 1, -W, -W + 1, -2, -1, 0, 1, W - 1, W, W + 1, W + 9, -T - 1, -T, T])
        step = rng.choice([k_ for k_ in [None, 1, 2, 3, -1, -1, -2, -3, -W, W, -W - 1, W + 1, 7, -7] if k_ != 0])
        start = rng.choice([None, -W - 3, -W - 1, -W - 1, -W, -W + 1, -1, 0, W - 1, W, W + 5]) if (step or 1) < 0 else bound()
        yield {'op': 'store', 'src': src, 'offset': off, 'length': ln, 'key': [start, bound(), step], 'key2': [bound(), bound()], 'cls': rng.choice(CLASSES + ['Bits', 'ConstBitStream']), 'handle': rng.random() < 0.4}

    # bytes= (and the other routes that take bytes-like data) given every kind of object that holds raw bytes: the bits are bits [offset, offset+length) of the raw bytes,
    # whatever the width, the shape, the strides or the type of the items of the object that carries them
    kinds = buffer_kinds()
    reps = 1 if tier == 'quick' else 12
    for rep in range(reps):
        for kname, isz, multi in kinds:
            count = rng.choice([1, 2, 3, 4, 6, 8, 12, 16] if not multi else [2, 4, 6, 8, 12, 16, 24])
            if isz == 1 and not multi and rng.random() < 0.3: count = rng.choice([0, 1, 5, 7, 9, 17, 33])
            if tier == 'thorough' and rng.random() < 0.05: count *= 16
            nb = isz * count
            raw = [rng.randrange(256) for _ in range(nb)] if rng.random() < 0.8 else [rng.choice([0, 255, 0x80, 1])] * nb
            if kname == 'mmap' and nb == 0: raw, nb = [0x5a], 1
            T = nb * 8
            wins = [[None, None], [rng.choice([1, 3, 8 * isz - 1, 8 * isz, 8 * isz + 3, 12]), rng.choice([1, 5, 8, 20, 8 * isz])], [rng.choice([0, 0, 3, 8, 8 * isz]), None], [None, rng.choice([0, 1, 9, 8 * isz, T])]]
            for _ in range(4):
                o = rng.choice([None, 0, 1, 3, 7, 8, 9, 13, 16, 8 * isz - 1, 8 * isz, 8 * isz + 1, 8 * isz + 5, T // 2, T - 9, T - 8, T - 1, T, T + 1, T + 8 * isz, rng.randrange(0, T + 9)])
                if o is not None and o < 0: o = 0
                rem = T - (o or 0)
                l = rng.choice([None, 0, 1, 5, 8, 16, 21, 8 * isz, 8 * isz + 1, rem, rem, rem - 1, rem + 1, rem - 8 * isz, T, rng.randrange(0, T + 9)])
                if l is not None and l < 0: l = 0
                wins.append([o, l])
            yield {'op': 'buffer', 'kind': kname, 'raw': raw, 'wins': wins, 'cls': rng.choice(CLASSES), 'lsb0': rng.random() < 0.3, 'explicit_none': rng.random() < 0.5, 'seed': rng.randrange(1 << 30),
                   'battery': rng.random() < 0.4}        # the whole battery on the first proper window, against the bin= object of the same bits

ARRAY_CODES = 'bBhHiIlLqQfd'
CAST_FMTS = 'bBcHhIiLlQqfd?'
CTYPES_NAMES = ['c_ubyte', 'c_uint16', 'c_int32', 'c_uint64', 'c_float', 'c_double']
NP_DTYPES = ['u1', '<u2', '>u2', '<i4', '>u4', '<u8', '<f4', '>f8']

def buffer_kinds():
    """(kind, bytes per item, needs an even number of items) for every carrier of raw bytes the generators use"""
    import array, struct, ctypes
    K = [(k, 1, False) for k in ('bytes', 'bytearray', 'bytes_subclass', 'bytearray_subclass', 'mv_bytes', 'mv_bytearray', 'mv_readonly', 'getbuffer', 'mmap', 'list', 'tuple', 'generator', 'iterator')]
    for code in ARRAY_CODES:
        z = array.array(code).itemsize
        K += [(f'array:{code}', z, False), (f'mv_array:{code}', z, False), (f'mv_array_slice:{code}', z, False), (f'array_subclass:{code}', z, False)]
    for f in CAST_FMTS:
        z = struct.calcsize(f)
        K += [(f'cast:{f}', z, False), (f'cast2d:{f}', z, True), (f'cast3d:{f}', z, True), (f'cast2d_rows:{f}', z, True), (f'strided:{f}', z, False), (f'reversed:{f}', z, False)]
    for nm in CTYPES_NAMES:
        z = ctypes.sizeof(getattr(ctypes, nm))
        K += [(f'ctypes:{nm}', z, False), (f'mv_ctypes:{nm}', z, False)]
    try:
        import numpy
        for dt in NP_DTYPES:
            z = numpy.dtype(dt).itemsize
            K += [(f'np:{dt}', z, False), (f'np_copy:{dt}', z, False), (f'np2d:{dt}', z, True), (f'np_strided:{dt}', z, False)]
    except Exception:
        pass
    return K

class _BytesSub(bytes): pass
class _BytearraySub(bytearray): pass

def _shape2(count):
    r = 2 if count % 2 == 0 else (3 if count % 3 == 0 else 1)
    return [r, count // r]

def make_buffer(kind, raw, keep):
    """an object carrying the raw bytes `raw`: its buffer (memoryview(obj).tobytes()), or for the plain iterables its items, are exactly `raw`"""
    import array, ctypes, io, mmap, struct
    k, _, a = kind.partition(':')
    n = len(raw)
    if k == 'bytes': return bytes(raw)
    if k == 'bytearray': return bytearray(raw)
    if k == 'bytes_subclass': return _BytesSub(raw)
    if k == 'bytearray_subclass': return _BytearraySub(raw)
    if k == 'mv_bytes': return memoryview(bytes(raw))
    if k == 'mv_bytearray': return memoryview(bytearray(raw))
    if k == 'mv_readonly': return memoryview(bytearray(raw)).toreadonly()
    if k == 'getbuffer':
        bio = io.BytesIO(raw); keep.append(bio); return bio.getbuffer()
    if k == 'mmap':
        m = mmap.mmap(-1, n); m.write(raw); m.seek(0); keep.append(m); return m
    if k == 'list': return list(raw)
    if k == 'tuple': return tuple(raw)
    if k == 'generator': return (x for x in raw)
    if k == 'iterator': return iter(list(raw))
    if k in ('array', 'mv_array', 'array_subclass'):
        arr = (array.array if k != 'array_subclass' else type('ArraySub', (array.array,), {}))(a); arr.frombytes(raw)
        return memoryview(arr) if k == 'mv_array' else arr
    if k == 'mv_array_slice':
        arr = array.array(a); z = arr.itemsize; arr.frombytes(b'\xa5' * z + raw + b'\x5a' * z)
        return memoryview(arr)[1:-1]
    if k in ('cast', 'cast2d', 'cast3d', 'cast2d_rows', 'strided', 'reversed'):
        z = struct.calcsize(a); count = n // z
        items = [raw[i:i + z] for i in range(0, n, z)]
        if k == 'cast': return memoryview(raw).cast(a)
        if k == 'cast2d': return memoryview(raw).cast(a, shape=_shape2(count))
        if k == 'cast3d': return memoryview(raw).cast(a, shape=[2, 2, count // 4] if count % 4 == 0 else [1] + _shape2(count))
        if k == 'cast2d_rows':
            r, cc = _shape2(count)
            return memoryview(b'\x77' * (cc * z) + raw).cast(a, shape=[r + 1, cc])[1:]
        if k == 'strided': return memoryview(b''.join(it + b'\xee' * z for it in items)).cast(a)[::2]
        return memoryview(b''.join(reversed(items))).cast(a)[::-1]
    if k in ('ctypes', 'mv_ctypes'):
        ty = getattr(ctypes, a); obj = (ty * (n // ctypes.sizeof(ty))).from_buffer_copy(raw)
        return memoryview(obj) if k == 'mv_ctypes' else obj
    if k in ('np', 'np_copy', 'np2d', 'np_strided'):
        import numpy
        z = numpy.dtype(a).itemsize
        if k == 'np': return numpy.frombuffer(raw, dtype=a)
        if k == 'np_copy': return numpy.frombuffer(raw, dtype=a).copy()
        if k == 'np2d': return numpy.frombuffer(raw, dtype=a).reshape(_shape2(n // z))
        return numpy.frombuffer(b''.join(raw[i:i + z] + b'\xee' * z for i in range(0, n, z)), dtype=a)[::2]
    raise AssertionError(kind)

def raw_of(obj):
    """the raw bytes an object carries, by Python's own rules (buffer protocol in logical order; items for the plain iterables)"""
    try: return memoryview(obj).tobytes()
    except TypeError: return bytes(obj)

def window_bits(raw, o, l):
    allbits = ''.join(format(x, '08b') for x in raw)
    o = o or 0
    return allbits[o:] if l is None else allbits[o:o + l]

def window_valid(raw, o, l):
    return (o or 0) + (l or 0) <= len(raw) * 8

def run_buffer(c):
    import bitstring, array
    C = cls_of(c['cls'])
    raw = bytes(c['raw'])
    keep = []
    bitstring.options.lsb0 = bool(c['lsb0'])
    def show(s, w):
        return {'cls': type(s).__name__, 'bin': s.bin, 'len': len(s), 'tobytes': list(s.tobytes()), 'count1': s.count(1), 'uint': list(attempt(lambda: format(s.uint, 'x'))),
                'eq': [s == bitstring.Bits(bin=w), bitstring.Bits(bin=w) == s, s == C(bin=w)], 'hex': list(attempt(lambda: s.hex)), 'first': list(attempt(lambda: bool(s[0]))),
                'rev': s[::-1].bin}
    def one(o, l, mutate_source=False):
        src = make_buffer(c['kind'], raw, keep)
        if not isinstance(src, (list, tuple)) and hasattr(src, '__len__') or isinstance(src, memoryview):
            assert raw_of(src) == raw, 'harness: the carrier does not hold the raw bytes'
        kw = {}
        if o is not None or c['explicit_none']: kw['offset'] = o
        if l is not None or c['explicit_none']: kw['length'] = l
        s = C(bytes=src, **kw)
        r = show(s, window_bits(raw, o, l))
        if hasattr(src, '__len__') or isinstance(src, memoryview):
            r['src_intact'] = raw_of(src) == raw                 # the initialiser only reads what it is given
            # the owner of the buffer changes it afterwards: an in-memory bitstring is not affected
            try:
                mv = memoryview(src)
                if not mv.readonly and mv.contiguous and mv.nbytes:
                    mvb = mv.cast('B') if mv.ndim == 1 else None
                    if mvb is not None:
                        for i in range(len(mvb)): mvb[i] ^= 0xff
                        r['bin_after_source_changed'] = s.bin
            except (TypeError, ValueError, BufferError):
                pass
        return r, s
    def f():
        wins = []
        first_ok = None
        for o, l in c['wins']:
            rr = attempt(lambda: one(o, l)[0])
            wins.append([o, l, rr[0], rr[1]])
            if rr[0] == 'ok' and first_ok is None and window_valid(raw, o, l) and (o, l) != (None, None): first_ok = (o, l)
        # the routes without a window: positional initialiser, property setter, operand of + and of append
        vias = []
        probe = make_buffer(c['kind'], raw, keep)
        positional = isinstance(probe, (bytes, bytearray, memoryview, array.array))
        M = C if issubclass(C, bitstring.BitArray) else (bitstring.BitStream if hasattr(C, 'pos') else bitstring.BitArray)
        allb = window_bits(raw, None, None)
        def via_setter():
            m = M(); m.bytes = make_buffer(c['kind'], raw, keep); return m if M is C else C(m)
        def via_setter_twice():
            m = M(bin='101'); m.bytes = make_buffer(c['kind'], raw, keep); m.bytes = make_buffer(c['kind'], raw, keep); return m if M is C else C(m)
        routes = [('setter', via_setter), ('setter_twice', via_setter_twice)]
        mk = lambda: make_buffer(c['kind'], raw, keep)
        routes += [("pack('bytes', x)", lambda: C(bitstring.pack('bytes', mk()))), ("Dtype('bytes').build(x)", lambda: C(bitstring.Dtype('bytes').build(mk())))]
        if raw:
            nb = len(raw)
            routes += [(f"pack('bytes:{nb}', x)", lambda: C(bitstring.pack(f'bytes:{nb}', mk()))), (f"pack('bytes:{nb}=v', v=x)", lambda: C(bitstring.pack(f'bytes:{nb}=v', v=mk()))),
                       (f"Dtype('bytes', {nb}).build(x)", lambda: C(bitstring.Dtype('bytes', nb).build(mk()))), (f"pack('bytes:{nb}, bin', x, '1')", lambda: C(bitstring.pack(f'bytes:{nb}, bin', mk(), '1')[:-1] if not c['lsb0'] else bitstring.pack(f'bytes:{nb}', mk())))]
        if positional:
            routes += [('auto', lambda: C(make_buffer(c['kind'], raw, keep))),
                       ('add', lambda: C() + make_buffer(c['kind'], raw, keep)), ('radd', lambda: make_buffer(c['kind'], raw, keep) + C()),
                       ('append', lambda: (lambda m: (m.append(make_buffer(c['kind'], raw, keep)), m if M is C else C(m))[1])(M())),
                       ('eq', lambda: [C(bin=allb) == make_buffer(c['kind'], raw, keep), C(bin=allb + '1') == make_buffer(c['kind'], raw, keep)])]
        for name, fn in routes:
            def g():
                s = fn()
                return s if isinstance(s, list) else show(s, allb)
            rr = attempt(g)
            vias.append([name, rr[0], rr[1]])
        bat = None
        if first_ok is not None and c.get('battery', True):
            o, l = first_ok
            w = window_bits(raw, o, l)
            s = one(o, l)[1]
            ad = []
            got = battery(s, w, c['seed'], ad, False)
            exp = battery(C(bin=w), w, c['seed'])
            diffs = [[g_, e_] for g_, e_ in zip(got, exp) if g_ != e_]
            bat = {'window': [o, l], 'n_ops': len(got), 'n_diffs': len(diffs), 'diffs': diffs[:3], 'n_abs': len(ad), 'abs_diffs': [first_difference(d) for d in ad[:3]]}
        return {'wins': wins, 'vias': vias, 'battery': bat}
    try:
        return attempt(f, 30)
    finally:
        for k in keep:
            try: k.close()
            except Exception: pass

def oracle_buffer(c, obs):
    raw = c['raw']; T = len(raw) * 8
    what = lambda o, l: f"{c['cls']}(bytes=<{c['kind']} carrying {len(raw)} raw bytes {bytes(raw[:24]).hex()}{'..' if len(raw) > 24 else ''}>, offset={o}, length={l}) lsb0={c['lsb0']}"
    if obs[0] != 'ok': return f"{what('..', '..')}: the run raised {obs}"
    def judge(r, w, label):
        exp = {'cls': c['cls'], 'bin': w, 'len': len(w), 'tobytes': list(int(w + '0' * (-len(w) % 8), 2).to_bytes((len(w) + 7) // 8, 'big')) if w else [], 'count1': w.count('1'),
               'uint': ['ok', format(int(w, 2), 'x')] if w else ['err'], 'eq': [True, True, True], 'first': ['ok', (w[-1] if c['lsb0'] else w[0]) == '1'] if w else ['err', 'IndexError'],
               'rev': w[::-1], 'src_intact': True, 'bin_after_source_changed': w}
        if len(w) % 4 == 0 and w: exp['hex'] = ['ok', format(int(w, 2), f'0{len(w) // 4}x')]
        for key, e in exp.items():
            if key in r and (r[key][:len(e)] if key == 'uint' else r[key]) != e:
                return f"{label}: {key} is {str(r[key])[:150]}, the raw bytes give {str(e)[:150]}"
        return None
    for o, l, status, r in obs[1]['wins']:
        if not window_valid(raw, o, l):
            if status != 'err': return f"{what(o, l)} accepted a window that ends beyond the {T} bits handed over: bin={str(r.get('bin'))[:80]!r}"
            continue
        if status != 'ok': return f"{what(o, l)} raised {r} although bits [{o or 0}, {(o or 0) + l if l is not None else T}) lie within the {T} bits handed over"
        msg = judge(r, window_bits(raw, o, l), what(o, l))
        if msg: return msg
    allb = window_bits(raw, None, None)
    for name, status, r in obs[1]['vias']:
        label = f"{c['cls']} from <{c['kind']} carrying {len(raw)} raw bytes {bytes(raw[:24]).hex()}> via {name}, lsb0={c['lsb0']}"
        if status != 'ok': return f"{label} raised {r}"
        if name == 'eq':
            if r != [True, False]: return f"{label}: == gives {r} for the bitstring of its bits / of its bits and one more"
            continue
        msg = judge(r, allb, label)
        if msg: return msg
    b = obs[1]['battery']
    if b:
        if b['n_abs']:
            name, g, e = b['abs_diffs'][0]
            return f"{what(*b['window'])}: {name} is {str(g)[:200]} but its bit content alone determines {str(e)[:200]}"
        if b['n_diffs']:
            return f"{what(*b['window'])} differs from the bin= object of the same bits in {b['n_diffs']} operations, e.g. {str(b['diffs'][0])[:300]}"
    return None

# ---------------------------------------------------------------------------------------------------------------------------------------------
# Binary streams as sources, in every state (op 'source'). A BytesIO (or a subclass, or a buffered wrapper around one where the library takes it) and
# a binary file handle of each io class HOLD bytes: getvalue() / the bytes of the file. However the object came to hold them (constructor argument,
# write() calls, overwritten, extended, truncated) and wherever its position stands (never touched, partly read, read to the end, seek()ed, left where an
# earlier bitstring made from it with or without offset / length left it), a bitstring made from it has the bits [offset, offset+length) of the bytes
# it holds, for every class, by the positional initialiser, and the same source can be used again and again.
# ---------------------------------------------------------------------------------------------------------------------------------------------
BYTESIO_STATES = ['fresh', 'written', 'written_chunks', 'read_some', 'read_all', 'readline', 'seek', 'seek_end', 'seek_past_end', 'extended', 'overwritten', 'truncated',
                  'after_offset_use', 'after_length_use', 'after_plain_use', 'after_operand_use', 'getbuffer_edit', 'read_then_seek0']
HANDLE_STATES = ['fresh', 'read_some', 'read_all', 'seek', 'seek_end', 'after_offset_use', 'after_plain_use', 'after_operand_use', 'rewritten_flushed']
SOURCE_KINDS = ['BytesIO', 'BytesIO_subclass', 'BufferedReader(BytesIO)', 'BufferedRandom(BytesIO)', 'file_rb', 'file_r+b', 'file_raw']
MAY_REFUSE = ('BufferedReader(BytesIO)', 'BufferedRandom(BytesIO)')      # not documented as initialisers: the library may refuse them; when it takes them the bits are those of the bytes held

class _BytesIOSub(io.BytesIO): pass

def make_source(kind, state, raw, k, tmp, keep):
    """(source object, function returning the bytes it holds) for a binary stream of the given kind brought to hold `raw` and positioned by `state` (k: a byte count)"""
    import bitstring
    raw = bytes(raw); nb = len(raw); k = min(k, nb)
    other = bytes((x ^ 0x5a) for x in raw)
    if kind in ('BytesIO', 'BytesIO_subclass', 'BufferedReader(BytesIO)', 'BufferedRandom(BytesIO)'):
        B = _BytesIOSub if kind == 'BytesIO_subclass' else io.BytesIO
        if state in ('written', 'written_chunks', 'extended', 'overwritten', 'truncated'):
            if state == 'written': b = B(); b.write(raw)
            elif state == 'written_chunks':
                b = B()
                for i in range(0, nb, max(1, k)): b.write(raw[i:i + max(1, k)])
            elif state == 'extended':
                b = B(raw[:k]); b.seek(0, 2); b.write(raw[k:]); b.seek(min(1, nb))
            elif state == 'overwritten':
                b = B(other); b.seek(0); b.write(raw)
            else:
                b = B(raw + b'\xee\xdd'); b.seek(nb + 1); b.truncate(nb)
        else:
            b = B(raw)
            if state == 'read_some': b.read(k)
            elif state == 'read_all': b.read()
            elif state == 'readline': b.readline()
            elif state == 'seek': b.seek(k)
            elif state == 'seek_end': b.seek(0, 2)
            elif state == 'seek_past_end': b.seek(nb + 3)
            elif state == 'after_offset_use': bitstring.Bits(b, offset=min(8 * k, 8 * nb))
            elif state == 'after_length_use': bitstring.ConstBitStream(b, length=min(8 * k + 3, 8 * nb))
            elif state == 'after_plain_use': bitstring.Bits(b); bitstring.BitStream(b)
            elif state == 'after_operand_use': bitstring.Bits('0b1') + b; bitstring.Bits() == b
            elif state == 'getbuffer_edit':
                b = B(other)
                with b.getbuffer() as view: view[:] = raw
                b.seek(k)
            elif state == 'read_then_seek0': b.read(k); b.seek(0)
        held = b.getvalue
        if kind == 'BufferedReader(BytesIO)': b = io.BufferedReader(b); keep.append(b)
        if kind == 'BufferedRandom(BytesIO)': b = io.BufferedRandom(b); keep.append(b)
        return b, held
    fd, path = tempfile.mkstemp(prefix='verif_c08src_'); tmp.append(path)
    with os.fdopen(fd, 'wb') as fh: fh.write(other if state == 'rewritten_flushed' else raw)
    fh = open(path, {'file_rb': 'rb', 'file_r+b': 'r+b', 'file_raw': 'rb'}[kind], **({'buffering': 0} if kind == 'file_raw' else {}))
    keep.append(fh)
    if state == 'read_some': fh.read(k)
    elif state == 'read_all': fh.read()
    elif state == 'seek': fh.seek(k)
    elif state == 'seek_end': fh.seek(0, 2)
    elif state == 'after_offset_use': bitstring.Bits(fh, offset=min(8 * k, 8 * nb))
    elif state == 'after_plain_use': bitstring.Bits(fh); bitstring.BitStream(fh)
    elif state == 'after_operand_use': bitstring.Bits('0b1') + fh; bitstring.Bits() == fh
    elif state == 'rewritten_flushed':
        if kind == 'file_r+b':
            fh.seek(0); fh.write(raw); fh.flush()
        else:
            with open(path, 'r+b') as w: w.write(raw)
    def held():
        with open(path, 'rb') as r: return r.read()
    return fh, held

def source_states(kind): return BYTESIO_STATES if 'BytesIO' in kind else [s for s in HANDLE_STATES]

def source_cases(rng, tier):
    reps = 1 if tier == 'quick' else 10
    for rep in range(reps):
        for kind in SOURCE_KINDS:
            for state in source_states(kind):
                nb = rng.choice([1, 2, 3, 4, 5, 8, 9, 12, 16, 17])
                if tier == 'thorough' and rng.random() < 0.1: nb = rng.choice([255, 256, 257, 1025])
                if 'BytesIO' in kind and rng.random() < 0.06: nb = 0
                raw = [rng.randrange(256) for _ in range(nb)] if rng.random() < 0.85 else [rng.choice([0, 255, 1, 0x80])] * nb
                T = nb * 8
                uses = []
                for _ in range(rng.choice([1, 2, 3, 4])):
                    shape = rng.choice(['plain', 'plain', 'plain', 'offset_only', 'length_only', 'both', 'both'])
                    o = l = None
                    if shape in ('offset_only', 'both'): o = max(0, rng.choice([0, 1, 3, 7, 8, 9, 13, 16, T - 9, T - 8, T - 1, T, T + 1, rng.randrange(0, T + 9)]))
                    rem = T - (o or 0)
                    if shape in ('length_only', 'both'): l = max(0, rng.choice([0, 1, 5, 8, 16, rem, rem, rem - 1, rem + 1, rem - 8, rng.randrange(0, T + 9)]))
                    between = rng.choice([None, None, 'read1', 'seek0', 'seek1', 'seek_end', 'readall'])
                    uses.append([rng.choice(CLASSES), o, l, between])
                yield {'op': 'source', 'kind': kind, 'state': state, 'k': rng.choice([0, 1, 1, 2, 3, nb // 2, nb]), 'raw': raw, 'uses': uses, 'lsb0': rng.random() < 0.3, 'seed': rng.randrange(1 << 30),
                       'battery': rng.random() < 0.5}

def run_source(c):
    import bitstring
    raw = bytes(c['raw'])
    keep, tmp = [], []
    bitstring.options.lsb0 = bool(c['lsb0'])
    def show(s, w):
        r = {'cls': type(s).__name__, 'bin': s.bin, 'len': len(s), 'tobytes': list(s.tobytes()), 'count1': s.count(1),
             'eq': [s == bitstring.Bits(bin=w), bitstring.Bits(bin=w) == s], 'rev': s[::-1].bin, 'first8': s[:8].bin if not c['lsb0'] else None}
        if hasattr(s, 'pos'):
            r['pos'] = s.pos
            r['read'] = list(attempt(lambda: s.read(min(8, len(s))).bin)) if not c['lsb0'] else None
            s.pos = 0
        return r
    def f():
        src, held = make_source(c['kind'], c['state'], raw, c['k'], tmp, keep)
        out = {'held0': list(held()), 'uses': [], 'battery': None}
        first = None
        for cls, o, l, between in c['uses']:
            if between == 'read1': attempt(lambda: src.read(1))
            elif between == 'seek0': attempt(lambda: src.seek(0))
            elif between == 'seek1': attempt(lambda: src.seek(min(1, len(raw))))
            elif between == 'seek_end': attempt(lambda: src.seek(0, 2))
            elif between == 'readall': attempt(lambda: src.read())
            kw = {}
            if o is not None: kw['offset'] = o
            if l is not None: kw['length'] = l
            C = cls_of(cls)
            rr = attempt(lambda: show(C(src, **kw), window_bits(raw, o, l)))
            out['uses'].append([rr[0], rr[1], list(held())])
            if rr[0] == 'ok' and first is None and window_valid(raw, o, l): first = (cls, o, l)
        if isinstance(src, io.BytesIO):
            # afterwards the owner of the buffer writes to it (it must still be able to: no export may be left behind) - bitstrings made from it before keep their bits
            made = []
            for cls, o, l, between in c['uses']:
                kw = {}
                if o is not None: kw['offset'] = o
                if l is not None: kw['length'] = l
                rr = attempt(lambda: cls_of(cls)(src, **kw))
                made.append(rr[1] if rr[0] == 'ok' else None)
            bins0 = [m_.bin if m_ is not None else None for m_ in made]
            wr = attempt(lambda: (src.seek(0), src.write(bytes(b ^ 0xff for b in raw) + b'\x3c'), src.truncate(max(0, len(raw) - 1)), src.seek(0, 2), src.write(b'\x01\x02'))[0])
            out['owner_writes'] = [wr[0], wr[1] if wr[0] == 'err' else None, bins0, [m_.bin if m_ is not None else None for m_ in made]]
        if first is not None and c['battery']:
            cls, o, l = first
            kw = {}
            if o is not None: kw['offset'] = o
            if l is not None: kw['length'] = l
            w = window_bits(raw, o, l)
            src2, _ = make_source(c['kind'], c['state'], raw, c['k'], tmp, keep)
            s = cls_of(cls)(src2, **kw)
            ad = []
            got = battery(s, w, c['seed'], ad, False)
            exp = battery(cls_of(cls)(bin=w), w, c['seed'])
            diffs = [[g_, e_] for g_, e_ in zip(got, exp) if g_ != e_]
            out['battery'] = {'window': [cls, o, l], 'n_ops': len(got), 'n_diffs': len(diffs), 'diffs': diffs[:3], 'n_abs': len(ad), 'abs_diffs': [first_difference(d) for d in ad[:3]]}
        return out
    try:
        return attempt(f, 30)
    finally:
        for k in keep:
            try: k.close()
            except Exception: pass
        for p in tmp:
            try: os.unlink(p)
            except OSError: pass

def oracle_source(c, obs):
    raw = c['raw']; T = len(raw) * 8
    src = f"<{c['kind']} holding the {len(raw)} bytes {bytes(raw[:24]).hex()}{'..' if len(raw) > 24 else ''}, state {c['state']} (k={c['k']})>"
    if obs[0] != 'ok': return f"{src}: the run raised {obs}"
    r = obs[1]
    if r['held0'] != raw: return f"harness: {src} does not hold the bytes"
    refusable = c['kind'] in MAY_REFUSE
    filelike = c['kind'].startswith('file')
    for i, ((cls, o, l, between), (status, got, held)) in enumerate(zip(c['uses'], r['uses'])):
        what = f"{cls}({src}, offset={o}, length={l}) (use #{i + 1} of the same object{', after the caller did ' + between if between else ''}, lsb0={c['lsb0']})"
        if held != raw: return f"{what}: the source now holds {bytes(held[:24]).hex()}"
        if refusable and status == 'err': continue
        if not window_valid(raw, o, l) or (filelike and T == 0):
            if status != 'err': return f"{what} accepted a window that ends beyond the {T} bits held: bin={str(got.get('bin'))[:80]!r}"
            continue
        if status != 'ok': return f"{what} raised {got} although the window lies within the {T} bits held"
        w = window_bits(raw, o, l)
        exp = {'cls': cls, 'bin': w, 'len': len(w), 'tobytes': list(int(w + '0' * (-len(w) % 8), 2).to_bytes((len(w) + 7) // 8, 'big')) if w else [], 'count1': w.count('1'), 'eq': [True, True],
               'rev': w[::-1], 'pos': 0}
        if not c['lsb0']: exp['first8'] = w[:8]; exp['read'] = ['ok', w[:8]]
        for key, e in exp.items():
            if key in got and got[key] != e:
                return f"{what}: {key} is {str(got[key])[:150]}, the bytes it holds give {str(e)[:150]}"
    ow = r.get('owner_writes')
    if ow:
        if ow[0] != 'ok': return f"{src}: after {len(c['uses'])} bitstrings were made from it its owner can no longer write to it / resize it: {ow[1]}"
        if ow[2] != ow[3]: return f"{src}: bitstrings made from it changed when its owner wrote to it afterwards: {str(ow[2])[:150]} -> {str(ow[3])[:150]}"
    b = r['battery']
    if b:
        what = f"{b['window'][0]}({src}, offset={b['window'][1]}, length={b['window'][2]}) lsb0={c['lsb0']}"
        if b['n_abs']:
            name, g, e = b['abs_diffs'][0]
            return f"{what}: {name} is {str(g)[:200]} but its bit content alone determines {str(e)[:200]}"
        if b['n_diffs']:
            return f"{what} differs from the bin= object of the same bits in {b['n_diffs']} operations, e.g. {str(b['diffs'][0])[:300]}"
    return None

# ---------------------------------------------------------------------------------------------------------------------------------------------
# Operands by every route (op 'operands'). One operation  L op X  is run with the SAME bits x carried by many kinds of X: text in several spellings (cache
# hit or not), bytes-likes, iterables, bitarrays, binary streams in every state, and bitstrings of each class built by every route (including the ways of
# making an empty one: no argument, '', length 0, empty slice, cleared, * 0 ...), L being built by a route too. For every kind the result is what the str
# model gives from the bits l and x alone: value, class (the class of the left bitstring operand), and it is an object of its own: editing it in place gives
# what the model gives and changes neither L, X, the container X was made from, nor a bitstring parsed again from the same text; editing L or X afterwards
# does not change it. Where the model has no entry (errors, lsb0 positions) all kinds must agree with the plain bin= operands.
# ---------------------------------------------------------------------------------------------------------------------------------------------
EMPTY_FORMS = ['noarg', 'empty_str', 'bin_empty', 'int0', 'length0', 'bytes_empty', 'slice_empty', 'mul0', 'join_nothing', 'copy_of_empty', 'cleared', 'deleted_all', 'read0', 'shift_slice']
PLAIN_OPERANDS = ['str_bin', 'str_hex', 'str_oct', 'str_multi', 'str_spaces', 'str_cached', 'bytes', 'bytearray', 'memoryview', 'memoryview_ba', 'array_B', 'list_int', 'tuple_bool', 'list_truthy',
                  'generator', 'iter', 'bitarray', 'bitarray_le', 'frozenbitarray'] + ['bytesio:' + s for s in BYTESIO_STATES] + ['filehandle:' + s for s in HANDLE_STATES]
EXTRA_BS_ROUTES = ['pos', 'pos_end', 'edited', 'read_result', 'zeros_int']

def operand_applies(kind, n, x):
    k, _, a = kind.partition(':')
    if k == 'str_hex': return n > 0 and n % 4 == 0
    if k == 'str_oct': return n > 0 and n % 3 == 0
    if k == 'str_multi': return n >= 2
    if k in ('bytes', 'bytearray', 'memoryview', 'memoryview_ba', 'array_B', 'bytesio'): return n % 8 == 0
    if k == 'filehandle': return n % 8 == 0 and n > 0
    if k in CLASSES:
        if a in EMPTY_FORMS:
            if a in ('cleared', 'deleted_all'): return n == 0 and k in MUTABLE
            if a == 'read0': return n == 0 and k in ('ConstBitStream', 'BitStream')
            return n == 0
        if a == 'zeros_int': return set(x) <= {'0'}
        if a in ('pos', 'pos_end', 'read_result'): return k in ('ConstBitStream', 'BitStream')
        if a == 'edited': return k in MUTABLE
    return True

def make_operand(kind, x, tmp, keep):
    """(object carrying the bits x, the text it was parsed from or None)"""
    import bitstring, bitarray, array, copy as _copy
    n = len(x)
    k, _, a = kind.partition(':')
    raw = int(x, 2).to_bytes(n // 8, 'big') if n and n % 8 == 0 else b''
    if k.startswith('str_'):
        if k == 'str_bin': s = '0b' + x if n else ''
        elif k == 'str_hex': s = '0x' + format(int(x, 2), f'0{n // 4}x')
        elif k == 'str_oct': s = '0o' + format(int(x, 2), f'0{n // 3}o')
        elif k == 'str_multi': s = f'0b{x[:n // 2]},0b{x[n // 2:]}'
        elif k == 'str_spaces': s = f' 0b{x} ' if n else ' '
        else:
            s = 'bin=' + x if n else ''
            bitstring.Bits(s); bitstring.BitArray(s)
        return s, s
    if k == 'bytes': return raw, None
    if k == 'bytearray': return bytearray(raw), None
    if k == 'memoryview': return memoryview(raw), None
    if k == 'memoryview_ba': return memoryview(bytearray(raw)), None
    if k == 'array_B': return array.array('B', raw), None
    if k == 'list_int': return [int(ch) for ch in x], None
    if k == 'tuple_bool': return tuple(ch == '1' for ch in x), None
    if k == 'list_truthy': return promotable(x, 'list_truthy'), None
    if k == 'generator': return (int(ch) for ch in x), None
    if k == 'iter': return iter([ch == '1' for ch in x]), None
    if k == 'bitarray': return bitarray.bitarray(x), None
    if k == 'bitarray_le': return bitarray.bitarray(x, endian='little'), None
    if k == 'frozenbitarray': return bitarray.frozenbitarray(x), None
    if k == 'bytesio': return make_source('BytesIO', a, raw, max(1, n // 16), tmp, keep)[0], None
    if k == 'filehandle': return make_source('file_rb', a, raw, max(1, n // 16), tmp, keep)[0], None
    C = cls_of(k)
    if a in EMPTY_FORMS:
        if a == 'noarg': return C(), None
        if a == 'empty_str': return C(''), ''
        if a == 'bin_empty': return C(bin=''), None
        if a == 'int0': return C(0), None
        if a == 'length0': return C(length=0), None
        if a == 'bytes_empty': return C(bytes=b''), None
        if a == 'slice_empty': return C(bin='10110')[2:2], None
        if a == 'mul0': return C(bin='101') * 0, None
        if a == 'join_nothing': return C(bin='1').join([]), None
        if a == 'copy_of_empty': return _copy.copy(C()), None
        if a == 'cleared':
            m = C(bin='1011'); m.clear(); return m, None
        if a == 'deleted_all':
            m = C('0xf0'); del m[:]; return m, None
        if a == 'read0': return C('0xf0').read(0), None
        if a == 'shift_slice': return (C(bin='1011') << 2)[4:], None
    if a == 'zeros_int': return C(n), None
    if a in ('pos', 'pos_end'):
        o = C(bin=x); o.pos = (n // 2 if a == 'pos' else n); return o, None
    if a == 'edited':
        m = C(bin=_flip(x) + '1'); del m[-1]
        if n: m.invert()
        return m, None
    if a == 'read_result':
        st = C(bin='101' + x + '01'); st.pos = 3; return st.read(n), None
    return build_route(C, x, a, tmp), None

def operand_content(X):
    """what a (non-text) operand holds, read back without bitstring where it is not a bitstring"""
    import bitstring, bitarray, array
    if isinstance(X, bitstring.Bits): return ['B', X.bin]
    if isinstance(X, (bytearray, array.array)): return ['raw', bytes(X).hex()]
    if isinstance(X, memoryview): return ['raw', X.tobytes().hex()]
    if isinstance(X, bitarray.bitarray): return ['ba', X.to01()]
    if isinstance(X, list): return ['list', [bool(v) for v in X]]
    if isinstance(X, io.BytesIO): return ['raw', X.getvalue().hex()]
    return None

def edit_operand(X):
    """the owner of X edits it in place (where it can be edited)"""
    import bitstring, bitarray, array
    if isinstance(X, bitstring.BitArray):
        if len(X): X.invert()
        X.append('0b1'); return True
    if isinstance(X, (bytearray, array.array)) or (isinstance(X, memoryview) and not X.readonly):
        for i in range(len(X)): X[i] ^= 0xff
        return len(X) > 0
    if isinstance(X, bitarray.bitarray) and not isinstance(X, bitarray.frozenbitarray):
        X.invert(); return len(X) > 0
    if isinstance(X, list):
        X[:] = [not v for v in X]; return len(X) > 0
    if isinstance(X, io.BytesIO):
        v = X.getvalue(); X.seek(0); X.write(bytes(b ^ 0xff for b in v)); return len(v) > 0
    return False

def _expected_content(tag, x):
    if tag in ('B', 'ba'): return x
    if tag == 'raw': return int(x, 2).to_bytes(len(x) // 8, 'big').hex() if x else ''
    return [ch == '1' for ch in x]

def _bitwise(l, x, f): return ''.join('1' if f(a == '1', b == '1') else '0' for a, b in zip(l, x))

# op name -> (needs a mutable L, in place, function(L, X), model(l, x, Lc, Xc, lsb0) giving the canonical result, or NOMODEL)
NOMODEL = ['no model']
def _B(cls, bits): return ['B', cls, bits]
def _ops():
    import bitstring, operator
    from bitstring import Bits, Dtype, pack
    eqlen = lambda l, x: len(l) == len(x)
    def bw(f):
        return lambda l, x, Lc, Xc, lsb0: _B(Lc, _bitwise(l, x, f)) if eqlen(l, x) else 'err'
    def rbw(f):
        return lambda l, x, Lc, Xc, lsb0: _B(Xc or Lc, _bitwise(l, x, f)) if eqlen(l, x) else 'err'
    AND, OR, XOR = (lambda a, b: a and b), (lambda a, b: a or b), (lambda a, b: a != b)
    def iop(opf):
        def g(L, X):
            z = L; z = opf(z, X); return z
        return g
    msb = lambda m: (lambda l, x, Lc, Xc, lsb0: m(l, x, Lc, Xc) if not lsb0 else NOMODEL)
    T = {
        'add': (False, False, lambda L, X: L + X, lambda l, x, Lc, Xc, lsb0: _B(Lc, l + x)),
        'radd': (False, False, lambda L, X: X + L, lambda l, x, Lc, Xc, lsb0: _B(Xc or Lc, x + l)),
        'iadd': (False, None, iop(operator.iadd), lambda l, x, Lc, Xc, lsb0: _B(Lc, x + l if lsb0 and Lc in MUTABLE else l + x)),
        'and': (False, False, lambda L, X: L & X, bw(AND)), 'or': (False, False, lambda L, X: L | X, bw(OR)), 'xor': (False, False, lambda L, X: L ^ X, bw(XOR)),
        'rand': (False, False, lambda L, X: X & L, rbw(AND)), 'ror': (False, False, lambda L, X: X | L, rbw(OR)), 'rxor': (False, False, lambda L, X: X ^ L, rbw(XOR)),
        'eq': (False, False, lambda L, X: L == X, lambda l, x, Lc, Xc, lsb0: l == x), 'ne': (False, False, lambda L, X: L != X, lambda l, x, Lc, Xc, lsb0: l != x),
        'req': (False, False, lambda L, X: X == L, lambda l, x, Lc, Xc, lsb0: l == x), 'rne': (False, False, lambda L, X: X != L, lambda l, x, Lc, Xc, lsb0: l != x),
        'find': (False, False, lambda L, X: L.find(X), msb(lambda l, x, Lc, Xc: ([l.find(x)] if x in l else []) if x else 'err')),
        'rfind': (False, False, lambda L, X: L.rfind(X), msb(lambda l, x, Lc, Xc: ([l.rfind(x)] if x in l else []) if x else 'err')),
        'findall': (False, False, lambda L, X: list(L.findall(X)), msb(lambda l, x, Lc, Xc: [i for i in range(len(l) - len(x) + 1) if l.startswith(x, i)] if x else 'err')),
        'in': (False, False, lambda L, X: X in L, lambda l, x, Lc, Xc, lsb0: (x in l) if x else 'err'),
        'startswith': (False, False, lambda L, X: L.startswith(X), msb(lambda l, x, Lc, Xc: l.startswith(x))),
        'endswith': (False, False, lambda L, X: L.endswith(X), msb(lambda l, x, Lc, Xc: l.endswith(x))),
        'split': (False, False, lambda L, X: list(L.split(X)), lambda l, x, Lc, Xc, lsb0: NOMODEL if x else 'err'),
        'join': (False, False, lambda L, X: L.join([X]), lambda l, x, Lc, Xc, lsb0: _B(Lc, x)),
        'join3': (False, False, lambda L, X: L.join(['0b1', X, '0b0']), lambda l, x, Lc, Xc, lsb0: _B(Lc, '1' + l + x + l + '0')),
        'ctor': (False, False, lambda L, X: type(L)(X), lambda l, x, Lc, Xc, lsb0: _B(Lc, x)),
        'ctor_bits_kw': (False, False, lambda L, X: type(L)(bits=X), lambda l, x, Lc, Xc, lsb0: _B(Lc, x)),
        'pack': (False, False, lambda L, X: pack('bits', X), lambda l, x, Lc, Xc, lsb0: _B('BitStream', x)),
        'build': (False, False, lambda L, X: Dtype('bits').build(X), lambda l, x, Lc, Xc, lsb0: _B('Bits', x)),
        'append': (True, True, lambda L, X: L.append(X), lambda l, x, Lc, Xc, lsb0: _B(Lc, x + l if lsb0 else l + x)),
        'prepend': (True, True, lambda L, X: L.prepend(X), lambda l, x, Lc, Xc, lsb0: _B(Lc, l + x if lsb0 else x + l)),
        'insert0': (True, True, lambda L, X: L.insert(X, 0), msb(lambda l, x, Lc, Xc: _B(Lc, x + l))),
        'insert_mid': (True, True, lambda L, X: L.insert(X, len(L) // 2), msb(lambda l, x, Lc, Xc: _B(Lc, l[:len(l) // 2] + x + l[len(l) // 2:]))),
        'overwrite0': (True, True, lambda L, X: L.overwrite(X, 0), msb(lambda l, x, Lc, Xc: _B(Lc, x + l[len(x):]) if len(x) <= len(l) else NOMODEL)),
        'setslice': (True, True, lambda L, X: L.__setitem__(slice(1, 2), X), msb(lambda l, x, Lc, Xc: _B(Lc, l[:1] + x + l[2:]))),
        'setall': (True, True, lambda L, X: L.__setitem__(slice(None, None), X), lambda l, x, Lc, Xc, lsb0: _B(Lc, x)),
        'setter_bits': (True, True, lambda L, X: setattr(L, 'bits', X), lambda l, x, Lc, Xc, lsb0: _B(Lc, x)),
        'iand': (True, True, lambda L, X: L.__iand__(X) and None, bw(AND)), 'ior': (True, True, lambda L, X: L.__ior__(X) and None, bw(OR)), 'ixor': (True, True, lambda L, X: L.__ixor__(X) and None, bw(XOR)),
        'replace_old': (True, True, lambda L, X: L.replace(X, '0b10'), msb(lambda l, x, Lc, Xc: _B(Lc, l.replace(x, '10')) if x else 'err')),
        'replace_new': (True, True, lambda L, X: L.replace('0b1', X), msb(lambda l, x, Lc, Xc: _B(Lc, l.replace('1', x)))),
    }
    # operations of L alone (X is not used): the result is a bitstring of its own as well, whatever route L came by
    import copy as _copy, pickle as _pickle
    def U(fn, m): return (False, False, lambda L, X: fn(L), lambda l, x, Lc, Xc, lsb0: m(l, Lc))
    same = lambda l, Lc: _B(Lc, l)
    T.update({
        'u_mul1': U(lambda L: L * 1, same), 'u_rmul1': U(lambda L: 1 * L, same), 'u_mul2': U(lambda L: L * 2, lambda l, Lc: _B(Lc, l + l)), 'u_mul0': U(lambda L: L * 0, lambda l, Lc: _B(Lc, '')),
        'u_lshift0': U(lambda L: L << 0, lambda l, Lc: _B(Lc, l) if l else 'err'), 'u_rshift0': U(lambda L: L >> 0, lambda l, Lc: _B(Lc, l) if l else 'err'),
        'u_slice_full': U(lambda L: L[:], same), 'u_slice_0n': U(lambda L: L[0:len(L)], same), 'u_slice_rev_rev': U(lambda L: L[::-1][::-1], same), 'u_slice_step1': U(lambda L: L[::1], same),
        'u_copy': U(lambda L: L.copy(), same), 'u_copycopy': U(lambda L: _copy.copy(L), same), 'u_deepcopy': U(lambda L: _copy.deepcopy(L), same),
        'u_pickle': U(lambda L: _pickle.loads(_pickle.dumps(L)), same), 'u_invert_twice': U(lambda L: ~~L, lambda l, Lc: _B(Lc, l) if l else 'err'),
        'u_and_self': U(lambda L: L & L, same), 'u_or_self': U(lambda L: L | L, same), 'u_xor_self': U(lambda L: L ^ L, lambda l, Lc: _B(Lc, '0' * len(l))),
        'u_add_self': U(lambda L: L + L, lambda l, Lc: _B(Lc, l + l)), 'u_dotbits': U(lambda L: L.bits, same), 'u_unpack_bits': U(lambda L: L.unpack('bits')[0], same),
        'u_cut_whole': U(lambda L: list(L.cut(max(1, len(L)))), lambda l, Lc: [_B(Lc, l)] if l else []), 'u_join_self': U(lambda L: type(L)().join([L]), same),
        'u_same_class': U(lambda L: type(L)(L), same), 'u_build': U(lambda L: Dtype('bits').build(L), lambda l, Lc: _B('Bits', l)), 'u_pack': U(lambda L: pack('bits', L), lambda l, Lc: _B('BitStream', l)),
        'u_to_BitArray': U(lambda L: bitstring.BitArray(L), lambda l, Lc: _B('BitArray', l)), 'u_to_BitStream': U(lambda L: bitstring.BitStream(L), lambda l, Lc: _B('BitStream', l)),
        'u_to_Bits': U(lambda L: Bits(L), lambda l, Lc: _B('Bits', l)), 'u_to_ConstBitStream': U(lambda L: bitstring.ConstBitStream(L), lambda l, Lc: _B('ConstBitStream', l)),
    })
    return T
UNARY_OPS = ['u_mul1', 'u_rmul1', 'u_mul2', 'u_mul0', 'u_lshift0', 'u_rshift0', 'u_slice_full', 'u_slice_0n', 'u_slice_rev_rev', 'u_slice_step1', 'u_copy', 'u_copycopy', 'u_deepcopy', 'u_pickle', 'u_invert_twice',
             'u_and_self', 'u_or_self', 'u_xor_self', 'u_add_self', 'u_dotbits', 'u_unpack_bits', 'u_cut_whole', 'u_join_self', 'u_same_class', 'u_build', 'u_pack', 'u_to_BitArray', 'u_to_BitStream', 'u_to_Bits',
             'u_to_ConstBitStream']
OPERAND_OPS = ['add', 'radd', 'iadd', 'and', 'or', 'xor', 'rand', 'ror', 'rxor', 'eq', 'ne', 'req', 'rne', 'find', 'rfind', 'findall', 'in', 'startswith', 'endswith', 'split', 'join', 'join3', 'ctor',
               'ctor_bits_kw', 'pack', 'build', 'append', 'prepend', 'insert0', 'insert_mid', 'overwrite0', 'setslice', 'setall', 'setter_bits', 'iand', 'ior', 'ixor', 'replace_old', 'replace_new']
ONE_SHOT = ('generator', 'iter')

def _fileish(kind): return 'file' in kind or 'handle' in kind

def operand_cases(rng, tier):
    bs_routes = [r for r in ALL_ROUTES if r not in ('bin',)] + EXTRA_BS_ROUTES
    def kinds_for(n, x, count):
        plain = [k for k in PLAIN_OPERANDS if operand_applies(k, n, x)]
        bsk = [f'{C}:{r}' for C in CLASSES for r in (bs_routes + (EMPTY_FORMS if n == 0 else []))]
        bsk = [k for k in bsk if operand_applies(k, n, x)]
        if count is None: return plain + bsk
        ks = rng.sample(plain, min(len(plain), count // 2)) + rng.sample(bsk, min(len(bsk), count - count // 2))
        ks += [f'{C}:{rng.choice(bs_routes)}' for C in CLASSES]                       # every pair of classes in every case
        if tier == 'quick':                                                             # (each use of a file kind makes a new temporary file: at most two such kinds per quick case)
            fk = [k for k in ks if _fileish(k)]
            ks = [k for k in ks if k not in fk[2:]]
        if n == 0: ks += [f'{C}:{rng.choice(EMPTY_FORMS)}' for C in CLASSES]
        return [k for k in dict.fromkeys(ks) if operand_applies(k, n, x)]
    combos = [(0, 8), (8, 0), (0, 0), (8, 8), (16, 8), (8, 24), (0, 16), (3, 0), (0, 5), (5, 5), (1, 1), (24, 24), (0, 1), (12, 4)]
    reps = 1 if tier == 'quick' else 6
    for rep in range(reps):
        for ln, xn in combos if tier == 'thorough' else combos[:8] + rng.sample(combos[8:], 2):
            for Lc in CLASSES:
                if tier == 'thorough' and rng.random() < 0.3: ln, xn = rng.choice([0, ln, rng.randrange(0, 40)]), rng.choice([0, xn, 8 * rng.randrange(0, 5)])
                l, x = rand_bits(rng, ln), rand_bits(rng, xn)
                lks = [k for k in kinds_for(ln, l, None) if k.startswith(Lc + ':')]
                lk = rng.choice(lks if rng.random() < 0.2 else [k for k in lks if not _fileish(k)])
                yield {'op': 'operands', 'lcls': Lc, 'l': l, 'x': x, 'lkind': lk, 'kinds': kinds_for(xn, x, 10 if tier == 'quick' else 24), 'lsb0': rng.random() < 0.25,
                       'ops': (OPERAND_OPS if tier == 'thorough' or rng.random() < 0.3 else OPERAND_OPS[:3] + rng.sample(OPERAND_OPS[3:], 15)) + UNARY_OPS}

def _canon(v):
    import bitstring, types
    if isinstance(v, bitstring.Bits): return ['B', type(v).__name__, v.bin]
    if isinstance(v, (list, tuple)): return [_canon(t) for t in v]
    if isinstance(v, bytes): return list(v)
    if isinstance(v, types.GeneratorType): return [_canon(t) for t in v]
    return v

def run_operands(c):
    import bitstring
    from bitstring import Bits
    T = _ops()
    l, x, Lc = c['l'], c['x'], c['lcls']
    keep, tmp = [], []
    def one(opname, lkind, xkind):
        needs_mut, inplace, fn, model = T[opname]
        bitstring.options.lsb0 = False
        L, _ = make_operand(lkind, l, tmp, keep)
        X, lit = make_operand(xkind, x, tmp, keep)
        bitstring.options.lsb0 = bool(c['lsb0'])
        rec = {}
        if L.bin != l or (isinstance(X, Bits) and X.bin != x): return {'harness': [L.bin, X.bin if isinstance(X, Bits) else None]}
        r = attempt(lambda: fn(L, X))
        res = L if (inplace and r[0] == 'ok') else r[1]
        rec['res'] = [r[0], _canon(res)]
        rec['L'] = L.bin; rec['X'] = operand_content(X)
        if r[0] != 'ok' or not isinstance(res, Bits): return rec
        rec['same'] = [res is L, res is X]
        if isinstance(res, bitstring.BitArray) and res is not L and res is not X:
            # phase A: the result is edited in place
            if len(res): res.invert()
            res.append('0b1')
            rec['A'] = {'res': res.bin, 'L': L.bin, 'X': operand_content(X), 'reparsed': Bits(lit).bin if lit is not None else None}
        # phase B: the operands are edited in place afterwards by their owners
        before = res.bin
        eX = edit_operand(X) if X is not res else False
        eL = edit_operand(L) if (L is not res and L is not X) else False
        rec['B'] = {'before': before, 'after': res.bin, 'edited': [eL, eX], 'reparsed': Bits(lit).bin if lit is not None else None}
        return rec
    def f():
        out = {}
        for opname in c['ops']:
            if T[opname][0] and Lc not in MUTABLE: continue
            per = {}
            per['ref'] = attempt(lambda: one(opname, Lc + ':bin', 'Bits:bin'))[1]
            for xk in (c['kinds'] if not opname.startswith('u_') else ['unary']):
                if xk == 'unary':
                    rr = attempt(lambda: one(opname, c['lkind'], 'Bits:bin'))
                    per[xk] = rr[1] if rr[0] == 'ok' else {'raised': rr[1]}
                    continue
                if opname in ('rand', 'ror', 'rxor') and xk.startswith(('bitarray', 'frozenbitarray')): continue     # bitarray's own operator refuses the pair before bitstring is asked (Python)
                rr = attempt(lambda: one(opname, c['lkind'], xk))
                per[xk] = rr[1] if rr[0] == 'ok' else {'raised': rr[1]}
            out[opname] = per
        return out
    try:
        return attempt(f, 120)
    finally:
        bitstring.options.lsb0 = False
        for k in keep:
            try: k.close()
            except Exception: pass
        for p in tmp:
            try: os.unlink(p)
            except OSError: pass

def _strip_cls(v):
    if isinstance(v, list):
        if len(v) == 3 and v[0] == 'B': return ['B', v[2]]
        return [_strip_cls(t) for t in v]
    return v

def oracle_operands(c, obs):
    if obs[0] != 'ok': return f"operands case {c['lcls']} {c['lkind']} x {len(c['kinds'])} kinds: the run raised {obs}"
    T = _ops()
    l, x, Lc, lsb0 = c['l'], c['x'], c['lcls'], c['lsb0']
    flip1 = lambda d: ('1' + _flip(d)) if lsb0 else (_flip(d) + '1')
    for opname, per in obs[1].items():
        needs_mut, inplace, fn, model = T[opname]
        ref = per.get('ref')
        for xk, rec in per.items():
            if xk == 'ref': continue
            what = f"{opname}: L = <{c['lkind']} holding {l!r}>, X = <{xk} holding {x!r}>, lsb0={lsb0}"
            if 'raised' in rec: return f"{what}: building the operands raised {rec['raised']}"
            if 'harness' in rec: return f"{what}: the operands do not hold their bits: {rec['harness']}"
            Xc = xk.split(':')[0] if xk.split(':')[0] in CLASSES else None
            status, val = rec['res']
            m = model(l, x, Lc, Xc, lsb0)
            if m is NOMODEL or (m == 'err' and status == 'err'):
                # no entry of the model: the plain operands Lc(bin=l), Bits(bin=x) decide (classes aside)
                if m is NOMODEL and isinstance(ref, dict) and 'res' in ref and [status, _strip_cls(val)] != [ref['res'][0], _strip_cls(ref['res'][1])]:
                    return f"{what}: gives {str([status, val])[:200]}, the bin= operands of the same bits give {str(ref['res'])[:200]}"
            elif m == 'err':
                return f"{what}: gives {str(val)[:200]} where the operands' bits alone make it an error"
            else:
                if isinstance(m, tuple): m = list(m)
                if status != 'ok': return f"{what}: raised {val}; the bits give {str(m)[:200]}"
                if val != m: return f"{what}: gives {str(val)[:260]}; the bits (and the class of the left bitstring operand) give {str(m)[:260]}"
            if not inplace and not rec.get('same', [False])[0] and rec['L'] != l: return f"{what}: the left operand now holds {rec['L']!r}"
            if rec['X'] is not None and rec['X'][1] != _expected_content(rec['X'][0], x): return f"{what}: the operand X now holds {rec['X']}"
            if isinstance(val, list) and len(val) == 3 and val[0] == 'B' and status == 'ok':
                same = rec.get('same', [False, False])
                if val[1] in MUTABLE and not inplace and (same[0] or same[1]) and opname != 'iadd' and not (xk == 'unary' and same[1]):
                    return f"{what}: the mutable result is the very object {'L' if same[0] else 'X'}"
                A = rec.get('A')
                if A:
                    if A['res'] != flip1(val[2]): return f"{what}: the result edited in place (invert, append 1) reads {A['res']!r}, the model gives {flip1(val[2])!r}"
                    if A['L'] != l: return f"{what}: editing the result in place changed the left operand to {A['L']!r}"
                    if A['X'] is not None and A['X'] != rec['X']: return f"{what}: editing the result in place changed the operand X to {A['X']}"
                    if A['reparsed'] is not None and A['reparsed'] != x: return f"{what}: after the result was edited in place Bits(<the same text>) reads {A['reparsed']!r}"
                Bp = rec.get('B')
                if Bp:
                    if Bp['after'] != Bp['before']: return f"{what}: the result changed from {Bp['before']!r} to {Bp['after']!r} when its operands were edited in place afterwards (L, X edited: {Bp['edited']})"
                    if Bp['reparsed'] is not None and Bp['reparsed'] != x: return f"{what}: afterwards Bits(<the same text>) reads {Bp['reparsed']!r}"
    return None

def kind(c): return c['route'] if c['op'] == 'battery' else c['op']

_KEEP = []      # objects that must outlive the construction of a route (originals of copies)

def build_route(C, bits, route, tmpfiles):
    """object of class C holding `bits` built through `route`; files are created in tmpfiles"""
    import bitstring, array
    n = len(bits)
    def mkfile(prefix_bits, suffix_bits):
        allb = prefix_bits + bits + suffix_bits
        allb += '0' * ((-len(allb)) % 8)
        fd, path = tempfile.mkstemp(prefix='verif_c08_')
        with os.fdopen(fd, 'wb') as fh: fh.write(int(allb, 2).to_bytes(len(allb) // 8, 'big') if allb else b'')
        tmpfiles.append(path); return path
    if route in ROUTES: return build(C.__name__, bits, route)
    if route == 'hex':
        return C(hex=format(int(bits, 2), f'0{n // 4}x')) if n % 4 == 0 and n else C(bin=bits)
    if route.startswith('after_setter_'):
        # the same text / value was first given to another, mutable object through its property and that object was edited in place
        k = route[len('after_setter_'):]
        if not n or (k == 'hex' and n % 4) or (k == 'bytes' and n % 8): return C(bin=bits)
        val = {'hex': lambda: format(int(bits, 2), f'0{n // 4}x'), 'bin': lambda: bits, 'bits': lambda: '0b' + bits, 'bytes': lambda: int(bits, 2).to_bytes(n // 8, 'big')}[k]()
        for M in (bitstring.BitArray, bitstring.BitStream):
            a = M(); setattr(a, k, val); a.invert(); a.append('0b1'); del a[0]
            a = M(); setattr(a, k, val); a.set(1); a.reverse()
        return C(**{k: val}) if k != 'bits' else C(val)
    if route == 'cachehit':
        bitstring.Bits('0b' + bits) if n else None
        return C('0b' + bits) if n else C()
    if route == 'fromstring': return C.fromstring('0b' + bits) if n else C()
    if route == 'array':
        if n % 8 or not n: return C(bin=bits)
        return C(array.array('B', int(bits, 2).to_bytes(n // 8, 'big')))
    if route == 'memoryview':
        if n % 8 or not n: return C(bin=bits)
        return C(memoryview(int(bits, 2).to_bytes(n // 8, 'big')))
    if route == 'bitarray_little':
        import bitarray
        return C(bitarray.bitarray(bits, endian='little'))
    if route == 'bitarray_little_window':
        import bitarray
        return C(bitarray=bitarray.bitarray('101' + bits + '0110', endian='little'), offset=3, length=n)
    if route in DEEP_ROUTES:
        import copy as _copy, pickle as _pickle
        M = C if issubclass(C, bitstring.BitArray) else (bitstring.BitStream if hasattr(C, 'pos') else bitstring.BitArray)   # the mutable counterpart
        proto = 2 + n % 4                                     # protocols 0 and 1 refuse classes with __slots__ (a refusal is not a route)
        if route.startswith('deepcopy_container'):
            dup = lambda x: _copy.deepcopy({'a': [x, 7], 'b': (x,)})['a' if n % 2 else 'b'][0]
        elif route.startswith('deepcopy'): dup = _copy.deepcopy
        elif route.startswith('pickle_container'):
            def dup(x):
                r = _pickle.loads(_pickle.dumps([{'k': x}, x], proto))
                return r[1] if n % 2 else r[0]['k']
        else: dup = lambda x: _pickle.loads(_pickle.dumps(x, proto))
        if route.endswith('_of_slice'):
            return dup(C(bin='101' + bits + '0110')[3:3 + n])
        if route.endswith('_of_file'):
            if n == 0: return dup(C(bin=bits))
            return dup(C(filename=mkfile('', ''), length=n) if n % 8 else C(filename=mkfile('', '')))
        if route.endswith('_then_edit_orig'):
            # the object the copy was taken from is edited in place afterwards (and stays alive): the copy keeps the bits it was made with
            x = M(bin=bits); y = dup(x)
            x.append('0b1'); x.invert(); x.reverse(); x.set(1, 0); x.overwrite('0b0', len(x) - 1)
            _KEEP.append(x)
            return y if M is C else C(y)
        if route.endswith('_of_edited'):
            # the original reached its content through in-place edits
            x = M(bin=''.join('1' if ch == '0' else '0' for ch in bits) + '1'); del x[-1]
            if n: x.invert()
            y = dup(x)
            return y if M is C else C(y)
        return dup(C(bin=bits))
    if n == 0: return C(bin=bits)
    if route == 'file_exact_len': return C(filename=mkfile('', ''), length=n)          # length given and equal to the whole file when n % 8 == 0
    if route == 'handle_exact_len':
        with open(mkfile('', ''), 'rb') as fh: return C(fh, length=n, offset=0)
    if route == 'file_whole':
        if n % 8: return C(filename=mkfile('', ''), length=n)
        return C(filename=mkfile('', ''))
    if route == 'file_len': return C(filename=mkfile('', '10110011' * 2), length=n)
    if route == 'file_shorter_nonmult': return C(filename=mkfile('', '1' * 13), length=n)
    if route == 'file_off':
        p = mkfile('10100101', '')
        return C(filename=p, offset=8) if n % 8 == 0 else C(filename=p, offset=8, length=n)
    if route == 'file_off_len': return C(filename=mkfile('1010010111110000', '0110'), offset=16, length=n)
    if route == 'file_unaligned': return C(filename=mkfile('101', '11111'), offset=3, length=n)
    if route == 'handle':
        p = mkfile('', '')
        with open(p, 'rb') as fh:
            return C(fh) if n % 8 == 0 else C(fh, length=n)
    if route == 'handle_off_len':
        p = mkfile('11001', '111')
        with open(p, 'rb') as fh:
            return C(fh, offset=5, length=n)
    raise AssertionError(route)

class _Holder:
    def __init__(self, payload): self.payload = payload

class _SlotHolder:
    __slots__ = ('payload', 'other')
    def __init__(self, payload): self.payload = payload; self.other = [payload]

def deep_copies(s):
    """(label, copy of s) for every way the copy / pickle modules can duplicate s: directly, with an explicit memo, inside built-in containers, inside user objects with and
    without __slots__, twice in one container (memo path), a copy of a copy, every pickle protocol that accepts the class"""
    import copy as _copy, pickle as _pickle, types
    out = []
    def add(label, fn):
        try: out.append((label, fn()))
        except Exception as e: out.append((label, e))
    add('copy.deepcopy(s)', lambda: _copy.deepcopy(s))
    add('copy.deepcopy(s, {})', lambda: _copy.deepcopy(s, {}))
    add('copy.deepcopy([s])[0]', lambda: _copy.deepcopy([s])[0])
    add('copy.deepcopy((s, 1))[0]', lambda: _copy.deepcopy((s, 1))[0])
    add("copy.deepcopy({'k': s})['k']", lambda: _copy.deepcopy({'k': s})['k'])
    add('copy.deepcopy([s, s])[1]', lambda: _copy.deepcopy([s, s])[1])
    add("copy.deepcopy([[s], {'a': (s,)}])[1]['a'][0]", lambda: _copy.deepcopy([[s], {'a': (s,)}])[1]['a'][0])
    add('copy.deepcopy(SimpleNamespace(p=s)).p', lambda: _copy.deepcopy(types.SimpleNamespace(p=s)).p)
    add('copy.deepcopy(Holder(s)).payload', lambda: _copy.deepcopy(_Holder(s)).payload)
    add('copy.deepcopy(SlotHolder(s)).other[0]', lambda: _copy.deepcopy(_SlotHolder(s)).other[0])
    add('copy.copy(Holder(s)) then deepcopy .payload', lambda: _copy.deepcopy(_copy.copy(_Holder(s))).payload)
    add('copy.deepcopy(copy.deepcopy(s))', lambda: _copy.deepcopy(_copy.deepcopy(s)))
    for proto in range(2, _pickle.HIGHEST_PROTOCOL + 1):          # protocols 0 and 1 refuse every class with __slots__ and no __getstate__ (Python, not bitstring)
        add(f'pickle.loads(pickle.dumps(s, {proto}))', lambda proto=proto: _pickle.loads(_pickle.dumps(s, proto)))
    add('pickle.loads(pickle.dumps(s))', lambda: _pickle.loads(_pickle.dumps(s)))
    add("pickle.loads(pickle.dumps([s, {'k': s}]))[1]['k']", lambda: _pickle.loads(_pickle.dumps([s, {'k': s}]))[1]['k'])
    add('pickle.loads(pickle.dumps(Holder(s))).payload', lambda: _pickle.loads(_pickle.dumps(_Holder(s))).payload)
    add('copy.deepcopy(pickle.loads(pickle.dumps(s)))', lambda: _copy.deepcopy(_pickle.loads(_pickle.dumps(s))))
    return out

_DEEP_LABELS = []
def deep_labels():
    if not _DEEP_LABELS:
        import bitstring
        _DEEP_LABELS.extend(lab for lab, _ in deep_copies(bitstring.Bits()))
    return list(_DEEP_LABELS)

def _flip(d): return ''.join('1' if ch == '0' else '0' for ch in d)

def copy_edits(n, lsb0):
    """in-place edits of a copy with their str model: (name, apply, model). Under lsb0 only the edits whose effect on the bit content does not depend on the numbering"""
    from bitstring import Bits
    alt = ('10' * n)[:n]
    E = []
    if n:
        E += [('invert()', lambda k: k.invert(), _flip), ('reverse()', lambda k: k.reverse(), lambda d: d[::-1]),
              ('^= ones', lambda k: k.__ixor__(Bits(bin='1' * n)), _flip),
              ('|= 1010..', lambda k: k.__ior__(Bits(bin=alt)), lambda d: ''.join('1' if a == '1' or b == '1' else '0' for a, b in zip(d, alt))),
              ('&= 1010..', lambda k: k.__iand__(Bits(bin=alt)), lambda d: ''.join('1' if a == '1' and b == '1' else '0' for a, b in zip(d, alt)))]
        if n % 8 == 0:
            E.append(('byteswap()', lambda k: k.byteswap(), lambda d: ''.join(d[i:i + 8] for i in range(n - 8, -1, -8))))
    if not lsb0:
        E += [("append('0b101')", lambda k: k.append('0b101'), lambda d: d + '101'), ("+= '0b01'", lambda k: k.__iadd__('0b01'), lambda d: d + '01'),
              ("insert('0b11', 0)", lambda k: k.insert('0b11', 0), lambda d: '11' + d)]
        if n:
            E += [('set(1, [0, -1])', lambda k: k.set(1, [0, -1]), lambda d: '1' + d[1:-1] + '1' if n > 1 else '1'),
                  ('[0] = 1', lambda k: k.__setitem__(0, 1), lambda d: '1' + d[1:]),
                  ('del [0:2]', lambda k: k.__delitem__(slice(0, 2)), lambda d: d[2:]),
                  ("[0:1] = '0b111'", lambda k: k.__setitem__(slice(0, 1), '0b111'), lambda d: '111' + d[1:]),
                  ('invert(0)', lambda k: k.invert(0), lambda d: _flip(d[0]) + d[1:]),
                  ('rol(1)', lambda k: k.rol(1), lambda d: d[1:] + d[:1]), ('<<= 1', lambda k: k.__ilshift__(1), lambda d: d[1:] + '0')]
        if n >= 2:
            E += [("overwrite('0b01', 0)", lambda k: k.overwrite('0b01', 0), lambda d: '01' + d[2:])]
    return E

def battery(s, bits, rng_seed, absd=None, deep=True):
    """a list of (name, result) for non-mutating operations, then mutators on a mutable copy of the same route.
    absd (when given) collects the results that differ from what the bit content alone determines (str model), independent of any second object; these checks
    are not part of the returned list. deep: include the duplicates made by the copy / pickle modules in them"""
    import bitstring, random
    from bitstring import Bits
    rng = random.Random(rng_seed)
    n = len(bits)
    i = rng.randrange(-n - 1, n + 1) if n else 0
    a, b = sorted([rng.randrange(0, n + 1), rng.randrange(0, n + 1)])
    pat = bits[a:a + 3] or '1'
    other = Bits(bin=rand_bits(rng, n))
    out = []
    def t(name, fn):
        r = attempt(fn)
        v = r[1]
        if isinstance(v, bitstring.Bits): v = ['B', type(v).__name__, v.bin]
        elif isinstance(v, (list, tuple)): v = [x.bin if isinstance(x, bitstring.Bits) else x for x in v]
        elif isinstance(v, bytes): v = list(v)
        elif isinstance(v, float): v = v.hex() if v == v else 'nan'
        out.append([name, r[0], v])
    def ta(name, fn, expected):
        if absd is None: return
        t(name, fn)
        e = out.pop()
        if e[1:] != ['ok', expected]:
            absd.append([e, ['from the bits alone', expected]])
    deep = deep and absd is not None
    lsb0_now = bool(bitstring.options.lsb0)
    cname = type(s).__name__
    ref_bytes = list(int(bits + '0' * (-n % 8), 2).to_bytes((n + 7) // 8, 'big')) if n else []
    def probe(k):
        """what a kept / copied object shows; every entry follows from its bits"""
        if isinstance(k, Exception): return ['raised', type(k).__name__]
        return [type(k).__name__, k.bin, len(k), k == Bits(bin=bits), Bits(bin=bits) == k, list(k.tobytes()), k.count(1), k is s and isinstance(s, bitstring.BitArray)]
    probe_ref = [cname, bits, n, True, True, ref_bytes, bits.count('1'), False]
    # every duplicate the copy / pickle modules make of s is a bitstring of the same class and bits, and a different object when s is mutable
    ta('bin', lambda: s.bin, bits); ta('len', lambda: len(s), n); ta('class', lambda: type(s).__name__, cname)
    dups = deep_copies(s) if deep else []          # taken now, probed now, kept while s is edited in place, probed again and edited at the end
    if deep: ta('deep_copies', lambda: [[lab] + probe(k) for lab, k in dups], [[lab] + probe_ref for lab in deep_labels()])
    if deep and isinstance(s, bitstring.BitArray):
        # each duplicate is edited in place: it gets the bits the str model gives, and s keeps its own
        edits = copy_edits(n, lsb0_now)
        def edit_deep():
            res = []
            for j, (lab, k) in enumerate(deep_copies(s)):
                if isinstance(k, Exception): res.append([lab, 'raised', type(k).__name__]); continue
                name, fn, model = edits[(j + rng_seed) % len(edits)]
                r = attempt(lambda: fn(k))
                res.append([lab, name + ' on the copy', r[0] if r[0] == 'ok' else list(r), {'copy': k.bin, 'original': s.bin}])
            return res
        if edits:
            ta('edit_deep_copies', edit_deep, [[lab, edits[(j + rng_seed) % len(edits)][0] + ' on the copy', 'ok', {'copy': edits[(j + rng_seed) % len(edits)][2](bits), 'original': bits}] for j, lab in enumerate(deep_labels())])
    t('len', lambda: len(s)); t('bin', lambda: s.bin); t('bool', lambda: bool(s)); t('str', lambda: str(s))
    t('eq_ref', lambda: s == Bits(bin=bits)); t('req_ref', lambda: Bits(bin=bits) == s); t('ne_other', lambda: s != other)
    t('hash', lambda: hash(s) == hash(Bits(bin=bits)) if not isinstance(s, bitstring.BitArray) else None)
    t('getitem', lambda: s[i]); t('getitem_last', lambda: s[-1]); t('getitem_past', lambda: s[n]); t('getitem_far', lambda: s[n + 7])
    t('slice', lambda: s[a:b]); t('rev', lambda: s[::-1]); t('step', lambda: s[::3]); t('negstep', lambda: s[b:a:-2])
    t('iter', lambda: [bool(x) for x in s]); t('count1', lambda: s.count(1)); t('count0', lambda: s.count(0))
    t('all', lambda: s.all(1)); t('any', lambda: s.any(1)); t('any0', lambda: s.any(0)); t('all_pos', lambda: s.all(1, [i] if n else []))
    t('add', lambda: s + '0b101'); t('radd', lambda: '0b01' + s); t('mul', lambda: s * 2); t('invert', lambda: ~s)
    t('and', lambda: s & other); t('or', lambda: s | other); t('xor', lambda: s ^ other); t('lshift', lambda: s << 3); t('rshift', lambda: s >> 2)
    t('find', lambda: s.find(Bits(bin=pat))); t('rfind', lambda: s.rfind(Bits(bin=pat))); t('findall', lambda: list(s.findall(Bits(bin=pat), count=5)))
    t('in', lambda: Bits(bin=pat) in s); t('startswith', lambda: s.startswith(Bits(bin=bits[:2]))); t('endswith', lambda: s.endswith(Bits(bin=bits[-3:])))
    t('cut', lambda: list(s.cut(5))); t('split', lambda: list(s.split(Bits(bin=pat), count=4))); t('join', lambda: s.join(['0b1', '0b0', '0b1']))
    t('tobytes', lambda: s.tobytes()); t('bytes', lambda: s.bytes); t('tobitarray', lambda: s.tobitarray().to01())
    t('uint', lambda: s.uint); t('int', lambda: s.int); t('hex', lambda: s.hex); t('oct', lambda: s.oct); t('uintle', lambda: s.uintle); t('float', lambda: s.float)
    t('unpack', lambda: s.unpack('bits:3, bin')); t('copy', lambda: s.copy()); t('toBitArray', lambda: bitstring.BitArray(s)); t('toBits', lambda: Bits(s))
    t('tofile', lambda: (lambda bio: (s.tofile(bio), bio.getvalue())[1])(io.BytesIO()))
    if hasattr(s, 'pos'):
        t('read', lambda: (s.__setattr__('pos', 0) if False else None, s.read(min(3, n)))[1]); t('pos', lambda: s.pos)
    if isinstance(s, bitstring.BitArray):
        # objects taken from s beforehand must keep their value whatever is done to s afterwards, whatever route s was built by
        import copy as _copy
        def edit_copy():
            c2 = s.copy(); c2.invert(); c2.append('0b1'); c3 = _copy.copy(s); c3.set(1); return [s.bin, len(c2), len(c3)]
        t('edit_a_copy', edit_copy)
        if n: ta('edit_a_copy', edit_copy, [bits, n + 1, n])           # (invert() refuses an empty bitstring)
        kept = [s.copy(), _copy.copy(s), Bits(s), bitstring.ConstBitStream(s), s[:], bitstring.BitArray(s)]
        n_plain = len(kept)
        kept += [k for _, k in dups]        # duplicates by the copy / pickle modules taken before s is edited in place
        kept_probe_ref = ([[bits, n]] * n_plain) + [probe_ref[:-1]] * (len(kept) - n_plain)
        def m(name, fn):
            def g():
                r = fn(); return [r, s.bin]
            t('mut_' + name, g)
        m('append', lambda: s.append('0b11')); m('prepend', lambda: s.prepend('0b0')); m('insert', lambda: s.insert('0b101', min(2, len(s))))
        m('overwrite', lambda: s.overwrite('0b00', 0)); m('setitem', lambda: s.__setitem__(0, 1)); m('setslice', lambda: s.__setitem__(slice(1, 3), '0b111'))
        m('del', lambda: s.__delitem__(slice(0, 2)))
        mid = s.bin; dups_mid = deep_copies(s) if deep else []       # duplicates of an object that has been edited in place, s being edited further afterwards
        m('reverse', lambda: s.reverse()); m('rol', lambda: s.rol(3)); m('ror', lambda: s.ror(1, 1))
        m('set', lambda: s.set(1, [0, -1])); m('invert', lambda: s.invert(0)); m('ilshift', lambda: s.__ilshift__(1)); m('imul', lambda: s.__imul__(2))
        m('iand', lambda: s.__iand__(Bits(len(s)))); m('replace', lambda: s.replace('0b1', '0b00', count=2)); m('byteswap', lambda: s.byteswap(1)); m('clear', lambda: s.clear())
        # whatever was done to s since, every object taken from it beforehand still is the bitstring of the bits it was taken with
        t('kept_copies', lambda: [k.bin for k in kept[:n_plain]])
        ta('kept_copies', lambda: [[k.bin, len(k)] for k in kept[:n_plain]] + [probe(k)[:-1] for k in kept[n_plain:]], kept_probe_ref)
        if deep: ta('kept_copies_taken_midway', lambda: [[lab, type(k).__name__, k.bin] for lab, k in dups_mid], [[lab, cname, mid] for lab in deep_labels()])
        # ... and editing the kept mutable ones now does not reach s (whose content after clear() is empty) nor each other
        def edit_kept():
            res = []
            for k in kept:
                if isinstance(k, bitstring.BitArray) and len(k): k.invert()
            return [s.bin] + [k.bin for k in kept]
        ta('edit_kept_copies', edit_kept, [''] + [_flip(bits) if (i in (0, 1, 4, 5) or i >= n_plain) else bits for i in range(len(kept))])     # kept[2], kept[3] are the immutable ones

    return out

def run_store(c):
    import bitstring
    C = cls_of(c['cls'])
    fd, path = tempfile.mkstemp(prefix='verif_c08s_')
    with os.fdopen(fd, 'wb') as fh: fh.write(bytes(c['src']))
    try:
        def f():
            kw = {}
            if c['offset'] is not None: kw['offset'] = c['offset']
            if c['length'] is not None: kw['length'] = c['length']
            if c['handle']:
                with open(path, 'rb') as fh: s = C(fh, **kw)
            else:
                s = C(filename=path, **kw)
            st = s._bitstore
            a, b, k = c['key']
            sl = attempt(lambda: s[a:b:k].bin)
            a2, b2 = c['key2']
            sl2 = attempt(lambda: s[a2:b2].bin)
            return {'mlen': st.modified_length, 'rawlen': len(st._bitarray), 'len': len(s), 'bin': s.bin, 'slice': sl, 'slice2': sl2,
                    'tobytes': list(s.tobytes()), 'count1': s.count(1), 'inv': attempt(lambda: (~s).bin), 'add': (s + '0b10').bin,
                    'eq': s == bitstring.Bits(bin=s.bin), 'copybin': s[:].bin}
        return attempt(f, 30)
    finally:
        try: os.unlink(path)
        except OSError: pass

def first_difference(d):
    """[got entry, ['from the bits alone', expected]] cut down to the first sub-entry that differs (the entries of the copy checks are long lists)"""
    (name, status, got), (_, exp) = d
    if status == 'ok' and isinstance(got, list) and isinstance(exp, list):
        for i, (g, e) in enumerate(zip(got, exp)):
            if g != e: return [f'{name}[{i}]', g, e]
        return [name, f'{len(got)} items', f'{len(exp)} items']
    return [name, got if status == 'ok' else [status, got], exp]

def run_impl(c):
    import bitstring
    del _KEEP[:]
    if c['op'] == 'store': return run_store(c)
    if c['op'] == 'buffer': return run_buffer(c)
    if c['op'] == 'source': return run_source(c)
    if c['op'] == 'operands': return run_operands(c)
    C = cls_of(c['cls'])
    tmp = []
    try:
        def f():
            # file/BytesIO windows must not depend on the mode, so those are built under the configured mode;
            # the generic routes use positional slicing themselves and are built under msb0
            bitstring.options.lsb0 = c['lsb0'] if c['route'] in FILE_ROUTES else False
            s = build_route(C, c['bits'], c['route'], tmp)
            bitstring.options.lsb0 = False
            ref = C(bin=c['bits'])
            bitstring.options.lsb0 = c['lsb0']
            ad = []
            got = battery(s, c['bits'], c['seed'], ad, c.get('deep', True))
            exp = battery(ref, c['bits'], c['seed'])       # (the bin= object is itself judged against the str model when it is the route: 'bin' is one of the routes)
            diffs = [[g, e] for g, e in zip(got, exp) if g != e]
            return {'n_ops': len(got), 'diffs': diffs[:5], 'n_diffs': len(diffs), 'built_bin': None, 'abs_diffs': [first_difference(d) for d in ad[:3]], 'n_abs': len(ad)}
        return attempt(f, 30)
    finally:
        for p in tmp:
            try: os.unlink(p)
            except OSError: pass

def oracle_store(c, obs):
    T = len(c['src']) * 8
    allbits = ''.join(format(x, '08b') for x in c['src'])
    o = c['offset'] or 0
    valid = T > 0 and 0 <= o and (c['length'] is None or c['length'] >= 0) and o + (c['length'] or 0) <= T
    what = f"{c['cls']}({'handle' if c['handle'] else 'filename'} of {c['src']}, offset={c['offset']}, length={c['length']})"
    if T == 0: return None                                   # an empty file cannot be mapped (OS)
    if not valid:
        return None if obs[0] == 'err' else f"{what} accepted a window outside the file: {str(obs)[:200]}"
    if obs[0] != 'ok': return f"{what} raised {obs}"
    r = obs[1]
    w = allbits[o:o + c['length']] if c['length'] is not None else allbits[o:]
    a, b, k = c['key']; a2, b2 = c['key2']
    exp = {'len': len(w), 'bin': w, 'slice': ('ok', w[a:b:k]), 'slice2': ('ok', w[a2:b2]), 'count1': w.count('1'),
           'tobytes': list(int(w + '0' * (-len(w) % 8), 2).to_bytes((len(w) + 7) // 8, 'big')) if w else [],
           'inv': ('ok', ''.join('10'[int(x)] for x in w)) if w else ('err', 'BsError'), 'add': w + '10', 'eq': True, 'copybin': w}
    for key, e in exp.items():
        g = r[key]
        if isinstance(g, list) and isinstance(e, tuple): g = tuple(g)
        if g != e: return f"{what}: {key} (key={c['key']}, key2={c['key2']}) is {str(g)[:120]}, the window's bits give {str(e)[:120]}"
    return None

def oracle(c, obs):
    if c['op'] == 'store': return oracle_store(c, obs)
    if c['op'] == 'buffer': return oracle_buffer(c, obs)
    if c['op'] == 'source': return oracle_source(c, obs)
    if c['op'] == 'operands': return oracle_operands(c, obs)
    if obs[0] != 'ok': return f"building {c['cls']} via {c['route']} ({len(c['bits'])} bits, lsb0={c['lsb0']}) raised {obs}"
    if obs[1].get('abs_diffs'):
        name, g, e = obs[1]['abs_diffs'][0]
        return (f"{c['cls']} built via {c['route']} (lsb0={c['lsb0']}, bits={c['bits'][:40]!r}..{len(c['bits'])}): {name} is {str(g)[:260]} but its bit content alone determines {str(e)[:260]} "
                f"({obs[1]['n_abs']} such results)")
    if obs[1]['n_diffs']:
        return (f"{c['cls']} built via {c['route']} (lsb0={c['lsb0']}, bits={c['bits'][:40]!r}..{len(c['bits'])}) differs from the bin= object in {obs[1]['n_diffs']} operations, e.g. "
                f"{str(obs[1]['diffs'][0])[:300]}")
    return None

def nontrivial(c, obs): return c['op'] in ('store', 'buffer', 'source', 'operands') or c['route'] != 'bin'
def classify(c, obs): return None

def coq_check(c, obs):
    if c['op'] != 'store' or not c['src']: return None
    bits = ''.join(format(x, '08b') for x in c['src'])
    L, O = copt(c['length'], cz), copt(c['offset'], cz)
    if obs[0] != 'ok':
        return f"match setfile {cbits(bits)} {L} {O} with Ok _ => false | Err _ => true end"
    r = obs[1]
    a, b, k = c['key']; a2, b2 = c['key2']
    mut = c['cls'] in MUTABLE        # BitArray.__init__: an immutable (file) store is copied into memory, st_copy
    return (f"match setfile {cbits(bits)} {L} {O} with Err _ => false | Ok s0 => let s := {'st_copy s0' if mut else 's0'} in "
            f"opt_eqb Z.eqb (mlen s) {copt(r['mlen'], cz)} && (zlen (raw s) =? {r['rawlen']}) && (st_len s =? {r['len']}) && bits_eqb (bits_of s) {cbits(r['bin'])} "
            f"&& rbits_eqb (st_getslice_withstep_msb0 s {cslice(a, b, k)}) {cres(tuple(r['slice']), cbits)} "
            f"&& rbits_eqb (st_getslice_msb0 s {copt(a2, cz)} {copt(b2, cz)}) {cres(tuple(r['slice2']), cbits)} "
            f"&& zlist_eqb (st_tobytes s) {clist(r['tobytes'], cz)} && (st_count s true =? {r['count1']}) "
            f"&& bits_eqb (st_add s (mkstore {cbits('10')} None)) {cbits(r['add'])} && Bool.eqb (st_eq s (mkstore {cbits(r['bin'])} None)) {cbool(r['eq'])} end")

def search(seeds, rng):
    for c in list(seeds) + list(gen_cases(rng, 'quick')):
        try: obs = run_impl(c)
        finally: reset_options()
        msg = oracle(c, obs)
        if msg: return c, obs, msg
    return None
