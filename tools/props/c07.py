"""C07 — search, split and count results equal the brute-force definition."""
from vlib import *
from props.common import *
from props import refmodel as R

ID = 'C07'
COQ_PROPS = ['Props/C07.v']
COQ_IMPORTS = ['Prims', 'CaseLib', 'BitsCore', 'Search']
RULE = ('data random/periodic/all-zero/all-one with planted pattern copies x patterns (absent, once, overlapping, whole-byte and not, empty) x start/end (None, negative, unaligned, '
        'empty window, invalid) x count x bytealigned in {None,False,True} x options.bytealigned; patterns that occur only where the storage holds bits that are not content '
        '(zero padding after a length that is not a multiple of 8, neighbours of an offset window, occurrences cut by start/end) for every operation, class, construction route, '
        'pattern type and both bit numberings; every pattern/window of every data up to 10 bits exhaustively in thorough; '
        'non-trivial = at least one occurrence of the pattern in the data; distinct by arguments')
ASSUMPTIONS = ['bitarray.search/find and bytes.find behave as Prims.search_all / Search.bytes_find (exercised by the same cases)', 'msb0 mode (lsb0 is C12)']
OPS = ['find', 'rfind', 'findall', 'contains', 'startswith', 'endswith', 'count', 'cut', 'split', 'replace']

def plant(rng, data, pat, k):
    d = list(data)
    for _ in range(k):
        if len(pat) > len(d): break
        q = rng.randrange(0, len(d) - len(pat) + 1)
        if rng.random() < 0.5: q -= q % 8
        d[q:q + len(pat)] = list(pat)
    return ''.join(d)

def rand_window(rng, n):
    def one():
        r = rng.random()
        if r < 0.35: return None
        if r < 0.75: return rng.randrange(0, n + 1)
        if r < 0.9: return rng.randrange(-n - 1, 1)
        return rng.choice([n + 1, -n - 2, n + 9])
    a, b = one(), one()
    if a is not None and b is not None and a >= 0 and b >= 0 and a > b and rng.random() < 0.7: a, b = b, a
    return a, b

# ---- bits that are NOT content: the zero padding of the last byte of the byte image (tobytes(), files, buffers) and the neighbours of a window ----
# What each construction route of common.build leaves around the content in the storage the object is built from, up to the next byte boundary.
# Only used to pick plausible patterns; the oracle never looks at it.
def surroundings(route, bits):
    n = len(bits)
    z = lambda k: '0' * ((-k) % 8)
    if n == 0: return '', ''
    if route == 'bytes': return '000', z(3 + n)
    if route == 'bytesio': return '11111', '1' * ((-(5 + n)) % 8)
    if route == 'slice': return '101', '0110' + z(n + 7)
    if route == 'bitarray': return ('1', '0' + z(n + 2)) if n % 2 else ('', z(n))
    if route == 'file': return '10110', '011' + z(n + 8)
    if route == 'filehandle_rw': return '110', z(3 + n)
    return '', z(n)

OUTSIDE_ROUTES = ['bin', 'bin', 'bin', 'auto', 'bytes', 'bytesio', 'slice', 'bitarray', 'iter', 'copy', 'join', 'file', 'file_exact', 'filehandle_rw', 'filehandle_raw', 'bitarray_le']
OUTSIDE_LENGTHS = list(range(1, 8)) + list(range(9, 16)) + [17, 20, 23, 25, 31, 33, 39, 41, 47, 49, 63, 65, 71, 95, 97, 127, 129, 255, 257]

def outside_pattern(rng, data, pre, post):
    """A pattern that occurs in pre + data + post + zeros (the storage) on a stretch that is not wholly content: it runs past the last content bit into
    the padding / the bits after the window, or starts in the bits before the window.  Returns (pattern, position in the content where such a false
    occurrence would start - may be negative or beyond the end)."""
    n = len(data)
    after = post + '0' * 40
    r = rng.random()
    pl = rng.choice([1, 2, 3, 4, 5, 7, 8, 8, 8, 16, 16, 24, 32, 9, 12, 15, 17, 40])
    if r < 0.35 and post:
        # the last whole bytes of the byte image: the last bits of the content and everything up to the byte boundary (sometimes a further byte of zeros)
        pl = 8 * rng.choice([1, 1, 1, 2, 2, 3, 4, 5]); k = len(post) + (8 if pl > 8 and rng.random() < 0.15 else 0)
        k = min(k, pl); take = min(pl - k, n)
        return data[n - take:] + after[:k], n - take
    if r < 0.62 or not pre:
        # the last bits of the content followed by what comes after them; k = how far the pattern reaches beyond the end
        k = rng.randrange(1, min(pl, len(after)) + 1)
        take = min(pl - k, n)
        return data[n - take:] + after[:k], n - take
    if r < 0.8:
        # what comes before the content followed by its first bits
        k = rng.randrange(1, min(pl, len(pre)) + 1)
        return pre[len(pre) - k:] + data[:pl - k], -k
    if r < 0.9:
        # a whole-byte pattern made of padding only / a one followed by padding
        return rng.choice(['0' * 8, '1' + '0' * 7, '0' * 16, '1' * 8, '0' * 7 + '1', '0' * 24]), n - n % 8
    # control: a stretch that really is content, at the very end or the very start
    pl = min(pl, n)
    q = rng.choice([n - pl, 0, max(0, n - pl - n % 8)])
    return data[q:q + pl], q

def gen_outside(rng, tier):
    """Every search, test and split operation with patterns that would match only if bits outside the content (padding of a length that is not a multiple
    of 8, neighbours of an offset window) were part of it, on all four classes, every construction route, both bit numberings, explicit and defaulted
    bytealigned, windows that start where the false occurrence would start or end with the content."""
    pairs = 80 if tier == 'quick' else 2500
    for i in range(pairs):
        route = rng.choice(OUTSIDE_ROUTES)
        r = rng.random()
        if r < 0.55: n = rng.choice(OUTSIDE_LENGTHS)
        elif r < 0.85: n = rng.randrange(1, 90)
        elif r < 0.93: n = 8 * rng.randrange(1, 9)          # whole bytes: only the neighbours of a window are outside
        else: n = rng.choice([999, 1001, 2001, 3599] if tier == 'quick' else [999, 1001, 2001, 3599, 8191, 8193, 8199, 16385])
        if n > 300 and route not in ('bin', 'bytes', 'slice', 'file', 'file_exact'): route = 'bin'
        data = rand_bits(rng, n, rng.choice(['rand', 'rand', 'rand', 'ones', 'zeros', 'periodic', 'sparse']) if n <= 3000 else 'rand')      # (the quadratic reference scan: few occurrences in long data)
        if rng.random() < 0.3 and n % 8:      # the last partial byte ends in ones / zeros / an isolated one
            t = n % 8; data = data[:n - t] + rng.choice(['1' * t, '0' * t, '1' + '0' * (t - 1), '0' * (t - 1) + '1'])
        pre, post = surroundings(route, data)
        pat, q = outside_pattern(rng, data, pre, post)
        forced = None
        if i % 6 == 5 and n >= 2:
            # the same idea for windows: an occurrence that is content but not wholly inside [start, end) - the window cuts k bits off one of its ends
            pl = rng.choice([1, 2, 3, 5, 8, 8, 16, 16, 24, 9]); pl = min(pl, n)
            q = rng.randrange(0, n - pl + 1)
            if rng.random() < 0.6: q -= q % 8
            pat = data[q:q + pl]; k = rng.randrange(1, min(pl, 8) + 1)
            forced = rng.choice([(rng.choice([None, q, q - q % 8, 0]), q + pl - k), (q + k, rng.choice([None, n, q + pl])), (rng.choice([None, q]), q + pl - k - n if q + pl - k < n else None)])
        if not pat: continue
        pl = len(pat)
        base = {'data': data, 'pat': pat, 'route': route, 'opt_ba': False, 'ptype': 'bits'}
        def window(op):
            if forced and rng.random() < 0.85: return forced
            qq = min(max(q, 0), n)
            if op == 'startswith' and rng.random() < 0.6: return (qq if qq else rng.choice([None, 0])), rng.choice([None, None, n])
            if op == 'endswith' and rng.random() < 0.6: return rng.choice([None, None, qq, qq - qq % 8]), rng.choice([None, None, n])
            # start at (or just before, or on the byte boundary before) the place where the false occurrence would begin; end None, the length, or anywhere
            a = rng.choice([None, None, qq, qq - qq % 8, max(0, qq - 1), rng.randrange(0, n + 1), qq - n if qq < n else None])
            b = rng.choice([None, None, None, n, rng.randrange(0, n + 1), -1 if n > 1 else None])
            if a is not None and b is not None:
                a2 = a + n if a < 0 else a; b2 = b + n if b < 0 else b
                if a2 > b2: b = None
            return a, b
        ops = ['contains', 'find', 'rfind', 'findall', 'startswith', 'endswith', 'split', 'replace']
        if n > 3000 and pl < 12: ops = ops[:6]         # (the reference for split / replace is quadratic in the number of occurrences)
        if tier != 'quick' or n > 300: ops = rng.sample(ops, 4)
        for op in ops:
            # once with the default window, and often once more with a window placed around the spot
            for a, b in [(None, None)] + ([window(op)] if op != 'contains' and (forced or rng.random() < 0.45) else []):
                c = dict(base, op=op, cls=rng.choice(MUTABLE if op == 'replace' else CLASSES), start=a, end=b, ba=rng.choice([None, None, False, True, True]))
                if rng.random() < 0.2: c['opt_ba'] = True
                pts = ['bits', 'bits', 'str', 'bitarray'] + (['bytes', 'bytes', 'bytearray'] if pl % 8 == 0 else [])
                c['ptype'] = rng.choice(pts)
                if op in ('findall', 'split', 'replace'): c['count'] = rng.choice([None, None, None, 1, 2])
                if op == 'replace': c['new'] = rand_bits(rng, rng.choice([0, 1, pl, 8]))
                if op in ('contains', 'find', 'rfind', 'findall') and rng.random() < 0.25:
                    c['lsb0'] = True; c['ptype'] = 'bits'          # the storage is the same, positions are counted from the other end
                yield c
        # the whole-content counterparts: counting set / unset bits (the padding holds unset bits) and fixed-size pieces (the last piece is not padded)
        yield dict(base, op='count', cls=rng.choice(CLASSES), v=rng.choice([0, 0, 1, False, True]), start=None, end=None, ba=None, lsb0=rng.random() < 0.3)
        a, b = window('cut') if rng.random() < 0.4 else (None, None)
        yield dict(base, op='cut', cls=rng.choice(CLASSES), bits=rng.choice([8, 8, 8, 16, 3, 5, max(1, n - 1), n + 3]), start=a, end=b, count=rng.choice([None, None, None, 1000, 2]), ba=None)

def gen_cases(rng, tier):
    N = 700 if tier == 'quick' else 12000
    for i in range(N):
        n = rand_len(rng, tier)
        if i % 97 == 0: n = rng.choice([8192 + 17, 9000]) if tier == 'quick' else rng.choice([8193, 16400, 20000])
        data = rand_bits(rng, n)
        pl = rng.choice([0, 1, 1, 2, 3, 4, 7, 8, 8, 9, 16, 16, 24, 5, 12])
        pat = rand_bits(rng, pl, rng.choice(['rand', 'rand', 'zeros', 'ones', 'periodic']))
        if rng.random() < 0.7: data = plant(rng, data, pat, rng.randrange(1, 5))
        a, b = rand_window(rng, len(data))
        op = rng.choice(OPS)
        c = {'op': op, 'cls': rng.choice(CLASSES), 'data': data, 'pat': pat, 'start': a, 'end': b,
             'ba': rng.choice([None, None, False, True]), 'opt_ba': rng.random() < 0.3, 'ptype': rng.choice(['bits', 'bits', 'str', 'bitarray'])}
        if op in ('findall', 'cut', 'split', 'replace'):
            c['count'] = rng.choice([None, None, 0, 1, 2, 3, 1000, -1])
        if op == 'cut': c['bits'] = rng.choice([-1, 0, 1, 3, 8, 13, 64, max(1, n // 3), n + 5])
        if op == 'count': c['v'] = rng.choice([0, 1, True, False, 7])
        if op == 'replace':
            c['cls'] = rng.choice(MUTABLE)
            c['new'] = rand_bits(rng, rng.choice([0, 1, pl, pl + 3, 8]))
            if c['count'] == -1: c['count'] = 4   # a negative count is not specified for replace
        yield c
    # overlapping occurrences: self-overlapping patterns in low-entropy data; whole-byte patterns with bytealigned (the byte fast path),
    # and replace / split / findall with counts (non-overlapping selection from overlapping matches)
    for i in range(160 if tier == 'quick' else 3000):
        unit = rng.choice(['0', '1', '01', '011', '0000000011111111', '00000000', '10101010', '1111000011110000', '000000001'])
        n = rng.choice([16, 24, 32, 40, 48, 64, 72, 100])
        data = (unit * (n // len(unit) + 1))[:n]
        if rng.random() < 0.3:
            j = rng.randrange(n); data = data[:j] + ('1' if data[j] == '0' else '0') + data[j + 1:]
        if i % 2 == 0:
            pl = rng.choice([16, 16, 24, 32, 8]); j = 8 * rng.randrange(0, max(1, (n - pl) // 8 + 1)); pat = data[j:j + pl]; ba = True
        else:
            pl = rng.choice([2, 3, 4, 5, 8, 9]); j = rng.randrange(0, max(1, n - pl)); pat = data[j:j + pl]; ba = rng.choice([None, False, True])
        if not pat: continue
        a, b = rand_window(rng, n) if rng.random() < 0.5 else (None, None)
        op = rng.choice(['findall', 'findall', 'find', 'rfind', 'split', 'replace', 'replace'])
        c = {'op': op, 'cls': rng.choice(MUTABLE if op == 'replace' else CLASSES), 'data': data, 'pat': pat, 'start': a, 'end': b, 'ba': ba, 'opt_ba': False,
             'ptype': 'bits', 'count': rng.choice([None, 1, 2, 2, 3, 4]), 'new': rand_bits(rng, rng.choice([0, 1, pl, 3]))}
        yield c
    # the same searches under options.lsb0 (positions counted from the other end; the chunked scan from the end backwards for long data)
    for i in range(120 if tier == 'quick' else 2500):
        n = rand_len(rng, tier)
        if i % 15 == 0: n = rng.choice([8300, 8400, 9000] if tier == 'quick' else [8300, 9000, 16390, 16500, 20000])
        pl = rng.choice([1, 2, 3, 4, 8, 8, 16, 5, 13]) if i % 15 else rng.choice([3, 4, 8, 5, 13])
        pat = rand_bits(rng, pl, rng.choice(['rand', 'rand', 'ones', 'periodic']))
        data = rand_bits(rng, n, rng.choice(['rand', 'sparse', 'zeros', 'periodic'])) if n <= 3000 else '0' * n
        data = plant(rng, data, pat, rng.randrange(1, 5))
        a, b = rand_window(rng, len(data)) if i % 3 else (None, None)
        if n > 8192 and pat:
            # the scan works in chunks counted from the START of the lsb0 window: occurrences around every chunk edge
            a = rng.choice([None, None, 0, 5, 100]); b = None
            a0 = a or 0
            inc = max(8192, 80 * pl)
            l = list(data)
            for edge in range(a0 + inc, n, inc):
                for p_ in rng.sample([edge - pl - 1, edge - pl, edge - pl + 1, edge - 1, edge, edge + 1, edge + 2], 3):
                    m = n - p_ - pl
                    if 0 <= m and m + pl <= n: l[m:m + pl] = list(pat)
            data = ''.join(l)
        long_ = n > 8192
        yield {'op': 'findall' if long_ else rng.choice(['find', 'rfind', 'findall', 'findall', 'contains']), 'cls': rng.choice(CLASSES), 'data': data, 'pat': pat, 'start': a, 'end': b,
               'ba': False if long_ else rng.choice([None, False, True]), 'opt_ba': False, 'ptype': 'bits', 'count': None if long_ else rng.choice([None, None, 1, 2, 5]), 'lsb0': True}
    # empty patterns and invalid windows with every count (0 included): ValueError, whatever else is asked for
    for _ in range(40 if tier == 'quick' else 400):
        n = rng.choice([0, 1, 8, 9, 16]); data = rand_bits(rng, n)
        op = rng.choice(['find', 'rfind', 'findall', 'split', 'replace', 'replace', 'contains'])
        bad_window = rng.random() < 0.5
        a, b = (rng.choice([n + 1, -n - 1, 5]), rng.choice([None, 2, -n - 2])) if bad_window else rand_window(rng, n)
        if op == 'contains': a = b = None
        yield {'op': op, 'cls': rng.choice(MUTABLE if op == 'replace' else CLASSES), 'data': data, 'pat': '' if (not bad_window or rng.random() < 0.3) else rand_bits(rng, 2), 'start': a, 'end': b,
               'ba': rng.choice([None, False, True]), 'opt_ba': False, 'ptype': 'bits', 'count': rng.choice([0, 0, None, 1]), 'new': rand_bits(rng, 2)}
    # histories on ONE mutable object: searches of every kind interleaved with in-place changes; every search is judged on the content the object has then
    for i in range(60 if tier == 'quick' else 1000):
        n = 8 * rng.choice([2, 3, 4, 6, 8, 12])
        unit = rng.choice(['0100011100000000', '01000111', '1111000000001111', '00000000', None, None])
        data = (unit * (n // len(unit) + 1))[:n] if unit else rand_bits(rng, n, 'rand')
        steps = []
        for _ in range(rng.randrange(3, 9)):
            if rng.random() < 0.6:
                whole = rng.random() < 0.6
                pl = 8 * rng.choice([1, 1, 2]) if whole else rng.choice([1, 2, 3, 5, 9])
                j = (8 * rng.randrange(0, max(1, (n - pl) // 8 + 1))) if whole else rng.randrange(0, max(1, n - pl))
                pat = data[j:j + pl] if rng.random() < 0.7 else rand_bits(rng, pl, 'rand')
                if not pat: continue
                a, b = rand_window(rng, n) if rng.random() < 0.3 else (None, None)
                steps.append({'op': rng.choice(['find', 'findall', 'findall', 'rfind', 'split', 'contains', 'replace']), 'pat': pat, 'start': a, 'end': b,
                              'ba': True if whole and rng.random() < 0.8 else rng.choice([None, False]), 'count': rng.choice([None, None, 1, 2]), 'new': rand_bits(rng, pl, 'rand'), 'ptype': 'bits'})
                if steps[-1]['op'] == 'contains': steps[-1].update(start=None, end=None)
            else:
                m = rng.choice(['iand', 'ior', 'ixor', 'iand', 'ior', 'ixor', 'invert', 'append', 'setslice', 'reverse', 'ilshift', 'overwrite', 'del', 'byteswap', 'setbit', 'imul'])
                steps.append({'mut': m, 'mask': rand_bits(rng, 1, 'rand') , 'seed': rng.randrange(1 << 30)})
        yield {'op': 'history', 'cls': rng.choice(MUTABLE), 'data': data, 'steps': steps, 'opt_ba': False, 'pat': 'x', 'ba': None, 'start': None, 'end': None}
    yield from gen_outside(rng, tier)
    if tier == 'thorough':
        for n in range(0, 9):
            for v in range(1 << n):
                data = format(v, f'0{n}b') if n else ''
                for pl in range(1, 4):
                    for pv in range(1 << pl):
                        pat = format(pv, f'0{pl}b')
                        for a in [None] + list(range(0, n + 1, 2)):
                            yield {'op': rng.choice(['find', 'rfind', 'findall', 'split', 'replace']), 'cls': 'BitArray', 'data': data, 'pat': pat,
                                   'start': a, 'end': None, 'ba': False, 'opt_ba': False, 'ptype': 'bits', 'count': None, 'new': '10'}

def kind(c): return c['op']

def mkpat(c):
    import bitstring
    if c['ptype'] == 'bits': return bitstring.Bits(bin=c['pat'])
    return promotable(c['pat'], c['ptype'])

def run_history(c):
    import bitstring, random
    s = build(c['cls'], c['data'], 'bin')
    trace = []
    for st in c['steps']:
        before = s.bin
        if 'mut' in st:
            r = random.Random(st['seed']); n = len(s); m = st['mut']
            mask = ''.join(r.choice('01') for _ in range(n))
            def g():
                nonlocal s
                if m == 'iand': s &= bitstring.Bits(bin=mask)
                elif m == 'ior': s |= bitstring.Bits(bin=mask)
                elif m == 'ixor': s ^= bitstring.Bits(bin=mask)
                elif m == 'invert': s.invert()
                elif m == 'append': s.append('0x47')
                elif m == 'setslice': s[8:16] = '0x47'
                elif m == 'reverse': s.reverse()
                elif m == 'ilshift': s <<= 8
                elif m == 'overwrite': s.overwrite('0x4700', 0)
                elif m == 'del': del s[0:8]
                elif m == 'byteswap': s.byteswap(2)
                elif m == 'setbit': s[r.randrange(max(1, n))] = 1
                elif m == 'imul': s *= 2
            res = attempt(g, 10)
            trace.append(['mut', before, list(res) if res[0] == 'err' else ['ok'], s.bin])
        else:
            kw = {} if st['ba'] is None else {'bytealigned': st['ba']}
            P = bitstring.Bits(bin=st['pat']); op = st['op']
            def f():
                if op == 'find': return list(s.find(P, st['start'], st['end'], **kw))
                if op == 'rfind': return list(s.rfind(P, st['start'], st['end'], **kw))
                if op == 'findall': return list(s.findall(P, st['start'], st['end'], st['count'], **kw))
                if op == 'contains': return P in s
                if op == 'split': return [x.bin for x in s.split(P, st['start'], st['end'], st['count'], **kw)]
                if op == 'replace':
                    r_ = s.replace(P, bitstring.Bits(bin=st['new']), st['start'], st['end'], st['count'], **kw)
                    return [s.bin, r_]
            trace.append(['search', before, list(attempt(f, 20)), s.bin])
    return ('ok', trace)

def history_steps(c, obs):
    """the searches of a history as ordinary single cases on the content the object had when they were made"""
    out = []
    for st, tr in zip(c['steps'], obs[1]):
        if tr[0] != 'search': continue
        out.append((dict(st, data=tr[1], cls=c['cls'], opt_ba=False), tuple(tr[2]) if tr[2][0] == 'err' else ('ok', tr[2][1])))
    return out

def run_impl(c):
    import bitstring
    if c['op'] == 'history': return run_history(c)
    bitstring.options.bytealigned = c['opt_ba']
    s = build(c['cls'], c['data'], c.get('route', 'bin'))
    op = c['op']
    kw = {}
    if c['ba'] is not None: kw['bytealigned'] = c['ba']
    def f():
        if c.get('lsb0'): bitstring.options.lsb0 = True      # data and pattern are built under msb0; only the search runs under lsb0
        if op == 'find': return list(s.find(mkpat(c), c['start'], c['end'], **kw))
        if op == 'rfind': return list(s.rfind(mkpat(c), c['start'], c['end'], **kw))
        if op == 'findall': return list(s.findall(mkpat(c), c['start'], c['end'], c['count'], **kw))
        if op == 'contains': return mkpat(c) in s
        if op == 'startswith': return s.startswith(mkpat(c), c['start'], c['end'])
        if op == 'endswith': return s.endswith(mkpat(c), c['start'], c['end'])
        if op == 'count': return s.count(c['v'])
        if op == 'cut': return [x.bin for x in s.cut(c['bits'], c['start'], c['end'], c['count'])]
        if op == 'split': return [x.bin for x in s.split(mkpat(c), c['start'], c['end'], c['count'], **kw)]
        if op == 'replace':
            r = s.replace(mkpat(c), bitstring.Bits(bin=c['new']), c['start'], c['end'], c['count'], **kw)
            return [s.bin, r]
    return attempt(f, 20)

def eff_ba(c):
    return c['opt_ba'] if c['ba'] is None else c['ba']

def expected(c):
    op, d, p = c['op'], c['data'], c['pat']
    if c.get('lsb0'): d, p = d[::-1], p[::-1]      # searching under lsb0 = searching the mirrored pattern in the mirrored data (positions counted from the other end)
    ba = eff_ba(c)
    if op == 'find': return R.call(lambda: list(R.find(d, p, c['start'], c['end'], ba)))
    if op == 'rfind': return R.call(lambda: list(R.rfind(d, p, c['start'], c['end'], ba)))
    if op == 'findall': return R.call(R.findall, d, p, c['start'], c['end'], c['count'], ba)
    if op == 'contains': return R.call(R.contains, d, p)
    if op == 'startswith': return R.call(R.startswith, d, p, c['start'], c['end'])
    if op == 'endswith': return R.call(R.endswith, d, p, c['start'], c['end'])
    if op == 'count': return R.call(R.count, d, c['v'])
    if op == 'cut': return R.call(R.cut, d, c['bits'], c['start'], c['end'], c['count'])
    if op == 'split': return R.call(R.split, d, p, c['start'], c['end'], c['count'], ba)
    if op == 'replace': return R.call(lambda: list(R.replace(d, p, c['new'], c['start'], c['end'], c['count'], ba)))

def oracle(c, obs):
    if c['op'] == 'history':
        if obs[0] != 'ok': return f"history {c} raised {obs}"
        for c2, o2 in history_steps(c, obs):
            m = oracle(c2, o2)
            if m: return 'after the earlier steps of a history on one object (' + ', '.join(st.get('mut') or st['op'] for st in c['steps']) + '): ' + m
        return None
    exp = expected(c)
    if tuple(obs) != tuple(exp):
        return (f"{c['cls']}.{c['op']} data={c['data'][:80]!r}{'...' if len(c['data']) > 80 else ''}({len(c['data'])}) pat={c['pat']!r} "
                f"start={c['start']} end={c['end']} count={c.get('count')} bytealigned={c['ba']} options.bytealigned={c['opt_ba']}{' lsb0' if c.get('lsb0') else ''}{' built via ' + c['route'] if c.get('route', 'bin') != 'bin' else ''}{' pattern given as ' + c['ptype'] if c.get('ptype', 'bits') != 'bits' else ''}: got {str(obs)[:160]}, brute force gives {str(exp)[:160]}")
    return None

def nontrivial(c, obs):
    if c['op'] == 'history': return True
    return bool(c['pat']) and c['pat'] in c['data']

def classify(c, obs): return None

def cob(x): return copt(x, cz)

def coq_check(c, obs):
    if c['op'] == 'history':
        if obs[0] != 'ok': return 'false'
        ts = [coq_check(c2, o2) for c2, o2 in history_steps(c, obs)]
        ts = ['(' + t + ')' for t in ts if t]
        return ' && '.join(ts) if ts else None
    op = c['op']
    if len(c['data']) > 3000 and op in ('split', 'replace', 'cut'): return None
    if len(c['data']) > 10000: return None
    D, P = cbits(c['data']), cbits(c['pat'])
    S, E, BA = cob(c['start']), cob(c['end']), cbool(eff_ba(c))
    if op in ('find', 'rfind'):
        o = ('ok', obs[1][0] if obs[1] else None) if obs[0] == 'ok' else obs
        return f"res_eqb (opt_eqb Z.eqb) (bs_{op} {cbool(bool(c.get('lsb0')))} {D} {P} {S} {E} {BA}) {cres(o, cob)}"
    if op == 'findall':
        return f"res_eqb zlist_eqb (bs_findall {cbool(bool(c.get('lsb0')))} {D} {P} {S} {E} {cob(c['count'])} {BA}) {cres(obs, lambda l: clist(l, cz))}"
    if op == 'contains': return f"rbool_eqb (bs_contains {cbool(bool(c.get('lsb0')))} {D} {P}) {cres(obs, cbool)}"
    if op in ('startswith', 'endswith'): return f"rbool_eqb (bs_{op} false {D} {P} {S} {E}) {cres(obs, cbool)}"
    if op == 'count':
        return f"(bs_count {D} {cbool(bool(c['v']))} =? {obs[1]})" if obs[0] == 'ok' else 'false'
    if op == 'cut':
        return f"res_eqb (list_eqb bits_eqb) (bs_cut false {D} {cz(c['bits'])} {S} {E} {cob(c['count'])}) {cres(obs, lambda l: clist(l, cbits))}"
    if op == 'split':
        return f"res_eqb (list_eqb bits_eqb) (bs_split false {D} {P} {S} {E} {cob(c['count'])} {BA}) {cres(obs, lambda l: clist(l, cbits))}"
    if op == 'replace':
        return (f"res_eqb (pair_eqb bits_eqb Z.eqb) (ba_replace false {D} {P} {cbits(c['new'])} {S} {E} {cob(c['count'])} {BA}) "
                f"{cres(obs, lambda v: cpair(cbits(v[0]), cz(v[1])))}")

def search(seeds, rng):
    pool = list(seeds) + list(gen_cases(rng, 'thorough'))[:30000]
    for c in pool:
        try: obs = run_impl(c)
        finally: reset_options()
        msg = oracle(c, obs)
        if msg and classify(c, obs) is None: return c, obs, msg
    return None
