"""C11 — 8-bit, micro-scaling and bfloat codecs decode and round exactly as specified."""
from vlib import *
from props.common import *
from fractions import Fraction
import struct, math
from gen import luts as genluts

ID = 'C11'
COQ_PROPS = ['Props/C11.v']
COQ_IMPORTS = ['Prims', 'CaseLib', 'MiniFloat']
RULE = ('every code of every format (<= 256 each; bfloat sampled + all exponent/mantissa boundaries) is decoded and compared with an exact-rational definition of the format; every one of the 65536 '
        'half-precision inputs (thorough; a stratified 6000 + all rounding boundaries in quick) x every format x mxfp_overflow in {saturate, overflow} is encoded and compared with round-to-nearest-even '
        'computed on fractions; float64 inputs not representable in half precision (midpoints +-1 ulp, > 65504, subnormal, +-inf, NaN, -0.0); decode-re-encode of every non-NaN code; scaled dtypes. '
        'non-trivial = an input that is not exactly representable in the target format; distinct by (format, input, mode)')
ASSUMPTIONS = ['struct.pack(">e") is IEEE round-to-nearest-even to binary16 (CPython)', 'values are compared as exact fractions / bit patterns, never as floats']

# (name, total bits, exponent bits, mantissa bits, bias, style)
FMT = {
    'p4binary': (8, 4, 3, 8, 'p3109'), 'p3binary': (8, 5, 2, 16, 'p3109'),
    'e5m2mxfp': (8, 5, 2, 15, 'ieee'), 'e4m3mxfp': (8, 4, 3, 7, 'e4m3'),
    'e3m2mxfp': (6, 3, 2, 3, 'finite'), 'e2m3mxfp': (6, 2, 3, 1, 'finite'), 'e2m1mxfp': (4, 2, 1, 1, 'finite'),
}

TABLES = [('e2m1', 'fmt_e2m1', 'false'), ('e2m3', 'fmt_e2m3', 'false'), ('e3m2', 'fmt_e3m2', 'false'), ('e4m3_sat', 'fmt_e4m3', 'false'), ('e4m3_ovf', 'fmt_e4m3', 'true'),
          ('e5m2_sat', 'fmt_e5m2', 'false'), ('e5m2_ovf', 'fmt_e5m2', 'true'), ('p4', 'fmt_p4', 'false'), ('p3', 'fmt_p3', 'false')]
BRIDGE_T = '''From Coq Require Import ZArith List Bool. Import ListNotations.
From BS Require Import Prims MiniFloat.
From Gen Require Import GenLuts.
Open Scope Z_scope.
(* {nm}: all 65536 half-precision inputs, all codes, clamp codes, re-encoding, format parameters (bounds: 2^16 inputs, 2^bits codes) *)
Theorem enc_{nm}_is_nearest_even : check_enc {f} {ovf} enc_{nm} = true.
Proof. vm_compute. reflexivity. Qed.
Theorem dec_{nm}_is_format_value : check_dec {f} dec_{nm} = true.
Proof. vm_compute. reflexivity. Qed.
Theorem clamp_{nm}_is_overflow_code : check_clamp {f} {ovf} clamp_{nm} = true.
Proof. vm_compute. reflexivity. Qed.
Theorem redecode_{nm} : check_redecode {f} {ovf} = true.
Proof. vm_compute. reflexivity. Qed.
Theorem params_{nm}_ok : check_params {f} params_{nm} = true.
Proof. vm_compute. reflexivity. Qed.
Print Assumptions enc_{nm}_is_nearest_even.
'''

def generate(out):
    text, info = genluts.emit(REPO)
    bridges = [(f'BridgeC11_{nm}', BRIDGE_T.format(nm=nm, f=f, ovf=ovf)) for nm, f, ovf in TABLES]
    r = gen_build([('GenLuts', text)], bridges, timeout=1500)
    r['functions'] = ['mxfp_luts_compressed', 'binary8_luts_compressed', 'MXFPFormat clamp values', 'Binary8Format clamp values']
    r['data'] = info
    return r

def decode_ref(name, c):
    """exact value of code c: Fraction | 'nan' | 'inf' | '-inf' ; also the sign bit for zeros"""
    bits, eb, mb, bias, style = FMT[name]
    if style == 'p3109':
        if c == 0x80: return 'nan'
        if c == 0x7f: return 'inf'
        if c == 0xff: return '-inf'
    sign = c >> (bits - 1)
    e = (c >> mb) & ((1 << eb) - 1)
    m = c & ((1 << mb) - 1)
    if style == 'ieee' and e == (1 << eb) - 1:
        return ('-inf' if sign else 'inf') if m == 0 else 'nan'
    if style == 'e4m3' and e == 15 and m == 7: return 'nan'
    v = Fraction(m, 1 << mb) * Fraction(2) ** (1 - bias) if e == 0 else (1 + Fraction(m, 1 << mb)) * Fraction(2) ** (e - bias)
    return -v if sign else v

def finite_codes(name):
    bits = FMT[name][0]
    return [(decode_ref(name, c), c) for c in range(1 << bits) if isinstance(decode_ref(name, c), Fraction)]

def rne(q: Fraction) -> int:
    f = math.floor(q)
    r = q - f
    if r > Fraction(1, 2) or (r == Fraction(1, 2) and f % 2 == 1): return f + 1
    return f

def encode_ref(name, x, overflow_mode):
    """x: Fraction | 'nan' | 'inf' | '-inf' | '-0'.  returns code or 'ValueError'"""
    bits, eb, mb, bias, style = FMT[name]
    fin = finite_codes(name)
    maxv = max(v for v, c in fin)
    pos = {v: c for v, c in fin if c < (1 << (bits - 1))}
    top = 1 << (bits - 1)
    def inf_code(neg):
        if style == 'p3109': return 0xff if neg else 0x7f
        if style == 'ieee': return (0xfc if neg else 0x7c) if overflow_mode == 'overflow' else (0xfb if neg else 0x7b)
        if style == 'e4m3': return 0xff if overflow_mode == 'overflow' else (0xfe if neg else 0x7e)
        return (top | pos[maxv]) if neg else pos[maxv]
    if x == 'nan':
        if style == 'p3109': return 0x80
        if style in ('ieee', 'e4m3'): return 0xff
        return 'ValueError'
    if x == 'inf': return inf_code(False)
    if x == '-inf': return inf_code(True)
    if x == '-0': return 0 if style == 'p3109' else top
    neg = x < 0
    a = -x if neg else x
    if a == 0: return 0
    # round to nearest even with an unbounded exponent
    minnorm = Fraction(2) ** (1 - bias)
    if a < minnorm: quantum = minnorm / (1 << mb)
    else:
        e = math.floor(math.log2(a))
        while Fraction(2) ** e > a: e -= 1
        while Fraction(2) ** (e + 1) <= a: e += 1
        quantum = Fraction(2) ** (e - mb)
    r = rne(a / quantum) * quantum
    if r > maxv: return inf_code(neg)
    if r == 0: return (top if neg and style != 'p3109' else 0)
    code = pos[r]
    return (top | code) if neg else code

def half_to_x(h):
    """the exact value of the 16-bit half pattern h"""
    s, e, m = h >> 15, (h >> 10) & 31, h & 1023
    if e == 31: return 'nan' if m else ('-inf' if s else 'inf')
    v = Fraction(m, 1024) * Fraction(2) ** -14 if e == 0 else (1 + Fraction(m, 1024)) * Fraction(2) ** (e - 15)
    if v == 0 and s: return '-0'
    return -v if s else v

def float_to_half_x(f):
    """what the library's first step does: IEEE RNE to half; overflow is reported as +-'big'"""
    if f != f: return 'nan'
    try: b = struct.pack('>e', f)
    except OverflowError: return '-big' if f < 0 else 'big'
    return half_to_x(int.from_bytes(b, 'big'))

def gen_cases(rng, tier):
    for name in FMT:
        bits = FMT[name][0]
        for c in range(1 << bits):
            yield {'op': 'decode', 'fmt': name, 'code': c, 'scale': rng.choice([None, None, 2, 0.25, 2 ** 6])}
            yield {'op': 'redecode', 'fmt': name, 'code': c, 'mode': rng.choice(['saturate', 'overflow'])}
    halfs = list(range(65536)) if tier == 'thorough' else sorted(set(
        [rng.randrange(65536) for _ in range(2500)] + list(range(0, 64)) + list(range(0x8000, 0x8040)) + list(range(0x7b00, 0x7c10)) + list(range(0xfb00, 0xfc10)) +
        [h for base in range(0x0400, 0x7c00, 0x0400) for h in (base - 2, base - 1, base, base + 1, base + 2)] +
        [(e << 10) | m for e in range(0, 31) for m in (0, 1, 63, 64, 65, 127, 128, 129, 191, 192, 193, 255, 256, 257, 383, 384, 385, 511, 512, 513, 767, 768, 769, 1023)]))
    for h in halfs:
        for name in FMT:
            if tier == 'quick' and rng.random() < 0.55: continue
            yield {'op': 'encode_half', 'fmt': name, 'h': h, 'mode': rng.choice(['saturate', 'overflow'])}
    N = 600 if tier == 'quick' else 6000
    for _ in range(N):
        name = rng.choice(list(FMT))
        h = rng.randrange(65536)
        x = struct.unpack('>e', h.to_bytes(2, 'big'))[0]
        if x == x and not math.isinf(x):
            nx = struct.unpack('>e', ((h + 1) & 0xffff).to_bytes(2, 'big'))[0]
            f = rng.choice([x, (x + nx) / 2 if nx == nx and not math.isinf(nx) else x, math.nextafter((x + nx) / 2, 1e9) if nx == nx and not math.isinf(nx) else x,
                            math.nextafter((x + nx) / 2, -1e9) if nx == nx and not math.isinf(nx) else x, x * (1 + 2 ** -30)])
        else: f = x
        f = rng.choice([f, f, f, 65504.0, 65519.99, 65520.0, 1e10, -1e10, 1e300, float('inf'), float('-inf'), float('nan'), -0.0, 0.0, 5e-324, 464.0, 464.25, 61440.0, 232.0, 233.0])
        yield {'op': 'encode_float', 'fmt': name, 'f': f.hex() if f == f else 'nan', 'mode': rng.choice(['saturate', 'overflow']), 'scale': rng.choice([None, None, None, 2, 0.5, 2 ** -3, 3, 49, 0.1]),
               'route': rng.choice(['kw', 'build', 'token', 'pack', 'setattr'])}
    # float64 inputs that are NOT half-precision values, next to the midpoints between adjacent values of each format: the half-precision pre-rounding
    # (ties to even) decides these, a direct rounding of the float64 would choose the nearer neighbour
    for name in FMT:
        vals = sorted({v for v, _ in finite_codes(name)})
        mids = [float((a + b) / 2) for a, b in zip(vals, vals[1:])]
        if tier == 'quick' and len(mids) > 40: mids = rng.sample(mids, 40)
        for m in mids:
            if m == 0.0: continue
            for f in (m, math.nextafter(m, math.inf), math.nextafter(m, -math.inf), m * (1 + 2 ** -13), m * (1 - 2 ** -13), m * (1 + 2 ** -12), m * (1 - 2 ** -12), m * (1 + 2 ** -11), m * (1 - 2 ** -11)):
                if tier == 'quick' and rng.random() < 0.5: continue
                yield {'op': 'encode_float', 'fmt': name, 'f': f.hex(), 'mode': rng.choice(['saturate', 'overflow']), 'scale': None, 'route': rng.choice(['kw', 'build', 'token', 'pack', 'setattr'])}
    # mxint: both float64 neighbours of EVERY midpoint (k + 0.5)/64 (the sum `f + 0.5` of the earlier algorithm was itself rounded: D54)
    for k in range(-130, 131):
        m = (k + 0.5) / 64
        for f in (m, math.nextafter(m, math.inf), math.nextafter(m, -math.inf)):
            yield {'op': 'other', 'fmt': 'mxint', 'f': f.hex()}
    for _ in range(N // 2):
        k = rng.choice(['mxint', 'e8m0mxfp', 'bfloat', 'bfloatle'])
        if k == 'mxint':
            f = rng.choice([rng.randrange(-140, 140) / 64, (rng.randrange(-130, 130) + 0.5) / 64, rng.uniform(-2.1, 2.1), math.nextafter((rng.randrange(-128, 128) + 0.5) / 64, rng.choice([-9, 9])), 1.984375, 1.99, -2.0, -2.01, 0.0, -0.0, float('inf'), float('-inf'), float('nan')])
        elif k == 'e8m0mxfp':
            p2 = 2.0 ** rng.randrange(-127, 128)
            up = lambda x, n: x if n == 0 else up(math.nextafter(x, math.inf), n - 1)
            dn = lambda x, n: x if n == 0 else dn(math.nextafter(x, 0.0), n - 1)
            f = rng.choice([2.0 ** rng.randrange(-130, 131), 3.0, 0.0, float('nan'), float('inf'), p2 * 1.0000001, -2.0, -p2,
                            up(p2, 1), up(p2, 2), up(p2, 3), dn(p2, 1), dn(p2, 2), dn(p2, 3), p2 * 1.5, p2 * 3, p2])   # neighbours of a power of two are not powers of two
        else:
            f = rng.choice([rng.uniform(-1e5, 1e5), 1.0078125 - 1e-9, 1.0, 3.38953139e38, 3.4e38, 1e39, -1e39, float('inf'), float('nan'), 1e-40, 0.0, -0.0, struct.unpack('>f', rng.getrandbits(32).to_bytes(4, 'big'))[0]])
        yield {'op': 'other', 'fmt': k, 'f': f.hex() if f == f else 'nan'}
    for _ in range(N // 3):
        sc = rng.choice([3, 49, 0.1, 10, 0.001, 7.5, 2, 0.25])
        k = rng.choice(['mxint', 'e8m0mxfp'])
        if k == 'mxint':
            q = rng.choice([(rng.randrange(-128, 128) + 0.5) / 64, rng.randrange(-128, 128) / 64, rng.uniform(-2, 2)])
        else:
            q = 2.0 ** rng.randrange(-120, 121)
        f = rng.choice([q * sc, q * sc, math.nextafter(q * sc, math.inf), math.nextafter(q * sc, -math.inf)])
        yield {'op': 'other', 'fmt': k, 'f': f.hex(), 'scale': sc}
    # bfloat: around the largest float32 (finite values above it still round to it; beyond the rounding boundary: infinity)
    FMAX = 3.4028234663852886e38
    for f in [FMAX, math.nextafter(FMAX, math.inf), 3.4028235e38, 3.4028235677973362e38, 3.4028235677973366e38, math.nextafter(3.4028235677973366e38, math.inf), 3.5e38,
              -FMAX, -math.nextafter(FMAX, math.inf), -3.4028235e38, -3.4028235677973362e38, -3.4028235677973366e38, 65504.0, 65520.0, 1e308]:
        for k in ('bfloat', 'bfloatle'):
            yield {'op': 'other', 'fmt': k, 'f': f.hex()}
    for c in range(256):
        yield {'op': 'decode_other', 'fmt': 'e8m0mxfp', 'code': c}; yield {'op': 'decode_other', 'fmt': 'mxint', 'code': c}
    for _ in range(300 if tier == 'quick' else 5000):
        yield {'op': 'decode_other', 'fmt': rng.choice(['bfloat', 'bfloatle']), 'code': rng.choice([rng.randrange(65536), 0x7f80, 0xff80, 0x7fc0, 0x0001, 0x8000, 0x7f7f])}

def kind(c): return c['op'] + ':' + c['fmt']

def xcanon(v):
    """a Python float as exact value"""
    if v != v: return 'nan'
    if math.isinf(v): return '-inf' if v < 0 else 'inf'
    if v == 0 and math.copysign(1, v) < 0: return '-0'
    return str(Fraction(v))

def run_impl(c):
    import bitstring
    from bitstring import Bits, BitArray, Dtype, pack
    op, name = c['op'], c['fmt']
    bitstring.options.mxfp_overflow = c.get('mode', 'saturate')
    if op == 'decode':
        bits = FMT[name][0]
        b = Bits(uint=c['code'], length=bits)
        def f():
            if c['scale'] is None: return [xcanon(getattr(b, name)), xcanon(Dtype(name).parse(b)), xcanon(b.unpack(name)[0])]
            return [xcanon(Dtype(name, scale=c['scale']).parse(b))]
        return attempt(f)
    if op == 'redecode':
        bits = FMT[name][0]
        def f():
            v = getattr(Bits(uint=c['code'], length=bits), name)
            if v != v: return 'nan'
            return Bits(**{name: v}).uint
        return attempt(f)
    if op == 'encode_half':
        x = struct.unpack('>e', c['h'].to_bytes(2, 'big'))[0]
        return attempt(lambda: Bits(**{name: x}).uint)
    if op == 'encode_float':
        x = float.fromhex(c['f']) if c['f'] != 'nan' else float('nan')
        def f():
            r = c['route']
            if c['scale'] is not None: return Dtype(name, scale=c['scale']).build(x).uint
            if r == 'kw': return Bits(**{name: x}).uint
            if r == 'build': return Dtype(name).build(x).uint
            if r == 'token': return Bits(f'{name}={x!r}').uint
            if r == 'pack': return pack(name, x).uint
            if r == 'setattr':
                # the property setter on a mutable object, which is then edited in place: later encodings (any route, any value with this code) must not notice
                a = BitArray(); setattr(a, name, x); u = a.uint
                a.invert(); a.set(1, 0); a.append('0b1'); a.reverse()
                return u
        return attempt(f)
    if op == 'other':
        x = float.fromhex(c['f']) if c['f'] != 'nan' else float('nan')
        def f():
            if c.get('scale') is not None:
                s = Dtype(name, scale=c['scale']).build(x)          # a scaled dtype encodes value / scale
                return [s.bin, None]
            s = Bits(**{name: x})
            out = [s.bin, xcanon(getattr(s, name))]
            a = BitArray(); setattr(a, name, x); a.invert(); a.append('0b1')       # property assignment + in-place edit: must leave later encodings alone
            return out
        return attempt(f)
    if op == 'decode_other':
        n = 16 if name.startswith('bfloat') else 8
        return attempt(lambda: xcanon(getattr(Bits(uint=c['code'], length=n), name)))

def scale_x(x, s, mul):
    if isinstance(x, str): return x if x != '-0' or s > 0 else '0'
    v = Fraction(x) * Fraction(s) if mul else Fraction(x) / Fraction(s)
    return str(v)

def oracle(c, obs):
    op, name = c['op'], c['fmt']
    if op == 'decode':
        d = decode_ref(name, c['code'])
        top = 1 << (FMT[name][0] - 1)
        exp = str(d) if isinstance(d, Fraction) else d
        if exp == '0' and c['code'] == top and FMT[name][4] != 'p3109': exp = '-0'
        if c['scale'] is None:
            return None if obs == ('ok', [exp] * 3) else f"{name} code {c['code']:#x} decodes to {obs}, format definition gives {exp}"
        if isinstance(d, Fraction):
            e2 = str(d * Fraction(c['scale']))
            if e2 == '0' and exp == '-0': e2 = '-0'
            return None if obs == ('ok', [e2]) else f"{name} code {c['code']:#x} with scale {c['scale']} decodes to {obs}, expected {e2}"
        return None
    if op == 'redecode':
        d = decode_ref(name, c['code'])
        if d == 'nan': return None
        if obs[0] != 'ok': return f"re-encoding the value of {name} code {c['code']:#x} raised {obs}"
        if name == 'e5m2mxfp' and d in ('inf', '-inf') and c['mode'] == 'saturate': return None
        return None if obs[1] == c['code'] else f"{name} code {c['code']:#x} decodes to {d} which re-encodes to {obs[1]:#x} (mode {c['mode']})"
    if op == 'encode_half':
        x = half_to_x(c['h'])
        exp = encode_ref(name, x, c['mode'])
        got = obs[1] if obs[0] == 'ok' else obs[1]
        if exp == 'ValueError': return None if obs == ('err', 'ValueError') else f"{name} of NaN must raise ValueError, got {obs}"
        return None if obs == ('ok', exp) else f"{name} encoding of half {c['h']:#06x} (= {x}) under {c['mode']} is {obs}, round-to-nearest-even gives {exp:#x}"
    if op == 'encode_float':
        f = float.fromhex(c['f']) if c['f'] != 'nan' else float('nan')
        if c['scale'] is not None and f == f: f = f / c['scale']
        x = float_to_half_x(f)
        if x in ('big', '-big'): x = 'inf' if x == 'big' else '-inf'
        exp = encode_ref(name, x, c['mode'])
        if exp == 'ValueError': return None if obs == ('err', 'ValueError') else f"{name} of NaN must raise ValueError, got {obs}"
        return None if obs == ('ok', exp) else f"{name} encoding of {c['f']} (scale {c['scale']}, via {c['route']}, {c['mode']}) is {obs}, expected {exp:#x} (half value {x})"
    if op == 'other':
        f = float.fromhex(c['f']) if c['f'] != 'nan' else float('nan')
        if c.get('scale') is not None and f == f: f = f / c['scale']
        if name == 'mxint':
            if f != f: return None if obs == ('err', 'ValueError') else f"mxint of NaN must raise, got {obs}"
            if math.isinf(f): v = 127 if f > 0 else -128
            else:
                q = Fraction(f) * 64
                v = 127 if q > 127 else (-128 if q <= -128 else rne(q))
            expbits = format(v & 0xff, '08b')
            return None if obs[0] == 'ok' and obs[1][0] == expbits else f"mxint of {c['f']} gave {obs}, nearest-even of 64x is {v} ({expbits})"
        if name == 'e8m0mxfp':
            if f != f: return None if obs[0] == 'ok' and obs[1][0] == '11111111' else f"e8m0 of NaN gave {obs}"
            ok = f > 0 and not math.isinf(f) and math.frexp(f)[0] == 0.5 and -127 <= math.frexp(f)[1] - 1 <= 127
            if not ok: return None if obs == ('err', 'ValueError') else f"e8m0mxfp of {c['f']} must raise ValueError, got {obs}"
            e = math.frexp(f)[1] - 1
            return None if obs[0] == 'ok' and obs[1][0] == format(e + 127, '08b') else f"e8m0mxfp of 2**{e} gave {obs}"
        # bfloat: float32 (RNE, overflow to inf) truncated to its top 16 bits
        try: b = struct.pack('>f', f)
        except OverflowError: b = struct.pack('>f', math.copysign(float('inf'), f))
        top = b[:2]
        if name == 'bfloatle': top = top[::-1]
        expbits = ''.join(format(y, '08b') for y in top)
        if f != f: return None
        return None if obs[0] == 'ok' and obs[1][0] == expbits else f"{name} of {c['f']} gave {obs}, truncated float32 is {expbits}"
    if op == 'decode_other':
        code = c['code']
        if name == 'e8m0mxfp': exp = 'nan' if code == 255 else str(Fraction(2) ** (code - 127))
        elif name == 'mxint': exp = str(Fraction(code - 256 if code >= 128 else code, 64))
        else:
            by = code.to_bytes(2, 'big')
            if name == 'bfloatle': by = by   # the code is given as the bit pattern of the bitstring; le stores the two bytes swapped
            v = struct.unpack('>f', (by if name == 'bfloat' else by[::-1]) + b'\x00\x00')[0]
            exp = xcanon(v)
        return None if obs == ('ok', exp) else f"{name} code {code:#x} decodes to {obs}, expected {exp}"

def nontrivial(c, obs): return c['op'] in ('encode_half', 'encode_float', 'other')
def classify(c, obs): return None
def cpyfloat(f):
    if f != f: return 'PyNaN'
    if math.isinf(f): return f"(PyInf {cbool(f < 0)})"
    neg = math.copysign(1, f) < 0
    m, e = abs(f).as_integer_ratio() if f != 0 else (0, 1)
    # m / e with e a power of two
    return f"(PyFin {cbool(neg)} {m} {cz(-(e.bit_length() - 1))})"

CT = {'p4binary': ('enc_p4', 'clamp_p4'), 'p3binary': ('enc_p3', 'clamp_p3'), 'e3m2mxfp': ('enc_e3m2', 'clamp_e3m2'), 'e2m3mxfp': ('enc_e2m3', 'clamp_e2m3'), 'e2m1mxfp': ('enc_e2m1', 'clamp_e2m1')}
def coq_check(c, obs):
    if c['op'] == 'encode_float' and c['scale'] is None and obs[0] == 'ok':
        f = float.fromhex(c['f']) if c['f'] != 'nan' else float('nan')
        name = c['fmt']
        if name in CT: t, cl = CT[name]
        else:
            suf = '_ovf' if c['mode'] == 'overflow' else '_sat'
            t, cl = 'enc_' + name[:4] + suf, 'clamp_' + name[:4] + suf
        return f"(float_to_int {t} {cl} {cpyfloat(f)} =? {obs[1]})"
    if c['op'] == 'other' and c['fmt'] == 'mxint':
        f = float.fromhex(c['f']) if c['f'] != 'nan' else float('nan')
        if c.get('scale') is not None and f == f: f = f / c['scale']       # the float division the scaled dtype performs; the model encodes its result
        if obs[0] == 'ok':
            v = int(obs[1][0], 2); v = v - 256 if v >= 128 else v
            return f"opt_eqb Z.eqb (mxint_spec {cpyfloat(f)}) (Some {cz(v)})"
        return f"opt_eqb Z.eqb (mxint_spec {cpyfloat(f)}) None"
    if c['op'] == 'other' and c['fmt'] == 'e8m0mxfp':
        f = float.fromhex(c['f']) if c['f'] != 'nan' else float('nan')
        if c.get('scale') is not None and f == f: f = f / c['scale']
        exp = f"(Some {int(obs[1][0], 2)})" if obs[0] == 'ok' else 'None'
        return f"opt_eqb Z.eqb (e8m0_encode {cpyfloat(f)}) {exp}"
    return None
COQ_PRELUDE = 'From Gen Require Import GenLuts.'

def search(seeds, rng):
    for c in list(seeds) + list(gen_cases(rng, 'quick')):
        try: obs = run_impl(c)
        finally: reset_options()
        msg = oracle(c, obs)
        if msg: return c, obs, msg
    return None
