"""C11 — 8-bit, micro-scaling and bfloat codecs decode and round exactly as specified."""
from vlib import *
from props.common import *
from fractions import Fraction
import struct, math
from gen import luts as genluts

ID = 'C11'
COQ_PROPS = ['Props/C11.v']
COQ_IMPORTS = ['Prims', 'CaseLib', 'MiniFloat']
RULE = ('every code of every format (<= 256 each; bfloat sampled + all exponent/mantissa boundaries) is decoded and compared with an exact-rational definition of the format; every one of the 65536 '
        'half-precision inputs (thorough; a stratified 6000 + all rounding boundaries in quick) x every format x mxfp_overflow in {saturate, overflow} is encoded and compared with round-to-nearest-even '
        'computed on fractions; values of every Python type (float, int, bool, numeric str; every zero) through every route that takes a value (keywords of pack included), pack() with '
        'literal / positional / keyword values mixed, Arrays with scaled dtypes (creation, insertion, astype between scales and formats, dtype re-assignment, operators), scaled Dtypes through every reading route; float64 inputs not representable in half precision (midpoints +-1 ulp, > 65504, subnormal, +-inf, NaN, -0.0); decode-re-encode of every non-NaN code; scaled dtypes; histories of assignments to the module options - accepted ones and refused ones (values of every type, wrong letter case, deletions) - interleaved with encodings by every route (also through objects made earlier): a refused assignment leaves every option as it was and the encodings follow the setting last set successfully. '
        'non-trivial = an input that is not exactly representable in the target format; distinct by (format, input, mode)')
ASSUMPTIONS = ['struct.pack(">e") is IEEE round-to-nearest-even to binary16 (CPython)', 'values are compared as exact fractions / bit patterns, never as floats']

# (name, total bits, exponent bits, mantissa bits, bias, style)
FMT = {
    'p4binary': (8, 4, 3, 8, 'p3109'), 'p3binary': (8, 5, 2, 16, 'p3109'),
    'e5m2mxfp': (8, 5, 2, 15, 'ieee'), 'e4m3mxfp': (8, 4, 3, 7, 'e4m3'),
    'e3m2mxfp': (6, 3, 2, 3, 'finite'), 'e2m3mxfp': (6, 2, 3, 1, 'finite'), 'e2m1mxfp': (4, 2, 1, 1, 'finite'),
}

TABLES = [('e2m1', 'fmt_e2m1', 'false'), ('e2m3', 'fmt_e2m3', 'false'), ('e3m2', 'fmt_e3m2', 'false'), ('e4m3_sat', 'fmt_e4m3', 'false'), ('e4m3_ovf', 'fmt_e4m3', 'true'),
          ('e5m2_sat', 'fmt_e5m2', 'false'), ('e5m2_ovf', 'fmt_e5m2', 'true'), ('p4', 'fmt_p4', 'false'), ('p3', 'fmt_p3', 'false')]
BRIDGE_T = '''From Coq Require Import ZArith List Bool. Import ListNotations.
From BS Require Import Prims MiniFloat.
From Gen Require Import GenLuts.
Open Scope Z_scope.
(* {nm}: all 65536 half-precision inputs, all codes, clamp codes, re-encoding, format parameters (bounds: 2^16 inputs, 2^bits codes) *)
Theorem enc_{nm}_is_nearest_even : check_enc {f} {ovf} enc_{nm} = true.
Proof. vm_compute. reflexivity. Qed.
Theorem dec_{nm}_is_format_value : check_dec {f} dec_{nm} = true.
Proof. vm_compute. reflexivity. Qed.
Theorem clamp_{nm}_is_overflow_code : check_clamp {f} {ovf} clamp_{nm} = true.
Proof. vm_compute. reflexivity. Qed.
Theorem redecode_{nm} : check_redecode {f} {ovf} = true.
Proof. vm_compute. reflexivity. Qed.
Theorem params_{nm}_ok : check_params {f} params_{nm} = true.
Proof. vm_compute. reflexivity. Qed.
Print Assumptions enc_{nm}_is_nearest_even.
'''

def generate(out):
    text, info = genluts.emit(REPO)
    bridges = [(f'BridgeC11_{nm}', BRIDGE_T.format(nm=nm, f=f, ovf=ovf)) for nm, f, ovf in TABLES]
    r = gen_build([('GenLuts', text)], bridges, timeout=1500)
    r['functions'] = ['mxfp_luts_compressed', 'binary8_luts_compressed', 'MXFPFormat clamp values', 'Binary8Format clamp values']
    r['data'] = info
    return r

def decode_ref(name, c):
    """exact value of code c: Fraction | 'nan' | 'inf' | '-inf' ; also the sign bit for zeros"""
    bits, eb, mb, bias, style = FMT[name]
    if style == 'p3109':
        if c == 0x80: return 'nan'
        if c == 0x7f: return 'inf'
        if c == 0xff: return '-inf'
    sign = c >> (bits - 1)
    e = (c >> mb) & ((1 << eb) - 1)
    m = c & ((1 << mb) - 1)
    if style == 'ieee' and e == (1 << eb) - 1:
        return ('-inf' if sign else 'inf') if m == 0 else 'nan'
    if style == 'e4m3' and e == 15 and m == 7: return 'nan'
    v = Fraction(m, 1 << mb) * Fraction(2) ** (1 - bias) if e == 0 else (1 + Fraction(m, 1 << mb)) * Fraction(2) ** (e - bias)
    return -v if sign else v

_FINITE = {}
def finite_codes(name):
    if name not in _FINITE:
        bits = FMT[name][0]
        _FINITE[name] = [(decode_ref(name, c), c) for c in range(1 << bits) if isinstance(decode_ref(name, c), Fraction)]
    return _FINITE[name]

def rne(q: Fraction) -> int:
    f = math.floor(q)
    r = q - f
    if r > Fraction(1, 2) or (r == Fraction(1, 2) and f % 2 == 1): return f + 1
    return f

def encode_ref(name, x, overflow_mode):
    """x: Fraction | 'nan' | 'inf' | '-inf' | '-0'.  returns code or 'ValueError'"""
    bits, eb, mb, bias, style = FMT[name]
    fin = finite_codes(name)
    maxv = max(v for v, c in fin)
    pos = {v: c for v, c in fin if c < (1 << (bits - 1))}
    top = 1 << (bits - 1)
    def inf_code(neg):
        if style == 'p3109': return 0xff if neg else 0x7f
        if style == 'ieee': return (0xfc if neg else 0x7c) if overflow_mode == 'overflow' else (0xfb if neg else 0x7b)
        if style == 'e4m3': return 0xff if overflow_mode == 'overflow' else (0xfe if neg else 0x7e)
        return (top | pos[maxv]) if neg else pos[maxv]
    if x == 'nan':
        if style == 'p3109': return 0x80
        if style in ('ieee', 'e4m3'): return 0xff
        return 'ValueError'
    if x == 'inf': return inf_code(False)
    if x == '-inf': return inf_code(True)
    if x == '-0': return 0 if style == 'p3109' else top
    neg = x < 0
    a = -x if neg else x
    if a == 0: return 0
    # round to nearest even with an unbounded exponent
    minnorm = Fraction(2) ** (1 - bias)
    if a < minnorm: quantum = minnorm / (1 << mb)
    else:
        e = math.floor(math.log2(a))
        while Fraction(2) ** e > a: e -= 1
        while Fraction(2) ** (e + 1) <= a: e += 1
        quantum = Fraction(2) ** (e - mb)
    r = rne(a / quantum) * quantum
    if r > maxv: return inf_code(neg)
    if r == 0: return (top if neg and style != 'p3109' else 0)
    code = pos[r]
    return (top | code) if neg else code

def half_to_x(h):
    """the exact value of the 16-bit half pattern h"""
    s, e, m = h >> 15, (h >> 10) & 31, h & 1023
    if e == 31: return 'nan' if m else ('-inf' if s else 'inf')
    v = Fraction(m, 1024) * Fraction(2) ** -14 if e == 0 else (1 + Fraction(m, 1024)) * Fraction(2) ** (e - 15)
    if v == 0 and s: return '-0'
    return -v if s else v

def float_to_half_x(f):
    """what the library's first step does: IEEE RNE to half; overflow is reported as +-'big'"""
    if f != f: return 'nan'
    try: b = struct.pack('>e', f)
    except OverflowError: return '-big' if f < 0 else 'big'
    return half_to_x(int.from_bytes(b, 'big'))

def gen_cases(rng, tier):
    yield from _gen_base(rng, tier)
    yield from gen_values(rng, tier)
    yield from gen_packmix(rng, tier)
    yield from gen_arrays(rng, tier)
    yield from gen_scaled_read(rng, tier)
    yield from gen_optset(rng, tier)

def _gen_base(rng, tier):
    for name in FMT:
        bits = FMT[name][0]
        for c in range(1 << bits):
            yield {'op': 'decode', 'fmt': name, 'code': c, 'scale': rng.choice([None, None, 2, 0.25, 2 ** 6])}
            yield {'op': 'redecode', 'fmt': name, 'code': c, 'mode': rng.choice(['saturate', 'overflow'])}
    halfs = list(range(65536)) if tier == 'thorough' else sorted(set(
        [rng.randrange(65536) for _ in range(2500)] + list(range(0, 64)) + list(range(0x8000, 0x8040)) + list(range(0x7b00, 0x7c10)) + list(range(0xfb00, 0xfc10)) +
        [h for base in range(0x0400, 0x7c00, 0x0400) for h in (base - 2, base - 1, base, base + 1, base + 2)] +
        [(e << 10) | m for e in range(0, 31) for m in (0, 1, 63, 64, 65, 127, 128, 129, 191, 192, 193, 255, 256, 257, 383, 384, 385, 511, 512, 513, 767, 768, 769, 1023)]))
    for h in halfs:
        for name in FMT:
            if tier == 'quick' and rng.random() < 0.55: continue
            yield {'op': 'encode_half', 'fmt': name, 'h': h, 'mode': rng.choice(['saturate', 'overflow'])}
    N = 600 if tier == 'quick' else 6000
    for _ in range(N):
        name = rng.choice(list(FMT))
        h = rng.randrange(65536)
        x = struct.unpack('>e', h.to_bytes(2, 'big'))[0]
        if x == x and not math.isinf(x):
            nx = struct.unpack('>e', ((h + 1) & 0xffff).to_bytes(2, 'big'))[0]
            f = rng.choice([x, (x + nx) / 2 if nx == nx and not math.isinf(nx) else x, math.nextafter((x + nx) / 2, 1e9) if nx == nx and not math.isinf(nx) else x,
                            math.nextafter((x + nx) / 2, -1e9) if nx == nx and not math.isinf(nx) else x, x * (1 + 2 ** -30)])
        else: f = x
        f = rng.choice([f, f, f, 65504.0, 65519.99, 65520.0, 1e10, -1e10, 1e300, float('inf'), float('-inf'), float('nan'), -0.0, 0.0, 5e-324, 464.0, 464.25, 61440.0, 232.0, 233.0])
        yield {'op': 'encode_float', 'fmt': name, 'f': f.hex() if f == f else 'nan', 'mode': rng.choice(['saturate', 'overflow']), 'scale': rng.choice([None, None, None, 2, 0.5, 2 ** -3, 3, 49, 0.1]),
               'route': rng.choice(['kw', 'build', 'token', 'pack', 'setattr'])}
    # float64 inputs that are NOT half-precision values, next to the midpoints between adjacent values of each format: the half-precision pre-rounding
    # (ties to even) decides these, a direct rounding of the float64 would choose the nearer neighbour
    for name in FMT:
        vals = sorted({v for v, _ in finite_codes(name)})
        mids = [float((a + b) / 2) for a, b in zip(vals, vals[1:])]
        if tier == 'quick' and len(mids) > 40: mids = rng.sample(mids, 40)
        for m in mids:
            if m == 0.0: continue
            for f in (m, math.nextafter(m, math.inf), math.nextafter(m, -math.inf), m * (1 + 2 ** -13), m * (1 - 2 ** -13), m * (1 + 2 ** -12), m * (1 - 2 ** -12), m * (1 + 2 ** -11), m * (1 - 2 ** -11)):
                if tier == 'quick' and rng.random() < 0.5: continue
                yield {'op': 'encode_float', 'fmt': name, 'f': f.hex(), 'mode': rng.choice(['saturate', 'overflow']), 'scale': None, 'route': rng.choice(['kw', 'build', 'token', 'pack', 'setattr'])}
    # mxint: both float64 neighbours of EVERY midpoint (k + 0.5)/64 (the sum `f + 0.5` of the earlier algorithm was itself rounded: D54)
    for k in range(-130, 131):
        m = (k + 0.5) / 64
        for f in (m, math.nextafter(m, math.inf), math.nextafter(m, -math.inf)):
            yield {'op': 'other', 'fmt': 'mxint', 'f': f.hex()}
    for _ in range(N // 2):
        k = rng.choice(['mxint', 'e8m0mxfp', 'bfloat', 'bfloatle'])
        if k == 'mxint':
            f = rng.choice([rng.randrange(-140, 140) / 64, (rng.randrange(-130, 130) + 0.5) / 64, rng.uniform(-2.1, 2.1), math.nextafter((rng.randrange(-128, 128) + 0.5) / 64, rng.choice([-9, 9])), 1.984375, 1.99, -2.0, -2.01, 0.0, -0.0, float('inf'), float('-inf'), float('nan')])
        elif k == 'e8m0mxfp':
            p2 = 2.0 ** rng.randrange(-127, 128)
            up = lambda x, n: x if n == 0 else up(math.nextafter(x, math.inf), n - 1)
            dn = lambda x, n: x if n == 0 else dn(math.nextafter(x, 0.0), n - 1)
            f = rng.choice([2.0 ** rng.randrange(-130, 131), 3.0, 0.0, float('nan'), float('inf'), p2 * 1.0000001, -2.0, -p2,
                            up(p2, 1), up(p2, 2), up(p2, 3), dn(p2, 1), dn(p2, 2), dn(p2, 3), p2 * 1.5, p2 * 3, p2])   # neighbours of a power of two are not powers of two
        else:
            f = rng.choice([rng.uniform(-1e5, 1e5), 1.0078125 - 1e-9, 1.0, 3.38953139e38, 3.4e38, 1e39, -1e39, float('inf'), float('nan'), 1e-40, 0.0, -0.0, struct.unpack('>f', rng.getrandbits(32).to_bytes(4, 'big'))[0]])
        yield {'op': 'other', 'fmt': k, 'f': f.hex() if f == f else 'nan'}
    for _ in range(N // 3):
        sc = rng.choice([3, 49, 0.1, 10, 0.001, 7.5, 2, 0.25])
        k = rng.choice(['mxint', 'e8m0mxfp'])
        if k == 'mxint':
            q = rng.choice([(rng.randrange(-128, 128) + 0.5) / 64, rng.randrange(-128, 128) / 64, rng.uniform(-2, 2)])
        else:
            q = 2.0 ** rng.randrange(-120, 121)
        f = rng.choice([q * sc, q * sc, math.nextafter(q * sc, math.inf), math.nextafter(q * sc, -math.inf)])
        yield {'op': 'other', 'fmt': k, 'f': f.hex(), 'scale': sc}
    # bfloat: around the largest float32 (finite values above it still round to it; beyond the rounding boundary: infinity)
    FMAX = 3.4028234663852886e38
    for f in [FMAX, math.nextafter(FMAX, math.inf), 3.4028235e38, 3.4028235677973362e38, 3.4028235677973366e38, math.nextafter(3.4028235677973366e38, math.inf), 3.5e38,
              -FMAX, -math.nextafter(FMAX, math.inf), -3.4028235e38, -3.4028235677973362e38, -3.4028235677973366e38, 65504.0, 65520.0, 1e308]:
        for k in ('bfloat', 'bfloatle'):
            yield {'op': 'other', 'fmt': k, 'f': f.hex()}
    for c in range(256):
        yield {'op': 'decode_other', 'fmt': 'e8m0mxfp', 'code': c}; yield {'op': 'decode_other', 'fmt': 'mxint', 'code': c}
    for _ in range(300 if tier == 'quick' else 5000):
        yield {'op': 'decode_other', 'fmt': rng.choice(['bfloat', 'bfloatle']), 'code': rng.choice([rng.randrange(65536), 0x7f80, 0xff80, 0x7fc0, 0x0001, 0x8000, 0x7f7f])}


# ---------------------------------------------------------------------------------------------------------------------------------
# One reference for all ten formats (plain Python floats, fractions, struct): enc_any / dec_any.  Used by the value-type / keyword
# routes (encode_val, packmix), the scaled reading routes (scaled_read) and the Array programs with scaled dtypes (array).
# ---------------------------------------------------------------------------------------------------------------------------------
OTHERF = {'mxint': 8, 'e8m0mxfp': 8, 'bfloat': 16, 'bfloatbe': 16, 'bfloatle': 16}
ALLF = list(FMT) + list(OTHERF)
ALIAS = {'bfloatbe': 'bfloat'}
def nbits(name): return FMT[name][0] if name in FMT else OTHERF[name]
SAME_WIDTH = {}
for _n in ALLF: SAME_WIDTH.setdefault(nbits(_n), []).append(_n)

def enc_any(name, f, mode):
    """code (int) of the Python number f in format `name` under mxfp_overflow `mode`, or 'ValueError'"""
    f = float(f)
    if name in FMT:
        x = float_to_half_x(f)
        if x in ('big', '-big'): x = 'inf' if x == 'big' else '-inf'
        return encode_ref(name, x, mode)
    if name == 'mxint':
        if f != f: return 'ValueError'
        if math.isinf(f): return 127 if f > 0 else 128
        q = Fraction(f) * 64
        return (127 if q > 127 else (-128 if q <= -128 else rne(q))) & 0xff
    if name == 'e8m0mxfp':
        if f != f: return 255
        ok = f > 0 and not math.isinf(f) and math.frexp(f)[0] == 0.5 and -127 <= math.frexp(f)[1] - 1 <= 127
        return math.frexp(f)[1] - 1 + 127 if ok else 'ValueError'
    try: b = struct.pack('>f', f)                  # bfloat: float32 (nearest even, overflow to infinity), the two most significant bytes
    except OverflowError: b = struct.pack('>f', math.copysign(float('inf'), f))
    return int.from_bytes(b[:2] if name != 'bfloatle' else b[:2][::-1], 'big')

def dec_any(name, code):
    """the Python float a code stands for"""
    if name in FMT:
        d = decode_ref(name, code)
        if d == 'nan': return float('nan')
        if d in ('inf', '-inf'): return float(d)
        if d == 0 and code == 1 << (FMT[name][0] - 1) and FMT[name][4] != 'p3109': return -0.0
        return float(d)
    if name == 'mxint': return (code - 256 if code >= 128 else code) / 64
    if name == 'e8m0mxfp': return float('nan') if code == 255 else 2.0 ** (code - 127)
    by = code.to_bytes(2, 'big')
    return struct.unpack('>f', (by if name != 'bfloatle' else by[::-1]) + b'\x00\x00')[0]

class RefErr(Exception): pass

def ref_bits(name, sc, v, mode):
    """bits of the value v (float, int, bool or numeric str) stored through a dtype `name` with scale sc: the value is divided by the scale, then encoded"""
    f = v if sc is None else v / sc
    code = enc_any(name, f, mode)
    if code == 'ValueError': raise RefErr()
    return format(code, f'0{nbits(name)}b')

def ref_values(name, sc, data):
    """decoded items of the bit string data: whole items only, each multiplied by the scale"""
    n = nbits(name)
    out = []
    for i in range(0, len(data) - n + 1, n):
        v = dec_any(name, int(data[i:i + n], 2))
        out.append(v if sc is None else v * sc)
    return out

# values as JSON: ['f', hex | 'nan'] float, ['i', n] int, ['b', flag] bool, ['s', text] numeric string
def fspec(f): return ['f', 'nan' if f != f else float(f).hex()]
def val_of(spec):
    k, v = spec
    if k == 'f': return float('nan') if v == 'nan' else float.fromhex(v)
    return v
ZEROS = [fspec(0.0), fspec(-0.0), ['i', 0], ['b', False]]
ODDV = [['b', True], ['i', 1], ['i', -1], ['i', 2], ['i', -2], ['i', 4], ['i', 10 ** 6], ['i', -10 ** 30], fspec(0.5), fspec(1.0), fspec(-1.5), fspec(float('nan')), fspec(math.inf), fspec(-math.inf),
        fspec(1e-30), fspec(-1e-30), fspec(5e-324), fspec(-5e-324), fspec(1e300), fspec(2.0 ** -127), fspec(2.0 ** 127),
        ['s', '0'], ['s', '-0.0'], ['s', '0.0'], ['s', '-0'], ['s', '1'], ['s', '0.5'], ['s', '2'], ['s', 'nan'], ['s', '-inf'], ['s', '0e0'], ['s', '1e-400']]
# keyword names: ordinary ones, and names that read as a float themselves (the keyword's value takes precedence over the text)
KW_NAMES = ['v', 'x', 'lo', 'z', 'nan', 'inf', 'infinity', 'NaN', 'Inf', 'Infinity', 'value', 'n0', '_', 'e', 'zero', 'a', 'b2', 'k', 'true', 'false', 'none', 'e5', 'x0']
KW_ROUTES = ['pack_kw', 'pack_kw_len', 'pack_list_kw', 'pack_kw_twice', 'pack_kw_after_pos', 'pack_kw_unused']
VAL_ROUTES = ['kw', 'kw_len', 'build', 'token', 'pack_pos', 'setattr', 'stream_add', 'append_token', 'array_init', 'array_append', 'array_setitem', 'array_insert', 'array_extend', 'array_setslice'] + KW_ROUTES
SCALABLE = ['build', 'array_init', 'array_append', 'array_setitem', 'array_insert', 'array_extend', 'array_setslice']
SCALES = [2, 2.0, 0.5, 4, 0.25, 8, 2 ** -3, 2 ** 6, 2 ** 10, 2.0 ** -10, 1, 1.0, 3, 0.1, 49, 7.5, 10, 0.001, -2, -0.5, 2 ** 40, 2.0 ** -40, -1]
POW2_SCALES = [2, 2.0, 0.5, 4, 0.25, 8, 2 ** -3, 2 ** 6, 2 ** 10, 2.0 ** -10, 1, 1.0, 2 ** 40, 2.0 ** -40]

def rand_code(rng, name):
    n = nbits(name)
    if n == 16: return rng.choice([rng.randrange(65536), rng.randrange(0x3000, 0x5000), 0x3f80, 0xbf80, 0x0000, 0x8000, 0x7f7f, 0x0001])
    return rng.randrange(1 << n)

def rand_val(rng, name, sc=None, strings=True):
    """a value spec to be encoded in format `name` through a dtype of scale sc: zeros of every type, odd values, values that are representable after the division"""
    r = rng.random()
    if r < 0.3: return rng.choice(ZEROS)
    if r < 0.5:
        v = rng.choice(ODDV)
        while v[0] == 's' and not strings: v = rng.choice(ODDV)
        return v
    if r < 0.6: return fspec(rng.choice([rng.uniform(-3, 3), rng.uniform(-500, 500), rng.uniform(-1e-3, 1e-3), rng.uniform(-1e5, 1e5)]))
    x = dec_any(name, rand_code(rng, name))
    if name == 'bfloatle': x = dec_any('bfloat', rand_code(rng, 'bfloat'))
    if sc is not None and x == x: x = x * sc
    if x == int(x) if x == x and not math.isinf(x) else False:
        if abs(x) < 2 ** 60 and rng.random() < 0.3: return ['i', int(x)]
    return fspec(x)

def gen_values(rng, tier):
    """one value of any type (float, int, bool, numeric str; every zero) through every route that takes a value, for every format: the code is that of float(value)"""
    def case(name, val, route):
        c = {'op': 'encode_val', 'fmt': name, 'val': val, 'route': route, 'mode': rng.choice(['saturate', 'overflow']), 'key': rng.choice(KW_NAMES),
             'cls': rng.choice(['Bits', 'BitArray', 'ConstBitStream', 'BitStream']), 'scale': None, 'lsb0': rng.random() < 0.1}
        if route in ('setattr', 'append_token'): c['cls'] = rng.choice(['BitArray', 'BitStream'])
        if route in SCALABLE and val[0] != 's' and rng.random() < 0.4: c['scale'] = rng.choice(SCALES)
        if route in ('token', 'stream_add', 'append_token') and val[0] == 'b': c['val'] = ['i', int(val[1])]
        return c
    for name in ALLF:
        for val in ZEROS + ODDV[:3] + [fspec(float('nan')), fspec(math.inf)]:
            routes = VAL_ROUTES if tier == 'thorough' else KW_ROUTES[:4] + [rng.choice(KW_ROUTES[4:]), rng.choice(VAL_ROUTES[:6]), rng.choice(VAL_ROUTES[6:14])]
            for route in routes: yield case(name, val, route)
    for _ in range(300 if tier == 'quick' else 6000):
        name = rng.choice(ALLF)
        yield case(name, rand_val(rng, name), rng.choice(VAL_ROUTES))

NEIGHBOURS = ['uint:8', 'bool', 'int:5']
def gen_packmix(rng, tier):
    """pack() with several tokens whose values come from the format text, from positional arguments and from keywords (shared or not), keyword values falsy or not"""
    for i in range(150 if tier == 'quick' else 3000):
        ntok = rng.choice([1, 2, 2, 3, 3, 4, 6])
        names = list(KW_NAMES); rng.shuffle(names)
        keyvals, toks = {}, []
        for _ in range(ntok):
            name = rng.choice(ALLF) if rng.random() < 0.85 else rng.choice(NEIGHBOURS)
            how = rng.choice(['kw', 'kw', 'kw', 'pos', 'lit'])
            if name in ALLF: val = rand_val(rng, name)
            elif name == 'uint:8': val = ['i', rng.choice([0, 0, 1, 255, 7])]
            elif name == 'int:5': val = ['i', rng.choice([0, 0, -1, 15, -16])]
            else: val = rng.choice([['b', False], ['b', True], ['i', 0], ['i', 1]])
            key = None
            if how == 'lit':
                v = val_of(val)
                if isinstance(v, bool) or (isinstance(v, float) and (v != v or math.isinf(v))) or (isinstance(v, str) and v.strip().lstrip('-') in ('nan', 'inf')) or name == 'bool': how = 'kw'
            if how == 'kw':
                shared = [k for k, (n0, v0) in keyvals.items() if (n0 in ALLF) == (name in ALLF) and (name in ALLF or n0 == name)]
                if shared and rng.random() < 0.3:
                    key = rng.choice(sorted(shared)); val = keyvals[key][1]
                else:
                    key = names.pop(); keyvals[key] = (name, val)
            toks.append({'fmt': name, 'how': how, 'key': key, 'val': val})
        extra = {}
        if rng.random() < 0.3: extra[names.pop()] = rng.choice(ZEROS + [['i', 7], ['s', '0b1']])        # a keyword no token refers to
        yield {'op': 'packmix', 'toks': toks, 'aslist': rng.choice([None, None, 'each', 'split']), 'mode': rng.choice(['saturate', 'overflow']), 'extra': extra}

def rand_scale(rng, name, not_this='-'):
    """a scale (None = unscaled) for format `name`; with not_this given, one of another value"""
    pool = [None, None] + (POW2_SCALES if name == 'e8m0mxfp' and rng.random() < 0.9 else SCALES)
    for _ in range(20):
        s = rng.choice(pool)
        if not_this == '-': return s
        same = (s is None and not_this is None) or (s is not None and not_this is not None and float(s) == float(not_this))
        if not same: return s
    return None if not_this is not None else 2

def gen_arrays(rng, tier):
    """Arrays whose dtype carries a scale: creation, item access, insertion, astype (same format with another scale, scaled <-> unscaled, other formats), dtype re-assignment,
    element-wise operators.  Stored items are codes of value / scale; items read back are decoded value * scale."""
    N = 160 if tier == 'quick' else 3500
    for i in range(N):
        name = ALLF[i % len(ALLF)] if i < 3 * len(ALLF) else rng.choice(ALLF)
        sc = rand_scale(rng, name)
        ln = rng.choice([0, 1, 2, 3, 4, 5, 8])
        init = [rand_val(rng, name, sc, strings=sc is None) for _ in range(ln)]
        steps = []
        cur, cursc = name, sc
        for si in range(rng.choice([1, 2, 3, 4, 6])):
            r = rng.random()
            if r < (0.7 if si == 0 else 0.35):
                q = rng.random()
                if q < 0.5: n2, s2 = cur, rand_scale(rng, cur, not_this=cursc)
                elif q < 0.6: n2, s2 = cur, cursc
                elif q < 0.7: n2, s2 = cur, None
                else: n2 = rng.choice(ALLF); s2 = rand_scale(rng, n2)
                how = rng.choice(['dtype', 'dtype', 'dtype_len', 'str' if s2 is None else 'dtype', 'dtype_of_dtype'])
                keep = rng.random() < 0.75
                steps.append(['astype', n2, s2, how, keep])
                if keep: cur, cursc = n2, s2
            elif r < 0.45:
                n2 = rng.choice(SAME_WIDTH[nbits(cur)]); s2 = rand_scale(rng, n2, not_this=cursc if n2 == cur else '-')
                steps.append(['setdtype', n2, s2, rng.choice(['dtype', 'str' if s2 is None else 'dtype'])]); cur, cursc = n2, s2
            elif r < 0.52: steps.append(['append', rand_val(rng, cur, cursc, strings=cursc is None)]); ln += 1
            elif r < 0.57: steps.append(['insert', rng.randrange(-ln - 1, ln + 2), rand_val(rng, cur, cursc, strings=False)]); ln += 1
            elif r < 0.64 and ln: steps.append(['setitem', rng.randrange(-ln, ln), rand_val(rng, cur, cursc, strings=False)])
            elif r < 0.69:
                k = rng.randrange(0, 4); steps.append(['extend', [rand_val(rng, cur, cursc, strings=False) for _ in range(k)]]); ln += k
            elif r < 0.73:
                a = rng.randrange(0, ln + 1); b = rng.randrange(a, ln + 1); k = rng.randrange(0, 3)
                steps.append(['setslice', a, b, [rand_val(rng, cur, cursc, strings=False) for _ in range(k)]]); ln += k - (b - a)
            elif r < 0.85:
                opn = rng.choice(['mul', 'add', 'sub', 'truediv', 'neg', 'abs', 'imul', 'iadd', 'isub', 'itruediv'])
                k = rng.choice([2, 0.5, -1, 3, 1, 0.25, 4, 1.5, -2.0, 64, 2 ** -7, 0.0, -0.0, 0, 7]) if opn not in ('truediv', 'itruediv') else rng.choice([2, 0.5, -1, 3, 1, 4, 0.1, -8])
                steps.append(['op', opn, k])
            elif r < 0.9 and ln:
                s2 = rand_scale(rng, cur, not_this=cursc)
                steps.append(['opa', rng.choice(['mul', 'add', 'sub']), cur, s2, [rand_val(rng, cur, s2, strings=False) for _ in range(ln)]])
            elif r < 0.95:
                a = rng.choice([None, 0, 1, -1]); b = rng.choice([None, ln, -1, 2]); st = rng.choice([None, 1, 2, -1])
                steps.append(['slice', a, b, st]); ln = len(range(*slice(a, b, st).indices(ln)))
            elif r < 0.97: steps.append(['copy'])
            elif ln: steps.append(['pop', rng.randrange(-ln, ln)]); ln -= 1
        yield {'op': 'array', 'fmt': name, 'scale': sc, 'init': init, 'steps': steps, 'mode': rng.choice(['saturate', 'overflow']), 'how': rng.choice(['dtype', 'dtype_len', 'str' if sc is None else 'dtype'])}

def gen_scaled_read(rng, tier):
    """codes read back through Dtypes with a scale by every reading route: each value is the decoded value times the scale of ITS dtype"""
    for i in range(120 if tier == 'quick' else 2500):
        k = rng.choice([1, 1, 2, 3, 5])
        same = rng.random() < 0.4
        n0 = rng.choice(ALLF)
        items = []
        for _ in range(k):
            name = n0 if same else rng.choice(ALLF)
            items.append([name, rand_scale(rng, name), rand_code(rng, name)])
        yield {'op': 'scaled_read', 'items': items, 'route': rng.choice(['parse', 'read', 'readlist', 'unpack', 'peeklist', 'peek', 'get_fn', 'array', 'parse_auto', 'read_fn']), 'mode': rng.choice(['saturate', 'overflow']),
               'cls': rng.choice(['Bits', 'BitArray', 'ConstBitStream', 'BitStream']), 'lead': rng.choice([0, 0, 1, 3, 8])}


# ---------------------------------------------------------------------------------------------------------------------------------
# Assignments to the module options - accepted and REFUSED ones - interleaved with encodings.  The setting in force is the one the
# caller last set successfully: a refused assignment (a value that is not one of the two modes - of any type, in any letter case -,
# a deletion, a value without a truth value for the boolean options) leaves every option exactly as it was, and every encoding
# that follows (any route, any format, scaled or not, Arrays, pack) maps overflow as documented for THAT setting.
# ---------------------------------------------------------------------------------------------------------------------------------
BAD_MODE_SPECS = [['s', 'clip'], ['s', 'saturated'], ['s', 'overflows'], ['s', ''], ['s', 'Saturate'], ['s', 'SATURATE'], ['s', 'Overflow'], ['s', 'OVERFLOW'], ['s', 'oVERFLOW'], ['s', ' saturate'], ['s', 'overflow '],
                  ['s', 'saturate\n'], ['s', 'sat'], ['s', 'o'], ['s', 'none'], ['s', 'True'], ['s', 'saturate,overflow'], ['strsub', 'Overflow'], ['none'], ['b', True], ['b', False], ['i', 0], ['i', 1], ['i', 2], ['i', -1],
                  ['f', 1.5], ['f', 0.0], ['nan'], ['bytes', 'overflow'], ['bytes', 'saturate'], ['list', ['overflow']], ['list', []], ['tuple', ['saturate', 'overflow']], ['tuple', ['overflow']], ['set', ['overflow']],
                  ['dict', 'overflow'], ['notruth'], ['type'], ['bytearray', 'overflow']]
GOOD_MODE_SPECS = [['s', 'saturate'], ['s', 'overflow'], ['s', 'saturate'], ['s', 'overflow'], ['strsub', 'saturate'], ['strsub', 'overflow'], ['built', 'saturate'], ['built', 'overflow']]
BOOL_SPECS = [['b', True], ['b', False], ['b', True], ['b', False], ['i', 0], ['i', 1], ['i', 7], ['s', ''], ['s', 'x'], ['none'], ['f', 0.0], ['list', []], ['list', [0]], ['notruth'], ['notruth']]
HUGE = [1e6, -1e6, 65504.0, -70000.0, math.inf, -math.inf, 1e300, -1e300, 500.0, 464.0, 465.0, 480.0, -449.0, 448.0, -448.0, 57344.0, 61440.0, 61439.0, -61440.0, 65520.0, 1000.0, -1000.0, 3e38, 7e7, 1e30]
MODE_FMTS = ['e4m3mxfp', 'e5m2mxfp']

KEPT_HOWS = ['dtype_build', 'scaled_build', 'array_append', 'array_setitem', 'array_extend', 'scaled_array_append', 'bitarray_setattr', 'dtype_of_dtype_build', 'array_imul']
KEPT_SCALE = 4

class _NoTruth:
    def __bool__(self): raise ValueError('neither true nor false')
class _Str(str): pass

def spec_value(spec):
    k = spec[0]
    if k == 's': return spec[1]
    if k == 'strsub': return _Str(spec[1])
    if k == 'built': return ''.join(list(spec[1]))           # an equal string that is not the interned literal
    if k == 'none': return None
    if k in ('b', 'i', 'f'): return spec[1]
    if k == 'nan': return float('nan')
    if k == 'bytes': return spec[1].encode()
    if k == 'bytearray': return bytearray(spec[1].encode())
    if k == 'list': return list(spec[1])
    if k == 'tuple': return tuple(spec[1])
    if k == 'set': return set(spec[1])
    if k == 'dict': return {spec[1]: 1}
    if k == 'notruth': return _NoTruth()
    if k == 'type': return str
    raise AssertionError(spec)

def spec_is_mode(spec): return spec[0] in ('s', 'strsub', 'built') and spec[1] in ('saturate', 'overflow')

def gen_optset(rng, tier):
    for ci in range(30 if tier == 'quick' else 500):
        steps = []
        mode, lsb0 = 'saturate', False
        def enc():
            r = rng.random()
            name = rng.choice(MODE_FMTS) if r < 0.85 else rng.choice(ALLF)
            if rng.random() < 0.2:
                # objects made once per history (under whatever setting was in force then) and used again now: they follow the setting in force NOW
                return ['enc', {'op': 'kept', 'fmt': rng.choice(MODE_FMTS), 'val': fspec(rng.choice(HUGE)), 'how': rng.choice(KEPT_HOWS)}]
            if r < 0.8 or lsb0:
                v = rng.choice(HUGE) if rng.random() < 0.8 else val_of(rand_val(rng, name))
                val = fspec(v) if isinstance(v, float) else rand_val(rng, name)
                if rng.random() < 0.1 and isinstance(v, float) and math.isfinite(v) and v == int(v) and abs(v) < 2 ** 60: val = ['i', int(v)]
                route = rng.choice(LSB0_OK if lsb0 else VAL_ROUTES)
                c = {'op': 'encode_val', 'fmt': name, 'val': val, 'route': route, 'mode': None, 'key': rng.choice(KW_NAMES), 'cls': rng.choice(['Bits', 'BitArray', 'ConstBitStream', 'BitStream']), 'scale': None, 'lsb0': False}
                if route in ('setattr', 'append_token'): c['cls'] = rng.choice(['BitArray', 'BitStream'])
                if route in SCALABLE and val[0] == 'f' and rng.random() < 0.3:
                    c['scale'] = rng.choice([2, 4, 0.5, 8, 2 ** -3])
                    x = val_of(val)
                    if not math.isinf(x) and abs(x) < 1e290: c['val'] = fspec(x * c['scale'])
                if route in ('token', 'stream_add', 'append_token') and c['val'][0] == 'b': c['val'] = ['i', int(c['val'][1])]
                return ['enc', c]
            if r < 0.9:
                toks = []
                for _ in range(rng.choice([1, 2, 3])):
                    nm = rng.choice(MODE_FMTS); v = rng.choice(HUGE)
                    how = rng.choice(['kw', 'pos', 'lit']) if not math.isinf(v) else rng.choice(['kw', 'pos'])
                    toks.append({'fmt': nm, 'how': how, 'key': f'k{len(toks)}' if how == 'kw' else None, 'val': fspec(v)})
                return ['enc', {'op': 'packmix', 'toks': toks, 'aslist': rng.choice([None, None, 'each']), 'mode': None, 'extra': {}}]
            nm = rng.choice(MODE_FMTS)
            sc = rng.choice([None, None, 2, 0.25])
            sts = [rng.choice([['append', fspec(rng.choice(HUGE))], ['op', 'mul', rng.choice([64, 1000, -512])], ['astype', rng.choice(MODE_FMTS), rng.choice([None, 4]), 'dtype', True], ['insert', 0, fspec(rng.choice(HUGE))],
                               ['extend', [fspec(rng.choice(HUGE))]], ['op', 'add', 1e5]]) for _ in range(rng.choice([1, 2, 3]))]
            return ['enc', {'op': 'array', 'fmt': nm, 'scale': sc, 'init': [fspec(rng.choice(HUGE + [1.0, -3.0])) for _ in range(rng.choice([1, 2, 4]))], 'steps': sts, 'mode': None, 'how': 'dtype'}]
        if ci % 2: steps.append(['set', 'mxfp_overflow', rng.choice(GOOD_MODE_SPECS), 'assign'])
        for _ in range(rng.choice([4, 8, 14])):
            r = rng.random()
            if r < 0.45:
                steps.append(['set', 'mxfp_overflow', rng.choice(BAD_MODE_SPECS), rng.choice(['assign', 'assign', 'assign', 'assign', 'setattr_type', 'del', 'iadd'])])
            elif r < 0.7: steps.append(['set', 'mxfp_overflow', rng.choice(GOOD_MODE_SPECS), rng.choice(['assign', 'assign', 'setattr_type'])])
            elif r < 0.85:
                steps.append(['set', rng.choice(['lsb0', 'bytealigned']), rng.choice(BOOL_SPECS), rng.choice(['assign', 'assign', 'assign', 'del'])])
            elif r < 0.9: steps.append(['set', rng.choice(['MXFP_OVERFLOW', 'mxfp_overflw', 'Mxfp_Overflow', 'overflow', 'mxfpoverflow']), rng.choice(GOOD_MODE_SPECS), 'assign'])      # another attribute: no option is touched
            else: steps.append(['set', 'lsb0', ['b', False], 'assign'])
            st = steps[-1]
            if st[3] == 'assign' or st[3] == 'setattr_type':
                if st[1] == 'mxfp_overflow' and spec_is_mode(st[2]): mode = st[2][1]
                if st[1] == 'lsb0' and st[2][0] != 'notruth': lsb0 = bool(spec_value(st[2]))
            for _ in range(rng.choice([1, 2, 3])): steps.append(enc())
        yield {'op': 'optset', 'fmt': '*', 'steps': steps}

def _canon_opt(v): return v if isinstance(v, (bool, int, str, type(None))) and not isinstance(v, _Str) else (str(v) if isinstance(v, _Str) else 'R:' + repr(v)[:60])

def run_optset(c):
    import bitstring
    o = bitstring.options
    nc0 = o.no_color
    out = []
    junk = []
    kept = {}
    def run_kept(sub):
        from bitstring import Dtype, Array, BitArray
        name, v, how = sub['fmt'], val_of(sub['val']), sub['how']
        def get(key, make):
            if (name, key) not in kept: kept[(name, key)] = make()
            return kept[(name, key)]
        def f():
            if how == 'dtype_build': return get('dtype', lambda: Dtype(name)).build(v).bin
            if how == 'dtype_of_dtype_build': return get('dtype2', lambda: Dtype(Dtype(name))).build(v).bin
            if how == 'scaled_build': return get('scaled', lambda: Dtype(name, scale=KEPT_SCALE)).build(v).bin
            if how in ('array_append', 'array_setitem', 'array_extend', 'array_imul'):
                a = get('array', lambda: Array(name, [1.0]))
                if how == 'array_append': a.append(v)
                elif how == 'array_extend': a.extend([v])
                elif how == 'array_imul':
                    a[-1] = 1.0; a *= v
                else: a[-1] = v
                return a.data.bin[-8:]
            if how == 'scaled_array_append':
                a = get('sarray', lambda: Array(Dtype(name, scale=KEPT_SCALE), [1.0])); a.append(v); return a.data.bin[-8:]
            if how == 'bitarray_setattr':
                b = get('bitarray', lambda: BitArray(8)); setattr(b, name, v); return b.bin
            raise AssertionError(how)
        return attempt(f)
    def readback(): return [_canon_opt(o.lsb0), _canon_opt(o.bytealigned), _canon_opt(o.mxfp_overflow)]
    try:
        o.lsb0 = False; o.bytealigned = False; o.mxfp_overflow = 'saturate'
        for st in c['steps']:
            if st[0] == 'set':
                _, name, spec, how = st
                v = spec_value(spec)
                def f():
                    if how == 'assign': setattr(o, name, v)
                    elif how == 'setattr_type': type(o).__dict__[name].__set__(o, v)
                    elif how == 'del': delattr(o, name)
                    elif how == 'iadd': setattr(o, name, getattr(o, name) + str(spec[1:]))
                    else: raise AssertionError(how)
                if name not in ('lsb0', 'bytealigned', 'mxfp_overflow'): junk.append(name)
                r = attempt(f)
                out.append(['set', r[0], r[1] if r[0] == 'err' else None, readback()])
            else:
                out.append(['enc', _jsonable(run_kept(st[1]) if st[1]['op'] == 'kept' else _dispatch(st[1]))])
    finally:
        for name in junk:
            try: delattr(o, name)
            except Exception: pass
        for name, v in (('lsb0', False), ('bytealigned', False), ('mxfp_overflow', 'saturate'), ('no_color', nc0)):
            try: setattr(o, name, v)
            except Exception: pass
    return ('ok', out)

def _jsonable(obs):
    return json.loads(json.dumps(obs, default=str))

def oracle_optset(c, obs):
    if obs[0] != 'ok': return f"the option history raised {obs}"
    state = {'lsb0': False, 'bytealigned': False, 'mxfp_overflow': 'saturate'}
    log = []
    if len(obs[1]) != len(c['steps']): return f"{len(obs[1])} observations for {len(c['steps'])} steps"
    for st, ob in zip(c['steps'], obs[1]):
        if st[0] == 'set':
            _, name, spec, how = st
            raised = ob[1] == 'err'
            desc = f"{'del options.' + name if how == 'del' else 'options.' + name + (' += ' if how == 'iadd' else ' = ') + repr(spec[1] if len(spec) > 1 else spec[0]) + ' (' + spec[0] + ')'}"
            log.append(desc + (' -> refused' if raised else ' -> accepted'))
            before = dict(state)
            if name in state and not raised and how in ('assign', 'setattr_type'):
                if name == 'mxfp_overflow':
                    if spec_is_mode(spec): state[name] = spec[1]
                    else:
                        # not one of the two documented modes and yet not refused: whatever is in force now has at least to be one of the two modes, and the encodings have to follow it
                        if ob[3][2] not in ('saturate', 'overflow'):
                            return f"after {log}: the assignment was not refused and options.mxfp_overflow now reads {ob[3][2]!r}, which is not one of the modes 'saturate' / 'overflow'"
                        state[name] = ob[3][2]
                elif spec[0] == 'notruth': return f"after {log}: a value without a truth value was accepted for options.{name}"
                else: state[name] = bool(spec_value(spec))
            elif name in state and not raised: return f"after {log}: the {how} was not refused"
            elif name in state and raised and how in ('assign', 'setattr_type') and ((name == 'mxfp_overflow' and spec_is_mode(spec)) or (name != 'mxfp_overflow' and spec[0] == 'b')):
                return f"after {log}: a documented value was refused ({ob[2]})"
            want = [state['lsb0'], state['bytealigned'], state['mxfp_overflow']]
            if ob[3] != want:
                return (f"after {log}: the options read (lsb0, bytealigned, mxfp_overflow) = {ob[3]}; the caller's successful assignments so far leave {want}"
                        + (" - a refused assignment has to leave every option exactly as it was" if raised else ''))
        else:
            sub = dict(st[1], mode=state['mxfp_overflow'])
            if sub['op'] == 'kept':
                if state['lsb0'] and sub['how'] not in ('dtype_build', 'scaled_build', 'dtype_of_dtype_build', 'bitarray_setattr'): continue
                v = val_of(sub['val'])
                exp = ref_bits(sub['fmt'], KEPT_SCALE if sub['how'].startswith('scaled') else None, v, sub['mode'])
                if tuple(ob[1]) != ('ok', exp):
                    return (f"after the option history {log} the setting in force is mxfp_overflow={sub['mode']!r} (the last successful assignment); {sub['fmt']} of {v!r} through an object made earlier in this history "
                            f"({sub['how']}{', scale ' + str(KEPT_SCALE) if sub['how'].startswith('scaled') else ''}) gave {ob[1]}, the code of the value under that setting is {exp}")
                continue
            if state['lsb0'] and not (sub['op'] == 'encode_val' and sub['route'] in LSB0_OK): continue         # (token order under lsb0 is another property's business)
            got = ob[1]
            got = tuple(got) if sub['op'] != 'array' else ('ok', got[1]) if got[0] == 'ok' else tuple(got)
            m = oracle_new(sub, got)
            if m: return f"after the option history {log} the setting in force is mxfp_overflow={state['mxfp_overflow']!r} (the last successful assignment); " + m
    return None

def kind(c): return c['op'] + ':' + c.get('fmt', '*')

def xcanon(v):
    """a Python float as exact value"""
    if v != v: return 'nan'
    if math.isinf(v): return '-inf' if v < 0 else 'inf'
    if v == 0 and math.copysign(1, v) < 0: return '-0'
    return str(Fraction(v))

LSB0_OK = ['kw', 'kw_len', 'build', 'token', 'pack_pos', 'setattr', 'pack_kw', 'pack_kw_len', 'pack_list_kw', 'pack_kw_unused']

def mk_dtype(name, sc, how='dtype'):
    from bitstring import Dtype
    if how == 'str' and sc is None: return name
    if how == 'dtype_len': return Dtype(name, nbits(name), scale=sc)
    if how == 'dtype_of_dtype': return Dtype(Dtype(name, scale=sc))
    return Dtype(name, scale=sc)

def run_encode_val(c):
    import bitstring
    from bitstring import pack, Array
    name, v, r, key, sc = c['fmt'], val_of(c['val']), c['route'], c['key'], c['scale']
    C = getattr(bitstring, c['cls'])
    n = nbits(name)
    lit = v if isinstance(v, str) else repr(v)
    dt = lambda: mk_dtype(name, sc)
    def f():
        if r == 'kw': return C(**{name: v}).bin
        if r == 'kw_len': return C(**{name: v, 'length': n}).bin
        if r == 'build': return dt().build(v).bin
        if r == 'token': return C(f'{name}={lit}').bin
        if r == 'pack_pos': return pack(name, v).bin
        if r == 'pack_kw': return pack(f'{name}={key}', **{key: v}).bin
        if r == 'pack_kw_len': return pack(f'{name}:n9={key}', **{key: v, 'n9': n}).bin
        if r == 'pack_list_kw': return pack([f'{name}={key}'], **{key: v}).bin
        if r == 'pack_kw_twice': return pack(f'{name}={key}, {name}={key}', **{key: v}).bin
        if r == 'pack_kw_after_pos': return pack(f'{name}, {name}={key}', 1.0, **{key: v}).bin
        if r == 'pack_kw_unused': return pack(f'{name}={key}', **{key: v, 'zz9': 0.0, 'yy9': False}).bin
        if r == 'setattr':
            a = C(); setattr(a, name, v); return a.bin
        if r == 'stream_add': return (C('0b1') + f'{name}={lit}').bin
        if r == 'append_token':
            a = C('0b1'); a.append(f'{name}={lit}'); return a.bin
        if r == 'array_init': return Array(dt(), [v]).data.bin
        if r == 'array_append':
            a = Array(dt()); a.append(v); return a.data.bin
        if r == 'array_setitem':
            a = Array(dt(), 1); a[0] = v; return a.data.bin
        if r == 'array_insert':
            a = Array(dt()); a.insert(0, v); return a.data.bin
        if r == 'array_extend':
            a = Array(dt()); a.extend((v,)); return a.data.bin
        if r == 'array_setslice':
            a = Array(dt(), 2); a[0:1] = [v]; return a.data.bin
        raise AssertionError(r)
    lsb0_before = bitstring.options.lsb0
    if c.get('lsb0') and r in LSB0_OK: bitstring.options.lsb0 = True      # the code of a value does not depend on the bit numbering
    try: return attempt(f)
    finally: bitstring.options.lsb0 = lsb0_before

def packmix_call(c):
    parts, pos, kw = [], [], {}
    for t in c['toks']:
        v = val_of(t['val'])
        if t['how'] == 'pos': parts.append(t['fmt']); pos.append(v)
        elif t['how'] == 'lit': parts.append(f"{t['fmt']}={v if isinstance(v, str) else repr(v)}")
        else: parts.append(f"{t['fmt']}={t['key']}"); kw[t['key']] = v
    for k, spec in c['extra'].items(): kw[k] = val_of(spec)
    h = len(parts) // 2
    if c['aslist'] == 'each': fmt = parts
    elif c['aslist'] == 'split' and h: fmt = [', '.join(parts[:h]), ', '.join(parts[h:])]
    else: fmt = ', '.join(parts)
    return fmt, pos, kw

def snap(a):
    sc = a.dtype.scale
    return {'data': a.data.bin, 'name': a.dtype.name, 'scale': None if sc is None else float(sc).hex(), 'list': [xcanon(v) for v in a.tolist()],
            'items': [xcanon(a[i]) for i in range(len(a))], 'iter': [xcanon(v) for v in a], 'count0': a.count(a[0]) if len(a) else 0}

def run_array(c):
    import operator, copy
    from bitstring import Array
    out = []
    def f():
        a = Array(mk_dtype(c['fmt'], c['scale'], c['how']), [val_of(x) for x in c['init']])
        out.append(snap(a))
        for st in c['steps']:
            k = st[0]
            extra = {}
            if k == 'astype':
                b = a.astype(mk_dtype(st[1], st[2], st[3])); extra['src'] = a.data.bin
                if st[4]: a = b
                else:
                    out.append(dict(snap(b), **extra)); continue
            elif k == 'setdtype': a.dtype = mk_dtype(st[1], st[2], st[3])
            elif k == 'append': a.append(val_of(st[1]))
            elif k == 'insert': a.insert(st[1], val_of(st[2]))
            elif k == 'setitem': a[st[1]] = val_of(st[2])
            elif k == 'extend': a.extend([val_of(x) for x in st[1]])
            elif k == 'setslice': a[st[1]:st[2]] = [val_of(x) for x in st[3]]
            elif k == 'op':
                src = a
                a = getattr(operator, st[1])(a) if st[1] in ('neg', 'abs') else getattr(operator, st[1])(a, st[2])
                if not st[1].startswith('i') : extra['src'] = src.data.bin
            elif k == 'opa':
                other = Array(mk_dtype(st[2], st[3]), [val_of(x) for x in st[4]])
                b = getattr(operator, st[1])(a, other); extra['src'] = a.data.bin; a = b
            elif k == 'slice': a = a[st[1]:st[2]:st[3]]
            elif k == 'copy': a = copy.copy(a)
            elif k == 'pop': extra['ret'] = xcanon(a.pop(st[1]))
            out.append(dict(snap(a), **extra))
    end = attempt(f, secs=10)
    return ('ok', {'steps': out, 'end': list(end)})

def run_scaled_read(c):
    import bitstring
    from bitstring import Array
    items, r, lead = c['items'], c['route'], c['lead']
    cls = c['cls']
    if r in ('read', 'readlist', 'peeklist', 'peek') and cls in ('Bits', 'BitArray'): cls = {'Bits': 'ConstBitStream', 'BitArray': 'BitStream'}[cls]
    C = getattr(bitstring, cls)
    codes = [format(code, f'0{nbits(n)}b') for n, s, code in items]
    dts = lambda: [mk_dtype(n, s) for n, s, code in items]
    uniform = all(x[0] == items[0][0] and x[1] == items[0][1] for x in items)
    def f():
        if r == 'parse': return [xcanon(d.parse(C(bin=b))) for d, b in zip(dts(), codes)]
        if r == 'parse_auto': return [xcanon(d.parse('0b' + b)) for d, b in zip(dts(), codes)]
        if r == 'get_fn': return [xcanon(d.get_fn(C(bin=b))) for d, b in zip(dts(), codes)]
        if r == 'array' and uniform: return [xcanon(v) for v in Array(dts()[0], C(bin=''.join(codes))).tolist()]
        if r in ('unpack', 'array'): return [xcanon(v) for v in C(bin=''.join(codes)).unpack(dts())]
        o = C(bin='1' * lead + ''.join(codes))
        if r == 'read_fn':
            out, p = [], lead
            for d, b in zip(dts(), codes):
                out.append(xcanon(d.read_fn(o, start=p))); p += len(b)
            return out
        o.pos = lead
        if r == 'read': return [xcanon(o.read(d)) for d in dts()] + [o.pos]
        if r == 'readlist': return [xcanon(v) for v in o.readlist(dts())] + [o.pos]
        if r == 'peeklist': return [xcanon(v) for v in o.peeklist(dts())] + [o.pos]
        if r == 'peek': return [xcanon(o.peek(dts()[0]))] + [o.pos]
        raise AssertionError(r)
    return attempt(f)

def run_impl(c):
    import bitstring
    from bitstring import Bits, BitArray, Dtype, pack
    if c['op'] == 'optset': return run_optset(c)
    bitstring.options.mxfp_overflow = c.get('mode', 'saturate')
    return _dispatch(c)

def _dispatch(c):
    """the call(s) of one case under the option values in force"""
    import bitstring
    from bitstring import Bits, BitArray, Dtype, pack
    op, name = c['op'], c.get('fmt')
    if op == 'encode_val': return run_encode_val(c)
    if op == 'packmix':
        fmt, pos, kw = packmix_call(c)
        return attempt(lambda: pack(fmt, *pos, **kw).bin)
    if op == 'array': return run_array(c)
    if op == 'scaled_read': return run_scaled_read(c)
    if op == 'decode':
        bits = FMT[name][0]
        b = Bits(uint=c['code'], length=bits)
        def f():
            if c['scale'] is None: return [xcanon(getattr(b, name)), xcanon(Dtype(name).parse(b)), xcanon(b.unpack(name)[0])]
            return [xcanon(Dtype(name, scale=c['scale']).parse(b))]
        return attempt(f)
    if op == 'redecode':
        bits = FMT[name][0]
        def f():
            v = getattr(Bits(uint=c['code'], length=bits), name)
            if v != v: return 'nan'
            return Bits(**{name: v}).uint
        return attempt(f)
    if op == 'encode_half':
        x = struct.unpack('>e', c['h'].to_bytes(2, 'big'))[0]
        return attempt(lambda: Bits(**{name: x}).uint)
    if op == 'encode_float':
        x = float.fromhex(c['f']) if c['f'] != 'nan' else float('nan')
        def f():
            r = c['route']
            if c['scale'] is not None: return Dtype(name, scale=c['scale']).build(x).uint
            if r == 'kw': return Bits(**{name: x}).uint
            if r == 'build': return Dtype(name).build(x).uint
            if r == 'token': return Bits(f'{name}={x!r}').uint
            if r == 'pack': return pack(name, x).uint
            if r == 'setattr':
                # the property setter on a mutable object, which is then edited in place: later encodings (any route, any value with this code) must not notice
                a = BitArray(); setattr(a, name, x); u = a.uint
                a.invert(); a.set(1, 0); a.append('0b1'); a.reverse()
                return u
        return attempt(f)
    if op == 'other':
        x = float.fromhex(c['f']) if c['f'] != 'nan' else float('nan')
        def f():
            if c.get('scale') is not None:
                s = Dtype(name, scale=c['scale']).build(x)          # a scaled dtype encodes value / scale
                return [s.bin, None]
            s = Bits(**{name: x})
            out = [s.bin, xcanon(getattr(s, name))]
            a = BitArray(); setattr(a, name, x); a.invert(); a.append('0b1')       # property assignment + in-place edit: must leave later encodings alone
            return out
        return attempt(f)
    if op == 'decode_other':
        n = 16 if name.startswith('bfloat') else 8
        return attempt(lambda: xcanon(getattr(Bits(uint=c['code'], length=n), name)))

def scale_x(x, s, mul):
    if isinstance(x, str): return x if x != '-0' or s > 0 else '0'
    v = Fraction(x) * Fraction(s) if mul else Fraction(x) / Fraction(s)
    return str(v)

ERRS = (('err', 'ValueError'), ('err', 'BsError'))       # CreationError is both a bitstring.Error and a ValueError

def expected_items(c):
    """encode_val: the (value, ...) sequence the route stores, as bits"""
    name, v, r, sc, mode = c['fmt'], val_of(c['val']), c['route'], c['scale'], c['mode']
    n = nbits(name)
    one = ref_bits(name, sc, v, mode)
    if r == 'pack_kw_twice': return one + one
    if r == 'pack_kw_after_pos': return ref_bits(name, None, 1.0, mode) + one
    if r in ('stream_add', 'append_token'): return '1' + one
    if r == 'array_setslice': return one + '0' * n
    return one

def canon_data(name, data):
    """bfloat: which of the NaN patterns (sign, payload) is stored is not specified - every NaN item is written as N...N"""
    if not isinstance(data, str) or not name.startswith('bfloat') or set(data) - {'0', '1'}: return data
    out = ''
    for i in range(0, len(data), 16):
        it = data[i:i + 16]
        out += 'N' * 16 if len(it) == 16 and dec_any(name, int(it, 2)) != dec_any(name, int(it, 2)) else it
    return out

import operator as _operator
def array_reference(c):
    """the expected snapshots of an Array program, up to and excluding the first step the reference refuses (returns snapshots, refused: bool)"""
    mode = c['mode']
    name, sc = c['fmt'], c['scale']
    def snapshot(name, sc, items, **extra):
        fv = ref_values(name, sc, ''.join(items))
        vals = [xcanon(v) for v in fv]
        extra['count0'] = 0 if not fv else (sum(1 for v in fv if v != v) if fv[0] != fv[0] else sum(1 for v in fv if v == fv[0]))      # count(first item): NaN counts the NaNs
        return dict({'data': ''.join(items), 'name': ALIAS.get(name, name), 'scale': None if sc is None else float(sc).hex(), 'list': vals, 'items': vals, 'iter': vals}, **extra)
    out = []
    try:
        items = [ref_bits(name, sc, val_of(x), mode) for x in c['init']]
        out.append(snapshot(name, sc, items))
        for st in c['steps']:
            k = st[0]; extra = {}
            if k == 'astype':
                new = [ref_bits(st[1], st[2], v, mode) for v in ref_values(name, sc, ''.join(items))]       # the VALUES are kept (up to the rounding of the target), not the codes
                extra['src'] = ''.join(items); extra['_srcname'] = name
                if st[4]: name, sc, items = st[1], st[2], new
                else:
                    out.append(snapshot(st[1], st[2], new, **extra)); continue
            elif k == 'setdtype':
                # the CODES are kept, read through the new dtype.  (Which NaN pattern a bfloat item holds is not specified, so its re-interpretation is not either: judged up to here.)
                if name.startswith('bfloat') and any(v != v for v in ref_values(name, None, ''.join(items))): return out, 'stop'
                name, sc = st[1], st[2]
            elif k == 'append': items.append(ref_bits(name, sc, val_of(st[1]), mode))
            elif k == 'insert': items.insert(st[1], ref_bits(name, sc, val_of(st[2]), mode))
            elif k == 'setitem': items[st[1]] = ref_bits(name, sc, val_of(st[2]), mode)
            elif k == 'extend': items.extend([ref_bits(name, sc, val_of(x), mode) for x in st[1]])
            elif k == 'setslice': items[st[1]:st[2]] = [ref_bits(name, sc, val_of(x), mode) for x in st[3]]
            elif k == 'op':
                fn = getattr(_operator, st[1][1:] if st[1].startswith('i') else st[1])
                vals = ref_values(name, sc, ''.join(items))
                if not st[1].startswith('i'): extra['src'] = ''.join(items); extra['_srcname'] = name
                res, bad = [], False
                for v in vals:
                    try: res.append(ref_bits(name, sc, fn(v) if st[1] in ('neg', 'abs') else fn(v, st[2]), mode))
                    except RefErr: bad = True
                if bad: raise RefErr()
                items = res
            elif k == 'opa':
                fn = getattr(_operator, st[1])
                other = ref_values(st[2], st[3], ''.join(ref_bits(st[2], st[3], val_of(x), mode) for x in st[4]))
                extra['src'] = ''.join(items); extra['_srcname'] = name
                res, bad = [], False
                for x, y in zip(ref_values(name, sc, ''.join(items)), other):
                    try: res.append(ref_bits(name, sc, fn(x, y), mode))
                    except RefErr: bad = True
                if bad: raise RefErr()
                items = res
            elif k == 'slice': items = items[st[1]:st[2]:st[3]]
            elif k == 'copy': items = list(items)
            elif k == 'pop':
                it = items.pop(st[1]); extra['ret'] = xcanon(ref_values(name, sc, it)[0])
            out.append(snapshot(name, sc, items, **extra))
    except RefErr:
        return out, True
    return out, False

def oracle_new(c, obs):
    op = c['op']
    if op == 'encode_val':
        what = f"{c['fmt']} of the {type(val_of(c['val'])).__name__} {val_of(c['val'])!r} via {c['route']} (key {c['key']!r}, scale {c['scale']}, {c['cls']}, {c['mode']}{', lsb0' if c.get('lsb0') and c['route'] in LSB0_OK else ''})"
        try: exp = expected_items(c)
        except RefErr: return None if tuple(obs) in ERRS else f"{what} must raise ValueError, got {obs}"
        if obs[0] == 'ok' and c['route'] not in ('stream_add', 'append_token'): obs = ('ok', canon_data(c['fmt'], obs[1])); exp = canon_data(c['fmt'], exp)
        return None if tuple(obs) == ('ok', exp) else f"{what} gave {obs}, the codes of the value(s) are {exp}"
    if op == 'packmix':
        fmt, pos, kw = packmix_call(c)
        what = f"pack({fmt!r}, *{pos!r}, **{kw!r}) under {c['mode']}"
        exp = ''
        try:
            for t in c['toks']:
                v = val_of(t['val'])
                if t['fmt'] in ALLF: exp += ref_bits(t['fmt'], None, v, c['mode'])
                elif t['fmt'] == 'uint:8': exp += format(int(v), '08b')
                elif t['fmt'] == 'int:5': exp += format(int(v) & 31, '05b')
                else: exp += '1' if v else '0'
        except RefErr: return None if tuple(obs) in ERRS else f"{what} must raise ValueError, got {obs}"
        return None if tuple(obs) == ('ok', exp) else f"{what} gave {obs}, the codes of the values in token order are {exp}"
    if op == 'array':
        if obs[0] != 'ok': return f"Array program {c} : {obs}"
        got, end = obs[1]['steps'], tuple(obs[1]['end'])
        exp, refused = array_reference(c)
        names = ['create'] + [str(st[:4] if st[0] in ('astype', 'setdtype') else st) for st in c['steps']]
        head = f"Array({c['fmt']}, scale={c['scale']}, {[val_of(x) for x in c['init']]}) under {c['mode']}"
        for i, (g, e) in enumerate(zip(got, exp)):
            g = dict(g, data=canon_data(e['name'], g.get('data'))); e = dict(e, data=canon_data(e['name'], e['data']))
            srcname = e.pop('_srcname', None)
            if srcname: g['src'] = canon_data(srcname, g.get('src')); e['src'] = canon_data(srcname, e['src'])
            if g != e:
                diff = {k: (g.get(k), e.get(k)) for k in e if g.get(k) != e.get(k)}
                return f"{head}, step {i} {names[i]}: (observed, expected from value / scale -> code -> value * scale) differ in {str(diff)[:700]}; whole program {names[1:]}"
        if refused == 'stop': return None
        if len(got) < len(exp): return f"{head}: step {len(got)} {names[len(got)]} of {names[1:]} stopped with {end}, expected {exp[len(got)]}"
        if refused:
            if len(got) > len(exp): return f"{head}: step {len(exp)} {names[len(exp)]} of {names[1:]} must raise ValueError (a value has no code in the format), but gave {got[len(exp)]}"
            return None if end in ERRS else f"{head}: step {len(exp)} {names[len(exp)]} must raise ValueError, got {end}"
        return None if end == ('ok', None) else f"{head}: after all steps: {end}"
    if op == 'scaled_read':
        exp = []
        for n, sc, code in c['items']:
            v = dec_any(n, code)
            exp.append(xcanon(v if sc is None else v * sc))
        total = sum(nbits(n) for n, _, _ in c['items'])
        if c['route'] in ('read', 'readlist'): exp.append(c['lead'] + total)
        if c['route'] == 'peeklist': exp.append(c['lead'])
        if c['route'] == 'peek': exp = [exp[0], c['lead']]
        return None if tuple(obs) == ('ok', exp) else f"codes {[(n, hex(code), 'scale', sc) for n, sc, code in c['items']]} read by {c['route']} ({c['cls']}, {c['lead']} bits before): {obs}, decoded value x scale gives {exp}"

def oracle(c, obs):
    if c['op'] == 'optset': return oracle_optset(c, obs)
    if c['op'] in ('encode_val', 'packmix', 'array', 'scaled_read'): return oracle_new(c, obs)
    op, name = c['op'], c['fmt']
    if op == 'decode':
        d = decode_ref(name, c['code'])
        top = 1 << (FMT[name][0] - 1)
        exp = str(d) if isinstance(d, Fraction) else d
        if exp == '0' and c['code'] == top and FMT[name][4] != 'p3109': exp = '-0'
        if c['scale'] is None:
            return None if obs == ('ok', [exp] * 3) else f"{name} code {c['code']:#x} decodes to {obs}, format definition gives {exp}"
        if isinstance(d, Fraction):
            e2 = str(d * Fraction(c['scale']))
            if e2 == '0' and exp == '-0': e2 = '-0'
            return None if obs == ('ok', [e2]) else f"{name} code {c['code']:#x} with scale {c['scale']} decodes to {obs}, expected {e2}"
        return None
    if op == 'redecode':
        d = decode_ref(name, c['code'])
        if d == 'nan': return None
        if obs[0] != 'ok': return f"re-encoding the value of {name} code {c['code']:#x} raised {obs}"
        if name == 'e5m2mxfp' and d in ('inf', '-inf') and c['mode'] == 'saturate': return None
        return None if obs[1] == c['code'] else f"{name} code {c['code']:#x} decodes to {d} which re-encodes to {obs[1]:#x} (mode {c['mode']})"
    if op == 'encode_half':
        x = half_to_x(c['h'])
        exp = encode_ref(name, x, c['mode'])
        got = obs[1] if obs[0] == 'ok' else obs[1]
        if exp == 'ValueError': return None if obs == ('err', 'ValueError') else f"{name} of NaN must raise ValueError, got {obs}"
        return None if obs == ('ok', exp) else f"{name} encoding of half {c['h']:#06x} (= {x}) under {c['mode']} is {obs}, round-to-nearest-even gives {exp:#x}"
    if op == 'encode_float':
        f = float.fromhex(c['f']) if c['f'] != 'nan' else float('nan')
        if c['scale'] is not None and f == f: f = f / c['scale']
        x = float_to_half_x(f)
        if x in ('big', '-big'): x = 'inf' if x == 'big' else '-inf'
        exp = encode_ref(name, x, c['mode'])
        if exp == 'ValueError': return None if obs == ('err', 'ValueError') else f"{name} of NaN must raise ValueError, got {obs}"
        return None if obs == ('ok', exp) else f"{name} encoding of {c['f']} (scale {c['scale']}, via {c['route']}, {c['mode']}) is {obs}, expected {exp:#x} (half value {x})"
    if op == 'other':
        f = float.fromhex(c['f']) if c['f'] != 'nan' else float('nan')
        if c.get('scale') is not None and f == f: f = f / c['scale']
        if name == 'mxint':
            if f != f: return None if obs == ('err', 'ValueError') else f"mxint of NaN must raise, got {obs}"
            if math.isinf(f): v = 127 if f > 0 else -128
            else:
                q = Fraction(f) * 64
                v = 127 if q > 127 else (-128 if q <= -128 else rne(q))
            expbits = format(v & 0xff, '08b')
            return None if obs[0] == 'ok' and obs[1][0] == expbits else f"mxint of {c['f']} gave {obs}, nearest-even of 64x is {v} ({expbits})"
        if name == 'e8m0mxfp':
            if f != f: return None if obs[0] == 'ok' and obs[1][0] == '11111111' else f"e8m0 of NaN gave {obs}"
            ok = f > 0 and not math.isinf(f) and math.frexp(f)[0] == 0.5 and -127 <= math.frexp(f)[1] - 1 <= 127
            if not ok: return None if obs == ('err', 'ValueError') else f"e8m0mxfp of {c['f']} must raise ValueError, got {obs}"
            e = math.frexp(f)[1] - 1
            return None if obs[0] == 'ok' and obs[1][0] == format(e + 127, '08b') else f"e8m0mxfp of 2**{e} gave {obs}"
        # bfloat: float32 (RNE, overflow to inf) truncated to its top 16 bits
        try: b = struct.pack('>f', f)
        except OverflowError: b = struct.pack('>f', math.copysign(float('inf'), f))
        top = b[:2]
        if name == 'bfloatle': top = top[::-1]
        expbits = ''.join(format(y, '08b') for y in top)
        if f != f: return None
        return None if obs[0] == 'ok' and obs[1][0] == expbits else f"{name} of {c['f']} gave {obs}, truncated float32 is {expbits}"
    if op == 'decode_other':
        code = c['code']
        if name == 'e8m0mxfp': exp = 'nan' if code == 255 else str(Fraction(2) ** (code - 127))
        elif name == 'mxint': exp = str(Fraction(code - 256 if code >= 128 else code, 64))
        else:
            by = code.to_bytes(2, 'big')
            if name == 'bfloatle': by = by   # the code is given as the bit pattern of the bitstring; le stores the two bytes swapped
            v = struct.unpack('>f', (by if name == 'bfloat' else by[::-1]) + b'\x00\x00')[0]
            exp = xcanon(v)
        return None if obs == ('ok', exp) else f"{name} code {code:#x} decodes to {obs}, expected {exp}"

def nontrivial(c, obs): return c['op'] in ('encode_half', 'encode_float', 'other', 'encode_val', 'packmix', 'array', 'optset')
def classify(c, obs): return None
def cpyfloat(f):
    if f != f: return 'PyNaN'
    if math.isinf(f): return f"(PyInf {cbool(f < 0)})"
    neg = math.copysign(1, f) < 0
    m, e = abs(f).as_integer_ratio() if f != 0 else (0, 1)
    # m / e with e a power of two
    return f"(PyFin {cbool(neg)} {m} {cz(-(e.bit_length() - 1))})"

CT = {'p4binary': ('enc_p4', 'clamp_p4'), 'p3binary': ('enc_p3', 'clamp_p3'), 'e3m2mxfp': ('enc_e3m2', 'clamp_e3m2'), 'e2m3mxfp': ('enc_e2m3', 'clamp_e2m3'), 'e2m1mxfp': ('enc_e2m1', 'clamp_e2m1')}
SINGLE_CODE_ROUTES = ['kw', 'kw_len', 'build', 'token', 'pack_pos', 'pack_kw', 'pack_kw_len', 'pack_list_kw', 'pack_kw_unused', 'setattr', 'array_init', 'array_append', 'array_setitem', 'array_insert', 'array_extend']
def coq_check(c, obs):
    if c['op'] in ('packmix', 'array', 'scaled_read', 'optset'): return None          # the Python oracle decides (the model has no Array / pack of several tokens here)
    if c['op'] == 'encode_val':
        # one value of a table format, unscaled: the model's float_to_int on float(value) gives the observed code
        if c['fmt'] not in FMT or c['scale'] is not None or obs[0] != 'ok' or c['route'] not in SINGLE_CODE_ROUTES or len(obs[1]) != nbits(c['fmt']) or set(obs[1]) - {'0', '1'}: return None
        try: f = float(val_of(c['val']))
        except Exception: return None
        name = c['fmt']
        if name in CT: t, cl = CT[name]
        else:
            suf = '_ovf' if c['mode'] == 'overflow' else '_sat'
            t, cl = 'enc_' + name[:4] + suf, 'clamp_' + name[:4] + suf
        return f"(float_to_int {t} {cl} {cpyfloat(f)} =? {int(obs[1], 2)})"
    if c['op'] == 'encode_float' and c['scale'] is None and obs[0] == 'ok':
        f = float.fromhex(c['f']) if c['f'] != 'nan' else float('nan')
        name = c['fmt']
        if name in CT: t, cl = CT[name]
        else:
            suf = '_ovf' if c['mode'] == 'overflow' else '_sat'
            t, cl = 'enc_' + name[:4] + suf, 'clamp_' + name[:4] + suf
        return f"(float_to_int {t} {cl} {cpyfloat(f)} =? {obs[1]})"
    if c['op'] == 'other' and c['fmt'] == 'mxint':
        f = float.fromhex(c['f']) if c['f'] != 'nan' else float('nan')
        if c.get('scale') is not None and f == f: f = f / c['scale']       # the float division the scaled dtype performs; the model encodes its result
        if obs[0] == 'ok':
            v = int(obs[1][0], 2); v = v - 256 if v >= 128 else v
            return f"opt_eqb Z.eqb (mxint_spec {cpyfloat(f)}) (Some {cz(v)})"
        return f"opt_eqb Z.eqb (mxint_spec {cpyfloat(f)}) None"
    if c['op'] == 'other' and c['fmt'] == 'e8m0mxfp':
        f = float.fromhex(c['f']) if c['f'] != 'nan' else float('nan')
        if c.get('scale') is not None and f == f: f = f / c['scale']
        exp = f"(Some {int(obs[1][0], 2)})" if obs[0] == 'ok' else 'None'
        return f"opt_eqb Z.eqb (e8m0_encode {cpyfloat(f)}) {exp}"
    return None
COQ_PRELUDE = 'From Gen Require Import GenLuts.'

def search(seeds, rng):
    for c in list(seeds) + list(gen_cases(rng, 'quick')):
        try: obs = run_impl(c)
        finally: reset_options()
        msg = oracle(c, obs)
        if msg: return c, obs, msg
    return None
