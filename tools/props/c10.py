"""C10 — exponential-Golomb codes: exact codewords, self-delimiting streams."""
from vlib import *

ID = 'C10'
COQ_PROPS = ['Props/C10.v']
COQ_IMPORTS = ['Prims', 'CaseLib', 'Golomb', 'GolombSpec']
ALLOWED_AXIOMS = ()
RULE = ('encode: every n with |n| <= W exhaustively for the four codes plus random n up to 2^200, through five creation routes; '
        'decode: every bit string up to a length bound as input at every position, plus random long strings; '
        'streams of mixed codes with random prefix/suffix; truncated codewords; codeword + trailing bits. '
        'non-trivial = the case exercises a loop iteration (n != 0 / at least one leading zero) ; distinct by (op, arguments)')
TRUSTED_BASE = ['hand model coq/Golomb.v of ue2bitstore/se2bitstore/uie2bitstore/sie2bitstore and Bits._readue/_readse/_readuie/_readsie, tied by vm_compute correspondence']
ASSUMPTIONS = ['bitarray slicing/indexing and int2ba behave as Prims.v models them (L0 corr.)',
               'msb0 mode (in lsb0 mode the codes are refused; checked by the oracle only)']
CODES = ['ue', 'se', 'uie', 'sie']
COQC = {'ue': 'UE', 'se': 'SE', 'uie': 'UIE', 'sie': 'SIE'}

# ---------------- independent reference, from the standards' tables ----------------
def ref_enc(code, n):
    if code == 'ue':
        if n < 0: return None
        b = bin(n + 1)[2:]
        return '0' * (len(b) - 1) + b
    if code == 'se':
        return ref_enc('ue', 2 * n - 1 if n > 0 else -2 * n)
    if code == 'uie':
        if n < 0: return None
        b = bin(n + 1)[3:]
        return ''.join('0' + d for d in b) + '1'
    if code == 'sie':
        if n == 0: return '1'
        return ref_enc('uie', abs(n)) + ('1' if n < 0 else '0')

def ref_dec(code, s):
    """Decode one codeword at the front of s: (n, length) or None when no codeword is a prefix."""
    if code in ('ue', 'se'):
        k = 0
        while k < len(s) and s[k] == '0': k += 1
        if k == len(s) or len(s) < 2 * k + 1: return None
        v = int(s[k:2 * k + 1], 2) - 1
        if code == 'se':
            v = (v + 1) // 2 if v % 2 else -(v // 2)
        return v, 2 * k + 1
    i, v = 0, 1
    while True:
        if i >= len(s): return None
        if s[i] == '1': break
        if i + 1 >= len(s): return None
        v = 2 * v + int(s[i + 1]); i += 2
    v -= 1; i += 1
    if code == 'sie' and v != 0:
        if i >= len(s): return None
        v = -v if s[i] == '1' else v; i += 1
    return v, i

# ---------------- cases ----------------
ROUTES = ['kw', 'token', 'pack', 'helper', 'build', 'setattr']

def gen_cases(rng, tier):
    W = 300 if tier == 'quick' else 5000
    for code in CODES:
        for n in range(-W, W + 1):
            yield {'op': 'enc', 'code': code, 'n': n, 'route': ROUTES[(n + W) % len(ROUTES)]}
        for _ in range(60 if tier == 'quick' else 1500):
            e = rng.randrange(1, 200)
            n = rng.randrange(1 << e) * rng.choice([1, -1])
            yield {'op': 'enc', 'code': code, 'n': n, 'route': rng.choice(ROUTES)}
        # every power-of-two boundary (the codeword grows there): 2^k - 2 .. 2^k + 1, both signs for the signed codes
        ks = list(range(1, 71)) + [100, 127, 128, 129, 199, 200] if tier == 'quick' else list(range(1, 260))
        for k in ks:
            for d in (-2, -1, 0, 1):
                n = (1 << k) + d
                if code in ('se', 'sie') and (k + d) % 2: n = -n
                yield {'op': 'enc', 'code': code, 'n': n, 'route': ROUTES[(k + d) % len(ROUTES)]}
        for n in [-1, -2, -(1 << 70)]:
            yield {'op': 'enc', 'code': code, 'n': n, 'route': 'kw', 'lsb0': False}
        yield {'op': 'enc', 'code': code, 'n': 5, 'route': 'kw', 'lsb0': True}
        yield {'op': 'read', 'code': code, 'bits': '0001000', 'pos': 0, 'lsb0': True, 'via': 'read'}
    for code in CODES:
        for _ in range(25 if tier == 'quick' else 400):
            n = rng.randrange(0, 300) * (rng.choice([1, -1]) if code in ('se', 'sie') else 1)
            yield {'op': 'setter_history', 'code': code, 'n': n, 'cls': rng.choice(['BitArray', 'BitStream'])}
    # decoder: all bit strings up to L at all positions
    L = 7 if tier == 'quick' else 12
    for l in range(0, L + 1):
        for v in range(1 << l):
            s = format(v, f'0{l}b') if l else ''
            for code in CODES:
                yield {'op': 'whole', 'code': code, 'bits': s}
                for pos in ([0] if l > 5 else range(0, l + 1)):
                    yield {'op': 'read', 'code': code, 'bits': s, 'pos': pos, 'via': rng.choice(['read', 'peek', 'internal', 'readlist'])}
    for _ in range(150 if tier == 'quick' else 4000):
        l = rng.choice([13, 16, 31, 64, 65, 200, 1000])
        s = ''.join(rng.choice('0001') for _ in range(l))
        code = rng.choice(CODES)
        yield {'op': 'read', 'code': code, 'bits': s, 'pos': rng.randrange(0, l + 1), 'via': rng.choice(['read', 'peek', 'internal', 'readlist']), 'opt_ba': rng.random() < 0.4}
    # truncated / trailing / streams
    for _ in range(150 if tier == 'quick' else 3000):
        code = rng.choice(CODES)
        n = rng.randrange(1 << rng.randrange(1, 40)) * rng.choice([1, -1])
        if code in ('ue', 'uie'): n = abs(n)
        w = ref_enc(code, n)
        cut = rng.randrange(0, len(w))
        pre = ''.join(rng.choice('01') for _ in range(rng.randrange(0, 9)))
        yield {'op': 'read', 'code': code, 'bits': pre + w[:cut], 'pos': len(pre), 'via': rng.choice(['read', 'peek', 'internal'])}
        yield {'op': 'whole', 'code': code, 'bits': w[:cut]}
        yield {'op': 'whole', 'code': code, 'bits': w + ''.join(rng.choice('01') for _ in range(rng.randrange(1, 5)))}
        yield {'op': 'whole', 'code': code, 'bits': w, 'opt_ba': rng.random() < 0.4}
    # incomplete codes whose remainder is LONG: codes followed by hundreds or thousands of zero bits (ue/se: an unterminated prefix; uie/sie: a run of
    # "continue" pairs that ends with the data), and very long codewords cut short - through every reading method, after some complete codes
    for _ in range(40 if tier == 'quick' else 800):
        code = rng.choice(CODES)
        done = [ref_enc(code, rng.randrange(0, 50)) for _ in range(rng.randrange(0, 3))]
        r = rng.random()
        if r < 0.6: tail = '0' * rng.choice([200, 511, 512, 513, 514, 600, 1024, 1025, 2000, 4097, 9000])
        else:
            w = ref_enc(code, (1 << rng.choice([130, 260, 300, 520, 1030])) + rng.randrange(1000))
            tail = w[:len(w) - rng.choice([1, 2, 3, 7, len(w) // 3])]
        if code in ('uie', 'sie') and r < 0.6: tail = tail[:len(tail) // 2 * 2]      # zero PAIRS keep an interleaved code going
        pre = ''.join(done)
        yield {'op': 'read', 'code': code, 'bits': pre + tail, 'pos': len(pre), 'via': rng.choice(['read', 'peek', 'internal', 'readlist'])}
        yield {'op': 'whole', 'code': code, 'bits': tail}
    # several complete codes followed by a truncated one, read as ONE list - the format spelled as a string, a list of strings or a list of Dtype objects:
    # ReadError, and the position where it was before the call (not after the codes that could be read)
    for _ in range(60 if tier == 'quick' else 1200):
        k = rng.randrange(1, 5)
        items = []
        for _ in range(k):
            code = rng.choice(CODES); n = rng.randrange(0, 300) * rng.choice([1, -1])
            if code in ('ue', 'uie'): n = abs(n)
            items.append([code, n])
        code = rng.choice(CODES); n = rng.randrange(3, 500) * (rng.choice([1, -1]) if code in ('se', 'sie') else 1)
        w = ref_enc(code, n)
        yield {'op': 'streamcut', 'items': items, 'last': code, 'tail': w[:len(w) - rng.choice([1, 1, 2, 3])], 'pre': ''.join(rng.choice('01') for _ in range(rng.choice([0, 0, 3, 8]))),
               'via': rng.choice(['readlist', 'peeklist', 'readlist']), 'spell': rng.choice(['string', 'strings', 'dtypes', 'dtypes', 'tuple_dtypes'])}
    for _ in range(100 if tier == 'quick' else 2500):
        k = rng.randrange(1, 9)
        items = []
        for _ in range(k):
            code = rng.choice(CODES)
            n = rng.randrange(1 << rng.randrange(1, 70)) * rng.choice([1, -1])
            if rng.random() < 0.2: n = rng.randrange(-3, 4)
            if code in ('ue', 'uie'): n = abs(n)
            items.append([code, n])
        pre = ''.join(rng.choice('01') for _ in range(rng.randrange(0, 12)))
        rest = ''.join(rng.choice('01') for _ in range(rng.randrange(0, 12)))
        yield {'op': 'stream', 'items': items, 'pre': pre, 'rest': rest, 'via': rng.choice(['readlist', 'reads', 'unpack']), 'opt_ba': rng.random() < 0.4}

def kind(c):
    return c['op'] + ':' + c.get('via', c.get('route', ''))

# ---------------- implementation ----------------
def run_impl(c):
    import bitstring
    from bitstring import Bits, BitArray, ConstBitStream, BitStream, pack, Dtype
    from bitstring import bitstore_helpers as bh
    bitstring.options.lsb0 = bool(c.get('lsb0'))
    bitstring.options.bytealigned = bool(c.get('opt_ba'))      # the codes do not depend on this option (reset by the driver)
    op = c['op']
    if op == 'enc':
        code, n, route = c['code'], c['n'], c['route']
        def f():
            if route == 'kw': return Bits(**{code: n}).bin
            if route == 'token': return Bits(f'{code}={n}').bin
            if route == 'pack': return pack(code, n).bin
            if route == 'helper': return getattr(bh, code + '2bitstore')(n)._bitarray.to01()
            if route == 'build': return Dtype(code).build(n).bin
            if route == 'setattr':
                a = BitArray('0b1'); setattr(a, code, n); return a.bin
        return attempt(f)
    if op == 'setter_history':
        # assign through the property, edit the object in place, then encode the same integer again through other routes
        code, n = c['code'], c['n']
        def f():
            x = (BitArray if c['cls'] == 'BitArray' else BitStream)()
            setattr(x, code, n)
            first = x.bin
            x.append('0b1'); x.invert(); x[0] = 1
            return [first, Bits(**{code: n}).bin, pack(code, n).bin, BitArray(**{code: n}).bin, Bits(f'{code}={n}').bin, getattr(bh, code + '2bitstore')(n)._bitarray.to01()]
        return attempt(f)
    if op == 'whole':
        return attempt(lambda: getattr(Bits(bin=c['bits']), c['code']))
    if op == 'read':
        code, via = c['code'], c['via']
        if via == 'internal':
            b = Bits(bin=c['bits'])
            return attempt(lambda: list(getattr(b, '_read' + code)(c['pos'])))
        s = ConstBitStream(bin=c['bits']); s.pos = c['pos']
        def f():
            if via == 'read': v = s.read(code)
            elif via == 'peek':
                v = s.peek(code); return [v, s.pos, 'peek']
            else: v, = s.readlist([code])
            return [v, s.pos]
        r = attempt(f)
        return r if r[0] == 'ok' else ('err', r[1], s.pos)
    if op == 'streamcut':
        whole = c['pre'] + ''.join(ref_enc(code, n) for code, n in c['items']) + c['tail']
        names = [code for code, _ in c['items']] + [c['last']]
        fmt = {'string': ', '.join(names), 'strings': names, 'dtypes': [Dtype(x) for x in names], 'tuple_dtypes': tuple(Dtype(x) for x in names)}[c['spell']]
        s = ConstBitStream(bin=whole); s.pos = len(c['pre'])
        r = attempt(lambda: (s.readlist if c['via'] == 'readlist' else s.peeklist)(fmt))
        return (r[0], r[1] if r[0] == 'err' else [int(x) for x in r[1]], s.pos)
    if op == 'stream':
        def f():
            parts = [Bits(bin=c['pre'])] + [Bits(**{code: n}) for code, n in c['items']] + [Bits(bin=c['rest'])]
            whole = Bits().join(parts)
            fmt = [code for code, _ in c['items']]
            if c['via'] == 'unpack':
                t = whole[len(c['pre']):]
                vals = t.unpack(', '.join(fmt) + ', bits')
                return [vals[:-1], len(c['pre']) + len(t) - len(vals[-1]), whole.bin]
            s = ConstBitStream(whole); s.pos = len(c['pre'])
            if c['via'] == 'readlist':
                vals = s.readlist(', '.join(fmt))
            else:
                vals = [s.read(x) for x in fmt]
            return [vals, s.pos, whole.bin]
        return attempt(f)
    raise AssertionError(op)

# ---------------- oracle (property text, independent of the model) ----------------
def oracle(c, obs):
    op = c['op']
    if c.get('lsb0'):
        if obs[0] == 'ok': return f'{op} succeeded in lsb0 mode: {obs}'
        return None
    if op == 'enc':
        ref = ref_enc(c['code'], c['n'])
        if ref is None:
            if obs[0] != 'err' or obs[1] != 'ValueError': return f"encoding {c['n']} as {c['code']} should raise CreationError, got {obs}"
        elif obs != ('ok', ref):
            return f"{c['code']}({c['n']}) via {c['route']} gave {obs}, table says {ref}"
        return None
    if op == 'setter_history':
        ref = ref_enc(c['code'], c['n'])
        if obs[0] != 'ok': return f"{c['cls']}().{c['code']} = {c['n']}, edit, encode again: raised {obs}"
        if any(x != ref for x in obs[1]):
            return f"after x.{c['code']} = {c['n']} and in-place edits of x, the encodings of {c['n']} are {obs[1]} (property value first); the table says {ref!r} for all of them"
        return None
    if op == 'whole':
        d = ref_dec(c['code'], c['bits'])
        if d is not None and d[1] == len(c['bits']):
            if obs != ('ok', d[0]): return f"Bits(bin={c['bits']!r}).{c['code']} gave {obs}, expected {d[0]}"
        elif obs[0] != 'err' or obs[1] != 'ValueError':
            return f"Bits(bin={c['bits']!r}).{c['code']} should raise InterpretError (not a single codeword), got {obs}"
        return None
    if op == 'read':
        d = ref_dec(c['code'], c['bits'][c['pos']:])
        if c['via'] == 'internal':
            exp = ('ok', [d[0], c['pos'] + d[1]]) if d else ('err', 'ReadError')
            if obs != exp: return f"_read{c['code']}({c['pos']}) on {c['bits']!r} gave {obs}, expected {exp}"
            return None
        if d:
            newpos = c['pos'] if c['via'] == 'peek' else c['pos'] + d[1]
            if obs[0] != 'ok' or obs[1][0] != d[0] or obs[1][1] != newpos:
                return f"{c['via']}('{c['code']}') at {c['pos']} of {c['bits']!r} gave {obs}, expected value {d[0]} pos {newpos}"
        else:
            if obs[0] != 'err' or obs[1] != 'ReadError' or obs[2] != c['pos']:
                return f"{c['via']}('{c['code']}') at {c['pos']} of {c['bits']!r}: truncated code must raise ReadError with pos unchanged, got {obs}"
        return None
    if op == 'streamcut':
        if obs[0] != 'err' or obs[1] != 'ReadError' or obs[2] != len(c['pre']):
            return (f"{c['via']} of {len(c['items'])} complete codes and a truncated '{c['last']}' (format given as {c['spell']}) from pos {len(c['pre'])}: "
                    f"must raise ReadError with the position unchanged, got {obs[:2]} and pos {obs[2]}")
        return None
    if op == 'stream':
        bits = c['pre'] + ''.join(ref_enc(code, n) for code, n in c['items']) + c['rest']
        exp = [[n for _, n in c['items']], len(bits) - len(c['rest']), bits]
        if obs != ('ok', exp): return f"stream {c['items']} via {c['via']} gave {obs}, expected {exp}"
        return None

def nontrivial(c, obs):
    if c['op'] in ('enc', 'setter_history'): return c['n'] != 0
    if c['op'] == 'stream': return len(c['items']) > 1
    return '0' in c['bits'] and '1' in c['bits']

def classify(c, obs):
    return None

# ---------------- correspondence with the Coq model ----------------
def coq_check(c, obs):
    if c.get('lsb0'): return None
    op = c['op']
    if op == 'setter_history':
        return f"rbits_eqb (g_enc {COQC[c['code']]} {cz(c['n'])}) (Ok {cbits(obs[1][0])})" if obs[0] == 'ok' else None
    if op == 'enc':
        if c['route'] in ('token',) and obs[0] == 'err': return None  # token strings: parse errors are C05's
        return f"rbits_eqb (g_enc {COQC[c['code']]} {cz(c['n'])}) {cres(obs, cbits)}"
    if op == 'whole':
        return f"rz_eqb (get_whole (g_read {COQC[c['code']]}) {cbits(c['bits'])}) {cres(obs, cz)}"
    if op == 'read':
        code = COQC[c['code']]
        if c['via'] == 'internal':
            return f"rzz_eqb (g_read {code} {cbits(c['bits'])} {cz(c['pos'])}) {cres(obs, lambda v: cpair(cz(v[0]), cz(v[1])))}"
        if obs[0] == 'ok':
            v, p = obs[1][0], obs[1][1]
            if c['via'] == 'peek':
                return f"match read_fn_var (g_read {code}) {cbits(c['bits'])} {cz(c['pos'])} with Ok (v, _) => (v =? {cz(v)}) && ({cz(p)} =? {cz(c['pos'])}) | _ => false end"
            return f"rzz_eqb (read_fn_var (g_read {code}) {cbits(c['bits'])} {cz(c['pos'])}) (Ok ({cz(v)}, {cz(p)}))"
        return f"rzz_eqb (read_fn_var (g_read {code}) {cbits(c['bits'])} {cz(c['pos'])}) (Err {obs[1] if obs[1] in COQ_EXNS else 'AssertionError'})"
    if op == 'stream':
        if obs[0] != 'ok': return 'false'
        vals, pos, bits = obs[1]
        items = clist(c['items'], lambda it: f"({COQC[it[0]]}, {cz(it[1])})")
        return (f"res_eqb (pair_eqb zlist_eqb Z.eqb) (read_stream {cbits(bits)} {cz(len(c['pre']))} (map fst {items})) "
                f"(Ok ({clist(vals, cz)}, {cz(pos)})) && bits_eqb {cbits(bits)} ({cbits(c['pre'])} ++ stream_bits {items} ++ {cbits(c['rest'])})")

def coq_model_term(c):
    op = c['op']
    if op == 'enc': return f"g_enc {COQC[c['code']]} {cz(c['n'])}"
    if op == 'whole': return f"get_whole (g_read {COQC[c['code']]}) {cbits(c['bits'])}"
    if op == 'read': return f"read_fn_var (g_read {COQC[c['code']]}) {cbits(c['bits'])} {cz(c['pos'])}"
    return 'tt'

def search(seeds, rng):
    """Look for a concrete input on which the property itself fails (used when a proof/tie breaks)."""
    pool = list(seeds)
    pool += list(gen_cases(rng, 'thorough' if not seeds else 'quick'))[:60000]
    for c in pool:
        try:
            obs = run_impl(c)
        finally:
            reset_options()
        msg = oracle(c, obs)
        if msg: return c, obs, msg
    return None
