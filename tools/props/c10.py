"""C10 — exponential-Golomb codes: exact codewords, self-delimiting streams."""
from vlib import *

ID = 'C10'
COQ_PROPS = ['Props/C10.v']
COQ_IMPORTS = ['Prims', 'CaseLib', 'Golomb', 'GolombSpec']
ALLOWED_AXIOMS = ()
RULE = ('encode: every n with |n| <= W exhaustively for the four codes plus random n up to 2^200, through five creation routes; '
        'decode: every bit string up to a length bound as input at every position, plus random long strings; '
        'streams of mixed codes with random prefix/suffix; truncated codewords; codeword + trailing bits; '
        'keywords: values (0, False, True included) and lengths given as keywords of pack under names that are pieces of the code names, records of codes and fixed-width fields '
        'packed (positional / literal / keyword values, digit / keyword lengths, zero lengths) and read back, streams read by unpack / readlist / peeklist / token by token with used, unused and zero-valued keywords. '
        'integers written as text (sign, leading zeros, underscores, whitespace - what int() accepts) through token strings on the four classes and their operators, pack positional / embedded / keyword / list, '
        'keyword construction, property assignment, Dtype.build; sequences of mixed codes written as text built and read back. '
        'non-trivial = the case exercises a loop iteration (n != 0 / at least one leading zero) ; distinct by (op, arguments)')
TRUSTED_BASE = ['hand model coq/Golomb.v of ue2bitstore/se2bitstore/uie2bitstore/sie2bitstore and Bits._readue/_readse/_readuie/_readsie, tied by vm_compute correspondence']
ASSUMPTIONS = ['bitarray slicing/indexing and int2ba behave as Prims.v models them (L0 corr.)',
               'msb0 mode (in lsb0 mode the codes are refused; checked by the oracle only)']
CODES = ['ue', 'se', 'uie', 'sie']
COQC = {'ue': 'UE', 'se': 'SE', 'uie': 'UIE', 'sie': 'SIE'}

# ---------------- independent reference, from the standards' tables ----------------
def ref_enc(code, n):
    if code == 'ue':
        if n < 0: return None
        b = bin(n + 1)[2:]
        return '0' * (len(b) - 1) + b
    if code == 'se':
        return ref_enc('ue', 2 * n - 1 if n > 0 else -2 * n)
    if code == 'uie':
        if n < 0: return None
        b = bin(n + 1)[3:]
        return ''.join('0' + d for d in b) + '1'
    if code == 'sie':
        if n == 0: return '1'
        return ref_enc('uie', abs(n)) + ('1' if n < 0 else '0')

def ref_dec(code, s):
    """Decode one codeword at the front of s: (n, length) or None when no codeword is a prefix."""
    if code in ('ue', 'se'):
        k = 0
        while k < len(s) and s[k] == '0': k += 1
        if k == len(s) or len(s) < 2 * k + 1: return None
        v = int(s[k:2 * k + 1], 2) - 1
        if code == 'se':
            v = (v + 1) // 2 if v % 2 else -(v // 2)
        return v, 2 * k + 1
    i, v = 0, 1
    while True:
        if i >= len(s): return None
        if s[i] == '1': break
        if i + 1 >= len(s): return None
        v = 2 * v + int(s[i + 1]); i += 2
    v -= 1; i += 1
    if code == 'sie' and v != 0:
        if i >= len(s): return None
        v = -v if s[i] == '1' else v; i += 1
    return v, i

# ---------------- cases ----------------
ROUTES = ['kw', 'token', 'pack', 'helper', 'build', 'setattr']

def gen_cases(rng, tier):
    W = 300 if tier == 'quick' else 5000
    for code in CODES:
        for n in range(-W, W + 1):
            yield {'op': 'enc', 'code': code, 'n': n, 'route': ROUTES[(n + W) % len(ROUTES)]}
        for _ in range(60 if tier == 'quick' else 1500):
            e = rng.randrange(1, 200)
            n = rng.randrange(1 << e) * rng.choice([1, -1])
            yield {'op': 'enc', 'code': code, 'n': n, 'route': rng.choice(ROUTES)}
        # every power-of-two boundary (the codeword grows there): 2^k - 2 .. 2^k + 1, both signs for the signed codes
        ks = list(range(1, 71)) + [100, 127, 128, 129, 199, 200] if tier == 'quick' else list(range(1, 260))
        for k in ks:
            for d in (-2, -1, 0, 1):
                n = (1 << k) + d
                if code in ('se', 'sie') and (k + d) % 2: n = -n
                yield {'op': 'enc', 'code': code, 'n': n, 'route': ROUTES[(k + d) % len(ROUTES)]}
        for n in [-1, -2, -(1 << 70)]:
            yield {'op': 'enc', 'code': code, 'n': n, 'route': 'kw', 'lsb0': False}
        yield {'op': 'enc', 'code': code, 'n': 5, 'route': 'kw', 'lsb0': True}
        yield {'op': 'read', 'code': code, 'bits': '0001000', 'pos': 0, 'lsb0': True, 'via': 'read'}
    for code in CODES:
        for _ in range(25 if tier == 'quick' else 400):
            n = rng.randrange(0, 300) * (rng.choice([1, -1]) if code in ('se', 'sie') else 1)
            yield {'op': 'setter_history', 'code': code, 'n': n, 'cls': rng.choice(['BitArray', 'BitStream'])}
    # decoder: all bit strings up to L at all positions
    L = 7 if tier == 'quick' else 12
    for l in range(0, L + 1):
        for v in range(1 << l):
            s = format(v, f'0{l}b') if l else ''
            for code in CODES:
                yield {'op': 'whole', 'code': code, 'bits': s}
                for pos in ([0] if l > 5 else range(0, l + 1)):
                    yield {'op': 'read', 'code': code, 'bits': s, 'pos': pos, 'via': rng.choice(['read', 'peek', 'internal', 'readlist'])}
    for _ in range(150 if tier == 'quick' else 4000):
        l = rng.choice([13, 16, 31, 64, 65, 200, 1000])
        s = ''.join(rng.choice('0001') for _ in range(l))
        code = rng.choice(CODES)
        yield {'op': 'read', 'code': code, 'bits': s, 'pos': rng.randrange(0, l + 1), 'via': rng.choice(['read', 'peek', 'internal', 'readlist']), 'opt_ba': rng.random() < 0.4}
    # truncated / trailing / streams
    for _ in range(150 if tier == 'quick' else 3000):
        code = rng.choice(CODES)
        n = rng.randrange(1 << rng.randrange(1, 40)) * rng.choice([1, -1])
        if code in ('ue', 'uie'): n = abs(n)
        w = ref_enc(code, n)
        cut = rng.randrange(0, len(w))
        pre = ''.join(rng.choice('01') for _ in range(rng.randrange(0, 9)))
        yield {'op': 'read', 'code': code, 'bits': pre + w[:cut], 'pos': len(pre), 'via': rng.choice(['read', 'peek', 'internal'])}
        yield {'op': 'whole', 'code': code, 'bits': w[:cut]}
        yield {'op': 'whole', 'code': code, 'bits': w + ''.join(rng.choice('01') for _ in range(rng.randrange(1, 5)))}
        yield {'op': 'whole', 'code': code, 'bits': w, 'opt_ba': rng.random() < 0.4}
    # incomplete codes whose remainder is LONG: codes followed by hundreds or thousands of zero bits (ue/se: an unterminated prefix; uie/sie: a run of
    # "continue" pairs that ends with the data), and very long codewords cut short - through every reading method, after some complete codes
    for _ in range(40 if tier == 'quick' else 800):
        code = rng.choice(CODES)
        done = [ref_enc(code, rng.randrange(0, 50)) for _ in range(rng.randrange(0, 3))]
        r = rng.random()
        if r < 0.6: tail = '0' * rng.choice([200, 511, 512, 513, 514, 600, 1024, 1025, 2000, 4097, 9000])
        else:
            w = ref_enc(code, (1 << rng.choice([130, 260, 300, 520, 1030])) + rng.randrange(1000))
            tail = w[:len(w) - rng.choice([1, 2, 3, 7, len(w) // 3])]
        if code in ('uie', 'sie') and r < 0.6: tail = tail[:len(tail) // 2 * 2]      # zero PAIRS keep an interleaved code going
        pre = ''.join(done)
        yield {'op': 'read', 'code': code, 'bits': pre + tail, 'pos': len(pre), 'via': rng.choice(['read', 'peek', 'internal', 'readlist'])}
        yield {'op': 'whole', 'code': code, 'bits': tail}
    # several complete codes followed by a truncated one, read as ONE list - the format spelled as a string, a list of strings or a list of Dtype objects:
    # ReadError, and the position where it was before the call (not after the codes that could be read)
    for _ in range(60 if tier == 'quick' else 1200):
        k = rng.randrange(1, 5)
        items = []
        for _ in range(k):
            code = rng.choice(CODES); n = rng.randrange(0, 300) * rng.choice([1, -1])
            if code in ('ue', 'uie'): n = abs(n)
            items.append([code, n])
        code = rng.choice(CODES); n = rng.randrange(3, 500) * (rng.choice([1, -1]) if code in ('se', 'sie') else 1)
        w = ref_enc(code, n)
        yield {'op': 'streamcut', 'items': items, 'last': code, 'tail': w[:len(w) - rng.choice([1, 1, 2, 3])], 'pre': ''.join(rng.choice('01') for _ in range(rng.choice([0, 0, 3, 8]))),
               'via': rng.choice(['readlist', 'peeklist', 'readlist']), 'spell': rng.choice(['string', 'strings', 'dtypes', 'dtypes', 'tuple_dtypes'])}
    for _ in range(100 if tier == 'quick' else 2500):
        k = rng.randrange(1, 9)
        items = []
        for _ in range(k):
            code = rng.choice(CODES)
            n = rng.randrange(1 << rng.randrange(1, 70)) * rng.choice([1, -1])
            if rng.random() < 0.2: n = rng.randrange(-3, 4)
            if code in ('ue', 'uie'): n = abs(n)
            items.append([code, n])
        pre = ''.join(rng.choice('01') for _ in range(rng.randrange(0, 12)))
        rest = ''.join(rng.choice('01') for _ in range(rng.randrange(0, 12)))
        yield {'op': 'stream', 'items': items, 'pre': pre, 'rest': rest, 'via': rng.choice(['readlist', 'reads', 'unpack']), 'opt_ba': rng.random() < 0.4}
    yield from gen_kw(rng, tier)
    yield from gen_text(rng, tier)


# ---------------- keyword arguments of pack / unpack / readlist / peeklist ----------------
# Keywords only stand for the lengths and values that the format names; a keyword that happens to be called like a piece of a code name (the tail 'e' of
# 'ue', 'ie' of 'uie', the head 'u', ...) or that holds 0 / False / '' / an empty bitstring changes nothing about what 'ue', 'se', 'uie', 'sie' mean.
KW_PIECES = ['e', 'ie', 'u', 's', 'i', 'ui', 'si']                       # heads, tails and middles of the four code names
# (no name is itself a possible token such as 'i8' or 'ue': a token that IS a keyword stands for that keyword's value in pack)
KW_NAMES = KW_PIECES + ['n', 'w', 'k', 'len', 'b', 'h', 'f', 'ue_', 'see', 'e1', 'i_8', 'u_2', 'uies', 'x_ue', 'E', 'Ie']
KW_LENGTHS = [0, 0, 1, 2, 3, 4, 5, 7, 8, 8, 12, 16]

def field_value(kind, fb):
    """what reading the bits fb as `kind` must return (JSON form)"""
    if kind in ('uint', 'u'): return int(fb, 2)
    if kind in ('int', 'i'): return int(fb, 2) - ((1 << len(fb)) if fb[0] == '1' else 0)
    if kind == 'bin': return fb
    if kind == 'hex': return format(int(fb, 2), f'0{len(fb) // 4}x') if fb else ''
    if kind == 'bits': return {'bits': fb}
    if kind == 'bool': return {'bool': fb == '1'}
    if kind == 'pad': return None
    raise AssertionError(kind)

def item_bits(it, packed=False):
    kind, lenspec, val = it[0], it[1], it[2]
    if kind in CODES: return ref_enc(kind, val)
    return '0' * len(val) if (packed and kind == 'pad') else val

def item_token(it, rng_bit=0):
    kind, lenspec = it[0], it[1]
    if kind in CODES or kind == 'bool': return kind
    if isinstance(lenspec, int): return f'{kind}:{lenspec}' if rng_bit else f'{kind}{lenspec}'
    return f'{kind}:{lenspec}'

def spell_format(tokens, spell):
    if spell == 'strings': return list(tokens)
    if spell == 'chunks':
        out, i = [], 0
        while i < len(tokens):
            m = 1 + (i * 7 + len(tokens)) % 3
            out.append(', '.join(tokens[i:i + m])); i += m
        return out
    if spell == 'factor':
        out = []
        for t in tokens:
            if out and out[-1][1] == t: out[-1][0] += 1
            else: out.append([1, t])
        return ', '.join(t if m == 1 else f'{m}*{t}' for m, t in out) if any(m > 1 for m, _ in out) else '1*(' + ', '.join(tokens) + ')'
    if spell == 'spaces': return '  ,'.join(' ' + t + ' ' for t in tokens)
    return ', '.join(tokens)

def rand_code_value(rng, code):
    r = rng.random()
    if r < 0.3: n = 0
    elif r < 0.5: n = rng.choice([1, -1, 2, -2, 3])
    elif r < 0.9: n = rng.randrange(0, 300) * rng.choice([1, -1])
    else: n = rng.randrange(1 << rng.randrange(1, 70)) * rng.choice([1, -1])
    return abs(n) if code in ('ue', 'uie') else n

def rand_kw(rng):
    names = rng.sample(KW_NAMES, rng.randrange(0, 4))
    if rng.random() < 0.8: names = sorted(set(names + rng.sample(KW_PIECES, rng.randrange(1, 4))))
    return {nm: rng.choice(KW_LENGTHS) for nm in names}

def rand_items(rng, kw, k, p_code=0.7):
    """k items: codes (with a value) and fixed-width fields whose length is a keyword of kw or written out in digits"""
    items = []
    for j in range(k):
        if rng.random() < p_code or (j == k - 1 and not any(it[0] in CODES for it in items)):
            code = rng.choice(CODES)
            if items and items[-1][0] in CODES and rng.random() < 0.25: code = items[-1][0]
            items.append([code, None, rand_code_value(rng, code)])
            continue
        if kw and rng.random() < 0.75:
            lenspec = rng.choice(sorted(kw)); L = kw[lenspec]
        else:
            lenspec = L = rng.choice([1, 2, 3, 4, 5, 8, 12, 13])
        kinds = ['bin', 'bits', 'pad'] + (['uint', 'int', 'uint', 'int'] if L >= 1 else []) + (['hex'] if L % 4 == 0 else []) + (['u', 'i'] if isinstance(lenspec, int) else [])
        kind = rng.choice(kinds)
        if rng.random() < 0.15: kind, lenspec, L = 'bool', None, 1
        items.append([kind, lenspec, ''.join(rng.choice('01') for _ in range(L))])
    return items

def gen_kw(rng, tier):
    q = tier == 'quick'
    # (a) encoding one value whose VALUE comes from a keyword (any name, pieces of the code names included), beside unrelated keywords; 0 and the bools through every route
    for code in CODES:
        specials = [0, 1, 2, False, True, 7, -1, -2] + [rand_code_value(rng, code) for _ in range(4 if q else 60)]
        for n in specials:
            for route in ROUTES:
                if isinstance(n, bool) and route == 'token': continue
                if n in (0, 1, -1): yield {'op': 'enc', 'code': code, 'n': n, 'route': route}
            for nm in rng.sample(KW_PIECES, 3) + rng.sample(KW_NAMES, 2 if q else 6):
                extra = {x: rng.choice([0, 0, 3, 8]) for x in rng.sample(KW_NAMES, rng.randrange(0, 3)) if x != nm}
                yield {'op': 'enc', 'code': code, 'n': n, 'route': rng.choice(['pack_kw', 'pack_kw', 'pack_kw_list', 'pack_kw_twice']), 'kwname': nm, 'extra': extra}
            yield {'op': 'enc', 'code': code, 'n': n, 'route': 'pack_pos_extra', 'kwname': None, 'extra': {x: rng.choice([0, 0, 5]) for x in rng.sample(KW_NAMES, rng.randrange(1, 4))}}
    # (b) reading a stream of codes (and fixed-width fields) with keywords present: used ones (lengths), unused ones, zero-valued ones
    for _ in range(260 if q else 6000):
        kw = rand_kw(rng)
        items = rand_items(rng, kw, rng.randrange(1, 7), rng.choice([1.0, 0.75, 0.75, 0.5]))
        via = rng.choice(['unpack', 'unpack', 'readlist', 'readlist', 'peeklist', 'readlist_each'])
        yield {'op': 'kwread', 'items': items, 'kw': kw, 'via': via, 'spell': rng.choice(['string', 'string', 'strings', 'chunks', 'factor', 'spaces']),
               'cls': rng.choice(['Bits', 'BitArray', 'ConstBitStream', 'BitStream'] if via == 'unpack' else ['ConstBitStream', 'BitStream']),
               'pre': ''.join(rng.choice('01') for _ in range(rng.choice([0, 0, 0, 3, 8, 11]))) if via != 'unpack' else '',
               'rest': ''.join(rng.choice('01') for _ in range(rng.choice([0, 0, 1, 5, 9]))), 'colon': rng.randrange(2)}
    # (c) packing a record: every value positional, written in the format, or a keyword; every length in digits or a keyword; then read back
    for _ in range(220 if q else 5000):
        kw = rand_kw(rng)
        items = rand_items(rng, kw, rng.randrange(1, 7), rng.choice([1.0, 0.8, 0.6]))
        free = [x for x in KW_NAMES if x not in kw]; rng.shuffle(free)
        vals = {}
        bad = False
        for it in items:
            kind = it[0]
            if kind == 'pad': it += [None, None]; continue
            how = rng.choice(['kw', 'kw', 'kw', 'pos', 'lit'])
            if how == 'lit' and (kind in ('bits', 'bool') or (kind in ('bin', 'hex') and not it[2])): how = 'kw'
            if how == 'lit' and kind == 'hex' and field_value('hex', it[2]) in KW_NAMES: how = 'pos'      # 'hex:8=e1' beside a keyword e1 means that keyword's value
            if kind in ('ue', 'uie') and how != 'lit' and rng.random() < 0.04: it[2] = -1 - it[2]; bad = True       # a negative value for an unsigned code: refused
            if kind in CODES and how != 'lit' and it[2] in (0, 1) and rng.random() < 0.3: it[2] = bool(it[2])
            nm = None
            if how == 'kw':
                same = [x for x, v in vals.items() if v == [kind, it[2]]]
                if same and rng.random() < 0.5: nm = same[0]                # the same keyword feeds two tokens
                elif free: nm = free.pop(); vals[nm] = [kind, it[2]]
                else: how = 'pos'
            it += [how, nm]
        yield {'op': 'kwpack', 'items': items, 'kw': kw, 'vals': vals, 'spell': rng.choice(['string', 'string', 'strings', 'chunks', 'factor', 'spaces']), 'colon': rng.randrange(2), 'bad': bad}

# ---------------- integers written as text ----------------
# Every place that takes the integer for one of the four codes also takes it as text - in a token string ('ue=7'), as the str handed to pack / a keyword / a
# property - and what the text stands for is what plain Python's int() says: an optional sign, any number of leading zeros, single underscores between
# digits, whitespace around it (anywhere at all inside a token string, from which whitespace is removed).  Whatever the spelling, the codeword is the table's
# codeword for that integer; a negative integer for an unsigned code is refused however it is written.
TEXT_CLASSES = ['Bits', 'BitArray', 'ConstBitStream', 'BitStream']

def spell_int(rng, n, signed, style=None):
    """one ASCII spelling of n that int() accepts (no surrounding whitespace); style 'pad' forces at least one leading zero, 'plain' is str(n)"""
    if style == 'plain': return str(n)
    sign = '-' if n < 0 else rng.choice(['', '', '+'])
    if n == 0 and signed and rng.random() < 0.2: sign = '-'
    d = str(abs(n))
    r = rng.random()
    if style == 'pad' or r < 0.55:
        d = rng.choice(['0', '0', '00', '000', '0' * rng.randrange(4, 13), '0' * max(1, 8 - len(d))]) + d
    if rng.random() < 0.15 and len(d) > 1:              # single underscores between digits
        k = rng.randrange(1, len(d)); d = d[:k] + '_' + d[k:]
        if rng.random() < 0.3 and len(d) - k > 2: d = d[:k + 2] + '_' + d[k + 2:]
    s = sign + d
    assert int(s) == n, (s, n)
    return s

def deco(rng, s):
    """whitespace around a number (int() strips it; a token string drops it)"""
    return rng.choice(['', '', '', ' ', '  ', '\t', '\n']) + s + rng.choice(['', '', '', ' ', '  ', '\t', '\n'])

def gen_text(rng, tier):
    q = tier == 'quick'
    for code in CODES:
        signed = code in ('se', 'sie')
        ns = list(range(0, 41 if q else 400))
        ns += [99, 100, 255, 256, 999, 1000, 4095, 65535, 10 ** 6]
        ns += [(1 << k) + d for k in ([7, 8, 31, 32, 33, 52, 53, 63, 64, 65, 100, 200] if q else range(2, 210)) for d in (-1, 0, 1)]
        ns += [rng.randrange(1 << rng.randrange(1, 200)) for _ in range(20 if q else 600)]
        if signed: ns = ns + [-v for v in ns if v]
        for j, n in enumerate(ns):
            for style in (['pad', None] if abs(n) < 41 or j % 3 == 0 else [rng.choice(['pad', None, 'plain'])]):
                t = spell_int(rng, n, signed, style)
                yield {'op': 'enctext', 'code': code, 'n': n, 'txt': deco(rng, t), 'eqsp': [rng.choice(['', '', ' ', '  ']) for _ in range(2)]}
        if not signed:          # refused, however the negative number is written
            for n in [-1, -2, -7, -10, -255, -(1 << 64)] + [-rng.randrange(1, 1 << rng.randrange(1, 80)) for _ in range(6 if q else 100)]:
                yield {'op': 'enctext', 'code': code, 'n': n, 'txt': deco(rng, spell_int(rng, n, True, rng.choice(['pad', None, 'plain']))), 'eqsp': ['', '']}
    # sequences of mixed codes, every value written as text: one token string / pack with positional text / pack with keyword text, then read back code by code
    for _ in range(120 if q else 3000):
        items = []
        for _ in range(rng.randrange(1, 8)):
            code = rng.choice(CODES)
            n = rand_code_value(rng, code)
            items.append([code, n, deco(rng, spell_int(rng, n, code in ('se', 'sie'), rng.choice(['pad', 'pad', None, 'plain'])))])
        yield {'op': 'streamtext', 'items': items, 'cls': rng.choice(TEXT_CLASSES), 'sep': rng.choice([',', ', ', ' , ', ',  ']),
               'via': rng.choice(['readlist', 'reads', 'unpack', 'peeklist'])}

def kind(c):
    return c['op'] + ':' + c.get('via', c.get('route', ''))

# ---------------- implementation ----------------
def run_impl(c):
    import bitstring
    from bitstring import Bits, BitArray, ConstBitStream, BitStream, pack, Dtype
    from bitstring import bitstore_helpers as bh
    bitstring.options.lsb0 = bool(c.get('lsb0'))
    bitstring.options.bytealigned = bool(c.get('opt_ba'))      # the codes do not depend on this option (reset by the driver)
    op = c['op']
    if op == 'enc':
        code, n, route = c['code'], c['n'], c['route']
        def f():
            if route == 'kw': return Bits(**{code: n}).bin
            if route == 'token': return Bits(f'{code}={n}').bin
            if route == 'pack': return pack(code, n).bin
            if route == 'helper': return getattr(bh, code + '2bitstore')(n)._bitarray.to01()
            if route == 'build': return Dtype(code).build(n).bin
            if route == 'setattr':
                a = BitArray('0b1'); setattr(a, code, n); return a.bin
            # the value through a keyword of pack (beside unrelated keywords), or positionally with unrelated keywords present
            nm, extra = c.get('kwname'), c.get('extra') or {}
            if route == 'pack_kw': return pack(f'{code}={nm}', **dict(extra, **{nm: n})).bin
            if route == 'pack_kw_list': return pack([f'{code}={nm}'], **dict(extra, **{nm: n})).bin
            if route == 'pack_kw_twice':
                r = pack(f'{code}={nm}, {code}={nm}', **dict(extra, **{nm: n})).bin
                h = len(r) // 2
                return r[:h] if r[:h] == r[h:] else 'two different halves: ' + r
            if route == 'pack_pos_extra': return pack(code, n, **extra).bin
            raise AssertionError(route)
        return attempt(f)
    if op == 'enctext':
        code, n, txt = c['code'], c['n'], c['txt']
        ref = ref_enc(code, n)
        tok = f"{code}{c['eqsp'][0]}={c['eqsp'][1]}{txt}"
        K = {'Bits': Bits, 'BitArray': BitArray, 'ConstBitStream': ConstBitStream, 'BitStream': BitStream}
        R = {}
        for cn, C in K.items():
            R['kw:' + cn] = lambda C=C: C(**{code: txt}).bin
            R['token:' + cn] = lambda C=C: C(tok).bin
        R['fromstring'] = lambda: BitStream.fromstring(tok).bin
        R['add'] = lambda: (BitArray() + tok).bin
        R['radd'] = lambda: (tok + Bits()).bin
        def iadd():
            a = BitStream(); a += tok; return a.bin
        R['iadd'] = iadd
        def app():
            a = BitArray('0b1'); a.append(tok); a.prepend(tok); return a.bin
        R['append_prepend'] = app
        def sett():
            a = BitArray('0b1'); setattr(a, code, txt); return a.bin
        R['setattr'] = sett
        R['build'] = lambda: Dtype(code).build(txt).bin
        R['pack_pos'] = lambda: pack(code, txt).bin
        R['pack_emb'] = lambda: pack(tok).bin
        R['pack_kw'] = lambda: pack(f'{code}=k', k=txt).bin
        R['pack_kw_piece'] = lambda: pack(f'{code} = e', e=txt, u=0).bin
        R['pack_list'] = lambda: pack([code], txt).bin
        R['pack_mixed'] = lambda: pack(f'uint:3, {code}, bool', 5, txt, True).bin
        R['pack_mixed_emb'] = lambda: pack(f'uint:3=5, {tok}, bool=1').bin
        R['pack_twice'] = lambda: pack(f'2*{code}', txt, txt).bin
        if ref is not None:
            R['eq'] = lambda: Bits(bin=ref) == tok
            R['startswith'] = lambda: Bits(bin=ref + '01').startswith(tok)
            R['find'] = lambda: list(BitArray(bin=ref).find(tok))
        return ('ok', {k: list(attempt(f)) for k, f in R.items()})
    if op == 'streamtext':
        items = c['items']
        codes = [it[0] for it in items]
        C = {'Bits': Bits, 'BitArray': BitArray, 'ConstBitStream': ConstBitStream, 'BitStream': BitStream}[c['cls']]
        whole = c['sep'].join(f'{code}={t}' for code, _, t in items)
        def back(o):
            s = ConstBitStream(o); via = c['via']
            if via == 'unpack': return [o.bin, [int(v) for v in o.unpack(codes)], len(o)]
            if via == 'readlist': vals = s.readlist(', '.join(codes))
            elif via == 'peeklist': vals = s.peeklist(codes)
            else:
                vals, ps = [], []
                for x in codes:
                    vals.append(s.read(x)); ps.append(s.pos)
                return [o.bin, [int(v) for v in vals], ps]
            return [o.bin, [int(v) for v in vals], s.pos]
        R = {'string:' + c['cls']: lambda: back(C(whole)),
             'pack_string': lambda: back(pack(whole)),
             'pack_pos': lambda: back(pack(c['sep'].join(codes), *[t for _, _, t in items])),
             'pack_list': lambda: back(pack([f'{code}={t}' for code, _, t in items])),
             'pack_kw': lambda: back(pack(c['sep'].join(f'{code}=v{j}' for j, code in enumerate(codes)), **{f'v{j}': t for j, (_, _, t) in enumerate(items)})),
             'join_kw': lambda: back(Bits().join(Bits(**{code: t}) for code, _, t in items))}
        return ('ok', {k: list(attempt(f)) for k, f in R.items()})
    if op == 'kwread':
        def canon(v):
            if isinstance(v, bool): return {'bool': v}
            if isinstance(v, Bits): return {'bits': v.bin}
            return int(v) if isinstance(v, int) else v
        items, kw = c['items'], c['kw']
        tokens = [item_token(it, c['colon']) for it in items]
        stream = ''.join(item_bits(it) for it in items)
        C = {'Bits': Bits, 'BitArray': BitArray, 'ConstBitStream': ConstBitStream, 'BitStream': BitStream}[c['cls']]
        via = c['via']
        if via == 'unpack':
            o = C(bin=stream + c['rest'])
            def f():
                vals = o.unpack(spell_format(tokens + ['bits'], c['spell']), **kw)
                return [[canon(v) for v in vals[:-1]], len(o) - len(vals[-1]), o.bin]
            return attempt(f)
        o = C(bin=c['pre'] + stream + c['rest']); o.pos = len(c['pre'])
        if via == 'readlist_each':
            steps = []
            for j, t in enumerate(tokens):
                r = attempt(lambda: [canon(v) for v in o.readlist(t if j % 2 else [t], **kw)])
                steps.append([r[0], r[1], o.pos])
                if r[0] != 'ok': break
            return ('ok', steps)
        r = attempt(lambda: [canon(v) for v in (o.readlist if via == 'readlist' else o.peeklist)(spell_format(tokens, c['spell']), **kw)])
        return (r[0], [r[1], o.pos, o.bin])
    if op == 'kwpack':
        def real(kind, v):
            if kind in CODES: return v
            if kind == 'bits': return Bits(bin=v) if len(v) % 2 else BitArray(bin=v)
            if kind == 'bool': return v == '1'
            return field_value(kind, v)
        items = c['items']
        kwargs = dict(c['kw'])
        for nm, (kind, v) in c['vals'].items(): kwargs[nm] = real(kind, v)
        tokens, positional = [], []
        for kind, lenspec, v, how, nm in items:
            t = item_token([kind, lenspec], c['colon'])
            if how == 'kw': t += '=' + nm
            elif how == 'lit': t += '=' + str(real(kind, v))
            elif how == 'pos': positional.append(real(kind, v))
            tokens.append(t)
        def f():
            r = pack(spell_format(tokens, c['spell']), *positional, **kwargs)
            return [type(r).__name__, r.bin, r.pos]
        r = attempt(f)
        if r[0] != 'ok': return r
        # read the record back with the bare tokens and the same keywords
        def canon(v):
            if isinstance(v, bool): return {'bool': v}
            if isinstance(v, Bits): return {'bits': v.bin}
            return int(v) if isinstance(v, int) else v
        s2 = ConstBitStream(bin=r[1][1])
        back = attempt(lambda: [canon(v) for v in s2.readlist([item_token(it, c['colon']) for it in items], **c['kw'])])
        return ('ok', r[1] + [list(back), s2.pos])
    if op == 'setter_history':
        # assign through the property, edit the object in place, then encode the same integer again through other routes
        code, n = c['code'], c['n']
        def f():
            x = (BitArray if c['cls'] == 'BitArray' else BitStream)()
            setattr(x, code, n)
            first = x.bin
            x.append('0b1'); x.invert(); x[0] = 1
            return [first, Bits(**{code: n}).bin, pack(code, n).bin, BitArray(**{code: n}).bin, Bits(f'{code}={n}').bin, getattr(bh, code + '2bitstore')(n)._bitarray.to01()]
        return attempt(f)
    if op == 'whole':
        return attempt(lambda: getattr(Bits(bin=c['bits']), c['code']))
    if op == 'read':
        code, via = c['code'], c['via']
        if via == 'internal':
            b = Bits(bin=c['bits'])
            return attempt(lambda: list(getattr(b, '_read' + code)(c['pos'])))
        s = ConstBitStream(bin=c['bits']); s.pos = c['pos']
        def f():
            if via == 'read': v = s.read(code)
            elif via == 'peek':
                v = s.peek(code); return [v, s.pos, 'peek']
            else: v, = s.readlist([code])
            return [v, s.pos]
        r = attempt(f)
        return r if r[0] == 'ok' else ('err', r[1], s.pos)
    if op == 'streamcut':
        whole = c['pre'] + ''.join(ref_enc(code, n) for code, n in c['items']) + c['tail']
        names = [code for code, _ in c['items']] + [c['last']]
        fmt = {'string': ', '.join(names), 'strings': names, 'dtypes': [Dtype(x) for x in names], 'tuple_dtypes': tuple(Dtype(x) for x in names)}[c['spell']]
        s = ConstBitStream(bin=whole); s.pos = len(c['pre'])
        r = attempt(lambda: (s.readlist if c['via'] == 'readlist' else s.peeklist)(fmt))
        return (r[0], r[1] if r[0] == 'err' else [int(x) for x in r[1]], s.pos)
    if op == 'stream':
        def f():
            parts = [Bits(bin=c['pre'])] + [Bits(**{code: n}) for code, n in c['items']] + [Bits(bin=c['rest'])]
            whole = Bits().join(parts)
            fmt = [code for code, _ in c['items']]
            if c['via'] == 'unpack':
                t = whole[len(c['pre']):]
                vals = t.unpack(', '.join(fmt) + ', bits')
                return [vals[:-1], len(c['pre']) + len(t) - len(vals[-1]), whole.bin]
            s = ConstBitStream(whole); s.pos = len(c['pre'])
            if c['via'] == 'readlist':
                vals = s.readlist(', '.join(fmt))
            else:
                vals = [s.read(x) for x in fmt]
            return [vals, s.pos, whole.bin]
        return attempt(f)
    raise AssertionError(op)

# ---------------- oracle (property text, independent of the model) ----------------
def oracle(c, obs):
    op = c['op']
    if c.get('lsb0'):
        if obs[0] == 'ok': return f'{op} succeeded in lsb0 mode: {obs}'
        return None
    if op == 'enc':
        ref = ref_enc(c['code'], c['n'])
        if ref is None:
            if obs[0] != 'err' or obs[1] != 'ValueError': return f"encoding {c['n']} as {c['code']} should raise CreationError, got {obs}"
        elif obs != ('ok', ref):
            return f"{c['code']}({c['n']!r}) via {c['route']}{' (keyword ' + repr(c['kwname']) + ', other keywords ' + str(c.get('extra')) + ')' if 'kwname' in c else ''} gave {obs}, table says {ref}"
        return None
    if op == 'enctext':
        code, n, txt = c['code'], c['n'], c['txt']
        ref = ref_enc(code, n)
        if obs[0] != 'ok': return f"{code} of the text {txt!r} (= {n}): {obs}"
        for how, r in obs[1].items():
            what = f"{code} of the integer {n} written as the text {txt!r} (int() reads it as {n}), route {how}"
            if ref is None:
                if r != ['err', 'ValueError']: return f"{what}: a negative value for an unsigned code must raise CreationError, got {r}"
                continue
            exp = {'eq': True, 'startswith': True, 'find': [0], 'append_prepend': ref + '1' + ref, 'pack_mixed': '101' + ref + '1', 'pack_mixed_emb': '101' + ref + '1',
                   'pack_twice': ref + ref}.get(how, ref)
            if r != ['ok', exp]: return f"{what}: gave {r}, the table's codeword for {n} is {ref!r} (expected {exp!r})"
        return None
    if op == 'streamtext':
        items = c['items']
        bits = ''.join(ref_enc(code, n) for code, n, _ in items)
        ns = [n for _, n, _ in items]
        ends, p = [], 0
        for code, n, _ in items:
            p += len(ref_enc(code, n)); ends.append(p)
        if obs[0] != 'ok': return f"sequence of codes written as text {items}: {obs}"
        for how, r in obs[1].items():
            exp = [bits, ns, ends if c['via'] == 'reads' else 0 if c['via'] == 'peeklist' else len(bits)]
            if r != ['ok', exp]:
                return (f"the codes {[(code, t) for code, _, t in items]} (values written as text, standing for {ns}) built through {how} and read back via {c['via']} gave {r}; "
                        f"the tables give the bits {bits!r}, the values {ns} and the position(s) {exp[2]}")
        return None
    if op == 'kwread':
        items, kw = c['items'], c['kw']
        tokens = [item_token(it, c['colon']) for it in items]
        what = f"{c['cls']}.{c['via']} of the format {spell_format(tokens, c['spell'])!r} with the keywords {kw} on the codewords / fields of {[it[2] for it in items]}"
        exp_vals = [it[2] if it[0] in CODES else field_value(it[0], it[2]) for it in items]
        lens = [len(item_bits(it)) for it in items]
        start = len(c['pre'])
        if c['via'] == 'readlist_each':
            pos = start
            for j, st in enumerate(obs[1]):
                pos += lens[j]
                ev = [] if exp_vals[j] is None else [exp_vals[j]]
                if st[0] != 'ok' or st[1] != ev or st[2] != pos:
                    return f"{what}, one token per call: token {j} ({tokens[j]!r}) gave {st[:2]} and left pos at {st[2]}; expected {ev} and pos {pos} (keywords only stand for the lengths the format names)"
            if len(obs[1]) != len(items): return f"{what}: stopped after {len(obs[1])} tokens"
            return None
        ev = [v for v in exp_vals if v is not None]
        if obs[0] != 'ok': return f"{what}: raised {obs[1][0] if isinstance(obs[1], (list, tuple)) else obs[1]} (expected {ev}; keywords only stand for the lengths the format names)"
        vals, pos, bits = obs[1]
        epos = start if c['via'] == 'peeklist' else start + sum(lens)
        if vals != ev or pos != epos:
            return f"{what}: gave {vals} and position {pos}; expected {ev} and position {epos} (each code advances by exactly one codeword; keywords only stand for the lengths the format names)"
        if bits != c['pre'] + ''.join(item_bits(it) for it in items) + c['rest']: return f"{what}: the content changed to {bits!r}"
        return None
    if op == 'kwpack':
        items = c['items']
        shown = [(it[0], it[1], it[2], it[3], it[4]) for it in items]
        what = f"pack of the record {shown} (kind, length, value, how the value is given, keyword) with the keywords {c['kw']} and keyword values {c['vals']}, format spelled as {c['spell']}"
        if c['bad']:
            if obs[0] != 'err' or obs[1] not in ('ValueError', 'BsError'): return f"{what}: a negative value for an unsigned code must be rejected, got {obs}"
            return None
        ebits = ''.join(item_bits(it, packed=True) for it in items)
        if obs[0] != 'ok': return f"{what}: raised {obs[1]}; expected the bits {ebits!r} (a keyword value of 0 / False / '' is a value like any other)"
        cls, bits, pos, back, pos2 = obs[1]
        if cls != 'BitStream' or bits != ebits or pos != 0:
            return f"{what}: gave a {cls} holding {bits!r} at pos {pos}; the tables give {ebits!r}"
        ev = [(int(it[2]) if it[0] in CODES else field_value(it[0], it[2] if it[0] != 'pad' else '0' * len(it[2]))) for it in items]
        ev = [v for v in ev if v is not None]
        if back[0] != 'ok' or back[1] != ev or pos2 != len(ebits):
            return f"{what}: packed {bits!r} but reading it back gave {back} and pos {pos2}; expected {ev} and pos {len(ebits)}"
        return None
    if op == 'setter_history':
        ref = ref_enc(c['code'], c['n'])
        if obs[0] != 'ok': return f"{c['cls']}().{c['code']} = {c['n']}, edit, encode again: raised {obs}"
        if any(x != ref for x in obs[1]):
            return f"after x.{c['code']} = {c['n']} and in-place edits of x, the encodings of {c['n']} are {obs[1]} (property value first); the table says {ref!r} for all of them"
        return None
    if op == 'whole':
        d = ref_dec(c['code'], c['bits'])
        if d is not None and d[1] == len(c['bits']):
            if obs != ('ok', d[0]): return f"Bits(bin={c['bits']!r}).{c['code']} gave {obs}, expected {d[0]}"
        elif obs[0] != 'err' or obs[1] != 'ValueError':
            return f"Bits(bin={c['bits']!r}).{c['code']} should raise InterpretError (not a single codeword), got {obs}"
        return None
    if op == 'read':
        d = ref_dec(c['code'], c['bits'][c['pos']:])
        if c['via'] == 'internal':
            exp = ('ok', [d[0], c['pos'] + d[1]]) if d else ('err', 'ReadError')
            if obs != exp: return f"_read{c['code']}({c['pos']}) on {c['bits']!r} gave {obs}, expected {exp}"
            return None
        if d:
            newpos = c['pos'] if c['via'] == 'peek' else c['pos'] + d[1]
            if obs[0] != 'ok' or obs[1][0] != d[0] or obs[1][1] != newpos:
                return f"{c['via']}('{c['code']}') at {c['pos']} of {c['bits']!r} gave {obs}, expected value {d[0]} pos {newpos}"
        else:
            if obs[0] != 'err' or obs[1] != 'ReadError' or obs[2] != c['pos']:
                return f"{c['via']}('{c['code']}') at {c['pos']} of {c['bits']!r}: truncated code must raise ReadError with pos unchanged, got {obs}"
        return None
    if op == 'streamcut':
        if obs[0] != 'err' or obs[1] != 'ReadError' or obs[2] != len(c['pre']):
            return (f"{c['via']} of {len(c['items'])} complete codes and a truncated '{c['last']}' (format given as {c['spell']}) from pos {len(c['pre'])}: "
                    f"must raise ReadError with the position unchanged, got {obs[:2]} and pos {obs[2]}")
        return None
    if op == 'stream':
        bits = c['pre'] + ''.join(ref_enc(code, n) for code, n in c['items']) + c['rest']
        exp = [[n for _, n in c['items']], len(bits) - len(c['rest']), bits]
        if obs != ('ok', exp): return f"stream {c['items']} via {c['via']} gave {obs}, expected {exp}"
        return None

def nontrivial(c, obs):
    if c['op'] in ('enc', 'setter_history'): return c['n'] != 0
    if c['op'] == 'stream': return len(c['items']) > 1
    if c['op'] in ('kwread', 'kwpack'): return bool(c['kw'] or c.get('vals'))
    if c['op'] == 'enctext': return c['n'] != 0
    if c['op'] == 'streamtext': return len(c['items']) > 1
    return '0' in c['bits'] and '1' in c['bits']

def classify(c, obs):
    return None

# ---------------- correspondence with the Coq model ----------------
def coq_check(c, obs):
    if c.get('lsb0'): return None
    op = c['op']
    if op == 'setter_history':
        return f"rbits_eqb (g_enc {COQC[c['code']]} {cz(c['n'])}) (Ok {cbits(obs[1][0])})" if obs[0] == 'ok' else None
    if op in ('kwread', 'kwpack'): return None      # the keyword substitution of the tokenizer is not part of the Golomb model: the oracle decides
    if op in ('enctext', 'streamtext'): return None # text -> integer is Python's int(), not part of the Golomb model: the oracle decides
    if op == 'enc':
        if c['route'] in ('token',) and obs[0] == 'err': return None  # token strings: parse errors are C05's
        if obs[0] == 'ok' and set(obs[1]) - set('01'): return 'false'
        return f"rbits_eqb (g_enc {COQC[c['code']]} {cz(int(c['n']))}) {cres(obs, cbits)}"
    if op == 'whole':
        return f"rz_eqb (get_whole (g_read {COQC[c['code']]}) {cbits(c['bits'])}) {cres(obs, cz)}"
    if op == 'read':
        code = COQC[c['code']]
        if c['via'] == 'internal':
            return f"rzz_eqb (g_read {code} {cbits(c['bits'])} {cz(c['pos'])}) {cres(obs, lambda v: cpair(cz(v[0]), cz(v[1])))}"
        if obs[0] == 'ok':
            v, p = obs[1][0], obs[1][1]
            if c['via'] == 'peek':
                return f"match read_fn_var (g_read {code}) {cbits(c['bits'])} {cz(c['pos'])} with Ok (v, _) => (v =? {cz(v)}) && ({cz(p)} =? {cz(c['pos'])}) | _ => false end"
            return f"rzz_eqb (read_fn_var (g_read {code}) {cbits(c['bits'])} {cz(c['pos'])}) (Ok ({cz(v)}, {cz(p)}))"
        return f"rzz_eqb (read_fn_var (g_read {code}) {cbits(c['bits'])} {cz(c['pos'])}) (Err {obs[1] if obs[1] in COQ_EXNS else 'AssertionError'})"
    if op == 'stream':
        if obs[0] != 'ok': return 'false'
        vals, pos, bits = obs[1]
        items = clist(c['items'], lambda it: f"({COQC[it[0]]}, {cz(it[1])})")
        return (f"res_eqb (pair_eqb zlist_eqb Z.eqb) (read_stream {cbits(bits)} {cz(len(c['pre']))} (map fst {items})) "
                f"(Ok ({clist(vals, cz)}, {cz(pos)})) && bits_eqb {cbits(bits)} ({cbits(c['pre'])} ++ stream_bits {items} ++ {cbits(c['rest'])})")

def coq_model_term(c):
    op = c['op']
    if op == 'enc': return f"g_enc {COQC[c['code']]} {cz(int(c['n']))}"
    if op == 'whole': return f"get_whole (g_read {COQC[c['code']]}) {cbits(c['bits'])}"
    if op == 'read': return f"read_fn_var (g_read {COQC[c['code']]}) {cbits(c['bits'])} {cz(c['pos'])}"
    return 'tt'

def search(seeds, rng):
    """Look for a concrete input on which the property itself fails (used when a proof/tie breaks)."""
    pool = list(seeds)
    pool += list(gen_cases(rng, 'thorough' if not seeds else 'quick'))[:60000]
    for c in pool:
        try:
            obs = run_impl(c)
        finally:
            reset_options()
        msg = oracle(c, obs)
        if msg: return c, obs, msg
    return None
