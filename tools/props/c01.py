"""C01 — every bitstring behaves as the Python sequence of its bits."""
from vlib import *
from props.common import *

ID = 'C01'
COQ_PROPS = ['Props/C01.v']
COQ_IMPORTS = ['Prims', 'CaseLib', 'BitsCore', 'SeqProofs']
RULE = ('all four classes x contents at boundary lengths x exhaustive (start,stop,step) in [-L-2,L+2]^2 x [-4,4] for L<=5 (quick) / L<=7 (thorough) plus random triples '
        'on longer contents, indices in and beyond range, operand pairs of all class combinations and promotable str/bytes/list/bitarray, repeat counts -2..70 and a few large; '
        'non-trivial = non-empty content and a result that is not the whole operand; distinct by (op, arguments)')
TRUSTED_BASE = ['L0: Prims.seq_slice/seq_getitem are compared with CPython list slicing on every run (op l0_slice)']
ASSUMPTIONS = ['bitarray slicing equals Python sequence slicing (modelled as Prims.seq_slice; L0 corr.)', 'msb0 mode (lsb0 is C12)']
COQ_PRELUDE = '''Definition cls_eqb (a b : cls) : bool := match a, b with CBits, CBits | CBitArray, CBitArray | CConstBitStream, CConstBitStream | CBitStream, CBitStream => true | _, _ => false end.'''

def gen_cases(rng, tier):
    L = 5 if tier == 'quick' else 7
    # very long contents (beyond any plausible internal block or chunk size): iteration, indexing and slicing in both numberings, oracle only
    for n in ([65537, 70001] if tier == 'quick' else [32769, 65536, 65537, 70001, 131073, 200003]):
        bits = rand_bits(rng, n, 'rand')
        for lsb0 in (False, True):
            yield {'op': 'seq', 'cls': rng.choice(CLASSES), 'bits': bits, 'route': 'bin', 'lsb0': lsb0}
            yield {'op': 'slice', 'cls': rng.choice(CLASSES), 'bits': bits, 'k': [rng.randrange(-n, n), None, rng.choice([-3, 7, -1, 4097])], 'route': 'bin', 'lsb0': lsb0}
    # L0 + L2 exhaustive small slices
    for l in range(0, L + 1):
        bits = rand_bits(rng, l, 'rand')
        vals = [None] + list(range(-l - 2, l + 3))
        for a in vals:
            for b in vals:
                for c in [None, -4, -3, -2, -1, 1, 2, 3, 4, 0]:
                    if tier == 'quick' and rng.random() < 0.6: continue
                    yield {'op': 'slice', 'cls': rng.choice(CLASSES), 'bits': bits, 'k': [a, b, c], 'route': rng.choice(ROUTES)}
                    if rng.random() < 0.3:      # the same sequence law under options.lsb0: the sequence is then the reversed bit string
                        yield {'op': 'slice', 'cls': rng.choice(CLASSES), 'bits': bits, 'k': [a, b, c], 'route': 'bin', 'lsb0': True}
                    if rng.random() < 0.15:
                        yield {'op': 'l0_slice', 'bits': bits, 'k': [a, b, c]}
        for i in range(-l - 3, l + 4):
            yield {'op': 'getitem', 'cls': rng.choice(CLASSES), 'bits': bits, 'i': i, 'route': rng.choice(ROUTES)}
            yield {'op': 'getitem', 'cls': rng.choice(CLASSES), 'bits': bits, 'i': i, 'route': 'bin', 'lsb0': True}
    N = 400 if tier == 'quick' else 6000
    for _ in range(N):
        l = rand_len(rng, tier)
        bits = rand_bits(rng, l)
        r = lambda: rng.choice([None, None, rng.randrange(-l - 3, l + 4), rng.randrange(-2 * l - 3, 2 * l + 4)])
        yield {'op': 'slice', 'cls': rng.choice(CLASSES), 'bits': bits, 'k': [r(), r(), rng.choice([None, 1, -1, 2, -2, 3, 7, -5, l + 1, -(l + 1), 1 << 70])], 'route': rng.choice(ROUTES)}
        if rng.random() < 0.4:
            yield {'op': 'slice', 'cls': rng.choice(CLASSES), 'bits': bits, 'k': [r(), r(), rng.choice([None, 1, -1, 2, -2, 3, -3, 7, -5, -7])], 'route': 'bin', 'lsb0': True}
        yield {'op': 'getitem', 'cls': rng.choice(CLASSES), 'bits': bits, 'i': rng.choice([0, -1, l - 1, l, -l, -l - 1, rng.randrange(-l - 2, l + 3), 1 << 65, -(1 << 65)]), 'route': rng.choice(ROUTES)}
        yield {'op': 'seq', 'cls': rng.choice(CLASSES), 'bits': bits, 'route': rng.choice(ROUTES), 'lsb0': rng.random() < 0.3}
        # concatenation
        l2 = rand_len(rng, tier)
        bits2 = rand_bits(rng, l2)
        kind = rng.choice(CLASSES + CLASSES + ['str', 'list', 'tuple', 'bitarray', 'bytes', 'bytearray'] + ITERATOR_KINDS)
        if kind in ('bytes', 'bytearray'): bits2 = bits2[:len(bits2) - len(bits2) % 8]
        yield {'op': rng.choice(['add', 'add', 'radd']) if kind not in CLASSES else 'add', 'cls': rng.choice(CLASSES), 'bits': bits, 'other': kind, 'bits2': bits2,
               'route': rng.choice(ROUTES), 'pos': rng.choice([None, 0, l // 2, l]), 'lsb0': rng.random() < 0.3}      # s.bin of a sum does not depend on the bit numbering
        # repetition
        n = rng.choice([-2, -1, 0, 1, 2, 3, 4, 5, 7, 8, 9, 15, 16, 17, 31, 33, 64, 70])
        lb = min(l, 130)
        yield {'op': rng.choice(['mul', 'rmul', 'imul']), 'cls': rng.choice(CLASSES), 'bits': bits[:lb], 'n': n, 'route': rng.choice(ROUTES), 'lsb0': rng.random() < 0.25}
    for n in [1000, 1023, 1024, 1025, 4097]:
        yield {'op': 'mul', 'cls': 'Bits', 'bits': rand_bits(rng, rng.randrange(1, 4)), 'n': n, 'route': 'bin'}

def kind(c):
    return c['op']

def run_impl(c):
    import bitstring
    op = c['op']
    if op == 'l0_slice':
        a, b, s = c['k']
        return attempt(lambda: ''.join(list(c['bits'])[slice(a, b, s)]))
    s = build(c['cls'], c['bits'], c['route'], c.get('pos'))
    if c.get('lsb0'): bitstring.options.lsb0 = True          # the object is built under msb0; only the indexing runs under lsb0 (reset by the driver)
    if op == 'slice':
        a, b, st = c['k']
        def f():
            r = s[a:b:st]
            return [r.bin, type(r).__name__, getattr(r, 'pos', None)]
        return attempt(f)
    if op == 'getitem':
        return attempt(lambda: s[c['i']])
    if op == 'seq':
        return attempt(lambda: [len(s), bool(s), ''.join('1' if x else '0' for x in s), all(isinstance(x, bool) for x in s)])
    if op in ('add', 'radd'):
        other = build(c['other'], c['bits2'], 'bin') if c['other'] in CLASSES else promotable(c['bits2'], c['other'])
        def f():
            r = (s + other) if op == 'add' else (other + s)
            return [r.bin, type(r).__name__, getattr(r, 'pos', None), s.bin, getattr(s, 'pos', None)]
        return attempt(f)
    if op in ('mul', 'rmul', 'imul'):
        def f():
            if op == 'imul':
                if c['cls'] not in MUTABLE: return ['skip']
                t = s; t *= c['n']; r = t
            else:
                r = s * c['n'] if op == 'mul' else c['n'] * s
            return [r.bin, type(r).__name__]
        return attempt(f)
    raise AssertionError(op)

def oracle(c, obs):
    op = c['op']
    bits = c['bits']
    if op == 'l0_slice': return None
    if c.get('lsb0'):
        # under lsb0 the object is the sequence of its bits counted from the other end
        rb = bits[::-1]
        if op == 'slice':
            a, b, st = c['k']
            try: exp = ('ok', rb[a:b:st][::-1])
            except ValueError: exp = ('err', 'ValueError')
            if exp[0] == 'err': return None if obs == exp else f"lsb0 {c['cls']}({bits!r})[{a}:{b}:{st}] should raise ValueError, got {obs}"
            if obs[0] != 'ok' or obs[1][0] != exp[1] or obs[1][1] != c['cls']: return f"lsb0 {c['cls']}({bits!r})[{a}:{b}:{st}] gave {obs}, the reversed-sequence model gives {exp[1]!r}"
            return None
        if op == 'getitem':
            i = c['i']
            exp = ('ok', rb[i] == '1') if -len(bits) <= i < len(bits) else ('err', 'IndexError')
            return None if obs == exp else f"lsb0 {c['cls']}({bits!r})[{i}] gave {obs}, expected {exp}"
    if op == 'slice':
        a, b, st = c['k']
        try: exp = ('ok', bits[a:b:st])
        except ValueError: exp = ('err', 'ValueError')
        if exp[0] == 'err':
            return None if obs == exp else f"{c['cls']}({bits!r})[{a}:{b}:{st}] should raise ValueError, got {obs}"
        if obs[0] != 'ok' or obs[1][0] != exp[1] or obs[1][1] != c['cls'] or obs[1][2] not in (None, 0):
            return f"{c['cls']}({bits!r}) via {c['route']} [{a}:{b}:{st}] gave {obs}, str model gives {exp[1]!r} of class {c['cls']}"
        return None
    if op == 'getitem':
        i = c['i']
        exp = ('ok', bits[i] == '1') if -len(bits) <= i < len(bits) else ('err', 'IndexError')
        return None if obs == exp else f"{c['cls']}({bits!r})[{i}] gave {obs}, expected {exp}"
    if op == 'seq':
        exp = ('ok', [len(bits), len(bits) != 0, bits[::-1] if c.get('lsb0') else bits, True])
        return None if obs == exp else f"len/bool/iter of {c['cls']}({bits!r}) via {c['route']} gave {obs}, expected {exp}"
    if op in ('add', 'radd'):
        res = bits + c['bits2'] if op == 'add' else c['bits2'] + bits
        rc = c['cls']  # left operand when it is a bitstring, else the bitstring operand
        if obs[0] != 'ok': return f"{op} {c['cls']}({len(bits)} bits) with {c['other']}({len(c['bits2'])} bits) raised {obs}"
        r = obs[1]
        if r[0] != res or r[1] != rc or r[2] not in (None, 0) or r[3] != bits:
            return f"{op} {c['cls']}({bits!r}) {c['other']}({c['bits2']!r}) gave content-ok={r[0] == res} class={r[1]} pos={r[2]} operand-unchanged={r[3] == bits}; expected class {rc}, pos 0"
        return None
    if op in ('mul', 'rmul', 'imul'):
        if obs == ('ok', ['skip']): return None
        if c['n'] < 0:
            return None if obs == ('err', 'ValueError') else f"{c['cls']} * {c['n']} should raise ValueError, got {obs}"
        exp = ('ok', [bits * c['n'], c['cls']])
        return None if obs == exp else f"{op} {c['cls']}({bits!r}) * {c['n']} gave {str(obs)[:200]}, expected {len(bits) * c['n']} bits of class {c['cls']}"

def nontrivial(c, obs):
    return len(c['bits']) > 0 and obs[0] == 'ok'

def classify(c, obs):
    return None

def coq_check(c, obs):
    op = c['op']
    if op == 'l0_slice':
        return f"rbits_eqb (seq_slice false {cbits(c['bits'])} {cslice(*c['k'])}) {cres(obs, cbits)}"
    if op == 'slice':
        if len(c['bits']) > 20000: return None
        o = ('ok', obs[1][0]) if obs[0] == 'ok' else obs
        return f"rbits_eqb (bs_getitem_slice {cbool(bool(c.get('lsb0')))} {cbits(c['bits'])} {cslice(*c['k'])}) {cres(o, cbits)}"
    if op == 'getitem':
        return f"rbool_eqb (bs_getitem_int {cbool(bool(c.get('lsb0')))} {cbits(c['bits'])} {cz(c['i'])}) {cres(obs, cbool)}"
    if op == 'seq':
        if obs[0] != 'ok': return 'false'
        if len(c['bits']) > 4000: return None          # very long data: implementation against the sequence oracle only (the model's iteration is quadratic)
        l, t, it, _ = obs[1]
        return (f"(bs_len {cbits(c['bits'])} =? {l}) && Bool.eqb (bs_bool {cbits(c['bits'])}) {cbool(t)} && "
                f"rbits_eqb (bs_iter {cbool(bool(c.get('lsb0')))} {cbits(c['bits'])}) (Ok {cbits(it)})")
    if op in ('add', 'radd'):
        if obs[0] != 'ok': return 'false'
        r = obs[1]
        if op == 'add':
            other = f"(Some {COQ_CLS[c['other']]})" if c['other'] in CLASSES else 'None'
            return (f"bits_eqb (bs_add {cbits(c['bits'])} {cbits(c['bits2'])}) {cbits(r[0])} && "
                    f"cls_eqb (bs_add_class {COQ_CLS[c['cls']]} {other} {len(c['bits'])} {len(c['bits2'])}) {COQ_CLS[r[1]]}")
        return f"bits_eqb (bs_radd {cbits(c['bits'])} {cbits(c['bits2'])}) {cbits(r[0])}"
    if op in ('mul', 'rmul', 'imul'):
        if obs == ('ok', ['skip']): return None
        if len(c['bits']) * max(c['n'], 0) > 20000: return None
        o = ('ok', obs[1][0]) if obs[0] == 'ok' else obs
        return f"rbits_eqb (bs_mul false {cbits(c['bits'])} {cz(c['n'])}) {cres(o, cbits)}"

def coq_model_term(c):
    op = c['op']
    if op == 'slice': return f"bs_getitem_slice false {cbits(c['bits'])} {cslice(*c['k'])}"
    if op == 'getitem': return f"bs_getitem_int false {cbits(c['bits'])} {cz(c['i'])}"
    if op in ('mul', 'rmul', 'imul'): return f"bs_mul false {cbits(c['bits'])} {cz(c['n'])}"
    if op == 'add': return f"bs_add {cbits(c['bits'])} {cbits(c['bits2'])}"
    return 'tt'

def search(seeds, rng):
    pool = list(seeds) + list(gen_cases(rng, 'thorough'))[:40000]
    for c in pool:
        try: obs = run_impl(c)
        finally: reset_options()
        msg = oracle(c, obs)
        if msg: return c, obs, msg
    return None
