"""C01 — every bitstring behaves as the Python sequence of its bits."""
from vlib import *
from props.common import *

ID = 'C01'
COQ_PROPS = ['Props/C01.v']
COQ_IMPORTS = ['Prims', 'CaseLib', 'BitsCore', 'SeqProofs']
RULE = ('all four classes x contents at boundary lengths x exhaustive (start,stop,step) in [-L-2,L+2]^2 x [-4,4] for L<=5 (quick) / L<=7 (thorough) plus random triples '
        'on longer contents, indices in and beyond range, operand pairs of all class combinations and promotable str/bytes/list/bitarray, repeat counts -2..70 and a few large; '
        'each kind of case again after a prelude of boundary-valued expressions on unrelated objects (shifts by >= len, empty slices, * 0, empty operands, joins, copies, cuts, zero-width reads, '
        'clear / delete-all; mutable results edited in place), followed by every way of making an empty bitstring and the re-evaluated sequence expressions, each result probed in full; '
        'integers of every kind wherever the sequence takes an integer (index, slice bound, step, repeat count; item assignment and deletion, refused by the immutable classes): bool, IntEnum, IntFlag, '
        'int subclasses, numpy fixed-width scalars at the ends of their ranges on contents shorter and longer than they can count, gmpy2-like classes registered with numbers.Integral, and '
        'ints of up to 30 000 digits around the machine-word and decimal-printing limits, under both numberings, judged by the plain int on the str / list of the bits; '
        'non-trivial = non-empty content and a result that is not the whole operand; distinct by (op, arguments)')
TRUSTED_BASE = ['L0: Prims.seq_slice/seq_getitem are compared with CPython list slicing on every run (op l0_slice)']
ASSUMPTIONS = ['bitarray slicing equals Python sequence slicing (modelled as Prims.seq_slice; L0 corr.)', 'msb0 mode (lsb0 is C12)']
COQ_PRELUDE = '''Definition cls_eqb (a b : cls) : bool := match a, b with CBits, CBits | CBitArray, CBitArray | CConstBitStream, CConstBitStream | CBitStream, CBitStream => true | _, _ => false end.'''

def gen_cases(rng, tier):
    L = 5 if tier == 'quick' else 7
    # very long contents (beyond any plausible internal block or chunk size): iteration, indexing and slicing in both numberings, oracle only
    for n in ([65537, 70001] if tier == 'quick' else [32769, 65536, 65537, 70001, 131073, 200003]):
        bits = rand_bits(rng, n, 'rand')
        for lsb0 in (False, True):
            yield {'op': 'seq', 'cls': rng.choice(CLASSES), 'bits': bits, 'route': 'bin', 'lsb0': lsb0}
            yield {'op': 'slice', 'cls': rng.choice(CLASSES), 'bits': bits, 'k': [rng.randrange(-n, n), None, rng.choice([-3, 7, -1, 4097])], 'route': 'bin', 'lsb0': lsb0}
    # L0 + L2 exhaustive small slices
    for l in range(0, L + 1):
        bits = rand_bits(rng, l, 'rand')
        vals = [None] + list(range(-l - 2, l + 3))
        for a in vals:
            for b in vals:
                for c in [None, -4, -3, -2, -1, 1, 2, 3, 4, 0]:
                    if tier == 'quick' and rng.random() < 0.6: continue
                    yield {'op': 'slice', 'cls': rng.choice(CLASSES), 'bits': bits, 'k': [a, b, c], 'route': rng.choice(ROUTES)}
                    if rng.random() < 0.3:      # the same sequence law under options.lsb0: the sequence is then the reversed bit string
                        yield {'op': 'slice', 'cls': rng.choice(CLASSES), 'bits': bits, 'k': [a, b, c], 'route': 'bin', 'lsb0': True}
                    if rng.random() < 0.15:
                        yield {'op': 'l0_slice', 'bits': bits, 'k': [a, b, c]}
        for i in range(-l - 3, l + 4):
            yield {'op': 'getitem', 'cls': rng.choice(CLASSES), 'bits': bits, 'i': i, 'route': rng.choice(ROUTES)}
            yield {'op': 'getitem', 'cls': rng.choice(CLASSES), 'bits': bits, 'i': i, 'route': 'bin', 'lsb0': True}
    N = 400 if tier == 'quick' else 6000
    for _ in range(N):
        l = rand_len(rng, tier)
        bits = rand_bits(rng, l)
        r = lambda: rng.choice([None, None, rng.randrange(-l - 3, l + 4), rng.randrange(-2 * l - 3, 2 * l + 4)])
        yield {'op': 'slice', 'cls': rng.choice(CLASSES), 'bits': bits, 'k': [r(), r(), rng.choice([None, 1, -1, 2, -2, 3, 7, -5, l + 1, -(l + 1), 1 << 70])], 'route': rng.choice(ROUTES)}
        if rng.random() < 0.4:
            yield {'op': 'slice', 'cls': rng.choice(CLASSES), 'bits': bits, 'k': [r(), r(), rng.choice([None, 1, -1, 2, -2, 3, -3, 7, -5, -7])], 'route': 'bin', 'lsb0': True}
        yield {'op': 'getitem', 'cls': rng.choice(CLASSES), 'bits': bits, 'i': rng.choice([0, -1, l - 1, l, -l, -l - 1, rng.randrange(-l - 2, l + 3), 1 << 65, -(1 << 65)]), 'route': rng.choice(ROUTES)}
        yield {'op': 'seq', 'cls': rng.choice(CLASSES), 'bits': bits, 'route': rng.choice(ROUTES), 'lsb0': rng.random() < 0.3}
        # concatenation
        l2 = rand_len(rng, tier)
        bits2 = rand_bits(rng, l2)
        kind = rng.choice(CLASSES + CLASSES + ['str', 'list', 'tuple', 'bitarray', 'bytes', 'bytearray'] + ITERATOR_KINDS)
        if kind in ('bytes', 'bytearray'): bits2 = bits2[:len(bits2) - len(bits2) % 8]
        yield {'op': rng.choice(['add', 'add', 'radd']) if kind not in CLASSES else 'add', 'cls': rng.choice(CLASSES), 'bits': bits, 'other': kind, 'bits2': bits2,
               'route': rng.choice(ROUTES), 'pos': rng.choice([None, 0, l // 2, l]), 'lsb0': rng.random() < 0.3}      # s.bin of a sum does not depend on the bit numbering
        # repetition
        n = rng.choice([-2, -1, 0, 1, 2, 3, 4, 5, 7, 8, 9, 15, 16, 17, 31, 33, 64, 70])
        lb = min(l, 130)
        yield {'op': rng.choice(['mul', 'rmul', 'imul']), 'cls': rng.choice(CLASSES), 'bits': bits[:lb], 'n': n, 'route': rng.choice(ROUTES), 'lsb0': rng.random() < 0.25}
        # the count as an object of another Integral kind (bool, int subclasses, IntEnum, fixed-width numpy integers whose own arithmetic would overflow: D67);
        # numpy scalars only on the right (on the left numpy's own __mul__ answers)
        if rng.random() < 0.5:
            from props import c16
            o = rng.choice(['mul', 'imul', 'rmul'])
            t = rng.choice(c16.NTYPES if o != 'rmul' else [x for x in c16.NTYPES if x not in c16.NP_TYPES])
            m = rng.choice([0, 1, 2, 3, 5, 17, 100, 120, 127, 200, 255, -1])
            if c16.ntype_ok('mul', 'pure', m, t):
                yield {'op': o, 'cls': rng.choice(CLASSES), 'bits': bits[:min(l, 24)], 'n': m, 'ntype': t, 'route': rng.choice(ROUTES), 'lsb0': rng.random() < 0.25}
    for n in [1000, 1023, 1024, 1025, 4097]:
        yield {'op': 'mul', 'cls': 'Bits', 'bits': rand_bits(rng, rng.randrange(1, 4)), 'n': n, 'route': 'bin'}
    # history: the result of an operation depends only on the operands' bits, hence not on what was evaluated earlier in the process. A case of any of the kinds
    # above is preceded by a prelude of boundary-valued expressions on unrelated objects (shifts by >= len, empty slices, s * 0, sums with empty operands, joins,
    # copies, cuts, zero-width reads, clear / delete-all, ...; results that are mutable are then edited in place); afterwards the case must still hold, every way of
    # making an empty bitstring must still give an empty one, and the sequence-level expressions of the prelude, evaluated again, must give what the model gives.
    for _ in range(300 if tier == 'quick' else 4000):
        yield gen_hist(rng, tier)
    # integers that are not small plain ints, wherever the sequence takes an integer (index, slice bound, step, repeat count; item assignment and deletion on
    # the mutable classes, refused on the others): every Integral kind, fixed-width kinds around the ends of their range, astronomically large values
    yield from gen_keys(rng, tier)

# ---------------------------------------------------------------------------------------------------------------------------------------------
# integers of every kind and size (ops 'kgetitem', 'kslice', 'kmul', 'ksetitem', 'kdelitem')
#
# A Python sequence takes ANY integer wherever it takes an integer: seq[k], seq[a:b:c], seq * n, seq[k] = x, del seq[k] answer for bool, IntEnum / IntFlag
# members, int subclasses (also with their own repr), numpy fixed-width scalars, gmpy2.mpz-like classes registered with numbers.Integral exactly as for the
# plain int of the same value, and for an int of any size (an index beyond range is IndexError however far beyond, a slice bound is clipped, a step of 10**5000
# selects one item, a negative count is ValueError) - never an exception caused by arithmetic in the caller's type or by printing the number.
# A key is JSON: {'t': kind or None, 'v': int} or {'t': kind or None, 'big': [sign, base, exp, add]} for sign * (base ** exp + add), so that a number of 20 000
# digits is never written out (json and str refuse beyond sys.get_int_max_str_digits()).  The oracle uses the plain int on a str / list of the bits.
# ---------------------------------------------------------------------------------------------------------------------------------------------
KEY_NP = {'np.int8': (-128, 127), 'np.int16': (-2 ** 15, 2 ** 15 - 1), 'np.int32': (-2 ** 31, 2 ** 31 - 1), 'np.int64': (-2 ** 63, 2 ** 63 - 1),
          'np.uint8': (0, 255), 'np.uint16': (0, 2 ** 16 - 1), 'np.uint32': (0, 2 ** 32 - 1), 'np.uint64': (0, 2 ** 64 - 1),
          'np.longlong': (-2 ** 63, 2 ** 63 - 1), 'np.ulonglong': (0, 2 ** 64 - 1)}
KEY_UNBOUNDED = [None, 'intsub', 'intsub_repr', 'intenum', 'reg_full', 'reg_min', 'index_only']       # kinds that hold an int of any size
KEY_KINDS = [None, 'bool', 'intsub', 'intsub_repr', 'intenum', 'intflag', 'reg_full', 'reg_min', 'index_only'] + list(KEY_NP)
VAL_KINDS = ['bool', 'int', 'str', 'bits', 'intsub', 'np.uint8', 'reg_full']                          # how the single bit assigned by s[k] = x is given

# KNOWN_OPEN: sub-classes that are NOT generated because the unchanged library gets them wrong (reported; remove a tag once the library is repaired / the
# finding is recorded and the sub-class is exercised from then on):
#  'lsb0_np_unsigned_item'        under options.lsb0, s[k] and del s[k] with a numpy unsigned scalar: getindex_lsb0 / delitem_lsb0 compute -k - 1 in the caller's
#                                 type, so Bits('0b01')[numpy.uint8(0)] raises IndexError, and on data longer than the type's range a wrong bit is returned / deleted
#                                 (setitem is fine: it converts with int(key) first).
#  'setitem_nonint_value_unprintable_index'   BitArray / BitStream s[k] = '0b1' (any str / bitstring value) with |k| >= 10**4300: _setitem_int builds its IndexError
#                                 message with the index in decimal, so ValueError (int -> str digit limit) escapes instead of IndexError.
#  'index_only'                   an object that has __index__ but is not registered with numbers.Integral (a 0-d numpy array, say): the library decides "index or
#                                 slice" with isinstance(key, numbers.Integral), so such a key is taken for a slice (AttributeError / a bitstring of 0 bits).
#  'reg_min_arith'                a class registered with numbers.Integral that has only __index__ / __int__ (no arithmetic, no comparisons): fine as an msb0 index,
#                                 slice bound and step; under lsb0 (-k - 1, step >= 0) and as a repeat count (n < 0) the library does arithmetic on the key -> TypeError.
#                                 (The kind 'reg_full', which has the arithmetic of an Integral, is generated everywhere.)
# 'lsb0_np_unsigned_item' and 'setitem_nonint_value_unprintable_index' were genuine defects of the pinned tree, repaired in /repo as D70 and D71: they are generated.
# The two that remain are undocumented kinds of key (the library documents int / numbers.Integral): not generated, not defects.
KNOWN_OPEN = {'index_only', 'reg_min_arith'}

UNPRINTABLE = 10 ** 4300           # the smallest int whose decimal form is refused under the default limit

def open_tag(op, lsb0, keys, val=None):
    """the KNOWN_OPEN sub-class a combination falls in (None: none)"""
    for k in keys:
        if k is None: continue
        t = k['t']
        if t == 'index_only': return 'index_only'
        if t == 'reg_min' and (lsb0 or op == 'kmul'): return 'reg_min_arith'
        if lsb0 and op in ('kgetitem', 'kdelitem') and t and t.startswith('np.u'): return 'lsb0_np_unsigned_item'
        if op == 'ksetitem' and val in ('str', 'bits') and 'big' in k and abs(key_val(k)) >= UNPRINTABLE: return 'setitem_nonint_value_unprintable_index'
    return None

def key_val(k):
    """the mathematical value of a key (None stays None)"""
    if k is None: return None
    if 'big' in k:
        s, b, e, a = k['big']
        return s * (b ** e + a)
    return k['v']

def key_fits(t, v):
    if t == 'bool': return v in (0, 1)
    if t == 'intflag': return 0 <= v < 2 ** 80
    if t in KEY_NP: return KEY_NP[t][0] <= v <= KEY_NP[t][1]
    return True

def have_numpy():
    try:
        import numpy  # noqa
        return True
    except Exception:
        return False

_KEY_CLASSES = {}

def _key_classes():
    """the integer classes that are not int subclasses (made once; registered with numbers.Integral like gmpy2.mpz registers itself)"""
    if _KEY_CLASSES: return _KEY_CLASSES
    import numbers, operator

    class RegMin:
        """registered with numbers.Integral, nothing but __index__ / __int__"""
        def __init__(self, v): self._v = v
        def __index__(self): return self._v
        def __int__(self): return self._v
        def __repr__(self): return 'RegMin(..)'

    class IndexOnly:
        """has __index__ (so every Python sequence takes it as an index), is not registered with numbers.Integral"""
        def __init__(self, v): self._v = v
        def __index__(self): return self._v
        def __repr__(self): return 'IndexOnly(..)'

    class RegFull:
        """an integer type of its own with the whole arithmetic of an Integral (results are again RegFull), not a subclass of int: what gmpy2.mpz is"""
        def __init__(self, v): self._v = operator.index(v)
        def __index__(self): return self._v
        def __int__(self): return self._v
        def __repr__(self): return 'RegFull(..)'
        def __hash__(self): return hash(self._v)
        def __bool__(self): return self._v != 0
        def __neg__(self): return RegFull(-self._v)
        def __pos__(self): return self
        def __abs__(self): return RegFull(abs(self._v))
        def __invert__(self): return RegFull(~self._v)
        def __float__(self): return float(self._v)
        def __trunc__(self): return self._v
        def __round__(self, n=None): return self._v

    def _binop(name):
        def f(self, o):
            try: o = operator.index(o)
            except TypeError: return NotImplemented
            r = getattr(self._v, name)(o)
            return RegFull(r) if type(r) is int else r
        f.__name__ = name
        return f
    for n in ['add', 'sub', 'mul', 'floordiv', 'mod', 'pow', 'lshift', 'rshift', 'and', 'or', 'xor', 'radd', 'rsub', 'rmul', 'rfloordiv', 'rmod', 'rlshift', 'rrshift',
              'rand', 'ror', 'rxor', 'lt', 'le', 'gt', 'ge', 'eq', 'ne']:
        setattr(RegFull, f'__{n}__', _binop(f'__{n}__'))
    RegFull.__hash__ = lambda self: hash(self._v)
    numbers.Integral.register(RegMin)
    numbers.Integral.register(RegFull)
    _KEY_CLASSES.update(reg_min=RegMin, reg_full=RegFull, index_only=IndexOnly)
    return _KEY_CLASSES

def key_obj(k):
    """the key as the object handed to the library"""
    if k is None: return None
    v, t = key_val(k), k['t']
    if t is None: return v
    if t in ('reg_min', 'reg_full', 'index_only'): return _key_classes()[t](v)
    if t in KEY_NP:
        import numpy
        return getattr(numpy, t[3:])(v)
    from props import c16
    return c16.as_count(v, t)

def key_txt(k):
    if k is None: return ''
    t = k['t'] or 'int'
    if 'big' in k:
        s, b, e, a = k['big']
        return f"{t}({'-' if s < 0 else ''}({b}**{e}{a:+d}))"
    return f"{t}({k['v']})"

def _slice_txt(ks):
    return ':'.join(key_txt(k) for k in ks)

def small_key(t, v):
    return {'t': t, 'v': v}

BIG_SHAPES = [(2, 31, -1), (2, 31, 0), (2, 32, 0), (2, 63, -1), (2, 63, 0), (2, 63, 1), (2, 64, -1), (2, 64, 0), (2, 64, 1), (2, 70, 0), (2, 128, 0), (10, 400, 0),
              (10, 4299, -1), (10, 4299, 0), (10, 4300, -1), (10, 4300, 0), (10, 4300, 1), (2, 14284, 0), (2, 14285, 0), (10, 4400, 0), (10, 5000, 7), (16, 4000, 0),
              (10, 20000, 0), (2, 70000, -1), (7, 9001, 3)]

def big_key(rng, t=None, sign=None, beyond_print=False):
    """a key far beyond any length: the boundaries of the C integer types and of the decimal-printing limit (4300 digits), and random powers"""
    if rng.random() < 0.7:
        shapes = [s for s in BIG_SHAPES if not beyond_print or (s[0] ** s[1] + s[2]) >= UNPRINTABLE]
        b, e, a = rng.choice(shapes)
    else:
        b = rng.choice([2, 3, 10, 10, 16, 255]); a = rng.choice([0, 0, 1, -1, rng.randrange(-1000, 1000)])
        digits = rng.choice([rng.randrange(4301, 4400), rng.randrange(4301, 30000)] if beyond_print else [rng.randrange(20, 400), rng.randrange(4200, 4400), rng.randrange(4301, 30000)])
        import math
        e = int(digits / math.log10(b)) + 2
    return {'t': t, 'big': [sign if sign is not None else rng.choice([1, -1]), b, e, a]}

def key_candidates(t, l):
    """the values worth trying as a key of kind t on l bits: every position in and just beyond range, the ends of the type's own range, the usual binary boundaries"""
    vs = set(range(-l - 2, l + 2)) | {-2 * l - 1, 2 * l + 1}
    if t in KEY_NP:
        lo, hi = KEY_NP[t]
        vs |= {lo, lo + 1, hi - 1, hi, hi // 2, hi // 2 + 1, lo // 2}
    vs |= {127, 128, -128, -129, 255, 256, -256, 32767, 32768, -32768, 65535, 65536}
    return sorted(v for v in vs if key_fits(t, v))

def usable_kinds(op, lsb0, numpy_ok=True):
    return [t for t in KEY_KINDS if (numpy_ok and have_numpy() or t not in KEY_NP) and open_tag(op, lsb0, [{'t': t, 'v': 0}]) not in KNOWN_OPEN]

def rand_key(rng, op, lsb0, l, t='any', numpy_ok=True):
    """a key of a random (or the given) kind with a value in or just beyond the range of l bits, or at an end of the kind's own range"""
    if t == 'any': t = rng.choice(usable_kinds(op, lsb0, numpy_ok))
    cands = key_candidates(t, l)
    near = [v for v in cands if -l - 2 <= v <= l + 1]
    return small_key(t, rng.choice(near if near and rng.random() < 0.8 else cands))

def _kcase(op, rng, cls, bits, lsb0, route=None, **kw):
    c = {'op': op, 'cls': cls, 'bits': bits, 'route': route or (rng.choice(ROUTES) if len(bits) < 5000 and rng.random() < 0.5 else rng.choice(PLAIN_ROUTES)), 'lsb0': bool(lsb0)}
    c.update(kw)
    return c

def _emit(c):
    """drop a combination that falls in a KNOWN_OPEN sub-class"""
    keys = [c['key']] if 'key' in c else c['k'] if 'k' in c else [c['n']]
    return None if open_tag(c['op'], c['lsb0'], keys, c.get('val')) in KNOWN_OPEN else c

def item_cases(rng, cls, bits, lsb0, key, route=None, ops=('kgetitem', 'ksetitem', 'kdelitem')):
    """the single-item operations with one key on one content: read it; assign a bit given in some form; delete it (the immutable classes must refuse both)"""
    for op in ops:
        kw = {'key': key}
        if op == 'ksetitem': kw.update(val=rng.choice(VAL_KINDS if have_numpy() else [v for v in VAL_KINDS if not v.startswith('np.')]), bit=rng.choice([0, 1]))
        c = _emit(_kcase(op, rng, cls, bits, lsb0, route, **kw))
        if c: yield c

def gen_keys(rng, tier):
    quick = tier == 'quick'
    np_ok = have_numpy()
    # (1) astronomically large values, both signs, as index / slice bound / step / repeat count, plain and wrapped in the kinds that can hold them
    for _ in range(260 if quick else 5000):
        yield from rand_big_cases(rng, tier)
    # (2) every kind x every class x both numberings: every position in and just beyond range of a short content, by all three item operations
    for t in KEY_KINDS:
        if t in KEY_NP and not np_ok: continue
        for cls in CLASSES:
            for lsb0 in (False, True):
                for l in ([rng.choice([1, 2, 3, 4, 5])] if quick else [rng.choice([1, 2, 3]), rng.choice([4, 5, 7, 8]), rng.choice([9, 15, 16, 17, 33])]):
                    bits = rand_bits(rng, l, 'rand')
                    for v in range(-l - 2, l + 2):
                        if not key_fits(t, v): continue
                        yield from item_cases(rng, cls, bits, lsb0, small_key(t, v), ops=('kgetitem',))
                        if cls in MUTABLE or rng.random() < 0.25: yield from item_cases(rng, cls, bits, lsb0, small_key(t, v), ops=('ksetitem', 'kdelitem'))
    # (3) contents longer than a fixed-width kind can count (and as long as it can just count): keys at the ends of the kind's range and of the content
    lens = [126, 127, 128, 129, 130, 254, 255, 256, 257, 258, 300] + ([32767, 32769, 65536] if quick else [32766, 32767, 32768, 32769, 65534, 65535, 65536, 65537, 70001])
    for l in lens:
        bits = rand_bits(rng, l, 'rand')
        for t in [t for t in KEY_KINDS if t not in ('bool',)]:
            if t in KEY_NP and not np_ok: continue
            if l > 300 and t not in ('np.int16', 'np.uint16', 'np.int8', 'np.uint8', 'reg_full', 'intenum') and rng.random() < 0.7: continue
            cands = [v for v in key_candidates(t, l) if not -l + 2 < v < l - 2 or abs(v) in (0, 1, 2, 3, 126, 127, 128, 129, 254, 255, 256, 32767, 32768, 65535)]
            for v in (rng.sample(cands, min(len(cands), 5 if quick else 14))):
                cls = rng.choice(CLASSES); lsb0 = rng.random() < 0.4
                yield from item_cases(rng, cls, bits, lsb0, small_key(t, v), route='bin' if l > 5000 else None, ops=('kgetitem',) if l > 300 and rng.random() < 0.6 else ('kgetitem', 'ksetitem', 'kdelitem'))
                if l <= 300 or rng.random() < 0.3:
                    k = [None, None, None]; k[rng.randrange(3)] = small_key(t, v)
                    if rng.random() < 0.5: k[rng.randrange(3)] = rand_key(rng, 'kslice', lsb0, l, t)
                    c = _emit(_kcase('kslice', rng, cls, bits, lsb0, 'bin' if l > 5000 else None, k=k))
                    if c: yield c
    # (4) the mix: any kind, any operation, boundary lengths, every construction route, stream positions
    for _ in range(500 if quick else 9000):
        c = rand_key_case(rng, tier)
        if c: yield c

def rand_big_cases(rng, tier):
    l = rng.choice([0, 0, 1, 1, 2, 4, 8, 9, 64, 65, rand_len(rng, tier)])
    bits = rand_bits(rng, l); cls = rng.choice(CLASSES); lsb0 = rng.random() < 0.35
    t = rng.choice([None, None, None, 'intsub', 'intsub_repr', 'intenum', 'reg_full', 'reg_min', 'index_only'])
    r = rng.random()
    if r < 0.4:
        return list(item_cases(rng, cls, bits, lsb0, big_key(rng, t, beyond_print=rng.random() < 0.5)))
    if r < 0.8:
        k = [rng.choice([None, None, rand_key(rng, 'kslice', lsb0, l, None)]) for _ in range(3)]
        for j in rng.sample(range(3), rng.choice([1, 1, 2, 3])): k[j] = big_key(rng, t, beyond_print=rng.random() < 0.5)
        c = _emit(_kcase('kslice', rng, cls, bits, lsb0, k=k))
        return [c] if c else []
    # a huge count: negative on any content (ValueError), positive only on empty content (nothing to allocate; the result is empty)
    sign = -1 if l else rng.choice([1, 1, -1])
    c = _emit(_kcase('kmul', rng, cls, bits[:130], lsb0, n=big_key(rng, t, sign=sign, beyond_print=rng.random() < 0.5), form=rng.choice(['mul', 'rmul', 'imul'])))
    return [c] if c else []

def rand_key_case(rng, tier, l=None):
    l = rand_len(rng, tier) if l is None else l
    bits = rand_bits(rng, l); cls = rng.choice(CLASSES); lsb0 = rng.random() < 0.35
    pos = rng.choice([None, None, 0, l // 2, l])
    r = rng.random()
    if r < 0.35:
        for c in item_cases(rng, cls, bits, lsb0, rand_key(rng, 'kgetitem', lsb0, l), ops=[rng.choice(['kgetitem', 'kgetitem', 'ksetitem', 'kdelitem'])]):
            c['pos'] = pos
            return c
        return None
    if r < 0.75:
        k = [rng.choice([None, rand_key(rng, 'kslice', lsb0, l), rand_key(rng, 'kslice', lsb0, l, rng.choice([None, 'any']))]) for _ in range(3)]
        if all(x is None or x['t'] is None for x in k): k[rng.randrange(3)] = rand_key(rng, 'kslice', lsb0, l, rng.choice(usable_kinds('kslice', lsb0)[1:]))
        if k[2] is not None and rng.random() < 0.6: k[2] = small_key(k[2]['t'], rng.choice([v for v in [1, -1, 2, -2, 3, -3, 0, l, -l, l + 1, 127, 255, -128] if key_fits(k[2]['t'], v)]))
        return _emit(_kcase('kslice', rng, cls, bits, lsb0, k=k, pos=pos))
    form = rng.choice(['mul', 'rmul', 'imul'])
    t = rng.choice(usable_kinds('kmul', lsb0, numpy_ok=form != 'rmul'))         # numpy scalars only on the right (on the left numpy's own __mul__ answers)
    lb = min(l, 40)
    ns = [v for v in [0, 1, 2, 3, 5, 8, 17, 100, 127, 128, 200, 255, 256, -1, -2, -128] + ([KEY_NP[t][0]] if t in KEY_NP else []) if key_fits(t, v) and v * lb <= 12000]
    return _emit(_kcase('kmul', rng, cls, bits[:lb], lsb0, n=small_key(t, rng.choice(ns)), form=form))

def kind(c):
    return c['op'] if c['op'] != 'hist' else 'hist:' + c['base']['op']

# ---------------------------------------------------------------------------------------------------------------------------------------------
# histories (op 'hist')
# ---------------------------------------------------------------------------------------------------------------------------------------------
EMPTY_HOWS = ['()', 'str', 'bin', 'length0', 'int0', 'bytes', 'list', 'hex', 'b', 'copyof', 'slice_of_empty', 'cls_of_empty']
REF_VERBS = ['empty', 'new', 'slice', 'mul', 'rmul', 'add', 'radd']                     # judged by the sequence model when evaluated again
FREE_VERBS = ['lshift', 'rshift', 'ilshift', 'irshift', 'imul', 'iadd', 'join', 'copy', 'invert', 'bitop', 'cut', 'split', 'clear', 'delall', 'setempty',
              'append_empty', 'prepend_empty', 'unpack0', 'read0', 'pack', 'replace', 'reverse', 'zeros', 'insert_empty', 'rstrip']   # only evaluated (other properties judge them)
MUTABLE_VERBS = ['clear', 'delall', 'setempty', 'append_empty', 'prepend_empty', 'insert_empty', 'replace', 'reverse', 'rstrip']
EDITS = ['append', 'prepend', 'iadd', 'insert', 'setslice', 'setbin', 'imul', 'invert', 'set', 'clear', 'ilshift', 'overwrite', 'none', 'none']
PLAIN_ROUTES = ['bin', 'auto', 'iter', 'bitarray', 'slice', 'copy', 'join', 'bytes']

def _small_bits(rng):
    return rand_bits(rng, rng.choice([0, 0, 1, 1, 2, 3, 4, 5, 7, 8, 8, 9, 15, 16, 17, 24, 33, 64, 65, rand_len(rng, 'quick')]))

def gen_expr(rng, verbs=None):
    """One expression on a fresh object (JSON); the boundary values of every argument are favoured."""
    v = rng.choice(verbs or (REF_VERBS + REF_VERBS[2:] + FREE_VERBS + ['lshift', 'rshift', 'copy', 'join']))
    e = {'e': v, 'cls': rng.choice(MUTABLE if v in MUTABLE_VERBS else ['ConstBitStream', 'BitStream'] if v == 'read0' else CLASSES), 'lsb0': rng.random() < 0.2}
    if v == 'empty':
        e['how'] = rng.choice(EMPTY_HOWS); return e
    bits = _small_bits(rng); l = len(bits)
    e['bits'] = bits; e['route'] = rng.choice(PLAIN_ROUTES)
    bound = lambda: rng.choice([0, 0, 1, l - 1, l, l, l + 1, 2 * l, 2 * l + 1, 64, 200, 65536, (1 << 31) - 1, 1 << 31, (1 << 63) - 1, 1 << 64, -1])
    if v == 'slice':
        p = lambda: rng.choice([None, 0, 1, l // 2, l - 1, l, l + 1, -1, -l, -l - 1, 2 * l + 3])
        r = rng.random()
        if r < 0.5:
            a = p(); e['k'] = [a, rng.choice([a, a, 0, None if a in (None, 0) else 0, p()]), rng.choice([None, 1, 1, 2, -1])]    # mostly empty results
        else: e['k'] = [p(), p(), rng.choice([None, 1, -1, 2, -2, 3, l + 1, 0])]
    elif v in ('mul', 'rmul', 'imul'): e['n'] = rng.choice([0, 0, 0, 1, 1, 2, 3, -1])
    elif v in ('lshift', 'rshift', 'ilshift', 'irshift'): e['n'] = bound()
    elif v in ('add', 'radd', 'iadd'):
        k = rng.choice(CLASSES + ['str', 'str', 'list', 'tuple', 'bitarray', 'bytes', 'gen'])
        if v == 'radd' and k in CLASSES: k = 'str'
        b2 = rng.choice(['', '', '', '1', '0', '101', '00000000', _small_bits(rng)])
        if k == 'bytes': b2 = b2[:len(b2) - len(b2) % 8]
        e['other'] = k; e['bits2'] = b2
    elif v == 'join': e['items'] = [rng.choice(['', '', '1', '0', '10', _small_bits(rng)[:9]]) for _ in range(rng.choice([0, 0, 1, 2, 3]))]; e['as'] = rng.choice(['bits', 'str', 'own'])
    elif v == 'copy': e['how'] = rng.choice(['copy', 'copy.copy', '[:]', 'cls', 'deepcopy', '__copy__'])
    elif v == 'bitop': e['which'] = rng.choice('&|^'); e['bits2'] = rand_bits(rng, l)
    elif v == 'cut': e['n'] = rng.choice([1, 2, max(l, 1), l + 1, 8]); e['count'] = rng.choice([None, 0, 1])
    elif v == 'split': e['delim'] = rng.choice(['1', '0', '11', bits[:2] or '1', '10101010101']); e['count'] = rng.choice([None, 0, 1])
    elif v == 'unpack0': e['fmt'] = rng.choice(['bits:0, bits', 'bits', 'bits:0', 'bin:0, bits', 'pad:0, bits:0', 'hex:0'])
    elif v == 'read0': e['how'] = rng.choice(['read(0)', "read('bits:0')", "readlist('bits:0, bits:0')", 'peek(0)', 'read(len)', 'read(rest) at end', "readlist('bits')", 'readto'])
    elif v == 'pack': e['how'] = rng.choice(["''", 'bits', 'bits:0', 'list'])
    elif v == 'replace': e['old'] = rng.choice(['1', '0', bits[:3] or '1']); e['new'] = rng.choice(['', '', '1'])
    elif v == 'zeros': e['n'] = rng.choice([0, 0, 1, 3, 8, 9, 64]); e['how'] = rng.choice(['int', 'length', 'uint0', 'bin'])
    elif v == 'rstrip': e['how'] = rng.choice(['del_front', 'del_back', 'del_mid'])
    return e

def gen_step(rng):
    e = gen_expr(rng)
    e['edit'] = rng.choice(EDITS)
    return e

def gen_base(rng, tier):
    """an ordinary case of one of the kinds above (small and boundary lengths)"""
    l = rng.choice([0, 0, 1, 2, 3, 5, 7, 8, 9, 16, 17, 33, 64, 65, rand_len(rng, tier)])
    bits = rand_bits(rng, l); cls = rng.choice(CLASSES); route = rng.choice(ROUTES if rng.random() < 0.3 else PLAIN_ROUTES)
    r = lambda: rng.choice([None, None, 0, l, rng.randrange(-l - 3, l + 4)])
    if rng.random() < 0.2:                    # an integer of another kind or size as index / bound / step / count
        kc = rand_big_cases(rng, tier) if rng.random() < 0.3 else [rand_key_case(rng, tier, l)]
        if kc and kc[0]: return kc[0]
    op = rng.choice(['slice', 'getitem', 'seq', 'add', 'radd', 'mul', 'mul', 'rmul', 'imul'])
    lsb0 = rng.random() < 0.2
    if op == 'slice':
        return {'op': 'slice', 'cls': cls, 'bits': bits, 'k': [r(), r(), rng.choice([None, 1, -1, 2, -2, 3, -3, l + 1])], 'route': 'bin' if lsb0 else route, **({'lsb0': True} if lsb0 else {})}
    if op == 'getitem':
        return {'op': 'getitem', 'cls': cls, 'bits': bits, 'i': rng.choice([0, -1, l - 1, l, -l, -l - 1]), 'route': 'bin' if lsb0 else route, **({'lsb0': True} if lsb0 else {})}
    if op == 'seq': return {'op': 'seq', 'cls': cls, 'bits': bits, 'route': route, 'lsb0': lsb0}
    if op in ('add', 'radd'):
        k = rng.choice(CLASSES + ['str', 'list', 'tuple', 'bitarray', 'bytes'] + ITERATOR_KINDS[:2])
        if op == 'radd' and k in CLASSES: op = 'add'
        b2 = rng.choice(['', '', '1', _small_bits(rng)])
        if k == 'bytes': b2 = b2[:len(b2) - len(b2) % 8]
        return {'op': op, 'cls': cls, 'bits': bits, 'other': k, 'bits2': b2, 'route': route, 'pos': rng.choice([None, 0, l]), 'lsb0': lsb0}
    return {'op': op, 'cls': cls, 'bits': bits[:130], 'n': rng.choice([0, 0, 0, 1, 2, 3, -1]), 'route': route, 'lsb0': lsb0}

def gen_hist(rng, tier):
    prelude = [gen_step(rng) for _ in range(rng.choice([1, 2, 3, 4, 6, 8, 12, 16, 24]))]
    probes = []
    for cls in rng.sample(CLASSES, 2):                    # every way of making an empty object of two classes, and the empty results of the sequence operations
        for how in EMPTY_HOWS: probes.append({'e': 'empty', 'cls': cls, 'how': how})
    for cls in CLASSES:
        b = _small_bits(rng); l = len(b)
        probes.append({'e': rng.choice(['mul', 'rmul']), 'cls': cls, 'bits': b, 'route': 'bin', 'n': 0})
        probes.append({'e': 'slice', 'cls': cls, 'bits': b, 'route': 'bin', 'k': rng.choice([[l, None, None], [None, 0, None], [l // 2, l // 2, None], [l, 0, 2], [0, l, -1], [2 * l + 1, None, None]])})
        probes.append({'e': rng.choice(['add', 'radd']), 'cls': cls, 'bits': '', 'route': rng.choice(['bin', 'auto']), 'other': 'str', 'bits2': ''})
    for e in prelude:                                      # the sequence-level expressions of the prelude once more
        if e['e'] in REF_VERBS: probes.append({k: v for k, v in e.items() if k not in ('edit', 'lsb0')})
    for _ in range(3): probes.append(gen_expr(rng, REF_VERBS)); probes[-1].pop('lsb0', None)
    return {'op': 'hist', 'prelude': prelude, 'base': gen_base(rng, tier), 'probes': probes, 'plsb0': rng.random() < 0.2}

def _operand(kind, bits):
    return build(kind, bits, 'bin') if kind in CLASSES else promotable(bits, kind)

LAST_OPERAND = None

def eval_expr(e):
    """Evaluate one expression on the implementation: the object (or list of objects) it yields."""
    import bitstring, copy
    C = cls_of(e['cls']); v = e['e']
    if v == 'empty':
        h = e['how']
        if h == '()': return C()
        if h == 'str': return C('')
        if h == 'bin': return C(bin='')
        if h == 'length0': return C(length=0)
        if h == 'int0': return C(0)
        if h == 'bytes': return C(bytes=b'')
        if h == 'list': return C([])
        if h == 'hex': return C(hex='')
        if h == 'b': return C(b'')
        if h == 'copyof': return C().copy()
        if h == 'slice_of_empty': return C()[:]
        if h == 'cls_of_empty': return C(C())
        raise AssertionError(h)
    global LAST_OPERAND
    s = LAST_OPERAND = build(e['cls'], e['bits'], e.get('route', 'bin'))
    if v == 'new': return s
    if v == 'slice': a, b, st = e['k']; return s[a:b:st]
    if v == 'mul': return s * e['n']
    if v == 'rmul': return e['n'] * s
    if v == 'imul': s *= e['n']; return s
    if v == 'add': return s + _operand(e['other'], e['bits2'])
    if v == 'radd': return _operand(e['other'], e['bits2']) + s
    if v == 'iadd': s += _operand(e['other'], e['bits2']); return s
    if v == 'lshift': return s << e['n']
    if v == 'rshift': return s >> e['n']
    if v == 'ilshift': s <<= e['n']; return s
    if v == 'irshift': s >>= e['n']; return s
    if v == 'join':
        items = [bitstring.Bits(bin=x) if e['as'] == 'bits' else C(bin=x) if e['as'] == 'own' else ('0b' + x if x else '') for x in e['items']]
        return s.join(items)
    if v == 'copy':
        h = e['how']
        return s.copy() if h == 'copy' else copy.copy(s) if h == 'copy.copy' else s[:] if h == '[:]' else C(s) if h == 'cls' else copy.deepcopy(s) if h == 'deepcopy' else s.__copy__()
    if v == 'invert': return ~s
    if v == 'bitop':
        o = bitstring.Bits(bin=e['bits2'])
        return s & o if e['which'] == '&' else s | o if e['which'] == '|' else s ^ o
    if v == 'cut': return list(s.cut(e['n'], count=e['count']))
    if v == 'split': return list(s.split('0b' + e['delim'], count=e['count']))
    if v == 'clear': s.clear(); return s
    if v == 'delall': del s[:]; return s
    if v == 'setempty': s[:] = ''; return s
    if v == 'append_empty': s.append(''); return s
    if v == 'prepend_empty': s.prepend(C()); return s
    if v == 'insert_empty': s.insert('', 0); return s
    if v == 'unpack0': return [x for x in s.unpack(e['fmt']) if isinstance(x, bitstring.Bits)]
    if v == 'read0':
        h = e['how']
        if h == 'read(0)': return s.read(0)
        if h == "read('bits:0')": return s.read('bits:0')
        if h == "readlist('bits:0, bits:0')": return s.readlist('bits:0, bits:0')
        if h == 'peek(0)': return s.peek(0)
        if h == 'read(len)': s.read(len(s)); return s.read(0)
        if h == 'read(rest) at end': s.pos = len(s); return s.read('bits')
        if h == "readlist('bits')": s.pos = len(s); return s.readlist('bits')
        if h == 'readto': return s.readto('0b1')
        raise AssertionError(h)
    if v == 'pack':
        h = e['how']
        if h == "''": return bitstring.pack('')
        if h == 'bits': return bitstring.pack('bits', C())
        if h == 'bits:0': return bitstring.pack('bits:0', s[0:0])
        return bitstring.pack([])
    if v == 'replace': s.replace('0b' + e['old'], ('0b' + e['new']) if e['new'] else C()); return s
    if v == 'reverse': s.reverse(); return s
    if v == 'zeros':
        n, h = e['n'], e['how']
        return C(n) if h == 'int' else C(length=n) if h == 'length' else C(uint=0, length=n) if h == 'uint0' else C(bin='0' * n)
    if v == 'rstrip':
        l = len(s)
        if e['how'] == 'del_front': del s[:l]
        elif e['how'] == 'del_back': del s[-l:]
        else: del s[0:l:1]
        return s
    raise AssertionError(v)

def apply_edit(r, edit):
    """edit a result in place when it is a mutable bitstring (a result that shares anything with the library's own objects shows afterwards)"""
    import bitstring
    if not isinstance(r, bitstring.BitArray) or edit == 'none': return
    if edit == 'append': r.append('0b1')
    elif edit == 'prepend': r.prepend('0b10')
    elif edit == 'iadd': r += bitstring.Bits('0b011')
    elif edit == 'insert': r.insert('0b1', 0)
    elif edit == 'setslice': r[0:0] = '0b11'
    elif edit == 'setbin': r.bin = '1101'
    elif edit == 'imul': r.append('0b10'); r *= 2
    elif edit == 'invert': r.append('0b0'); r.invert()
    elif edit == 'set': r.append('0b00'); r.set(True)
    elif edit == 'clear': r.clear(); r.append('0b111')
    elif edit == 'ilshift': r.append('0b01'); r <<= 1
    elif edit == 'overwrite': r.append('0b000'); r.overwrite('0b11', 0)

def ref_expr(e):
    """what the sequence model (the property text on str) gives for a sequence-level expression, evaluated under msb0: ('ok', class, bits) / ('err', name)"""
    v = e['e']
    if v == 'empty': return ('ok', e['cls'], '')
    bits = e['bits']
    if v == 'new': return ('ok', e['cls'], bits)
    if v == 'slice':
        a, b, st = e['k']
        try: return ('ok', e['cls'], bits[a:b:st])
        except ValueError: return ('err', 'ValueError')
    if v in ('mul', 'rmul'):
        return ('err', 'ValueError') if e['n'] < 0 else ('ok', e['cls'], bits * e['n'])
    if v == 'add': return ('ok', e['cls'], bits + e['bits2'])
    if v == 'radd': return ('ok', e['cls'], e['bits2'] + bits)
    raise AssertionError(v)

PROBE_IDX = [0, -1, 1, -2, 8]

def seq_view(bits, lsb0):
    return bits[::-1] if lsb0 else bits

def probe_obj(r, L):
    """everything the property says about one object: class, bits, len, truth value, iteration, indexing in and beyond range, slices, sums and products of it"""
    def idx(i):
        try: return bool(r[i])
        except IndexError: return 'IndexError'
    return [type(r).__name__, r.bin, len(r), bool(r), ''.join('1' if x else '0' for x in r), [idx(i) for i in PROBE_IDX + [L - 1, L, -L, -L - 1]],
            r[::-1].bin, r[1:].bin, (r + '0b1').bin, ('0b10' + r).bin, (r * 2).bin, (r * 0).bin, (0 * r).bin, (r + type(r)()).bin, len(type(r)()), type(r * 0).__name__]

def ref_probe(cls, bits, lsb0):
    sv = seq_view(bits, lsb0); L = len(bits)
    def idx(i): return (sv[i] == '1') if -L <= i < L else 'IndexError'
    back = lambda x: x[::-1] if lsb0 else x
    return [cls, bits, L, L != 0, sv, [idx(i) for i in PROBE_IDX + [L - 1, L, -L, -L - 1]],
            back(sv[::-1]), back(sv[1:]), bits + '1', '10' + bits, bits * 2, '', '', bits, 0, cls, None]

PROBE_NAMES = ['class', '.bin', 'len', 'bool', 'iteration', 'indexing at ' + str(PROBE_IDX) + ' and around the ends', '[::-1]', '[1:]', "+ '0b1'", "'0b10' +", '* 2', '* 0', '0 *', '+ cls()', 'len(cls())', 'class of * 0', 'the operand afterwards']

def describe(e):
    v = e['e']
    if v == 'empty': return f"{e['cls']} made empty by {e['how']}"
    s = f"{e['cls']}({e['bits']!r})"
    if v == 'new': return f"{s} via {e.get('route')}"
    if v == 'slice': return f"{s}[{e['k'][0]}:{e['k'][1]}:{e['k'][2]}]"
    if v in ('mul', 'imul'): return f"{s} {'*=' if v == 'imul' else '*'} {e['n']}"
    if v == 'rmul': return f"{e['n']} * {s}"
    if v in ('add', 'iadd'): return f"{s} {'+=' if v == 'iadd' else '+'} {e['other']}({e['bits2']!r})"
    if v == 'radd': return f"{e['other']}({e['bits2']!r}) + {s}"
    if v in ('lshift', 'rshift', 'ilshift', 'irshift'): return f"{s} {'<<' if 'l' == v.lstrip('i')[0] else '>>'}{'=' if v[0] == 'i' else ''} {e['n']}"
    extra = {k: x for k, x in e.items() if k not in ('e', 'cls', 'bits', 'route', 'edit', 'lsb0')}
    return f"{s}.{v}{extra if extra else ''}"

FIRST_CULPRIT = None        # diagnostic: the first prelude step of this process after which empty bitstrings were no longer empty

def run_hist(c):
    import bitstring
    def f():
        # diagnostic only: were empties already not empty when this case started (state left behind by an earlier case of this process)?
        def off():
            try: return [len(cls_of(k)()) for k in CLASSES] + [len(bitstring.Bits('0b1') * 0), len(bitstring.BitArray('0b1')[1:])] != [0] * 6
            except Exception: return True
        before = off(); culprit = None
        for ei, e in enumerate(c['prelude']):
            if culprit is None and not before and ei and off(): culprit = ei - 1
            bitstring.options.lsb0 = bool(e.get('lsb0'))
            try:
                r = with_alarm(lambda: eval_expr(e), 3)
                for x in (r if isinstance(r, (list, tuple)) else [r]): apply_edit(x, e.get('edit', 'none'))
            except Exception:
                pass                  # what a prelude expression gives or raises is not judged here (the sequence-level ones are evaluated again below)
        bitstring.options.lsb0 = False
        if culprit is None and not before and c['prelude'] and off(): culprit = len(c['prelude']) - 1
        global FIRST_CULPRIT
        if culprit is not None and FIRST_CULPRIT is None: FIRST_CULPRIT = describe(c['prelude'][culprit]) + (' [lsb0]' if c['prelude'][culprit].get('lsb0') else '')
        if before: before = FIRST_CULPRIT or True
        base = run_impl(c['base'])
        lsb0 = bool(c.get('plsb0'))
        out = []
        for e in c['probes']:
            bitstring.options.lsb0 = False
            ref = ref_expr(e)
            def g():
                r = eval_expr(e)                      # evaluated under msb0, probed under the numbering of the case
                bitstring.options.lsb0 = lsb0
                p = probe_obj(r, len(ref[2]) if ref[0] == 'ok' else 0)
                return p + [LAST_OPERAND.bin if e['e'] != 'empty' else '']          # the operand still holds its bits after all that
            out.append(attempt(g))
        bitstring.options.lsb0 = False
        return [base, out, before, culprit]
    return attempt(f, 30)

def oracle_hist(c, obs):
    pre = '; '.join(describe(e) + (f" then {e['edit']} on the result" if e.get('edit', 'none') != 'none' else '') + (' [lsb0]' if e.get('lsb0') else '') for e in c['prelude'])
    pre = f"after the unrelated expressions {{{pre[:400]}}} "
    if obs[0] != 'ok': return pre + f"the case could not be run: {obs}"
    base, out, before, culprit = obs[1]
    if culprit is not None: pre = f"after the unrelated expression {{{describe(c['prelude'][culprit])}{' [lsb0]' if c['prelude'][culprit].get('lsb0') else ''}}} (step {culprit + 1} of a prelude of {len(c['prelude'])}; empty bitstrings stopped being empty right after it) "
    if before: pre = ("(empty bitstrings were already not empty when this case started: state left behind by an earlier case of this run"
                      + (f", they stopped being empty right after its prelude step {{{before}}}" if isinstance(before, str) else '') + ") " + pre)
    base = tuple(base) if isinstance(base, list) else base
    m = oracle(c['base'], base)
    if m: return pre + m
    lsb0 = bool(c.get('plsb0'))
    for e, o in zip(c['probes'], out):
        ref = ref_expr(e)
        o = tuple(o) if isinstance(o, list) else o
        if ref[0] == 'err':
            if o != ref: return pre + f"{describe(e)} should raise {ref[1]}, got {str(o)[:120]}"
            continue
        exp = ref_probe(ref[1], ref[2], lsb0)
        exp[-1] = e.get('bits', '')
        if o[0] != 'ok': return pre + f"probing {describe(e)} raised {o}; the model gives {ref[2]!r}"
        for name, g, x in zip(PROBE_NAMES, o[1], exp):
            if g != x:
                return pre + f"{describe(e)}{' probed under lsb0' if lsb0 else ''}: {name} gives {str(g)[:100]!r}, the sequence model gives {str(x)[:100]!r} (the expression itself must give {ref[2][:64]!r} of class {ref[1]})"
    return None

KEY_OPS = ('kgetitem', 'kslice', 'kmul', 'ksetitem', 'kdelitem')

def _try(fn):
    """['ok', value] / ['err', name] of one call inside a case (the watchdog of the case stays armed)"""
    try: return ['ok', fn()]
    except Hang: raise
    except BaseException as e:  # noqa
        if isinstance(e, (KeyboardInterrupt, SystemExit)): raise
        return ['err', exn_name(e)]

def _view(r):
    """what a single-item read returned: a real bool as ['bool', r], a bitstring as [class, bits], anything else by its type"""
    import bitstring
    if type(r) is bool: return ['bool', r]
    if isinstance(r, bitstring.Bits): return [type(r).__name__, r.bin[:200]]
    return [type(r).__name__, None]

def _bit_value(valkind, bit):
    """the bit to assign, in the form valkind"""
    import bitstring
    if valkind == 'bool': return bool(bit)
    if valkind == 'int': return bit
    if valkind == 'str': return '0b1' if bit else '0b0'
    if valkind == 'bits': return bitstring.Bits(bin=str(bit))
    return key_obj({'t': valkind, 'v': bit})

def run_key(c):
    import warnings
    with warnings.catch_warnings():
        warnings.simplefilter('ignore')          # numpy announces the wrap-around of fixed-width arithmetic on stderr; only the outcome is judged
        return _run_key(c)

def _run_key(c):
    import bitstring
    op = c['op']
    s = build(c['cls'], c['bits'], c['route'], c.get('pos'))
    if c.get('lsb0'): bitstring.options.lsb0 = True          # the object is built under msb0; only the operation runs under lsb0 (reset by the driver)
    if op == 'kgetitem':
        k = key_obj(c['key'])
        return attempt(lambda: [_try(lambda: _view(s[k])), s.bin == c['bits']])
    if op == 'kslice':
        key = slice(*[key_obj(k) for k in c['k']])
        def sl():
            r = s[key]
            return [r.bin, type(r).__name__, getattr(r, 'pos', None)]
        return attempt(lambda: [_try(sl), s.bin == c['bits']])
    if op == 'kmul':
        form = c['form']
        if form == 'imul' and c['cls'] not in MUTABLE: return ('ok', [['ok', ['skip']], True])
        n = key_obj(c['n'])
        def mul():
            if form == 'imul':
                t = s; t *= n; r = t
            else:
                r = s * n if form == 'mul' else n * s
            return [r.bin, type(r).__name__]
        return attempt(lambda: [_try(mul), form == 'imul' or s.bin == c['bits']])
    if op == 'ksetitem':
        k = key_obj(c['key']); x = _bit_value(c['val'], c['bit'])
        def st(): s[k] = x
        return attempt(lambda: [_try(st), s.bin])
    if op == 'kdelitem':
        k = key_obj(c['key'])
        def dl(): del s[k]
        return attempt(lambda: [_try(dl), s.bin])
    raise AssertionError(op)

def oracle_key(c, obs):
    """the same operation with the plain int of the same value on the str / list of the bits (under lsb0: of the bits counted from the other end)"""
    op, bits, cls, lsb0 = c['op'], c['bits'], c['cls'], bool(c.get('lsb0'))
    seq = bits[::-1] if lsb0 else bits
    back = (lambda x: x[::-1]) if lsb0 else (lambda x: x)
    who = f"{'lsb0 ' if lsb0 else ''}{cls}({bits[:40]!r}{'...' if len(bits) > 40 else ''} of {len(bits)} bits via {c['route']})"
    if obs[0] != 'ok' or not isinstance(obs[1], (list, tuple)) or len(obs[1]) != 2: return f"{who}: {op} could not be observed: {str(obs)[:200]}"
    inner, rest = obs[1]
    inner = [inner[0], inner[1]]
    if isinstance(inner[1], tuple): inner[1] = list(inner[1])
    show = lambda x: str(x)[:160]
    if op == 'kgetitem':
        i = key_val(c['key'])
        try: exp = ['ok', ['bool', seq[i] == '1']]
        except IndexError: exp = ['err', 'IndexError']
        if inner != exp: return f"{who}[{key_txt(c['key'])}] gave {show(inner)}; the sequence of bits gives {exp} (as for the plain int of that value)"
        if rest is not True: return f"{who}[{key_txt(c['key'])}] changed its operand"
        return None
    if op == 'kslice':
        a, b, st = [key_val(k) for k in c['k']]
        try: exp = ['ok', back(seq[a:b:st])]
        except ValueError: exp = ['err', 'ValueError']
        txt = f"{who}[{_slice_txt(c['k'])}]"
        if exp[0] == 'err':
            if inner != exp: return f"{txt} should raise ValueError (step 0), got {show(inner)}"
        elif inner[0] != 'ok' or inner[1][0] != exp[1] or inner[1][1] != cls or inner[1][2] not in (None, 0):
            got = inner if inner[0] != 'ok' else [f"{len(inner[1][0])} bits {inner[1][0][:64]!r}", inner[1][1], inner[1][2]]
            return f"{txt} gave {show(got)}; the sequence of bits gives {len(exp[1])} bits {exp[1][:64]!r} of class {cls} (as for plain ints of those values)"
        if rest is not True: return f"{txt} changed its operand"
        return None
    if op == 'kmul':
        if inner == ['ok', ['skip']]: return None
        n = key_val(c['n']); form = c['form']
        txt = f"{key_txt(c['n'])} * {who}" if form == 'rmul' else f"{who} {'*=' if form == 'imul' else '*'} {key_txt(c['n'])}"
        if n < 0:
            if inner != ['err', 'ValueError']: return f"{txt}: a negative count should raise ValueError, got {show(inner)}"
        elif 'big' in c['n']:
            if bits: return None                              # (not generated: nothing is stated about a product that cannot be held)
            if inner != ['ok', ['', cls]] and inner != ['err', 'OverflowError']:
                return f"{txt}: the empty sequence repeated any number of times is empty (str raises OverflowError for a count beyond the machine word), got {show(inner)}"
        elif inner != ['ok', [bits * n, cls]]:
            got = inner if inner[0] != 'ok' else [f"{len(inner[1][0])} bits", inner[1][1]]
            return f"{txt} gave {show(got)}, expected {len(bits) * n} bits ({(bits * n)[:64]!r}) of class {cls} (as for the plain int of that value)"
        if rest is not True: return f"{txt} changed its operand"
        return None
    if op in ('ksetitem', 'kdelitem'):
        i = key_val(c['key'])
        txt = f"{who}[{key_txt(c['key'])}] = {c['val']}({c['bit']})" if op == 'ksetitem' else f"del {who}[{key_txt(c['key'])}]"
        if cls not in MUTABLE:
            # the immutable sequence of the bits (a tuple) refuses with TypeError - except that CPython converts an index beyond the machine word first (IndexError)
            tup = tuple(seq)
            try:
                if op == 'ksetitem': tup[i] = str(c['bit'])
                else: del tup[i]
                ref = None
            except (TypeError, IndexError) as e: ref = type(e).__name__
            if inner not in (['err', 'TypeError'], ['err', ref]) or rest != bits:
                return f"{txt} on an immutable class should raise TypeError and change nothing, got {show(inner)}, bits afterwards {show(rest)}"
            return None
        l = list(seq)
        try:
            if op == 'ksetitem': l[i] = str(c['bit'])
            else: del l[i]
            exp, after = ['ok', None], back(''.join(l))
        except IndexError:
            exp, after = ['err', 'IndexError'], bits
        if inner != exp: return f"{txt} gave {show(inner)}; the list of bits gives {exp} (as for the plain int of that value)"
        if rest != after:
            d = next((j for j, (x, y) in enumerate(zip(rest, after)) if x != y), min(len(rest), len(after)))
            return f"{txt} left {len(rest)} bits, the list of bits has {len(after)}; first difference at bit {d}: {rest[d:d + 24]!r} instead of {after[d:d + 24]!r}"
        return None
    raise AssertionError(op)

def plain_case(c):
    """the case of the older kind that says the same with plain ints (None when the model has nothing to say: huge numbers, very long data, assignment / deletion)"""
    op = c['op']
    keys = [c['key']] if op == 'kgetitem' else c['k'] if op == 'kslice' else [c['n']] if op == 'kmul' else None
    if keys is None or any(k is not None and 'big' in k for k in keys) or len(c['bits']) > 5000: return None
    base = {'cls': c['cls'], 'bits': c['bits'], 'route': c['route'], 'lsb0': bool(c.get('lsb0'))}
    if op == 'kgetitem': return dict(base, op='getitem', i=key_val(c['key']))
    if op == 'kslice': return dict(base, op='slice', k=[key_val(k) for k in c['k']])
    if c.get('lsb0'): return None                      # (bs_mul is rendered for msb0 only, as for the plain counts)
    return dict(base, op=c['form'], n=key_val(c['n']))

def coq_key(c, obs):
    p = plain_case(c)
    if p is None: return None
    if obs[0] != 'ok': return 'false'
    inner = obs[1][0]
    if inner[0] != 'ok': o = ('err', inner[1])
    elif p['op'] == 'getitem':
        if inner[1][0] != 'bool': return 'false'       # not a bool at all: nothing the model can give
        o = ('ok', inner[1][1])
    else: o = ('ok', list(inner[1]))
    return coq_check(p, o)

def run_impl(c):
    import bitstring
    op = c['op']
    if op == 'hist': return run_hist(c)
    if op == 'l0_slice':
        a, b, s = c['k']
        return attempt(lambda: ''.join(list(c['bits'])[slice(a, b, s)]))
    if op in KEY_OPS: return run_key(c)
    s = build(c['cls'], c['bits'], c['route'], c.get('pos'))
    if c.get('lsb0'): bitstring.options.lsb0 = True          # the object is built under msb0; only the indexing runs under lsb0 (reset by the driver)
    if op == 'slice':
        a, b, st = c['k']
        def f():
            r = s[a:b:st]
            return [r.bin, type(r).__name__, getattr(r, 'pos', None)]
        return attempt(f)
    if op == 'getitem':
        return attempt(lambda: s[c['i']])
    if op == 'seq':
        return attempt(lambda: [len(s), bool(s), ''.join('1' if x else '0' for x in s), all(isinstance(x, bool) for x in s)])
    if op in ('add', 'radd'):
        other = build(c['other'], c['bits2'], 'bin') if c['other'] in CLASSES else promotable(c['bits2'], c['other'])
        def f():
            r = (s + other) if op == 'add' else (other + s)
            return [r.bin, type(r).__name__, getattr(r, 'pos', None), s.bin, getattr(s, 'pos', None)]
        return attempt(f)
    if op in ('mul', 'rmul', 'imul'):
        def f():
            cnt = c['n']
            if c.get('ntype'):
                from props import c16
                cnt = c16.as_count(c['n'], c['ntype'])
            if op == 'imul':
                if c['cls'] not in MUTABLE: return ['skip']
                t = s; t *= cnt; r = t
            else:
                r = s * cnt if op == 'mul' else cnt * s
            return [r.bin, type(r).__name__]
        return attempt(f)
    raise AssertionError(op)

def oracle(c, obs):
    op = c['op']
    if op == 'hist': return oracle_hist(c, obs)
    if op in KEY_OPS: return oracle_key(c, obs)
    bits = c['bits']
    if op == 'l0_slice': return None
    if c.get('lsb0'):
        # under lsb0 the object is the sequence of its bits counted from the other end
        rb = bits[::-1]
        if op == 'slice':
            a, b, st = c['k']
            try: exp = ('ok', rb[a:b:st][::-1])
            except ValueError: exp = ('err', 'ValueError')
            if exp[0] == 'err': return None if obs == exp else f"lsb0 {c['cls']}({bits!r})[{a}:{b}:{st}] should raise ValueError, got {obs}"
            if obs[0] != 'ok' or obs[1][0] != exp[1] or obs[1][1] != c['cls']: return f"lsb0 {c['cls']}({bits!r})[{a}:{b}:{st}] gave {obs}, the reversed-sequence model gives {exp[1]!r}"
            return None
        if op == 'getitem':
            i = c['i']
            exp = ('ok', rb[i] == '1') if -len(bits) <= i < len(bits) else ('err', 'IndexError')
            return None if obs == exp else f"lsb0 {c['cls']}({bits!r})[{i}] gave {obs}, expected {exp}"
    if op == 'slice':
        a, b, st = c['k']
        try: exp = ('ok', bits[a:b:st])
        except ValueError: exp = ('err', 'ValueError')
        if exp[0] == 'err':
            return None if obs == exp else f"{c['cls']}({bits!r})[{a}:{b}:{st}] should raise ValueError, got {obs}"
        if obs[0] != 'ok' or obs[1][0] != exp[1] or obs[1][1] != c['cls'] or obs[1][2] not in (None, 0):
            return f"{c['cls']}({bits!r}) via {c['route']} [{a}:{b}:{st}] gave {obs}, str model gives {exp[1]!r} of class {c['cls']}"
        return None
    if op == 'getitem':
        i = c['i']
        exp = ('ok', bits[i] == '1') if -len(bits) <= i < len(bits) else ('err', 'IndexError')
        return None if obs == exp else f"{c['cls']}({bits!r})[{i}] gave {obs}, expected {exp}"
    if op == 'seq':
        exp = ('ok', [len(bits), len(bits) != 0, bits[::-1] if c.get('lsb0') else bits, True])
        return None if obs == exp else f"len/bool/iter of {c['cls']}({bits!r}) via {c['route']} gave {obs}, expected {exp}"
    if op in ('add', 'radd'):
        res = bits + c['bits2'] if op == 'add' else c['bits2'] + bits
        rc = c['cls']  # left operand when it is a bitstring, else the bitstring operand
        if obs[0] != 'ok': return f"{op} {c['cls']}({len(bits)} bits) with {c['other']}({len(c['bits2'])} bits) raised {obs}"
        r = obs[1]
        if r[0] != res or r[1] != rc or r[2] not in (None, 0) or r[3] != bits:
            return f"{op} {c['cls']}({bits!r}) {c['other']}({c['bits2']!r}) gave content-ok={r[0] == res} class={r[1]} pos={r[2]} operand-unchanged={r[3] == bits}; expected class {rc}, pos 0"
        return None
    if op in ('mul', 'rmul', 'imul'):
        if obs == ('ok', ['skip']): return None
        if c['n'] < 0:
            return None if obs == ('err', 'ValueError') else f"{c['cls']} * {c['n']} should raise ValueError, got {obs}"
        exp = ('ok', [bits * c['n'], c['cls']])
        return None if obs == exp else f"{op} {c['cls']}({bits!r}) * {c['n']} gave {str(obs)[:200]}, expected {len(bits) * c['n']} bits of class {c['cls']}"

def _base_obs(obs):
    b = obs[1][0]
    return tuple(b) if isinstance(b, list) else b

def nontrivial(c, obs):
    if c['op'] == 'hist': return obs[0] == 'ok' and nontrivial(c['base'], _base_obs(obs))
    return len(c['bits']) > 0 and obs[0] == 'ok'

def classify(c, obs):
    return None

def coq_check(c, obs):
    op = c['op']
    if op == 'hist':           # the model knows no history: the case inside is evaluated as it is
        return coq_check(c['base'], _base_obs(obs)) if obs[0] == 'ok' else None
    if op in KEY_OPS: return coq_key(c, obs)
    if op == 'l0_slice':
        return f"rbits_eqb (seq_slice false {cbits(c['bits'])} {cslice(*c['k'])}) {cres(obs, cbits)}"
    if op == 'slice':
        if len(c['bits']) > 20000: return None
        o = ('ok', obs[1][0]) if obs[0] == 'ok' else obs
        return f"rbits_eqb (bs_getitem_slice {cbool(bool(c.get('lsb0')))} {cbits(c['bits'])} {cslice(*c['k'])}) {cres(o, cbits)}"
    if op == 'getitem':
        return f"rbool_eqb (bs_getitem_int {cbool(bool(c.get('lsb0')))} {cbits(c['bits'])} {cz(c['i'])}) {cres(obs, cbool)}"
    if op == 'seq':
        if obs[0] != 'ok': return 'false'
        if len(c['bits']) > 4000: return None          # very long data: implementation against the sequence oracle only (the model's iteration is quadratic)
        l, t, it, _ = obs[1]
        return (f"(bs_len {cbits(c['bits'])} =? {l}) && Bool.eqb (bs_bool {cbits(c['bits'])}) {cbool(t)} && "
                f"rbits_eqb (bs_iter {cbool(bool(c.get('lsb0')))} {cbits(c['bits'])}) (Ok {cbits(it)})")
    if op in ('add', 'radd'):
        if obs[0] != 'ok': return 'false'
        r = obs[1]
        if op == 'add':
            other = f"(Some {COQ_CLS[c['other']]})" if c['other'] in CLASSES else 'None'
            return (f"bits_eqb (bs_add {cbits(c['bits'])} {cbits(c['bits2'])}) {cbits(r[0])} && "
                    f"cls_eqb (bs_add_class {COQ_CLS[c['cls']]} {other} {len(c['bits'])} {len(c['bits2'])}) {COQ_CLS[r[1]]}")
        return f"bits_eqb (bs_radd {cbits(c['bits'])} {cbits(c['bits2'])}) {cbits(r[0])}"
    if op in ('mul', 'rmul', 'imul'):
        if obs == ('ok', ['skip']): return None
        if len(c['bits']) * max(c['n'], 0) > 20000: return None
        o = ('ok', obs[1][0]) if obs[0] == 'ok' else obs
        return f"rbits_eqb (bs_mul false {cbits(c['bits'])} {cz(c['n'])}) {cres(o, cbits)}"

def coq_model_term(c):
    if c['op'] == 'hist': return coq_model_term(c['base'])
    op = c['op']
    if op in KEY_OPS:
        p = plain_case(c)
        return coq_model_term(p) if p else 'tt'
    if op == 'slice': return f"bs_getitem_slice false {cbits(c['bits'])} {cslice(*c['k'])}"
    if op == 'getitem': return f"bs_getitem_int false {cbits(c['bits'])} {cz(c['i'])}"
    if op in ('mul', 'rmul', 'imul'): return f"bs_mul false {cbits(c['bits'])} {cz(c['n'])}"
    if op == 'add': return f"bs_add {cbits(c['bits'])} {cbits(c['bits2'])}"
    return 'tt'

def search(seeds, rng):
    allc = list(gen_cases(rng, 'thorough'))
    pool = list(seeds) + allc[:40000] + [c for c in allc[40000:] if c['op'] in KEY_OPS][:20000]
    for c in pool:
        try: obs = run_impl(c)
        finally: reset_options()
        msg = oracle(c, obs)
        if msg: return c, obs, msg
    return None
